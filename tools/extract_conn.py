"""Extractor part for the connection model (C03 / C07): the guards, statement orders and `Updated(idle=...)` call
sites that `lean/HC/Conn/Server.lean` takes as parameters, regenerated from the AST of the current source.
Writes HC/Extracted/ConnGuards.lean.  Used by tools/extract.py (`run(src, ex)`, `ex` = that module's helpers)."""
from __future__ import annotations

import ast
from pathlib import Path
from typing import Any, List, Optional


def _first_real(body: List[ast.stmt]) -> Optional[ast.stmt]:
    for st in body:
        if isinstance(st, ast.Expr) and isinstance(st.value, ast.Constant):
            continue
        return st
    return None


def _is_closed_return(st: Optional[ast.stmt]) -> bool:
    """`if self.closed: return` (possibly with elif branches)"""
    return (isinstance(st, ast.If) and ast.unparse(st.test) == "self.closed" and len(st.body) >= 1
            and isinstance(_first_real(st.body), ast.Return))


def _branch(fn: ast.AST, needle: str) -> Optional[ast.If]:
    """the `if/elif isinstance(event, <needle>)` branch of a handler"""
    for n in ast.walk(fn):
        if isinstance(n, ast.If) and "isinstance(event" in ast.unparse(n.test) and needle in ast.unparse(n.test):
            return n
    return None


def _bool(b: bool) -> str:
    return "true" if b else "false"


def _under_not_closed(fn: ast.AST, call_needle: str) -> Optional[bool]:
    """every call whose text contains `call_needle` inside `fn` sits in the body of an `if not self.closed:`"""
    found = False
    ok = True

    def walk(node: ast.AST, guarded: bool) -> None:
        nonlocal found, ok
        for ch in ast.iter_child_nodes(node):
            g = guarded
            if isinstance(node, ast.If) and ast.unparse(node.test) == "not self.closed" and ch in node.body:
                g = True
            if isinstance(ch, ast.Call) and call_needle in ast.unparse(ch.func):
                found = True
                ok = ok and g
            walk(ch, g)

    walk(fn, False)
    return ok if found else None


def _seconds_ms(v: Any) -> Optional[int]:
    """a numeric literal (seconds) as whole milliseconds"""
    if isinstance(v, bool) or not isinstance(v, (int, float)):
        return None
    ms = v * 1000
    return int(round(ms)) if ms >= 0 and abs(ms - round(ms)) < 1e-9 else None


def _is_never(e: ast.AST) -> bool:
    """`None` / `inf` / `math.inf` / `float("inf")`: no timeout"""
    t = ast.unparse(e)
    return (isinstance(e, ast.Constant) and e.value is None) or t in ("inf", "math.inf", "float('inf')", 'float("inf")')


def _wait_nat(e: ast.AST) -> Optional[str]:
    """a finite timeout expression over `self.config.keep_alive_timeout` as a Lean `Nat` term in milliseconds (`T`)"""
    if ast.unparse(e) == "self.config.keep_alive_timeout":
        return "T"
    if isinstance(e, ast.Constant):
        ms = _seconds_ms(e.value)
        return None if ms is None else str(ms)
    if isinstance(e, ast.BinOp) and isinstance(e.op, ast.Add):
        a, b = _wait_nat(e.left), _wait_nat(e.right)
        return None if a is None or b is None else f"({a} + {b})"
    if isinstance(e, ast.BinOp) and isinstance(e.op, ast.Mult):
        # a whole factor (a plain number, not seconds) times a duration
        for k, d in ((e.left, e.right), (e.right, e.left)):
            if isinstance(k, ast.Constant) and isinstance(k.value, int) and not isinstance(k.value, bool) and k.value >= 0:
                dd = _wait_nat(d)
                if dd is not None:
                    return f"({k.value} * {dd})"
        return None
    if isinstance(e, ast.Call) and ast.unparse(e.func) in ("max", "min") and len(e.args) == 2 and not e.keywords:
        a, b = _wait_nat(e.args[0]), _wait_nat(e.args[1])
        return None if a is None or b is None else f"(Nat.{ast.unparse(e.func)} {a} {b})"
    return None


def _wait_opt(e: ast.AST) -> Optional[str]:
    """the timeout handed to `asyncio.wait_for` / `trio.move_on_after` as a Lean `Option Nat` term (`none` = waits for ever)"""
    if _is_never(e):
        return "none"
    if isinstance(e, ast.BoolOp) and isinstance(e.op, ast.Or) and len(e.values) == 2:
        # Python's `a or b`: a falsy `a` (a timeout of 0) gives `b`
        a, b = _wait_nat(e.values[0]), _wait_opt(e.values[1])
        return None if a is None or b is None else f"(if {a} = 0 then {b} else some {a})"
    a = _wait_nat(e)
    return None if a is None else f"some {a}"


def _idle_wait_expr(fn: ast.AST, worker: str) -> Optional[ast.AST]:
    """the expression that limits the idle task's `await self.context.terminated.wait()`"""
    found: List[ast.AST] = []
    for n in ast.walk(fn):
        if worker == "asyncio" and isinstance(n, ast.Call) and ast.unparse(n.func) in ("asyncio.wait_for", "wait_for"):
            if n.args and "terminated.wait()" in ast.unparse(n.args[0]):
                t = n.args[1] if len(n.args) > 1 else next((k.value for k in n.keywords if k.arg == "timeout"), None)
                if t is not None:
                    found.append(t)
        if worker == "trio" and isinstance(n, (ast.With, ast.AsyncWith)) and "terminated.wait()" in ast.unparse(n):
            for item in n.items:
                c = item.context_expr
                if isinstance(c, ast.Call) and ast.unparse(c.func) in ("trio.move_on_after", "move_on_after", "trio.fail_after", "fail_after") and len(c.args) == 1:
                    found.append(c.args[0])
    # exactly one wait on `terminated` and it is the limited one
    waits = [n for n in ast.walk(fn) if isinstance(n, ast.Call) and ast.unparse(n.func).endswith("terminated.wait")]
    return found[0] if len(found) == 1 and len(waits) == 1 else None


def run(src: Path, ex: Any) -> str:
    fail, find_def, parse, q = ex.fail, ex.find_def, ex.parse, ex.q
    out = ["/- GENERATED by tools/extract_conn.py — guards / statement orders / Updated call sites used by HC.Conn.Server — do not edit -/",
           "namespace HC.Extracted.ConnGuards"]

    def emit(name: str, val: Optional[bool], what: str) -> None:
        if val is None:
            fail(name, f"shape not recognised: {what}")
            val = False
        out.append(f"def {name} : Bool := {_bool(val)}   -- {what}")

    http = parse(src / "protocol/http_stream.py")
    ws = parse(src / "protocol/ws_stream.py")
    h11 = parse(src / "protocol/h11.py")
    h2 = parse(src / "protocol/h2.py")

    for tag, tree, cls in (("http", http, "HTTPStream"), ("ws", ws, "WSStream")):
        fn = find_def(tree, cls, "handle")
        if fn is None:
            fail(f"{tag}Handle", "handle() not found")
            continue
        emit(f"{tag}HandleClosedGuard", _is_closed_return(_first_real(fn.body)), f"`if self.closed: return` is the first statement of {cls}.handle")
        br = _branch(fn, "StreamClosed")
        if br is None:
            fail(f"{tag}ClosedBeforePut", "StreamClosed branch not found")
            continue
        first = _first_real(br.body)
        sets_first = isinstance(first, ast.Assign) and ast.unparse(first) == "self.closed = True"
        awaits = [n for st in br.body[1:] for n in ast.walk(st) if isinstance(n, ast.Await) and "app_put" in ast.unparse(n)]
        emit(f"{tag}ClosedBeforePut", sets_first and len(awaits) == 1,
             f"{cls}.handle(StreamClosed): `self.closed = True` first, then exactly one `await self.app_put(...)`")
        msg = [ast.unparse(n.value.args[0]) for n in awaits if isinstance(n.value, ast.Call) and n.value.args]
        emit(f"{tag}PutIsDisconnect", len(msg) == 1 and ".disconnect" in msg[0], f"the message put there is the disconnect ({msg})")
    # HTTP: StreamClosed logs unless the ASGI state is CLOSED
    fn = find_def(http, "HTTPStream", "handle")
    br = _branch(fn, "StreamClosed") if fn is not None else None
    logs = None
    if br is not None:
        for st in br.body:
            if isinstance(st, ast.If) and "log.access" in ast.unparse(st):
                logs = ast.unparse(st.test) == "self.state != ASGIHTTPState.CLOSED"
    emit("httpStreamClosedLogsUnlessEnded", logs, "`if self.state != ASGIHTTPState.CLOSED: await ...log.access(...)` in HTTPStream.handle(StreamClosed)")
    for name in ("_send_closed", "_send_error_response"):
        fn = find_def(http, "HTTPStream", name)
        emit("httpLogGuarded" + ("Closed" if name == "_send_closed" else "Error"),
             None if fn is None else _under_not_closed(fn, "log.access"), f"`log.access` in HTTPStream.{name} runs under `if not self.closed`")
        if fn is not None:
            # the state is CLOSED before the log call
            order = [ast.unparse(st) for st in fn.body]
            i_state = next((i for i, t in enumerate(order) if t == "self.state = ASGIHTTPState.CLOSED"), None)
            i_log = next((i for i, t in enumerate(order) if "log.access" in t), None)
            emit("httpStateClosedBeforeLog" + ("Closed" if name == "_send_closed" else "Error"),
                 None if i_state is None or i_log is None else i_state < i_log, f"`self.state = CLOSED` precedes the access record in {name}")
    # every send of the response precedes `self.state = CLOSED` (a close during one of them must still find the request unlogged)
    for name, tag in (("_send_closed", "Closed"), ("_send_error_response", "Error")):
        fn = find_def(http, "HTTPStream", name)
        v = None
        if fn is not None:
            order = [ast.unparse(st) for st in fn.body]
            i_state = next((i for i, t in enumerate(order) if t == "self.state = ASGIHTTPState.CLOSED"), None)
            sends = [i for i, t in enumerate(order) if t.startswith("await self.send(") and "StreamClosed" not in t]
            if i_state is not None and sends:
                v = max(sends) < i_state
        emit("httpSendsBeforeStateClosed" + tag, v, f"in HTTPStream.{name} every `await self.send(<response event>)` precedes `self.state = CLOSED`")
    # app_send guards
    fn = find_def(ws, "WSStream", "app_send")
    emit("wsSendClosedGuard", None if fn is None else _is_closed_return(_first_real(fn.body)), "`if self.closed: return` is the first statement of WSStream.app_send")
    fn = find_def(http, "HTTPStream", "app_send")
    g = None
    if fn is not None:
        first = _first_real(fn.body)
        if isinstance(first, ast.If) and ast.unparse(first.test) == "message is None":
            inner = _first_real(first.body)
            g = isinstance(inner, ast.If) and ast.unparse(inner.test) == "not self.closed" and len(first.body) == 1
    emit("httpExitClosedGuard", g, "`if message is None: if not self.closed: ...` (nothing else) in HTTPStream.app_send")
    # idle properties
    fn = find_def(http, "HTTPStream", "idle")
    v = None
    if fn is not None:
        r = _first_real(fn.body)
        if isinstance(r, ast.Return) and isinstance(r.value, ast.Constant) and isinstance(r.value.value, bool):
            v = r.value.value
    if v is None:
        fail("httpStreamIdle", "HTTPStream.idle is not `return <bool literal>`")
        v = True
    out.append(f"def httpStreamIdle : Bool := {_bool(v)}   -- HTTPStream.idle")
    fn = find_def(ws, "WSStream", "idle")
    states: Optional[List[str]] = None
    if fn is not None:
        r = _first_real(fn.body)
        if (isinstance(r, ast.Return) and isinstance(r.value, ast.Compare) and len(r.value.ops) == 1 and isinstance(r.value.ops[0], ast.In)
                and ast.unparse(r.value.left) == "self.state" and isinstance(r.value.comparators[0], ast.Set)):
            states = [ast.unparse(e).split(".")[-1] for e in r.value.comparators[0].elts]
    if states is None:
        fail("wsIdleStates", "WSStream.idle is not `return self.state in {...}`")
        states = ["HANDSHAKE", "CONNECTED", "RESPONSE", "CLOSED", "HTTPCLOSED"]
    out.append("def wsIdleStates : List String := [" + ", ".join(q(s) for s in sorted(states)) + "]   -- WSStream.idle")
    # H11Protocol: handle(Closed) and the PAUSED branch
    fn = find_def(h11, "H11Protocol", "handle")
    br = _branch(fn, "Closed") if fn is not None else None
    if br is None:
        fail("h11Closed", "handle(Closed) branch not found")
    else:
        stmts = [ast.unparse(st) for st in br.body]
        emit("h11ClosedSetsFlag", bool(stmts) and stmts[0] == "self.closed = True", "`self.closed = True` first in H11Protocol.handle(Closed)")
        emit("h11ClosedClosesStream", any("_close_stream" in s for s in stmts), "… closes the current stream")
        emit("h11ClosedReleasesReader", bool(stmts) and stmts[-1] == "await self.can_read.set()", "… and ends with `await self.can_read.set()`")
    fn = find_def(h11, "H11Protocol", "_handle_events")
    pb = None
    if fn is not None:
        for n in ast.walk(fn):
            if isinstance(n, ast.If) and ast.unparse(n.test) == "event is h11.PAUSED":
                first = _first_real(n.body)
                pb = isinstance(first, ast.If) and ast.unparse(first.test) == "self.closed" and isinstance(_first_real(first.body), ast.Break)
    emit("pausedBreaksWhenClosed", pb, "`if self.closed: break` first in the PAUSED branch of _handle_events")
    fn = find_def(h11, "H11Protocol", "_close_stream")
    o = None
    if fn is not None:
        text = [ast.unparse(st) for st in ast.walk(fn) if isinstance(st, (ast.Expr, ast.Assign))]
        o = any("stream.handle(StreamClosed" in t for t in text) and any(t == "self.stream = None" for t in text)
    emit("h11CloseStreamForgets", o, "H11Protocol._close_stream tells the stream and sets `self.stream = None`")
    fn = find_def(h2, "H2Protocol", "_close_stream")
    o = None
    if fn is not None:
        src_txt = ast.unparse(fn)
        o = "self.streams.pop(stream_id)" in src_txt and src_txt.index("self.streams.pop(stream_id)") < src_txt.index("StreamClosed")
    emit("h2CloseStreamPopsFirst", o, "H2Protocol._close_stream pops the stream before telling it")

    # H2Protocol.stream_send(StreamClosed): a stream that is no longer registered changes nothing (no Updated, no timer restart)
    fn = find_def(h2, "H2Protocol", "stream_send")
    g = None
    if fn is not None:
        for n in ast.walk(fn):
            if isinstance(n, ast.If) and ast.unparse(n.test) == "isinstance(event, StreamClosed)":
                first = _first_real(n.body)
                g = (isinstance(first, ast.If) and ast.unparse(first.test) == "event.stream_id not in self.streams"
                     and isinstance(_first_real(first.body), ast.Return))
    emit("h2StreamClosedIgnoresUnknown", g, "`if event.stream_id not in self.streams: return` first in H2Protocol.stream_send(StreamClosed)")
    # … and for a registered stream the branch ends by telling the server whether the connection is idle now, whatever happened
    # before: `if not self.closed: await self.send(Updated(idle=idle))` is a statement of the branch's own block (an `if` of its
    # own without `else`, not the `elif` / `else` of the shutdown GOAWAY before it), it follows `_close_stream`, nothing between
    # the two leaves the branch, and it is the only Updated of the branch.  (The timer was stopped when the request arrived:
    # without this Updated nothing restarts it, and during shutdown nothing would close the connection.)
    v = None
    if fn is not None:
        for n in ast.walk(fn):
            if isinstance(n, ast.If) and ast.unparse(n.test) == "isinstance(event, StreamClosed)":
                body = n.body
                i_close = next((k for k, st in enumerate(body) if "self._close_stream(" in ast.unparse(st)), None)
                i_upd = [k for k, st in enumerate(body)
                         if isinstance(st, ast.If) and ast.unparse(st.test) == "not self.closed" and not st.orelse
                         and [ast.unparse(b) for b in st.body if not (isinstance(b, ast.Expr) and isinstance(b.value, ast.Constant))] == ["await self.send(Updated(idle=idle))"]]
                n_upd = sum(1 for st in body for c in ast.walk(st) if isinstance(c, ast.Call) and ast.unparse(c.func) == "Updated")
                if i_close is not None:
                    v = (len(i_upd) == 1 and n_upd == 1 and i_close < i_upd[0]
                         and not any(isinstance(x, (ast.Return, ast.Raise, ast.Break, ast.Continue)) for st in body[i_close + 1:i_upd[0]] for x in ast.walk(st)))
    emit("h2StreamClosedAlwaysUpdates", v, "H2Protocol.stream_send(StreamClosed): after `_close_stream`, `if not self.closed: await self.send(Updated(idle=idle))` is an unconditional statement of the branch (not an elif / else of the shutdown GOAWAY)")
    # … and the `idle` it reports (and on which the shutdown GOAWAY + close is decided) counts a stream that still has a send buffer
    # as busy: a WebSocket over HTTP/2 whose application has closed it says `idle` while its close frame and END_STREAM may still
    # be waiting for the send task or for flow-control credit (closing the connection then loses them)
    v = None
    if fn is not None:
        for n in ast.walk(fn):
            if isinstance(n, ast.If) and ast.unparse(n.test) == "isinstance(event, StreamClosed)":
                idles = [st for st in n.body if isinstance(st, ast.Assign) and ast.unparse(st.targets[0]) == "idle"]
                if len(idles) == 1:
                    e = idles[0].value
                    txt = ast.unparse(e)
                    if isinstance(e, ast.Call) and ast.unparse(e.func) == "all" and len(e.args) == 1 and isinstance(e.args[0], ast.GeneratorExp):
                        elt = e.args[0].elt
                        conj = [ast.unparse(c) for c in (elt.values if isinstance(elt, ast.BoolOp) and isinstance(elt.op, ast.And) else [elt])]
                        it = ast.unparse(e.args[0].generators[0].iter) if len(e.args[0].generators) == 1 else ""
                        if it in ("self.streams.items()", "self.streams.values()") and "stream.idle" in conj:
                            v = any(c.endswith(" not in self.stream_buffers") for c in conj)
                    elif txt == "len(self.streams) == 0 or all((stream.idle for stream in self.streams.values()))":
                        v = False
    emit("h2IdleCountsBuffered", v, "H2Protocol.stream_send(StreamClosed): `idle = all(stream.idle and stream_id not in self.stream_buffers for … in self.streams.items())`")
    # H2Protocol.handle(Closed): the flag and the loop over EVERY registered stream are unconditional.  Closed is reported by
    # several parties (a failed write, the reader's end, the idle timer) and `_create_stream` does not look at `self.closed`:
    # a stream opened between two reports is told by the later one only if that one is not skipped
    fn = find_def(h2, "H2Protocol", "handle")
    br = _branch(fn, "Closed") if fn is not None else None
    v = None
    if br is not None:
        stmts = br.body
        first = _first_real(stmts)
        sets_first = isinstance(first, ast.Assign) and ast.unparse(first) == "self.closed = True"
        loop_at = next((k for k, st in enumerate(stmts) if isinstance(st, (ast.For, ast.AsyncFor))
                        and any(isinstance(c, ast.Call) and ast.unparse(c.func) == "self._close_stream" for c in ast.walk(st))), None)
        iter_ok = False
        if loop_at is not None:
            it = ast.unparse(stmts[loop_at].iter)
            names = {it}
            for st in stmts[:loop_at]:      # `stream_ids = list(self.streams.keys())` before the loop
                if isinstance(st, ast.Assign) and ast.unparse(st.targets[0]) == it:
                    names.add(ast.unparse(st.value))
            iter_ok = any("self.streams" in n for n in names)
        early_exit = loop_at is None or any(isinstance(n, (ast.Return, ast.Raise, ast.If, ast.Try)) for st in stmts[:loop_at] for n in ast.walk(st))
        v = sets_first and loop_at is not None and iter_ok and not early_exit
    emit("h2ClosedTellsEveryStream", v, "H2Protocol.handle(Closed): `self.closed = True`, then `_close_stream` for every key of `self.streams`, nothing conditional before the loop")
    rel = None
    if br is not None:
        rel = any(isinstance(st, (ast.For, ast.AsyncFor)) and "self.stream_buffers" in ast.unparse(st.iter) and ".close()" in ast.unparse(st) for st in br.body)
    emit("h2ClosedReleasesBuffers", rel, "… and closes every stream buffer (senders waiting in drain() continue)")
    # ProtocolWrapper.handle, prior-knowledge HTTP/2 on a cleartext connection (H2ProtocolAssumedError): the new protocol is
    # initiated, `Updated(idle=True)` is sent (h11 reported the preface as a request, which stopped the idle timer), and only
    # then are the bytes that followed the preface line handed over - a request among them sends its own Updated(idle=False) later
    wrapper = parse(src / "protocol/__init__.py")
    fn = find_def(wrapper, "ProtocolWrapper", "handle")
    v = None
    if fn is not None:
        for n in ast.walk(fn):
            if isinstance(n, ast.ExceptHandler) and n.type is not None and "H2ProtocolAssumedError" in ast.unparse(n.type):
                txt = [ast.unparse(st) for st in n.body]
                i_init = next((k for k, t in enumerate(txt) if "self.protocol.initiate(" in t), None)
                i_upd = next((k for k, t in enumerate(txt) if t.startswith("await self.send(") and "Updated(idle=True)" in t), None)
                i_data = next((k for k, t in enumerate(txt) if "self.protocol.handle(RawData(" in t), None)
                v = i_init is not None and i_upd is not None and i_data is not None and i_init < i_upd < i_data
    emit("priorIdleBeforeData", v, "ProtocolWrapper.handle(H2ProtocolAssumedError): initiate, then `await self.send(Updated(idle=True))` (unconditional), then the bytes after the preface line")
    # Updated(idle=...) call sites
    def updated_sites(tree: ast.AST, cls: str) -> List[str]:
        sites = []
        c = find_def(tree, cls)
        for f in c.body if c is not None else []:
            if isinstance(f, (ast.AsyncFunctionDef, ast.FunctionDef)):
                for n in ast.walk(f):
                    if isinstance(n, ast.Call) and ast.unparse(n.func) == "Updated":
                        kw = {k.arg: ast.unparse(k.value) for k in n.keywords}
                        sites.append(f"{f.name}:{kw.get('idle', '?')}")
        return sorted(sites)

    # H11Protocol._maybe_recycle: within the recycle branch (`start_next_cycle()` succeeded) the idle timer is restarted whatever
    # the parser still holds: `await self.send(Updated(idle=True))` is a plain statement of that block, under no `if` / loop / `try`
    # of its own (bytes of a next request that are already buffered may be an incomplete head: nothing else would restart the timer)
    fn = find_def(h11, "H11Protocol", "_maybe_recycle")
    v = None
    if fn is not None:
        tries = [n for n in ast.walk(fn) if isinstance(n, ast.Try) and "start_next_cycle()" in ast.unparse(n.body)]
        if len(tries) == 1 and tries[0].orelse:
            blk = tries[0].orelse
            direct = [st for st in blk if ast.unparse(st) == "await self.send(Updated(idle=True))"]
            anywhere = [n for st in blk for n in ast.walk(st) if isinstance(n, ast.Call) and ast.unparse(n) == "Updated(idle=True)"]
            v = len(direct) == 1 and len(anywhere) == 1
    emit("h11RecycleIdleUnconditional", v, "H11Protocol._maybe_recycle: `await self.send(Updated(idle=True))` is an unconditional statement of the block that follows a successful start_next_cycle()")
    out.append("def h11UpdatedSites : List String := [" + ", ".join(q(s) for s in updated_sites(h11, "H11Protocol")) + "]")
    out.append("def h2UpdatedSites : List String := [" + ", ".join(q(s) for s in updated_sites(h2, "H2Protocol")) + "]")
    out.append("def wrapperUpdatedSites : List String := [" + ", ".join(q(s) for s in updated_sites(wrapper, "ProtocolWrapper")) + "]")
    # trio TCPServer._close: `send_eof()` raises BusyResourceError while another task is inside `send_all` (trio's conflict
    # detector), Broken/ClosedResourceError when the peer / the stream is gone; all are passed over and `aclose()` follows
    # unconditionally - it is `aclose()` that releases a writer blocked by a peer that does not read
    t = parse(src / "trio" / "tcp_server.py")
    cl = find_def(t, "TCPServer", "_close")
    tol: Optional[List[str]] = None
    always = None
    if cl is not None:
        for k, st in enumerate(cl.body):
            if isinstance(st, ast.Try) and "send_eof" in ast.unparse(st.body):
                names: List[str] = []
                for h in st.handlers:
                    if h.type is None:
                        names.append("*")
                    else:
                        elts = h.type.elts if isinstance(h.type, ast.Tuple) else [h.type]
                        names += [ast.unparse(e).split(".")[-1] for e in elts]
                    if any(isinstance(x, (ast.Raise, ast.Return)) for b in h.body for x in ast.walk(b)):
                        names = []
                        break
                tol = names
                after = [ast.unparse(s2) for s2 in cl.body[k + 1:]] + [ast.unparse(s2) for s2 in st.finalbody]
                always = any(a == "await self.stream.aclose()" for a in after)
    if tol is None:
        fail("trioCloseTolerates", "trio TCPServer._close: no try around send_eof()")
        tol = []
    wide = any(n in tol for n in ("*", "Exception", "BaseException"))
    for exc in ("BusyResourceError", "BrokenResourceError", "ClosedResourceError"):
        out.append(f"def trioCloseTolerates{exc[:-len('ResourceError')]} : Bool := {_bool(wide or exc in tol)}   -- trio TCPServer._close passes over {exc} from send_eof()")
    emit("trioCloseAlwaysCloses", always, "trio TCPServer._close: `await self.stream.aclose()` follows the try around send_eof() unconditionally")
    # TCPServer (both workers)
    for worker in ("asyncio", "trio"):
        t = parse(src / worker / "tcp_server.py")
        run_fn = find_def(t, "TCPServer", "run")
        txt = ast.unparse(run_fn) if run_fn is not None else ""
        i_read, i_stop = txt.find("await self._read_data()"), txt.find("await self.idle_task.stop()")
        emit(f"{worker}ReaderEndStopsIdle", None if run_fn is None else (0 <= i_read < i_stop), f"{worker} TCPServer.run: `idle_task.stop()` right after `_read_data()`")
        ps = find_def(t, "TCPServer", "protocol_send")
        echo = stop_in_close = None
        if ps is not None:
            for n in ast.walk(ps):
                if isinstance(n, ast.If) and ast.unparse(n.test) == "isinstance(event, Closed)":
                    calls = [ast.unparse(c.func) for st in n.body for c in ast.walk(st) if isinstance(c, ast.Call)]
                    echo = "self.protocol.handle" in calls
                    if "self._close" not in calls:
                        fail(f"{worker}ClosedCloses", "protocol_send(Closed) does not call self._close()")
        cl = find_def(t, "TCPServer", "_close")
        if cl is not None:
            stop_in_close = "self.idle_task.stop()" in ast.unparse(cl)
        emit(f"{worker}ClosedEchoes", echo, f"{worker} protocol_send(Closed) also calls protocol.handle(Closed())")
        emit(f"{worker}CloseStopsIdle", stop_in_close, f"{worker} TCPServer._close stops the idle task")
        isc = find_def(t, "TCPServer", "_initiate_server_close")
        it = find_def(t, "TCPServer", "_idle_timeout")
        ok = None
        if isc is not None and it is not None:
            body = [ast.unparse(st) for st in isc.body]
            ok = (len(body) == 2 and body[0] == "await self.protocol.handle(Closed())" and ("close()" in body[1])
                  and "_initiate_server_close" in ast.unparse(it) and "keep_alive_timeout" in ast.unparse(it) and "terminated.wait()" in ast.unparse(it))
        emit(f"{worker}IdleFireClosesProtocolThenTransport", ok,
             f"{worker} _idle_timeout: wait for terminated or keep_alive_timeout, then protocol.handle(Closed()) and close the transport")
        # which expression limits the idle task's wait (milliseconds; `none`: the wait is unlimited, only shutdown ends it)
        we = _idle_wait_expr(it, worker) if it is not None else None
        wl = _wait_opt(we) if we is not None else None
        if wl is None:
            fail(f"{worker}IdleWait", "_idle_timeout: the expression handed to " + ("asyncio.wait_for" if worker == "asyncio" else "trio.move_on_after")
                 + f" around terminated.wait() is not recognised ({ast.unparse(we) if we is not None else 'not found'})")
            wl = "none"
        out.append(f"def {worker}IdleWait (T : Nat) : Option Nat := {wl}   -- {worker} _idle_timeout waits for `terminated` at most `{ast.unparse(we) if we is not None else '?'}` (T = keep_alive_timeout, ms)")
        ps_txt = ast.unparse(ps) if ps is not None else ""
        emit(f"{worker}UpdatedDrivesTimer", "self.idle_task.restart" in ps_txt and "self.idle_task.stop" in ps_txt and "event.idle" in ps_txt,
             f"{worker} protocol_send(Updated): restart when idle else stop")
    out += ["end HC.Extracted.ConnGuards", ""]
    return "\n".join(out)
