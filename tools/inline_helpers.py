"""Tolerance of the translator for the most common behaviour-preserving edit: "extract a helper".

The shape readers of tools/extract*.py were written against the decomposition into methods that hypercorn has at the pinned
commit (inventory: tools/baseline_defs.json, regenerate with `python tools/inline_helpers.py --write-inventory /repo` after a
`fix:` commit that adds a method).  A method, nested function or module-level function that is NOT in that inventory is the
product of a later refactoring; when it is *simple* its calls are expanded in place before any shape reader looks at the tree,
so that

    chunk_size = self._chunk_size(stream_id)          # def _chunk_size(self, stream_id): c = min(..); return max(0, c)

reads as the statements it replaced.  Simple = the body (after a docstring) is a sequence of assignments, expression
statements, `raise` and `if`s of those, optionally ended by ONE `return <expr>`; no loops, `try`, `with`, `yield`, nested
definitions; no parameter is assigned.  Expansion is syntactic (parameters are replaced by the argument expressions, the
helper's statements are placed immediately before the statement that holds the call, the call becomes the returned
expression); it is used for READING the source only, never executed.  Anything else is left alone and the shape readers report
what they do not recognise (EXTRACT-FAIL), as before.  A helper that changes behaviour still changes what the readers see.
"""
from __future__ import annotations

import ast
import copy
import json
import sys
from pathlib import Path
from typing import Any, Dict, List, Optional, Set, Tuple

INVENTORY_FILE = Path(__file__).resolve().parent / "baseline_defs.json"
_INV: List[Optional[Dict[str, List[str]]]] = [None]
FuncDef = (ast.FunctionDef, ast.AsyncFunctionDef)


def rel_of(path: Path) -> Optional[str]:
    parts = Path(path).parts
    if "hypercorn" in parts:
        i = len(parts) - 1 - parts[::-1].index("hypercorn")
        return "/".join(parts[i + 1:])
    return None


def defs_of(tree: ast.AST) -> List[str]:
    """qualified names of every def in the module: `f`, `C.m`, `C.m.<nested>`"""
    out: List[str] = []

    def walk(node: ast.AST, prefix: str) -> None:
        for ch in ast.iter_child_nodes(node):
            if isinstance(ch, FuncDef + (ast.ClassDef,)):
                name = prefix + ch.name
                if not isinstance(ch, ast.ClassDef):
                    out.append(name)
                walk(ch, name + ".")
            else:
                walk(ch, prefix)
    walk(tree, "")
    return sorted(set(out))


def locals_of(tree: ast.AST) -> Dict[str, List[str]]:
    """qualified def name -> names bound in it (assignment targets, loop / with / except targets)"""
    out: Dict[str, List[str]] = {}

    def walk(node: ast.AST, prefix: str) -> None:
        for ch in ast.iter_child_nodes(node):
            if isinstance(ch, FuncDef + (ast.ClassDef,)):
                name = prefix + ch.name
                if not isinstance(ch, ast.ClassDef):
                    out[name] = sorted({n.id for n in ast.walk(ch) if isinstance(n, ast.Name) and isinstance(n.ctx, ast.Store)})
                walk(ch, name + ".")
            else:
                walk(ch, prefix)
    walk(tree, "")
    return out


def inventory() -> Dict[str, Any]:
    if _INV[0] is None:
        _INV[0] = json.loads(INVENTORY_FILE.read_text()) if INVENTORY_FILE.exists() else {}
    return _INV[0]  # type: ignore


# ------------------------------------------------------------------------------------------------------------------
def _body(fn: Any) -> List[ast.stmt]:
    b = list(fn.body)
    if b and isinstance(b[0], ast.Expr) and isinstance(b[0].value, ast.Constant) and isinstance(b[0].value.value, str):
        b = b[1:]
    return b


def _simple_stmts(stmts: List[ast.stmt]) -> bool:
    for st in stmts:
        if isinstance(st, (ast.Assign, ast.AugAssign, ast.AnnAssign, ast.Expr, ast.Raise, ast.Pass)):
            if any(isinstance(n, (ast.Yield, ast.YieldFrom, ast.Lambda, ast.NamedExpr)) for n in ast.walk(st)):
                return False
        elif isinstance(st, ast.If):
            if not _simple_stmts(st.body) or not _simple_stmts(st.orelse):
                return False
        else:
            return False
    return True


def simple_helper(fn: Any) -> Optional[Tuple[List[ast.stmt], Optional[ast.expr]]]:
    """(statements, returned expression or None) when the helper is simple"""
    if fn.decorator_list and [ast.unparse(d) for d in fn.decorator_list] not in (["staticmethod"], ["classmethod"]):
        return None
    if fn.args.vararg or fn.args.kwarg or fn.args.posonlyargs:
        return None
    b = _body(fn)
    ret: Optional[ast.expr] = None
    if b and isinstance(b[-1], ast.Return):
        ret = b[-1].value
        b = b[:-1]
        if ret is None:
            ret = None
    if not _simple_stmts(b):
        return None
    params = {a.arg for a in fn.args.args + fn.args.kwonlyargs}
    for st in b:
        for n in ast.walk(st):
            if isinstance(n, ast.Name) and isinstance(n.ctx, (ast.Store, ast.Del)) and n.id in params:
                return None
    return b, ret


class _Subst(ast.NodeTransformer):
    def __init__(self, env: Dict[str, ast.expr]) -> None:
        self.env = env

    def visit_Name(self, node: ast.Name) -> Any:
        if isinstance(node.ctx, ast.Load) and node.id in self.env:
            return copy.deepcopy(self.env[node.id])
        return node


def _bind(fn: Any, call: ast.Call, bound: bool) -> Optional[Dict[str, ast.expr]]:
    """parameter -> argument expression (`bound`: the first parameter is self / cls and not among the arguments)"""
    names = [a.arg for a in fn.args.args]
    if bound and names:
        names = names[1:]
    if any(isinstance(a, ast.Starred) for a in call.args) or any(k.arg is None for k in call.keywords):
        return None
    if len(call.args) > len(names):
        return None
    env: Dict[str, ast.expr] = {}
    for n, a in zip(names, call.args):
        env[n] = a
    allowed = set(names) | {a.arg for a in fn.args.kwonlyargs}
    for k in call.keywords:
        if k.arg not in allowed or k.arg in env:
            return None
        env[k.arg] = k.value  # type: ignore
    defaults = fn.args.defaults
    for n, d in zip(names[len(names) - len(defaults):], defaults):
        env.setdefault(n, d)
    for a, d in zip(fn.args.kwonlyargs, fn.args.kw_defaults):
        if d is not None:
            env.setdefault(a.arg, d)
    if set(env) != allowed:
        return None
    return env


class _Expander:
    """expands calls to `helpers` inside one function body"""

    def __init__(self, helpers: Dict[str, Tuple[Any, bool]]) -> None:
        # key: the callee as written (`self._h`, `cls._h`, `C._h`, `_h`) -> (FunctionDef, bound)
        self.helpers = helpers
        self.changed = False

    def _calls_in(self, st: ast.stmt) -> List[Tuple[ast.AST, ast.Call]]:
        """helper calls in the expression part of a statement (not inside nested blocks); (node to replace, call)"""
        exprs: List[ast.AST] = []
        if isinstance(st, (ast.Assign, ast.AugAssign, ast.AnnAssign, ast.Expr, ast.Return)):
            if getattr(st, "value", None) is not None:
                exprs.append(st.value)  # type: ignore
        elif isinstance(st, ast.If):
            exprs.append(st.test)
        elif isinstance(st, ast.Raise) and st.exc is not None:
            exprs.append(st.exc)
        found: List[Tuple[ast.AST, ast.Call]] = []
        for e in exprs:
            for n in ast.walk(e):
                target = n.value if isinstance(n, ast.Await) else n
                if isinstance(target, ast.Call) and ast.unparse(target.func) in self.helpers:
                    if isinstance(n, ast.Await) or not any(isinstance(p, ast.Await) and p.value is n for p in ast.walk(e)):
                        found.append((n, target))
        return found

    def block(self, stmts: List[ast.stmt]) -> List[ast.stmt]:
        out: List[ast.stmt] = []
        for st in stmts:
            for field in ("body", "orelse", "finalbody"):
                if isinstance(getattr(st, field, None), list) and not isinstance(st, FuncDef + (ast.ClassDef,)):
                    setattr(st, field, self.block(getattr(st, field)))
            if isinstance(st, ast.Try):
                for h in st.handlers:
                    h.body = self.block(h.body)
            pre: List[ast.stmt] = []
            replaced_whole = False
            for node, call in self._calls_in(st):
                fn, bound = self.helpers[ast.unparse(call.func)]
                sh = simple_helper(fn)
                env = _bind(fn, call, bound) if sh is not None else None
                if sh is None or env is None:
                    continue
                body, ret = sh
                if isinstance(node, ast.Await) != isinstance(fn, ast.AsyncFunctionDef):
                    continue
                # positions: everything expanded sits on the line of the statement that held the call, before that statement's own
                # nodes, in the helper's own source order (readers sort nodes by position to get evaluation order)
                first = min([getattr(n, "lineno", fn.lineno) for x in body for n in ast.walk(x)] + [getattr(ret, "lineno", fn.lineno) if ret is not None else fn.lineno])
                new_body = [_relocate(_Subst(env).visit(copy.deepcopy(x)), first, st.lineno, -1.0e6, 1.0) for x in body]
                if isinstance(st, ast.Expr) and st.value is node:
                    # a call statement: the helper's statements take its place (a returned value is dropped, as it was)
                    if ret is not None and not isinstance(ret, (ast.Constant, ast.Name)):
                        new_body.append(_relocate(ast.Expr(value=_Subst(env).visit(copy.deepcopy(ret))), first, st.lineno, -1.0e6, 1.0))
                    pre += new_body
                    replaced_whole = True
                    self.changed = True
                    break
                if ret is None:
                    continue          # a helper without a value used inside an expression: leave it
                pre += new_body
                new_expr = _relocate(_Subst(env).visit(copy.deepcopy(ret)), first, node.lineno, float(node.col_offset), 1.0e-7)  # type: ignore
                _replace(st, node, new_expr)
                self.changed = True
            out += pre
            if not replaced_whole:
                out.append(st)
        return out


def _relocate(tree: Any, first_line: int, lineno: int, col_base: float, scale: float) -> Any:
    """put every node of `tree` on line `lineno`, at columns that keep the nodes' own relative source order"""
    for n in ast.walk(tree):
        if hasattr(n, "lineno") and hasattr(n, "col_offset"):
            key = (n.lineno - first_line) * 1000 + n.col_offset
            endkey = (getattr(n, "end_lineno", n.lineno) - first_line) * 1000 + (getattr(n, "end_col_offset", None) or n.col_offset)
            n.lineno = lineno
            n.end_lineno = lineno
            n.col_offset = col_base + scale * key
            n.end_col_offset = col_base + scale * endkey
    if not hasattr(tree, "lineno") or getattr(tree, "lineno", None) is None:
        tree.lineno, tree.end_lineno, tree.col_offset, tree.end_col_offset = lineno, lineno, col_base, col_base
    return tree


def _replace(root: ast.AST, old: ast.AST, new: ast.AST) -> None:
    for parent in ast.walk(root):
        for field, value in ast.iter_fields(parent):
            if value is old:
                setattr(parent, field, new)
                return
            if isinstance(value, list):
                for i, v in enumerate(value):
                    if v is old:
                        value[i] = new
                        return


def _inline_named_conditions(fn: Any, known_locals: Set[str]) -> bool:
    """`x = <expr>` immediately followed by `if <test using x>:` where `x` is a local that did not exist at the pinned commit and is
    used nowhere else: the test reads `<expr>` again (the "name the sub-condition" refactoring)"""
    changed = False
    uses: Dict[str, int] = {}
    for n in ast.walk(fn):
        if isinstance(n, ast.Name):
            uses[n.id] = uses.get(n.id, 0) + 1

    def block(stmts: List[ast.stmt]) -> List[ast.stmt]:
        nonlocal changed
        for st in stmts:
            for field in ("body", "orelse", "finalbody"):
                if isinstance(getattr(st, field, None), list) and not isinstance(st, FuncDef + (ast.ClassDef,)):
                    setattr(st, field, block(getattr(st, field)))
            if isinstance(st, ast.Try):
                for h in st.handlers:
                    h.body = block(h.body)
        out: List[ast.stmt] = []
        i = 0
        while i < len(stmts):
            st = stmts[i]
            nxt = stmts[i + 1] if i + 1 < len(stmts) else None
            if (isinstance(st, ast.Assign) and len(st.targets) == 1 and isinstance(st.targets[0], ast.Name) and isinstance(nxt, ast.If)
                    and st.targets[0].id not in known_locals
                    and not any(isinstance(n, (ast.Await, ast.Yield, ast.YieldFrom, ast.NamedExpr)) for n in ast.walk(st.value))):
                x = st.targets[0].id
                in_test = sum(1 for n in ast.walk(nxt.test) if isinstance(n, ast.Name) and n.id == x and isinstance(n.ctx, ast.Load))
                if in_test >= 1 and uses.get(x, 0) == 1 + in_test:
                    value = st.value
                    nxt.test = _Subst({x: _relocate(copy.deepcopy(value), getattr(value, "lineno", nxt.lineno), nxt.test.lineno,
                                                    float(nxt.test.col_offset), 1.0e-7)}).visit(nxt.test)
                    changed = True
                    i += 1
                    continue
            out.append(st)
            i += 1
        return out
    fn.body = block(fn.body)
    return changed


def expand(tree: ast.Module, known: Set[str], known_locals: Optional[Dict[str, List[str]]] = None) -> ast.Module:
    """expand calls to simple helpers whose qualified name is not in `known`"""
    mod_new = {n.name: n for n in tree.body if isinstance(n, FuncDef) and n.name not in known}
    for _ in range(3):
        changed = False
        scopes: List[Tuple[Optional[ast.ClassDef], Any, str]] = []
        for n in tree.body:
            if isinstance(n, FuncDef):
                scopes.append((None, n, n.name))
            elif isinstance(n, ast.ClassDef):
                for m in n.body:
                    if isinstance(m, FuncDef):
                        scopes.append((n, m, f"{n.name}.{m.name}"))
        for cls, fn, qual in scopes:
            helpers: Dict[str, Tuple[Any, bool]] = {}
            for name, h in mod_new.items():
                if h is not fn:
                    helpers[name] = (h, False)
            if cls is not None:
                for m in cls.body:
                    if isinstance(m, FuncDef) and m is not fn and f"{cls.name}.{m.name}" not in known:
                        deco = [ast.unparse(d) for d in m.decorator_list]
                        static = deco == ["staticmethod"]
                        helpers[f"self.{m.name}"] = (m, not static)
                        helpers[f"{cls.name}.{m.name}"] = (m, deco == ["classmethod"])
                        helpers[f"cls.{m.name}"] = (m, not static)
            for st in fn.body:                       # closures defined in the function's own body
                if isinstance(st, FuncDef) and f"{qual}.{st.name}" not in known:
                    helpers[st.name] = (st, False)
            if known_locals is not None and qual in known_locals:
                changed = _inline_named_conditions(fn, set(known_locals[qual])) or changed
            if not helpers:
                continue
            ex = _Expander(helpers)
            fn.body = ex.block(fn.body)
            changed = changed or ex.changed
        if not changed:
            break
    ast.fix_missing_locations(tree)
    return tree


def parse_expanded(path: Path) -> ast.Module:
    tree = ast.parse(Path(path).read_text(), filename=str(path))
    rel = rel_of(Path(path))
    inv = inventory()
    if rel is None or rel not in inv.get("defs", {}):
        return tree
    try:
        return expand(tree, set(inv["defs"][rel]), inv.get("locals", {}).get(rel))
    except Exception:        # never let the tolerance layer break the translator: fall back to the source as written
        return ast.parse(Path(path).read_text(), filename=str(path))


if __name__ == "__main__":
    if len(sys.argv) == 3 and sys.argv[1] == "--write-inventory":
        src = Path(sys.argv[2]) / "src" / "hypercorn"
        inv: Dict[str, Any] = {"defs": {}, "locals": {}}
        for f in sorted(src.rglob("*.py")):
            t = ast.parse(f.read_text())
            inv["defs"][str(f.relative_to(src))] = defs_of(t)
            inv["locals"][str(f.relative_to(src))] = locals_of(t)
        INVENTORY_FILE.write_text(json.dumps(inv, indent=0, sort_keys=True) + "\n")
        print(f"{INVENTORY_FILE}: {sum(len(v) for v in inv['defs'].values())} defs in {len(inv['defs'])} files")
    elif len(sys.argv) == 2:
        print(ast.unparse(parse_expanded(Path(sys.argv[1]))))
    else:
        print(__doc__)
