import asyncio, hypercorn.asyncio, socket
from hypercorn.config import Config
served=[]
async def failing_lifespan(scope, receive, send):
    if scope["type"]=="lifespan":
        m = await receive()
        try:
            await send({"type":"lifespan.startup.failed","message":"nope"})
        finally:
            await asyncio.sleep(0.01)   # cleanup with an await while unwinding
    else:
        served.append(scope["path"])
        await send({"type":"http.response.start","status":200,"headers":[(b"content-length",b"0")]})
        await send({"type":"http.response.body","body":b""})
async def main():
    config = Config(); config.bind=["127.0.0.1:18231"]; config.errorlog=None
    ev = asyncio.Event()
    t = asyncio.create_task(hypercorn.asyncio.serve(failing_lifespan, config, shutdown_trigger=ev.wait))
    await asyncio.sleep(0.3)
    try:
        r,w = await asyncio.open_connection("127.0.0.1",18231)
        w.write(b"GET /x HTTP/1.1\r\nhost: a\r\nconnection: close\r\n\r\n"); await w.drain()
        print("client got", (await r.read(100))[:20])
    except Exception as e: print("connect failed", repr(e))
    ev.set()
    try:
        await t; print("serve returned normally; served", served)
    except BaseException as e: print("serve raised", repr(e), "served", served)
asyncio.run(main())
