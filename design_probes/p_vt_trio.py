import trio, trio.testing, time
from socket import AF_INET
from hypercorn.app_wrappers import ASGIWrapper
from hypercorn.trio.tcp_server import TCPServer
from hypercorn.trio.worker_context import WorkerContext
from hypercorn.config import Config
class MockSocket:
    family = AF_INET
    def getsockname(self): return ("162.1.1.1", 80)
    def getpeername(self): return ("127.0.0.1", 80)
async def ok_app(scope, receive, send):
    while True:
        m = await receive()
        if m["type"]=="http.disconnect": return
        if m["type"]=="http.request" and not m.get("more_body"):
            await trio.sleep(7)
            await send({"type":"http.response.start","status":200,"headers":[(b"content-length",b"0")]})
            await send({"type":"http.response.body","body":b""}); return
async def main():
    config = Config(); config.keep_alive_timeout = 5
    client, server = trio.testing.memory_stream_pair()
    server.socket = MockSocket()
    srv = TCPServer(ASGIWrapper(ok_app), config, WorkerContext(None), {}, server)
    t0 = trio.current_time()
    async with trio.open_nursery() as n:
        n.start_soon(srv.run)
        await trio.sleep(2)
        await client.send_all(b"GET / HTTP/1.1\r\nhost: x\r\n\r\n")
        out = b""
        while True:
            d = await client.receive_some(65536)
            if not d: break
            out += d
        print("EOF from server at virtual t =", trio.current_time()-t0, out[:15])
w0=time.time(); trio.run(main, clock=trio.testing.MockClock(autojump_threshold=0)); print("wall %.3f"%(time.time()-w0))
