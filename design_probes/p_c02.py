import h11
from twin import *
def resp_app(status, headers, chunks, trailers=None, start_extra=None):
    st = {"type":"http.response.start","status":status,"headers":headers}
    if start_extra: st.update(start_extra)
    steps=[("recv_body",), ("send", st)]
    for i,c in enumerate(chunks):
        steps.append(("send", {"type":"http.response.body","body":c,"more_body": i < len(chunks)-1}))
    if trailers is not None: steps.append(("send", {"type":"http.response.trailers","headers":trailers}))
    steps.append(("recv",))
    return steps
def h1_parse(data, method=b"GET"):
    c = h11.Connection(h11.CLIENT)
    c.send(h11.Request(method=method, target="/", headers=[("host","x")])); c.send(h11.EndOfMessage())
    c.receive_data(data); out=[]
    try:
        while True:
            e = c.next_event()
            if e is h11.NEED_DATA: out.append("NEED_DATA"); break
            if e is h11.PAUSED: out.append("PAUSED"); break
            if isinstance(e, h11.Response): out.append(("resp", e.status_code, [(n,v if n!=b"date" else b"X") for n,v in e.headers]))
            elif isinstance(e, h11.InformationalResponse): out.append(("info", e.status_code))
            elif isinstance(e, h11.Data): out.append(("data", bytes(e.data)))
            elif isinstance(e, h11.EndOfMessage): out.append("EOM")
            elif isinstance(e, h11.ConnectionClosed): out.append("CLOSED"); break
    except Exception as ex: out.append(("ERR", repr(ex)[:80]))
    return out
cases = [
 ("204 with body", b"GET", 204, [], [b"ignored"]),
 ("304 with body+cl", b"GET", 304, [(b"content-length", b"7")], [b"ignored"]),
 ("HEAD with body", b"HEAD", 200, [(b"content-length", b"4")], [b"body"]),
 ("200 chunked 3 chunks one empty", b"GET", 200, [(b"x-a", b"1"), (b"X-A", b"2")], [b"ab", b"", b"cd"]),
 ("200 cl mismatch short", b"GET", 200, [(b"content-length", b"10")], [b"abc"]),
 ("200 cl mismatch long", b"GET", 200, [(b"content-length", b"2")], [b"abc"]),
 ("101 final status?", b"GET", 101, [], [b""]),
 ("199 final", b"GET", 199, [], [b"x"]),
 ("600 status", b"GET", 600, [], [b"x"]),
 ("99 status", b"GET", 99, [], [b"x"]),
 ("header value with spaces stripped", b"GET", 200, [(b" x-sp ", b"  v  ")], [b"x"]),
 ("te chunked by app", b"GET", 200, [(b"transfer-encoding", b"chunked")], [b"x"]),
 ("connection keep-alive by app", b"GET", 200, [(b"connection", b"keep-alive"), (b"content-length", b"1")], [b"x"]),
]
for name, method, status, headers, chunks in cases:
    sc = {"apps":[resp_app(status, headers, chunks)], "client":[("send", method + b" / HTTP/1.1\r\nhost: x\r\n\r\n")], "tail": 8}
    for rn, runner in (("asyncio", run_asyncio),):
        r = runner(sc)
        data = b"".join(e[2] for e in r["out"] if e[0]=="data")
        print(f"{name:38s} sends={[s[1] for s in r['apps'][0]['send']]} exit={r['apps'][0].get('exit')} close={[e[1] for e in r['out'] if e[0]=='close'][:1]} access={r['access']} err={r['error']}")
        print("      ", h1_parse(data, method))
