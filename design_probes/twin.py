"""Run one scenario on both workers under virtual time; return normalised observations."""
import asyncio, re, sys, json
import trio, trio.testing
from socket import AF_INET
import vloop
from hypercorn.app_wrappers import ASGIWrapper
from hypercorn.config import Config

class MockSocket:
    family = AF_INET
    def getsockname(self): return ("162.1.1.1", 80)
    def getpeername(self): return ("127.0.0.1", 80)

class Log:
    def __init__(self): self.acc=[]; self.exc=0
    async def access(self, scope, resp, t): self.acc.append((scope.get("path"), None if resp is None else resp["status"]))
    async def exception(self, *a, **k): self.exc += 1
    async def warning(self,*a,**k): pass
    async def info(self,*a,**k): pass
    async def error(self,*a,**k): pass
    async def debug(self,*a,**k): pass

def mkconfig(cfg, log):
    config = Config()
    for k,v in cfg.items(): setattr(config,k,v)
    config._log = log
    return config

def make_app(script, rec, sleep):
    """script: list of steps per request index (cycled)."""
    counter = {"n":0}
    async def app(scope, receive, send):
        idx = counter["n"]; counter["n"] += 1
        me = {"scope": (scope["type"], scope.get("http_version"), scope.get("method"), scope["path"]), "recv": [], "send": []}
        rec.append(me)
        steps = script[idx % len(script)]
        try:
            for st in steps:
                op = st[0]
                if op == "recv":
                    m = await receive(); me["recv"].append((m["type"], len(m.get("body",b"") or b""), m.get("more_body"), m.get("code"), m.get("text"), m.get("bytes")))
                elif op == "recv_body":
                    while True:
                        m = await receive(); me["recv"].append((m["type"], len(m.get("body",b"") or b""), m.get("more_body")))
                        if m["type"]!="http.request" or not m.get("more_body"): break
                elif op == "recv_until_disconnect":
                    while True:
                        m = await receive(); me["recv"].append((m["type"], len(m.get("body",b"") or b""), m.get("more_body"), m.get("code"), m.get("text"), m.get("bytes")))
                        if m["type"].endswith("disconnect"): break
                elif op == "send":
                    try:
                        await send(st[1]); me["send"].append((st[1]["type"], "ok"))
                    except Exception as e:
                        me["send"].append((st[1]["type"], type(e).__name__))
                elif op == "sleep": await sleep(st[1])
                elif op == "raise": raise RuntimeError("scripted")
                elif op == "return": return
            me["exit"] = "ok"
        except RuntimeError:
            me["exit"] = "raise"; raise
    return app

# ---------- asyncio ----------
class MemoryReader:
    def __init__(self): self.data = asyncio.Queue(); self.eof=False
    async def read(self, n): return await self.data.get()
    def feed(self, d): self.data.put_nowait(d)
    def close(self): self.data.put_nowait(b""); self.eof=True
    def at_eof(self): return self.eof and self.data.empty()
class MemoryWriter:
    def __init__(self, loop, http2, t0): self.loop=loop; self.http2=http2; self.is_closed=False; self.events=[]; self.t0=t0; self.fail=False
    def get_extra_info(self, name):
        if name=="socket": return MockSocket()
        if name=="ssl_object" and self.http2:
            class S:
                def selected_alpn_protocol(s): return "h2"
            return S()
        return None
    def _t(self): return round(self.loop.time()-self.t0, 3)
    def write_eof(self): self.events.append(("eof", self._t()))
    def write(self, d):
        if self.is_closed or self.fail: raise ConnectionError()
        self.events.append(("data", self._t(), bytes(d)))
    async def drain(self): pass
    def close(self):
        if not self.is_closed:
            self.events.append(("close", self._t()))
            if getattr(self, "reader", None) is not None and not self.reader.eof: self.reader.close()   # transport close => reader EOF
        self.is_closed=True
    async def wait_closed(self): pass

def run_asyncio(sc):
    from hypercorn.asyncio.tcp_server import TCPServer
    from hypercorn.asyncio.worker_context import WorkerContext
    rec=[]; log=Log()
    async def main():
        loop = asyncio.get_running_loop(); t0=loop.time()
        config = mkconfig(sc.get("config",{}), log)
        r = MemoryReader(); w = MemoryWriter(loop, sc.get("alpn")=="h2", t0); w.reader = r
        srv = TCPServer(ASGIWrapper(make_app(sc["apps"], rec, asyncio.sleep)), loop, config, WorkerContext(None), {}, r, w)
        task = loop.create_task(srv.run())
        done_at=[]
        task.add_done_callback(lambda t: done_at.append(round(loop.time()-t0,3)))
        for act in sc["client"]:
            if act[0]=="send": r.feed(act[1])
            elif act[0]=="wait": await asyncio.sleep(act[1])
            elif act[0]=="eof":
                if not r.eof: r.close()
            elif act[0]=="fail": w.fail=True
            for _ in range(20): await asyncio.sleep(0)
        await asyncio.sleep(sc.get("tail", 60))
        err=None
        if task.done():
            e = task.exception(); err = None if e is None else [type(x).__name__ for x in getattr(e,"exceptions",[e])]
        else:
            task.cancel()
            try: await task
            except BaseException: pass
        return {"out": w.events, "handler_done": done_at[:1], "error": err}
    res,_ = vloop.run(main())
    res["apps"]=rec; res["access"]=log.acc; res["exc"]=log.exc
    return res

# ---------- trio ----------
def run_trio(sc):
    from hypercorn.trio.tcp_server import TCPServer
    from hypercorn.trio.worker_context import WorkerContext
    rec=[]; log=Log(); res={}
    async def main():
        t0 = trio.current_time()
        config = mkconfig(sc.get("config",{}), log)
        client, server = trio.testing.memory_stream_pair()
        server.socket = MockSocket()
        if sc.get("alpn")=="h2":
            raise NotImplementedError
        srv = TCPServer(ASGIWrapper(make_app(sc["apps"], rec, trio.sleep)), config, WorkerContext(None), {}, server)
        events=[]; done_at=[]; err=[]
        async def runner():
            try:
                await srv.run()
            except BaseException as e:
                if not isinstance(e, trio.Cancelled):
                    err.append([type(x).__name__ for x in getattr(e,"exceptions",[e])])
                else: raise
            finally:
                done_at.append(round(trio.current_time()-t0,3))
        async def collector():
            while True:
                try: d = await client.receive_some(65536)
                except (trio.BrokenResourceError, trio.ClosedResourceError): events.append(("close", round(trio.current_time()-t0,3))); return
                if not d: events.append(("close", round(trio.current_time()-t0,3))); return
                events.append(("data", round(trio.current_time()-t0,3), bytes(d)))
        async with trio.open_nursery() as n:
            n.start_soon(runner); n.start_soon(collector)
            for act in sc["client"]:
                try:
                    if act[0]=="send": await client.send_all(act[1])
                    elif act[0]=="wait": await trio.sleep(act[1])
                    elif act[0]=="eof": await client.send_eof()
                except (trio.BrokenResourceError, trio.ClosedResourceError): pass
                await trio.testing.wait_all_tasks_blocked()
            await trio.sleep(sc.get("tail", 60))
            n.cancel_scope.cancel()
        res.update({"out": events, "handler_done": done_at[:1], "error": err[0] if err else None})
    trio.run(main, clock=trio.testing.MockClock(autojump_threshold=0))
    res["apps"]=rec; res["access"]=log.acc; res["exc"]=log.exc
    return res

DATE = re.compile(rb"date: [^\r]*\r\n")
def norm(res):
    data = b"".join(e[2] for e in res["out"] if e[0]=="data")
    data = DATE.sub(b"date: X\r\n", data)
    close = [e[1] for e in res["out"] if e[0]=="close"][:1]
    first_data_times = sorted(set(e[1] for e in res["out"] if e[0]=="data"))
    return {"bytes": data, "close": close, "data_times": first_data_times, "apps": res["apps"], "access": res["access"], "exc": res["exc"],
            "handler_done": res["handler_done"], "error": res["error"]}
