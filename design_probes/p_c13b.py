import asyncio
from p_c13 import *
async def main():
    got.clear()
    srv, task, log, ctx = mk(echo)
    c, req, rest = opening(False)
    await srv.reader.send(req+rest); await settle(100)
    out = bytes(srv.writer.out)
    print(out[:200])
    print("task", task.done(), task.exception() if task.done() else None, getattr(task.exception(),'exceptions',None) if task.done() else None)
    print("log", log.exc, log.acc, "got", got)
    idx = out.index(b"\r\n\r\n")+4
    try:
        print([type(e).__name__ for e in c.receive_data(out[idx:])])
    except Exception as e: print("client err", repr(e))
asyncio.run(main())
