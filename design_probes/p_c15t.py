import trio, hypercorn.trio, time
from hypercorn.config import Config
async def hang_app(scope, receive, send):
    if scope["type"]=="lifespan":
        while True:
            m = await receive()
            if m["type"]=="lifespan.startup": await send({"type":"lifespan.startup.complete"})
            elif m["type"]=="lifespan.shutdown": await send({"type":"lifespan.shutdown.complete"}); return
    await trio.sleep(3600)
async def main():
    config = Config(); config.bind=["127.0.0.1:18233"]; config.errorlog=None; config.graceful_timeout=0.5
    ev = trio.Event()
    async with trio.open_nursery() as n:
        done = trio.Event()
        async def serve():
            await hypercorn.trio.serve(hang_app, config, shutdown_trigger=ev.wait); done.set()
        n.start_soon(serve)
        await trio.sleep(0.3)
        s = await trio.open_tcp_stream("127.0.0.1",18233)
        await s.send_all(b"GET /x HTTP/1.1\r\nhost: a\r\n\r\n")
        await trio.sleep(0.2)
        t0=time.time(); ev.set()
        with trio.move_on_after(5) as cs:
            await done.wait()
        print("trio serve returned after %.2fs"%(time.time()-t0) if not cs.cancelled_caught else "trio serve did NOT return in 5s")
        n.cancel_scope.cancel()
trio.run(main)
