import asyncio, h2.connection, h2.config, h2.events
from drv import *
async def app(scope, receive, send): pass
async def main():
    srv, task, log, ctx = mk(app, http2=True)
    c = h2.connection.H2Connection(h2.config.H2Configuration(client_side=True, header_encoding=None))
    c.initiate_connection()
    await srv.reader.send(c.data_to_send()); await settle()
    for sid in range(1, 2100, 2):
        c.prioritize(sid, weight=10)
    await srv.reader.send(c.data_to_send()); await settle(100)
    print("task", task.done(), getattr(task.exception(),"exceptions",None) if task.done() else None)
    task.cancel()
asyncio.run(main())
