"""Recording taps on third-party classes (no hypercorn name touched)."""
import h11, h2.connection, priority, wsproto.connection
LOG = []
def _summ(x):
    if isinstance(x, (bytes, bytearray)): return f"<{len(x)}B>"
    if isinstance(x, list): return [_summ(i) for i in x]
    if isinstance(x, tuple): return tuple(_summ(i) for i in x)
    if hasattr(x, "__dict__") and type(x).__module__.split(".")[0] in ("h11","h2","wsproto"):
        return (type(x).__name__, {k:_summ(v) for k,v in vars(x).items() if not k.startswith("_")} if type(x).__module__.startswith("h2") else str(x)[:80])
    return x if isinstance(x,(int,str,bool,type(None))) else type(x).__name__
def wrap(cls, names, tag):
    for n in names:
        orig = getattr(cls, n)
        def mk(orig=orig, n=n):
            def f(self, *a, **k):
                try:
                    r = orig(self, *a, **k)
                except BaseException as e:
                    LOG.append((tag, id(self)%1000, n, _summ(list(a)), "raise", type(e).__name__)); raise
                LOG.append((tag, id(self)%1000, n, _summ(list(a)), "ok", _summ(r))); return r
            return f
        setattr(cls, n, mk())
def install():
    wrap(h11.Connection, ["receive_data","next_event","send","start_next_cycle"], "h11")
    wrap(h2.connection.H2Connection, ["receive_data","send_headers","send_data","end_stream","reset_stream","close_connection","acknowledge_received_data","local_flow_control_window","update_settings","initiate_connection","initiate_upgrade_connection","push_stream"], "h2")
    wrap(priority.PriorityTree, ["insert_stream","remove_stream","block","unblock","reprioritize","__next__"], "prio")
    wrap(wsproto.connection.Connection, ["receive_data","send"], "ws")
