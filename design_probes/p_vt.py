import asyncio, time
import vloop
from drv import *
async def ok_app(scope, receive, send):
    while True:
        m = await receive()
        if m["type"]=="http.disconnect": return
        if m["type"]=="http.request" and not m.get("more_body"):
            await asyncio.sleep(7)   # longer than keep alive
            await send({"type":"http.response.start","status":200,"headers":[(b"content-length",b"0")]})
            await send({"type":"http.response.body","body":b""}); return
async def main():
    loop = asyncio.get_running_loop()
    srv, task, log, ctx = mk(ok_app, keep_alive_timeout=5)
    t0 = loop.time()
    closed_at = []
    orig = srv.writer.close
    def close(): closed_at.append(loop.time()-t0); orig()
    srv.writer.close = close
    await asyncio.sleep(2)
    await srv.reader.send(b"GET / HTTP/1.1\r\nhost: x\r\n\r\n")
    await asyncio.sleep(30)
    print("closed at virtual t =", closed_at, "out", bytes(srv.writer.out)[:15])
    srv.reader.close(); await asyncio.sleep(1); print("task done", task.done())
w0=time.time(); _, loop = vloop.run(main()); print("wall %.3fs steps %d"%(time.time()-w0, loop.steps))
