import asyncio, wsproto.events as we
from wsproto import WSConnection, ConnectionType
from wsproto.connection import Connection
from drv import *
got = []
async def ws_app(scope, receive, send):
    while True:
        m = await receive(); got.append(m)
        if m["type"]=="websocket.connect": await send({"type":"websocket.accept"})
        if m["type"]=="websocket.disconnect": return
async def t():
    got.clear()
    srv, task, log, ctx = mk(ws_app, websocket_max_message_size=5)
    c = WSConnection(ConnectionType.CLIENT)
    await srv.reader.send(c.send(we.Request(host="x", target="/"))); await settle(50)
    c.receive_data(bytes(srv.writer.out)); del srv.writer.out[:]; list(c.events())
    data = b"".join([
        c.send(we.TextMessage(data="hé", message_finished=False)), c.send(we.Ping(payload=b"p1")),
        c.send(we.TextMessage(data="llo", message_finished=True)),   # 5 chars (6 bytes) ok
        c.send(we.BytesMessage(data=b"123456")),   # 6 bytes > 5 -> 1009
        c.send(we.TextMessage(data="ok")), c.send(we.Ping(payload=b"p2")),
    ])
    # one byte per read
    for i in range(len(data)):
        await srv.reader.send(data[i:i+1]); await settle(3)
    await settle(50)
    c.receive_data(bytes(srv.writer.out))
    print("client saw", [(type(e).__name__, getattr(e,'payload',getattr(e,'code',None))) for e in c.events()])
    print("app got", got, "task", task.done(), task.exception() if task.done() else None, getattr(task.exception(),"exceptions",None) if task.done() else None)
    task.cancel()
asyncio.run(t())
