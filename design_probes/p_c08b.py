import asyncio, h2.connection, h2.config, h2.events, h2.settings
from drv import *
import hypercorn.protocol.h2 as hh
sent = []
async def big_app(scope, receive, send):
    await send({"type":"http.response.start","status":200,"headers":[]})
    try:
        for i in range(20):
            await send({"type":"http.response.body","body":b"x"*10000,"more_body":True})
            sent.append(i)
        await send({"type":"http.response.body","body":b"","more_body":False})
        sent.append("end")
    finally:
        sent.append("app-exit")
orig = hh.H2Protocol._send_data
async def traced(self, sid):
    try:
        r = await orig(self, sid); print("  _send_data ok", sid, list(self.stream_buffers)); return r
    except BaseException as e:
        print("  _send_data raised", repr(e)); raise
hh.H2Protocol._send_data = traced
oh = hh.H2Protocol._handle_events
async def th(self, events):
    print("  events", [type(e).__name__ for e in events]); return await oh(self, events)
hh.H2Protocol._handle_events = th
async def main():
    srv, task, log, ctx = mk(big_app, http2=True)
    c = h2.connection.H2Connection(h2.config.H2Configuration(client_side=True, header_encoding=None))
    c.local_settings = h2.settings.Settings(client=True, initial_values={h2.settings.SettingCodes.INITIAL_WINDOW_SIZE: 0})
    c.initiate_connection()
    await srv.reader.send(c.data_to_send()); await settle()
    c.receive_data(bytes(srv.writer.out)); del srv.writer.out[:]
    await srv.reader.send(c.data_to_send()); await settle()
    c.send_headers(1, [(b":method",b"GET"),(b":path",b"/"),(b":scheme",b"https"),(b":authority",b"x")], end_stream=True)
    await srv.reader.send(c.data_to_send()); await settle(3000)
    p = srv.protocol.protocol
    print("RST now", sent[-2:])
    c.reset_stream(1); await srv.reader.send(c.data_to_send()); await settle(3000)
    print("  after RST: sent", sent[-3:], "buffers", {k: len(v.buffer) for k,v in p.stream_buffers.items()}, "task", task.done())
    if task.done(): print(task.exception())
asyncio.run(main())
