import asyncio, sys, logging
sys.path.insert(0, "/repo/tests")
from hypercorn.app_wrappers import ASGIWrapper
from hypercorn.asyncio.tcp_server import TCPServer
from hypercorn.asyncio.worker_context import WorkerContext
from hypercorn.config import Config
from socket import AF_INET

class MockSocket:
    family = AF_INET
    def getsockname(self): return ("162.1.1.1", 80)
    def getpeername(self): return ("127.0.0.1", 80)
class MockSSLObject:
    def selected_alpn_protocol(self): return "h2"
class MemoryReader:
    def __init__(self):
        self.data = asyncio.Queue(); self.eof = False
    async def send(self, data):
        if data != b"": await self.data.put(data)
    async def read(self, length): return await self.data.get()
    def close(self):
        self.data.put_nowait(b""); self.eof = True
    def at_eof(self): return self.eof and self.data.empty()
class MemoryWriter:
    def __init__(self, http2=False):
        self.is_closed = False; self.data = asyncio.Queue(); self.http2 = http2; self.out = bytearray()
    def get_extra_info(self, name):
        if name == "socket": return MockSocket()
        elif self.http2 and name == "ssl_object": return MockSSLObject()
        return None
    def write_eof(self): self.data.put_nowait(b"")
    def write(self, data):
        if self.is_closed: raise ConnectionError()
        self.data.put_nowait(data); self.out += data
    async def drain(self): pass
    def close(self):
        self.is_closed = True; self.data.put_nowait(b"")
    async def wait_closed(self): pass
    async def receive(self): return await self.data.get()

class Log:
    def __init__(self): self.acc=[]; self.exc=[]
    async def access(self, scope, resp, t): self.acc.append((scope.get("path"), None if resp is None else resp["status"]))
    async def exception(self, msg, *a, **k):
        import traceback; self.exc.append(msg + " :: " + traceback.format_exc().strip().splitlines()[-1])
    async def warning(self,*a,**k): pass
    async def info(self,*a,**k): pass
    async def error(self,*a,**k): pass
    async def debug(self,*a,**k): pass

def mk(app, http2=False, **cfg):
    config = Config()
    for k,v in cfg.items(): setattr(config,k,v)
    log = Log(); config._log = log
    loop = asyncio.get_running_loop()
    ctx = WorkerContext(None)
    srv = TCPServer(ASGIWrapper(app), loop, config, ctx, {}, MemoryReader(), MemoryWriter(http2))
    task = loop.create_task(srv.run())
    return srv, task, log, ctx

async def settle(n=50):
    for _ in range(n): await asyncio.sleep(0)
