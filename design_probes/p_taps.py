import asyncio, taps
taps.install()
from drv import *
async def app(scope, receive, send):
    while True:
        m = await receive()
        if m["type"]=="http.request" and not m.get("more_body"): break
    await send({"type":"http.response.start","status":200,"headers":[(b"content-length",b"2")]})
    await send({"type":"http.response.body","body":b"ok"})
async def main():
    srv, task, log, ctx = mk(app)
    data = b"POST /a HTTP/1.1\r\nhost: x\r\ncontent-length: 5\r\n\r\nhelloGET /b HTTP/1.1\r\nhost: x\r\n\r\n"
    await srv.reader.send(data[:30]); await settle(20)
    await srv.reader.send(data[30:]); await settle(50)
    for e in taps.LOG:
        if e[0]=="h11": print(e[2], e[3], e[4], e[5])
asyncio.run(main())
