import asyncio, h2.connection, h2.config, h2.events, h2.settings
import wsproto, wsproto.events as we
from wsproto.connection import Connection, ConnectionType
from drv import *
got=[]
async def ws_app(scope, receive, send):
    got.append(("scope", scope["type"], scope["http_version"], scope["scheme"], scope["path"]))
    while True:
        m = await receive(); got.append(m)
        if m["type"]=="websocket.connect": await send({"type":"websocket.accept"})
        elif m["type"]=="websocket.receive": await send({"type":"websocket.send","text":m["text"],"bytes":m["bytes"]})
        elif m["type"]=="websocket.disconnect": return
async def main():
    srv, task, log, ctx = mk(ws_app, http2=True)
    c = h2.connection.H2Connection(h2.config.H2Configuration(client_side=True, header_encoding=None))
    c.initiate_connection()
    await srv.reader.send(c.data_to_send()); await settle()
    evs = c.receive_data(bytes(srv.writer.out)); del srv.writer.out[:]
    print("server enable_connect_protocol:", c.remote_settings.enable_connect_protocol)
    await srv.reader.send(c.data_to_send()); await settle()
    c.send_headers(1, [(b":method",b"CONNECT"),(b":protocol",b"websocket"),(b":scheme",b"https"),(b":path",b"/ws?x=1"),(b":authority",b"x"),(b"sec-websocket-version",b"13")])
    await srv.reader.send(c.data_to_send()); await settle(50)
    evs = c.receive_data(bytes(srv.writer.out)); del srv.writer.out[:]
    print([ (type(e).__name__, getattr(e,'headers',None)) for e in evs])
    ws = Connection(ConnectionType.CLIENT)
    c.send_data(1, ws.send(we.TextMessage(data="hello")))
    await srv.reader.send(c.data_to_send()); await settle(50)
    evs = c.receive_data(bytes(srv.writer.out)); del srv.writer.out[:]
    for e in evs:
        if isinstance(e, h2.events.DataReceived):
            ws.receive_data(e.data); print("ws events", list(ws.events()))
    print(got)
    task.cancel()
asyncio.run(main())
