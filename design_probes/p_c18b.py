import asyncio
from drv import *
started=[]
async def app(scope, receive, send):
    started.append(scope["path"])
    await send({"type":"http.response.start","status":200,"headers":[(b"content-length",b"0")]})
    await send({"type":"http.response.body","body":b""})
async def t(limit, n, complete):
    started.clear()
    srv, task, log, ctx = mk(app, h11_max_incomplete_size=limit)
    head = b"GET / HTTP/1.1\r\nhost: x\r\nx-pad: "
    pad = n - len(head) - (4 if complete else 0)
    data = head + b"a"*pad + (b"\r\n\r\n" if complete else b"")
    assert len(data)==n
    # send in two reads to test incomplete detection
    await srv.reader.send(data[:n//2]); await settle(10)
    await srv.reader.send(data[n//2:]); await settle(30)
    out = bytes(srv.writer.out)
    print(f"limit={limit} n={n} complete={complete}: started={started} status={out[9:12]!r} closed={srv.writer.is_closed}")
    task.cancel()
for lim in (100,):
    for n,c in ((99,False),(100,False),(101,False),(102,False),(100,True),(101,True),(150,True)):
        asyncio.run(t(lim,n,c))
