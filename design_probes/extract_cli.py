import ast, sys, json
src = open("/repo/src/hypercorn/__main__.py").read()
tree = ast.parse(src)
main = next(n for n in tree.body if isinstance(n, ast.FunctionDef) and n.name == "main")
args = []   # add_argument rows
wires = []  # (guard_arg, config_attr, source_arg, kind)
def const(n):
    if isinstance(n, ast.Constant): return n.value
    if isinstance(n, ast.Name): return f"${n.id}"
    if isinstance(n, ast.List) and not n.elts: return []
    return "?"
for node in ast.walk(main):
    if isinstance(node, ast.Call) and isinstance(node.func, ast.Attribute) and node.func.attr == "add_argument":
        flags = [a.value for a in node.args if isinstance(a, ast.Constant)]
        kw = {k.arg: k.value for k in node.keywords}
        dest = const(kw["dest"]) if "dest" in kw else None
        if dest is None:
            longs = [f for f in flags if f.startswith("--")]
            dest = (longs[0][2:] if longs else flags[0]).replace("-", "_")
        default = const(kw["default"]) if "default" in kw else None
        args.append({"flags": flags, "dest": dest,
                     "default": "sentinel" if default == "$sentinel" else ("list" if default == [] else ("none" if default is None else f"lit:{default!r}")),
                     "action": const(kw["action"]) if "action" in kw else "store",
                     "type": (kw["type"].id if isinstance(kw.get("type"), ast.Name) else ("func" if "type" in kw else "str"))})
for node in main.body:
    if isinstance(node, ast.If):
        t = node.test
        guard = kind = None
        if isinstance(t, ast.Compare) and isinstance(t.ops[0], ast.IsNot) and isinstance(t.left, ast.Attribute):
            guard, kind = t.left.attr, "sentinel"
        elif isinstance(t, ast.Compare) and isinstance(t.left, ast.Call) and getattr(t.left.func, "id", "") == "len":
            guard, kind = t.left.args[0].attr, "nonempty"
        for st in node.body:
            if isinstance(st, ast.Assign) and isinstance(st.targets[0], ast.Attribute) and getattr(st.targets[0].value, "id", "") == "config":
                v = st.value
                wires.append((guard, st.targets[0].attr, v.attr if isinstance(v, ast.Attribute) else "?", kind))
print(json.dumps({"args": args, "wires": wires}, indent=0)[:600])
# emit Lean
def q(s): return json.dumps(s)
with open("/tmp/leanprobe/hcmodel/Hcmodel/ExtractedCli.lean", "w") as f:
    f.write("/- GENERATED from /repo/src/hypercorn/__main__.py -/\nnamespace Extracted.Cli\n")
    f.write("structure Arg where\n  flags : List String\n  dest : String\n  default : String\n  action : String\nderiving Repr, DecidableEq\n")
    f.write("structure Wire where\n  guard : String\n  attr : String\n  source : String\n  kind : String\nderiving Repr, DecidableEq\n")
    f.write("def args : List Arg := [\n" + ",\n".join(f"  ⟨[{', '.join(q(x) for x in a['flags'])}], {q(a['dest'])}, {q(a['default'])}, {q(a['action'])}⟩" for a in args) + "]\n")
    f.write("def wires : List Wire := [\n" + ",\n".join(f"  ⟨{q(g)}, {q(a)}, {q(s)}, {q(k)}⟩" for g,a,s,k in wires) + "]\n")
    f.write("end Extracted.Cli\n")
print(len(args), "args", len(wires), "wires")
