import trio, trio.testing
from twin import *
from p_twin import OK, REQ
import hypercorn.trio.tcp_server as ts
orig = ts.TCPServer.protocol_send
async def traced(self, event):
    print("   protocol_send", type(event).__name__, getattr(event,'data',b'')[:30] if hasattr(event,'data') else getattr(event,'idle',''))
    try:
        return await orig(self, event)
    except BaseException as e:
        print("   -> raised", repr(e)); raise
ts.TCPServer.protocol_send = traced
for name, data in (("close+pipelined", b"GET /c HTTP/1.1\r\nhost: x\r\nconnection: close\r\n\r\n" + REQ%2), ("close only", b"GET /c HTTP/1.1\r\nhost: x\r\nconnection: close\r\n\r\n")):
    print(name)
    t = run_trio({"apps":[OK], "client":[("send", data)], "tail": 10})
    print("  out", t["out"], t["access"])
