/-! Prototype: StreamBuffer protocol (one sequential pusher, one popper), fixed vs. as-is pop. -/
namespace SB

structure St where
  buf : Nat
  paused : Bool      -- the `_paused` event flag
  waiting : Bool     -- app parked inside push()
deriving Repr, DecidableEq

inductive Op where
  | push (n : Nat)     -- app calls push(data), len data = n   (enabled iff not waiting)
  | pop (maxLen : Nat) -- send task pops up to maxLen
  | wake               -- parked pusher observes the event, clears it, returns
deriving Repr, DecidableEq

structure Params where
  high : Nat
  low : Nat
  fixed : Bool   -- true: release on remaining < low ; false (code as is): release on popped chunk < low

def step (p : Params) (s : St) : Op → Option St
  | .push n =>
    if s.waiting then none else
    let b := s.buf + n
    if b ≥ p.high then
      if s.paused then some { buf := b, paused := false, waiting := false }
      else some { buf := b, paused := false, waiting := true }
    else some { s with buf := b }
  | .pop m =>
    let k := min s.buf m
    let r := s.buf - k
    let rel := if p.fixed then decide (r < p.low) else decide (k < p.low)
    some { s with buf := r, paused := s.paused || rel }
  | .wake =>
    if s.waiting && s.paused then some { s with paused := false, waiting := false } else none

def run (p : Params) : St → List Op → Option St
  | s, [] => some s
  | s, o :: os => match step p s o with
    | none => none
    | some s' => run p s' os

def init : St := ⟨0, false, false⟩

def okOp (c : Nat) : Op → Prop
  | .push n => n ≤ c
  | _ => True

def Inv (p : Params) (c : Nat) (s : St) : Prop :=
  (s.waiting = false → s.paused = true → s.buf < p.high) ∧
  (s.waiting = false → s.paused = false → s.buf < p.high + c) ∧
  (s.waiting = true → s.buf < p.high + 2 * c) ∧
  (s.waiting = true → s.paused = true → s.buf < p.low)

theorem inv_step (p : Params) (c : Nat) (hf : p.fixed = true) (hlh : p.low ≤ p.high)
    (s s' : St) (o : Op) (ho : okOp c o)
    (h : Inv p c s) (hs : step p s o = some s') : Inv p c s' := by
  cases o <;> simp only [step, okOp, Inv] at * <;> grind

theorem inv_init (p : Params) (c : Nat) (hh : 0 < p.high) : Inv p c init := by
  simp [Inv, init]; omega

theorem inv_run (p : Params) (c : Nat) (hf : p.fixed = true) (hlh : p.low ≤ p.high) :
    ∀ (ops : List Op) (s0 s : St), Inv p c s0 → (∀ o ∈ ops, okOp c o) → run p s0 ops = some s → Inv p c s := by
  intro ops
  induction ops with
  | nil => intro s0 s hI _ hr; simp [run] at hr; subst hr; exact hI
  | cons o os ih =>
    intro s0 s hI hc hr
    simp only [run] at hr
    split at hr
    · simp at hr
    · rename_i s1 hs1
      exact ih s1 s (inv_step p c hf hlh s0 s1 o (hc o (by simp)) hI hs1)
        (fun o' ho' => hc o' (by simp [ho'])) hr

theorem bounded (p : Params) (c : Nat) (hf : p.fixed = true) (hlh : p.low ≤ p.high) (hh : 0 < p.high)
    (ops : List Op) (hc : ∀ o ∈ ops, okOp c o) (s : St) (hr : run p init ops = some s) :
    s.buf < p.high + 2 * c := by
  have hI := inv_run p c hf hlh ops init s (inv_init p c hh) hc hr
  obtain ⟨h1, h2, h3, _⟩ := hI
  cases hw : s.waiting
  · cases hp : s.paused
    · have := h2 hw hp; omega
    · have := h1 hw hp; omega
  · have := h3 hw; omega

/-- code as is: at zero window every push is followed by an (empty) pop that releases the pusher:
    the buffer grows without bound -/
def dribble (n c : Nat) : List Op := (List.replicate n [Op.push c, Op.pop 0]).flatten

def asIs : Params := ⟨32768, 16384, false⟩
end SB
