/-! Prototype: tagged-unit h11 parser + hypercorn read loop; segmentation independence via invariants. -/
namespace H11Seg

inductive U where
  | head (i len : Nat)    -- atomic; emits Request i
  | body (i len : Nat)    -- divisible; emits Data i k
  | frame (len : Nat)     -- atomic; silent (chunk header, CRLF)
  | eom (i len : Nat)     -- atomic; emits EndOfMessage i (len 0 for content-length framing)
deriving Repr, DecidableEq

def U.size : U → Nat
  | .head _ n | .body _ n | .frame n | .eom _ n => n

def sizeOf' : List U → Nat
  | [] => 0
  | u :: r => u.size + sizeOf' r

def bodyIn (i : Nat) : List U → Nat
  | [] => 0
  | .body j n :: r => (if j = i then n else 0) + bodyIn i r
  | _ :: r => bodyIn i r

def hasHead (i : Nat) : List U → Bool
  | [] => false
  | .head j _ :: r => j == i || hasHead i r
  | _ :: r => hasHead i r

def hasEom (i : Nat) : List U → Bool
  | [] => false
  | .eom j _ :: r => j == i || hasEom i r
  | _ :: r => hasEom i r

structure St where
  rest : List U
  avail : Nat          -- bytes buffered in h11, not yet consumed
  pending : Nat        -- bytes the client has not sent yet (ghost)
  done : Bool          -- their_state = DONE, waiting for start_next_cycle
  parked : Bool        -- reader parked on can_read (saw PAUSED)
  delivered : Nat → Nat   -- body bytes handed to instance i
  requests : Nat → Nat    -- Request events for i  (= app instances spawned)
  finals : Nat → Nat      -- EndOfMessage events for i (= more_body False messages)

def bump (f : Nat → Nat) (i k : Nat) : Nat → Nat := fun j => if j = i then f j + k else f j

/-- one `connection.next_event()` + hypercorn's handling of the result.
    Returns `none` when the loop must stop (NEED_DATA) or the reader parks (PAUSED). -/
def evStep (s : St) : Option St :=
  if s.done then none else
  match s.rest with
  | [] => none
  | .head i n :: r => if s.avail ≥ n then some { s with rest := r, avail := s.avail - n, requests := bump s.requests i 1 } else none
  | .body i n :: r =>
      if n = 0 then some { s with rest := r }
      else if s.avail = 0 then none
      else
        let k := min s.avail n
        some { s with rest := (if k = n then r else .body i (n - k) :: r), avail := s.avail - k,
                      delivered := bump s.delivered i k }
  | .frame n :: r => if s.avail ≥ n then some { s with rest := r, avail := s.avail - n } else none
  | .eom i n :: r =>
      if s.avail ≥ n then
        some { s with rest := r, avail := s.avail - n, done := true, finals := bump s.finals i 1 }
      else none

inductive Op where
  | read (n : Nat)     -- client bytes arrive (n ≤ pending), reader not parked
  | ev                 -- reader runs one next_event iteration
  | park               -- reader sees PAUSED (done ∧ avail > 0): clear+wait on can_read
  | recycle            -- response finished: start_next_cycle, can_read.set

def step (s : St) : Op → Option St
  | .read n => if s.parked || n = 0 || n > s.pending then none
               else some { s with avail := s.avail + n, pending := s.pending - n }
  | .ev => if s.parked then none else evStep s
  | .park => if s.done && !s.parked && s.avail > 0 then some { s with parked := true } else none
  | .recycle => if s.done then some { s with done := false, parked := false } else none

def run : St → List Op → Option St
  | s, [] => some s
  | s, o :: os => match step s o with
    | none => none
    | some s' => run s' os

def init (us : List U) : St :=
  { rest := us, avail := 0, pending := sizeOf' us, done := false, parked := false,
    delivered := fun _ => 0, requests := fun _ => 0, finals := fun _ => 0 }

/-- Invariant relating the ghost counters to what is left to parse. -/
structure Inv (us : List U) (s : St) : Prop where
  bytes : s.avail + s.pending = sizeOf' s.rest
  body : ∀ i, s.delivered i + bodyIn i s.rest = bodyIn i us

theorem inv_init (us : List U) : Inv us (init us) := by
  constructor <;> simp [init]

@[simp] theorem sizeOf'_cons (u : U) (r : List U) : sizeOf' (u :: r) = u.size + sizeOf' r := rfl
@[simp] theorem sizeOf'_nil : sizeOf' [] = 0 := rfl
@[simp] theorem bodyIn_nil (i : Nat) : bodyIn i [] = 0 := rfl
@[simp] theorem bodyIn_head (i j n : Nat) (r : List U) : bodyIn i (.head j n :: r) = bodyIn i r := rfl
@[simp] theorem bodyIn_frame (i n : Nat) (r : List U) : bodyIn i (.frame n :: r) = bodyIn i r := rfl
@[simp] theorem bodyIn_eom (i j n : Nat) (r : List U) : bodyIn i (.eom j n :: r) = bodyIn i r := rfl
@[simp] theorem bodyIn_body (i j n : Nat) (r : List U) :
    bodyIn i (.body j n :: r) = (if j = i then n else 0) + bodyIn i r := rfl

theorem inv_evStep (us : List U) (s s' : St) (h : Inv us s) (hs : evStep s = some s') : Inv us s' := by
  obtain ⟨hb, hbody⟩ := h
  unfold evStep at hs
  split at hs; · simp at hs
  split at hs
  · simp at hs
  · rename_i i n r heq
    split at hs
    · simp at hs; subst hs
      constructor
      · simp_all [U.size]; omega
      · intro j; have := hbody j; simp_all
    · simp at hs
  · rename_i i n r heq
    split at hs
    · simp at hs; subst hs
      constructor
      · simp_all [U.size]
      · intro j; have := hbody j; simp_all
    · split at hs
      · simp at hs
      · simp at hs; subst hs
        constructor
        · simp only []
          split <;> simp_all [U.size] <;> omega
        · intro j; have := hbody j
          rw [heq] at this
          simp only [bump, bodyIn_body] at this ⊢
          by_cases hkn : min s.avail n = n <;> by_cases hij : i = j <;>
            simp [hkn, hij, Ne.symm] at this ⊢ <;> (try split) <;> omega
  · rename_i n r heq
    split at hs
    · simp at hs; subst hs
      constructor
      · simp_all [U.size]; omega
      · intro j; have := hbody j; simp_all
    · simp at hs
  · rename_i i n r heq
    split at hs
    · simp at hs; subst hs
      constructor
      · simp_all [U.size]; omega
      · intro j; have := hbody j; simp_all
    · simp at hs

theorem inv_step (us : List U) (s s' : St) (o : Op) (h : Inv us s) (hs : step s o = some s') : Inv us s' := by
  cases o with
  | read n =>
    simp only [step] at hs
    split at hs; · simp at hs
    rename_i hc; simp at hc hs; subst hs
    obtain ⟨hb, hbody⟩ := h
    exact ⟨by simp; omega, hbody⟩
  | ev =>
    simp only [step] at hs
    split at hs; · simp at hs
    exact inv_evStep us s s' h hs
  | park =>
    simp only [step] at hs
    split at hs
    · simp at hs; subst hs; exact ⟨h.bytes, h.body⟩
    · simp at hs
  | recycle =>
    simp only [step] at hs
    split at hs
    · simp at hs; subst hs; exact ⟨h.bytes, h.body⟩
    · simp at hs

theorem inv_run (us : List U) : ∀ (ops : List Op) (s s' : St), Inv us s → run s ops = some s' → Inv us s' := by
  intro ops
  induction ops with
  | nil => intro s s' h hr; simp [run] at hr; subst hr; exact h
  | cons o os ih =>
    intro s s' h hr
    simp only [run] at hr
    split at hr
    · simp at hr
    · rename_i s1 hs1; exact ih s1 s' (inv_step us s s1 o h hs1) hr

/-- quiescent: the client has sent everything, no `ev`, `park` or `recycle` step is enabled
    (every response has been produced, so nothing is `done`). -/
def quiescent (s : St) : Prop :=
  s.pending = 0 ∧ s.done = false ∧ s.parked = false ∧ evStep s = none

/-- At quiescence nothing is left to parse — whatever the segmentation and interleaving were. -/
theorem quiescent_rest_nil (us : List U) (s : St) (h : Inv us s) (hq : quiescent s) : s.rest = [] := by
  obtain ⟨hp, hd, hpk, he⟩ := hq
  obtain ⟨hb, _⟩ := h
  unfold evStep at he
  simp only [hd] at he
  cases hr : s.rest with
  | nil => rfl
  | cons u r =>
    exfalso
    rw [hr] at he hb
    cases u <;> simp_all [U.size] <;> (try split at he) <;> simp_all <;> omega

/-- C01 core: for every unit list (session), every list of operations (any segmentation, any
    interleaving of reads with parsing, parking and recycling) that ends quiescent,
    instance `i` was handed exactly the body bytes of request `i`. -/
theorem body_complete (us : List U) (ops : List Op) (s : St)
    (hr : run (init us) ops = some s) (hq : quiescent s) (i : Nat) :
    s.delivered i = bodyIn i us := by
  have hI := inv_run us ops (init us) s (inv_init us) hr
  have hnil := quiescent_rest_nil us s hI hq
  have := hI.body i
  simp [hnil, bodyIn] at this
  exact this

end H11Seg
