/-! Prototype: ProxyFixMiddleware._get_trusted_value and the trust boundary (C20). -/
namespace Proxy

/-- `values[-hops]` if there are enough values (hops ≥ 1), else none -/
def getTrusted (vs : List String) (hops : Nat) : Option String :=
  if hops = 0 then none
  else if vs.length ≥ hops then vs[vs.length - hops]? else none

/-- Anything the client prepends is never used, as long as the trusted proxies appended ≥ hops values. -/
theorem trusted_value_ignores_prefix (pre vs : List String) (hops : Nat) (h : hops ≤ vs.length) :
    getTrusted (pre ++ vs) hops = getTrusted vs hops := by
  unfold getTrusted
  by_cases h0 : hops = 0
  · simp [h0]
  · simp only [h0, if_false, List.length_append]
    have h1 : pre.length + vs.length ≥ hops := by omega
    simp only [h1, h, if_true, ge_iff_le]
    rw [List.getElem?_append_right (by omega)]
    congr 1; omega

theorem zero_hops (vs : List String) : getTrusted vs 0 = none := by simp [getTrusted]
theorem too_few (vs : List String) (hops : Nat) (h : vs.length < hops) : getTrusted vs hops = none := by
  unfold getTrusted; split; · rfl
  · split
    · omega
    · rfl

-- the statement is sharp: with too few trusted values a prepended value IS used (so the hypothesis is needed)
example : getTrusted (["attacker"] ++ ["proxy"]) 2 = some "attacker" ∧ getTrusted ["proxy"] 2 = none := by decide
-- non-vacuity
example : getTrusted (["evil", "evil2"] ++ ["client", "proxy1"]) 2 = some "client" := by decide
end Proxy
