import Lean.Data.Json
import Hcmodel.Basic
open Lean

def stepLine (s : SB.St) (line : String) : Except String (SB.St × Json) := do
  let j ← Json.parse line
  let op ← j.getObjValAs? String "op"
  let o : SB.Op ← match op with
    | "push" => do pure (SB.Op.push (← j.getObjValAs? Nat "n"))
    | "pop" => do pure (SB.Op.pop (← j.getObjValAs? Nat "n"))
    | "wake" => pure SB.Op.wake
    | _ => throw s!"bad op {op}"
  match SB.step SB.asIs s o with
  | none => throw "not-enabled"
  | some s' => pure (s', Json.mkObj [("buf", toJson s'.buf), ("paused", toJson s'.paused), ("waiting", toJson s'.waiting)])

partial def loop (h : IO.FS.Stream) (s : SB.St) : IO Unit := do
  let line ← h.getLine
  if line.isEmpty then return ()
  match stepLine s line.trimRight with
  | .ok (s', out) => IO.println out.compress; loop h s'
  | .error e => IO.println (Json.mkObj [("error", toJson e)]).compress; loop h s

def main : IO Unit := do loop (← IO.getStdin) SB.init
