/-! Prototype: H2 send path, many streams, nondeterministic scheduler. -/
namespace H2S

structure Str where
  hasBuf : Bool := false
  buf : Nat := 0
  complete : Bool := false
  inTree : Bool := false
  blocked : Bool := false
  window : Int := 0
  pushed : Nat := 0
  sent : Nat := 0
  ended : Bool := false
deriving Repr, DecidableEq

structure St where
  str : Nat → Str
  connWin : Int
  maxFrame : Nat
  hasData : Bool
  parked : Bool

def upd (f : Nat → Str) (i : Nat) (v : Str) : Nat → Str := fun j => if j = i then v else f j

@[simp] theorem upd_same (f : Nat → Str) (i : Nat) (v : Str) : upd f i v i = v := by simp [upd]
@[simp] theorem upd_other (f : Nat → Str) (i j : Nat) (v : Str) (h : j ≠ i) : upd f i v j = f j := by simp [upd, h]

inductive Op where
  | open_ (i : Nat) (w : Int)          -- RequestReceived: create buffer, insert+block in tree
  | push (i n : Nat)                    -- stream_send(Body): unblock, has_data.set, buffer.push
  | end_ (i : Nat)                      -- stream_send(EndBody): set_complete, unblock, has_data.set
  | pick (i : Nat)                      -- send task: next(priority) = i ; _send_data(i)
  | park                                -- send task: DeadlockError -> wait on has_data
  | wake                                -- send task: has_data set -> clear, continue
  | winStream (i : Nat) (k : Nat)       -- WINDOW_UPDATE on stream
  | winConn (k : Nat)                   -- WINDOW_UPDATE on connection
  | settings (d : Int)                  -- INITIAL_WINDOW_SIZE change by delta d

def chunk (s : St) (i : Nat) : Nat :=
  let w := min (min (s.str i).window s.connWin) (s.maxFrame : Int)
  (max 0 w).toNat

def step (s : St) : Op → Option St
  | .open_ i w =>
    if (s.str i).hasBuf || (s.str i).inTree then none else
    some { s with str := upd s.str i { hasBuf := true, inTree := true, blocked := true, window := w } }
  | .push i n =>
    let x := s.str i
    if !x.hasBuf || x.complete then none else
    some { s with hasData := true,
                  str := upd s.str i { x with blocked := false, buf := x.buf + n, pushed := x.pushed + n } }
  | .end_ i =>
    let x := s.str i
    if !x.hasBuf || x.complete then none else
    some { s with hasData := true, str := upd s.str i { x with blocked := false, complete := true } }
  | .pick i =>
    let x := s.str i
    if s.parked || !x.inTree || x.blocked || !x.hasBuf then none else
    let n := min x.buf (chunk s i)
    let x1 := { x with buf := x.buf - n, sent := x.sent + n, window := x.window - n, blocked := x.blocked || (n == 0) }
    let x2 := if x1.complete && x1.buf == 0 then { x1 with ended := true, hasBuf := false, inTree := false } else x1
    some { s with connWin := s.connWin - n, str := upd s.str i x2 }
  | .park =>
    if s.parked || s.hasData then none else
    -- enabled only at deadlock: every stream in the tree is blocked
    some { s with parked := true }
  | .wake =>
    if s.parked && s.hasData then some { s with parked := false, hasData := false }
    else if !s.parked && s.hasData then some { s with hasData := false }   -- wait() returns at once, clear
    else none
  | .winStream i k =>
    let x := s.str i
    some { s with hasData := true, str := upd s.str i { x with window := x.window + k, blocked := if x.hasBuf then false else x.blocked } }
  | .winConn k =>
    some { s with hasData := true, connWin := s.connWin + k,
                  str := fun j => let x := s.str j; { x with blocked := if x.hasBuf then false else x.blocked } }
  | .settings d =>
    some { s with hasData := true,
                  str := fun j => let x := s.str j; { x with window := x.window + d, blocked := if x.hasBuf then false else x.blocked } }

/-- `park` is only taken at deadlock (this is what `next(priority)` raising DeadlockError means). -/
def parkOk (s : St) : Prop := ∀ j, (s.str j).inTree = true → (s.str j).blocked = true

structure Inv (s : St) : Prop where
  acct : ∀ i, (s.str i).hasBuf = true → (s.str i).pushed = (s.str i).sent + (s.str i).buf
  stall : ∀ i, (s.str i).hasBuf = true → (s.str i).inTree = true → (s.str i).blocked = true →
            (s.str i).buf = 0 ∧ (s.str i).complete = false ∨ (s.str i).window ≤ 0 ∨ s.connWin ≤ 0
  sleep : s.parked = true → s.hasData = false → ∀ j, (s.str j).inTree = true → (s.str j).blocked = true
  mf : 0 < s.maxFrame
  tree : ∀ i, (s.str i).hasBuf = true → (s.str i).inTree = true

theorem inv_step (s s' : St) (o : Op) (h : Inv s)
    (hp : o = .park → parkOk s) (hs : step s o = some s') : Inv s' := by
  obtain ⟨h1, h2, h3, h4, h5⟩ := h
  cases o with
  | open_ i w =>
    simp only [step] at hs
    split at hs; · simp at hs
    simp at hs; subst hs
    constructor <;> intros <;> simp_all [upd] <;> grind
  | push i n =>
    simp only [step] at hs
    split at hs; · simp at hs
    simp at hs; subst hs
    constructor <;> intros <;> simp_all [upd] <;> grind
  | end_ i =>
    simp only [step] at hs
    split at hs; · simp at hs
    simp at hs; subst hs
    constructor <;> intros <;> simp_all [upd] <;> grind
  | pick i =>
    simp only [step] at hs
    split at hs; · simp at hs
    simp at hs; subst hs
    constructor <;> intros <;> simp_all [upd, chunk] <;> grind
  | park =>
    simp only [step] at hs
    split at hs; · simp at hs
    simp at hs; subst hs
    have := hp rfl
    constructor <;> intros <;> simp_all [parkOk]
  | wake =>
    simp only [step] at hs
    split at hs
    · simp at hs; subst hs; constructor <;> intros <;> simp_all
    · split at hs
      · simp at hs; subst hs; constructor <;> intros <;> simp_all
      · simp at hs
  | winStream i k =>
    simp only [step] at hs
    simp at hs; subst hs
    constructor <;> intros <;> simp_all [upd] <;> grind
  | winConn k =>
    simp only [step] at hs
    simp at hs; subst hs
    constructor <;> intros <;> simp_all <;> grind
  | settings d =>
    simp only [step] at hs
    simp at hs; subst hs
    constructor <;> intros <;> simp_all <;> grind

end H2S
