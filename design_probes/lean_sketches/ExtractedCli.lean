/- GENERATED from /repo/src/hypercorn/__main__.py -/
namespace Extracted.Cli
structure Arg where
  flags : List String
  dest : String
  default : String
  action : String
deriving Repr, DecidableEq
structure Wire where
  guard : String
  attr : String
  source : String
  kind : String
deriving Repr, DecidableEq
def args : List Arg := [
  ⟨["application"], "application", "none", "store"⟩,
  ⟨["--access-log"], "access_log", "sentinel", "store"⟩,
  ⟨["--access-logfile"], "access_logfile", "sentinel", "store"⟩,
  ⟨["--access-logformat"], "access_logformat", "sentinel", "store"⟩,
  ⟨["--backlog"], "backlog", "sentinel", "store"⟩,
  ⟨["-b", "--bind"], "binds", "list", "append"⟩,
  ⟨["--ca-certs"], "ca_certs", "sentinel", "store"⟩,
  ⟨["--certfile"], "certfile", "sentinel", "store"⟩,
  ⟨["--cert-reqs"], "cert_reqs", "sentinel", "store"⟩,
  ⟨["--ciphers"], "ciphers", "sentinel", "store"⟩,
  ⟨["-c", "--config"], "config", "none", "store"⟩,
  ⟨["--debug"], "debug", "sentinel", "store_true"⟩,
  ⟨["--error-log"], "error_log", "sentinel", "store"⟩,
  ⟨["--error-logfile", "--log-file"], "error_logfile", "sentinel", "store"⟩,
  ⟨["--graceful-timeout"], "graceful_timeout", "sentinel", "store"⟩,
  ⟨["--read-timeout"], "read_timeout", "sentinel", "store"⟩,
  ⟨["--max-requests"], "max_requests", "sentinel", "store"⟩,
  ⟨["--max-requests-jitter"], "max_requests_jitter", "sentinel", "store"⟩,
  ⟨["-g", "--group"], "group", "sentinel", "store"⟩,
  ⟨["-k", "--worker-class"], "worker_class", "sentinel", "store"⟩,
  ⟨["--keep-alive"], "keep_alive", "sentinel", "store"⟩,
  ⟨["--keyfile"], "keyfile", "sentinel", "store"⟩,
  ⟨["--keyfile-password"], "keyfile_password", "sentinel", "store"⟩,
  ⟨["--insecure-bind"], "insecure_binds", "list", "append"⟩,
  ⟨["--log-config"], "log_config", "sentinel", "store"⟩,
  ⟨["--log-level"], "log_level", "sentinel", "store"⟩,
  ⟨["-p", "--pid"], "pid", "sentinel", "store"⟩,
  ⟨["--quic-bind"], "quic_binds", "list", "append"⟩,
  ⟨["--reload"], "reload", "sentinel", "store_true"⟩,
  ⟨["--root-path"], "root_path", "sentinel", "store"⟩,
  ⟨["--server-name"], "server_names", "list", "append"⟩,
  ⟨["--statsd-host"], "statsd_host", "sentinel", "store"⟩,
  ⟨["--statsd-prefix"], "statsd_prefix", "lit:''", "store"⟩,
  ⟨["-m", "--umask"], "umask", "sentinel", "store"⟩,
  ⟨["-u", "--user"], "user", "sentinel", "store"⟩,
  ⟨["--verify-mode"], "verify_mode", "sentinel", "store"⟩,
  ⟨["--websocket-ping-interval"], "websocket_ping_interval", "sentinel", "store"⟩,
  ⟨["-w", "--workers"], "workers", "sentinel", "store"⟩]
def wires : List Wire := [
  ⟨"log_level", "loglevel", "log_level", "sentinel"⟩,
  ⟨"access_logformat", "access_log_format", "access_logformat", "sentinel"⟩,
  ⟨"access_log", "accesslog", "access_log", "sentinel"⟩,
  ⟨"access_logfile", "accesslog", "access_logfile", "sentinel"⟩,
  ⟨"backlog", "backlog", "backlog", "sentinel"⟩,
  ⟨"ca_certs", "ca_certs", "ca_certs", "sentinel"⟩,
  ⟨"certfile", "certfile", "certfile", "sentinel"⟩,
  ⟨"cert_reqs", "cert_reqs", "cert_reqs", "sentinel"⟩,
  ⟨"ciphers", "ciphers", "ciphers", "sentinel"⟩,
  ⟨"debug", "debug", "debug", "sentinel"⟩,
  ⟨"error_log", "errorlog", "error_log", "sentinel"⟩,
  ⟨"error_logfile", "errorlog", "error_logfile", "sentinel"⟩,
  ⟨"graceful_timeout", "graceful_timeout", "graceful_timeout", "sentinel"⟩,
  ⟨"read_timeout", "read_timeout", "read_timeout", "sentinel"⟩,
  ⟨"group", "group", "group", "sentinel"⟩,
  ⟨"keep_alive", "keep_alive_timeout", "keep_alive", "sentinel"⟩,
  ⟨"keyfile", "keyfile", "keyfile", "sentinel"⟩,
  ⟨"keyfile_password", "keyfile_password", "keyfile_password", "sentinel"⟩,
  ⟨"log_config", "logconfig", "log_config", "sentinel"⟩,
  ⟨"max_requests", "max_requests", "max_requests", "sentinel"⟩,
  ⟨"max_requests_jitter", "max_requests_jitter", "max_requests", "sentinel"⟩,
  ⟨"pid", "pid_path", "pid", "sentinel"⟩,
  ⟨"root_path", "root_path", "root_path", "sentinel"⟩,
  ⟨"reload", "use_reloader", "reload", "sentinel"⟩,
  ⟨"statsd_host", "statsd_host", "statsd_host", "sentinel"⟩,
  ⟨"statsd_prefix", "statsd_prefix", "statsd_prefix", "sentinel"⟩,
  ⟨"umask", "umask", "umask", "sentinel"⟩,
  ⟨"user", "user", "user", "sentinel"⟩,
  ⟨"worker_class", "worker_class", "worker_class", "sentinel"⟩,
  ⟨"verify_mode", "verify_mode", "verify_mode", "sentinel"⟩,
  ⟨"websocket_ping_interval", "websocket_ping_interval", "websocket_ping_interval", "sentinel"⟩,
  ⟨"workers", "workers", "workers", "sentinel"⟩,
  ⟨"binds", "bind", "binds", "nonempty"⟩,
  ⟨"insecure_binds", "insecure_bind", "insecure_binds", "nonempty"⟩,
  ⟨"quic_binds", "quic_bind", "quic_binds", "nonempty"⟩,
  ⟨"server_names", "server_names", "server_names", "nonempty"⟩]
end Extracted.Cli
