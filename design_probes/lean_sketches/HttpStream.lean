/-! Prototype: HTTPStream.app_send as an Except-valued transducer (C02 / C12 shapes). -/
namespace HS

inductive St where | request | response | trailers | closed
deriving Repr, DecidableEq

inductive Err where | unexpected | badHeader | typeError
deriving Repr, DecidableEq

abbrev Bytes := List UInt8
abbrev Hdrs := List (Bytes × Bytes)

inductive Msg where
  | start (status : Nat) (hs : Hdrs) (hdrsOk : Bool) (trailers : Bool)
  | body (data : Bytes) (more : Bool)
  | trailersMsg (hs : Hdrs) (hdrsOk : Bool) (more : Bool)
  | other                             -- unknown type
deriving Repr

inductive Ev where
  | response (status : Nat) (hs : Hdrs)
  | body (data : Bytes)
  | endBody
  | trailers (hs : Hdrs)
  | streamClosed
  | access
deriving Repr, DecidableEq

structure S where
  st : St
  method : String
  h2 : Bool                 -- http_version ∈ TRAILERS_VERSIONS
  teTrailers : Bool         -- request carried (te, trailers)
  status : Nat := 0
  wantTrailers : Bool := false
deriving Repr

def suppress (method : String) (status : Nat) : Bool :=
  method == "HEAD" || (100 ≤ status && status < 200) || status == 204 || status == 304

def sendClosed (s : S) : S × List Ev := ({ s with st := .closed }, [.endBody, .access, .streamClosed])

def appSend (s : S) : Msg → Except Err (S × List Ev)
  | .start status hs ok tr =>
    if s.st = .request then
      if !ok then .error .badHeader
      else .ok ({ s with st := .response, status := status, wantTrailers := tr }, [.response status hs])
    else .error .unexpected
  | .body d more =>
    if s.st = .response then
      let evs := if !suppress s.method s.status && d ≠ [] then [Ev.body d] else []
      if more then .ok (s, evs)
      else if s.wantTrailers then .ok ({ s with st := .trailers }, evs)
      else let (s', e) := sendClosed s; .ok (s', evs ++ e)
    else .error .unexpected
  | .trailersMsg hs ok more =>
    if s.h2 && s.st = .trailers then
      if s.teTrailers && !ok then .error .badHeader else
      let evs := if s.teTrailers then [Ev.trailers hs] else []
      if more then .ok (s, evs) else let (s', e) := sendClosed s; .ok (s', evs ++ e)
    else .error .unexpected
  | .other => .error .unexpected

/-- feed a whole message list, collecting events; errors leave the state untouched (the app may go on) -/
def feed : S → List Msg → S × List Ev
  | s, [] => (s, [])
  | s, m :: ms => match appSend s m with
    | .ok (s', e) => let (s'', e') := feed s' ms; (s'', e ++ e')
    | .error _ => feed s ms

def countFinalHeads : List Ev → Nat
  | [] => 0
  | .response st _ :: r => (if st ≥ 200 then 1 else 0) + countFinalHeads r
  | _ :: r => countFinalHeads r

def countEnd : List Ev → Nat
  | [] => 0
  | .endBody :: r => 1 + countEnd r
  | _ :: r => countEnd r

@[simp] theorem countEnd_append (a b : List Ev) : countEnd (a ++ b) = countEnd a + countEnd b := by
  induction a with
  | nil => simp [countEnd]
  | cons x xs ih => cases x <;> simp [countEnd, ih] <;> omega

@[simp] theorem countFinalHeads_append (a b : List Ev) :
    countFinalHeads (a ++ b) = countFinalHeads a + countFinalHeads b := by
  induction a with
  | nil => simp [countFinalHeads]
  | cons x xs ih => cases x <;> simp [countFinalHeads, ih] <;> omega

/-- C12: a rejected message is a no-op (trivially: `.error` carries no state) and
    C02/C12: for ARBITRARY message sequences there is at most one EndBody and at most one response head. -/
def budgetEnd (s : S) : Nat := if s.st = .closed then 0 else 1
def budgetHead (s : S) : Nat := if s.st = .request then 1 else 0

theorem step_end (s s' : S) (m : Msg) (e : List Ev) (h : appSend s m = .ok (s', e)) :
    countEnd e + budgetEnd s' ≤ budgetEnd s := by
  cases m <;> simp only [appSend, sendClosed] at h <;> (repeat' split at h) <;>
    simp_all [budgetEnd, countEnd] <;> grind [countEnd]

theorem step_head (s s' : S) (m : Msg) (e : List Ev) (h : appSend s m = .ok (s', e)) :
    countFinalHeads e + budgetHead s' ≤ budgetHead s := by
  cases m <;> simp only [appSend, sendClosed] at h <;> (repeat' split at h) <;>
    simp_all [budgetHead, countFinalHeads] <;> grind [countFinalHeads]

theorem end_once (ms : List Msg) : ∀ s, countEnd (feed s ms).2 + budgetEnd (feed s ms).1 ≤ budgetEnd s := by
  induction ms with
  | nil => intro s; simp [feed, countEnd]
  | cons m ms ih =>
    intro s
    simp only [feed]
    split
    · rename_i s' e h
      have h1 := step_end s s' m e h
      have h2 := ih s'
      simp only [countEnd_append]; omega
    · exact ih s

theorem one_final_head (ms : List Msg) : ∀ s, countFinalHeads (feed s ms).2 + budgetHead (feed s ms).1 ≤ budgetHead s := by
  induction ms with
  | nil => intro s; simp [feed, countFinalHeads]
  | cons m ms ih =>
    intro s
    simp only [feed]
    split
    · rename_i s' e h
      have h1 := step_head s s' m e h
      have h2 := ih s'
      simp only [countFinalHeads_append]; omega
    · exact ih s

end HS
