import Hcmodel.ExtractedCli
open Extracted.Cli
namespace CliProps
/-- hand-written specification: destination (argparse dest) ↦ config attribute it must set -/
def spec : List (String × String) := [
  ("log_level","loglevel"), ("access_logformat","access_log_format"), ("access_log","accesslog"),
  ("access_logfile","accesslog"), ("backlog","backlog"), ("ca_certs","ca_certs"), ("certfile","certfile"),
  ("cert_reqs","cert_reqs"), ("ciphers","ciphers"), ("debug","debug"), ("error_log","errorlog"),
  ("error_logfile","errorlog"), ("graceful_timeout","graceful_timeout"), ("read_timeout","read_timeout"),
  ("group","group"), ("keep_alive","keep_alive_timeout"), ("keyfile","keyfile"),
  ("keyfile_password","keyfile_password"), ("log_config","logconfig"), ("max_requests","max_requests"),
  ("max_requests_jitter","max_requests_jitter"), ("pid","pid_path"), ("root_path","root_path"),
  ("reload","use_reloader"), ("statsd_host","statsd_host"), ("statsd_prefix","statsd_prefix"),
  ("umask","umask"), ("user","user"), ("worker_class","worker_class"), ("verify_mode","verify_mode"),
  ("websocket_ping_interval","websocket_ping_interval"), ("workers","workers"),
  ("binds","bind"), ("insecure_binds","insecure_bind"), ("quic_binds","quic_bind"), ("server_names","server_names")]

/-- every wire copies the argument it tests -/
def selfConsistent (w : Wire) : Bool := w.guard == w.source
/-- every wire whose argument is in the spec writes the attribute the spec names -/
def perSpec (w : Wire) : Bool := match spec.lookup w.guard with | some a => a == w.attr | none => true
/-- every optional argument that is wired defaults to the sentinel (or an empty list) -/
def defaultOk (a : Arg) : Bool := !(wires.any (·.guard == a.dest)) || a.default == "sentinel" || a.default == "list"

def badSelf := wires.filter (fun w => !selfConsistent w)
def badSpec := wires.filter (fun w => !perSpec w)
def badDefault := args.filter (fun a => !defaultOk a)
#eval (badSelf, badSpec, badDefault.map (·.dest))
-- as-is this is FALSE (F20, F21); after the fix commits it is a `decide` theorem:
-- theorem cli_wiring : badSelf = [] ∧ badSpec = [] ∧ badDefault = [] := by decide
theorem cli_wiring_as_is : badSelf.map (·.attr) = ["max_requests_jitter"] ∧ badDefault.map (·.dest) = ["statsd_prefix"] := by decide
end CliProps
