/-! Prototype: HTTP/1 connection model — reader, applications, idle timer, bounded app queue with
    blocked putters, stream close from three sources.  Proves: disconnect at most once / nothing after it,
    timer armed ⇒ not busy; exhibits the full-queue deadlock and the idle-EOF linger as model traces. -/
namespace Conn

inductive Their | idle | recv | done | mustClose | closed | err deriving Repr, DecidableEq
inductive Our | idle | sendResp | sendBody | done | mustClose | closed | err deriving Repr, DecidableEq
inductive Asgi | req | resp | fin deriving Repr, DecidableEq
inductive Put | body | endBody | disc deriving Repr, DecidableEq
inductive Who | reader | timer | app (i : Nat) deriving Repr, DecidableEq
inductive RPc | reading | inPut | parked | closing | finished deriving Repr, DecidableEq

structure Inst where
  started : Bool := false
  closed : Bool := false
  asgi : Asgi := .req
  q : Nat := 0                       -- messages in the app queue
  waiting : List (Who × Put) := []   -- blocked putters, FIFO
  exited : Bool := false             -- app task has run its `finally: send(None)`
  discPuts : Nat := 0                -- ghost: disconnect messages handed to the queue (or queued putters)
  afterDisc : Nat := 0               -- ghost: anything handed over after the disconnect
  access : Nat := 0
deriving Repr

structure St where
  inst : Nat → Inst
  n : Nat                  -- instances created
  cur : Option Nat         -- H11Protocol.stream
  their : Their
  our : Our
  keepAlive : Bool
  reader : RPc
  timer : Option Nat       -- armed deadline
  timerClosing : Bool      -- timer task blocked inside _initiate_server_close
  appClosing : Nat → Bool  -- app i blocked inside its own _close_stream put
  writerClosed : Bool
  terminated : Bool
  now : Nat
  busy : Bool              -- ghost: head complete ∧ response not ended
  cap : Nat
  T : Nat

def upd (f : Nat → Inst) (i : Nat) (v : Inst) : Nat → Inst := fun j => if j = i then v else f j
def updB (f : Nat → Bool) (i : Nat) (v : Bool) : Nat → Bool := fun j => if j = i then v else f j

/-- hand a message to instance `x`'s queue on behalf of `w`; returns the instance and whether `w` blocked -/
def put (cap : Nat) (x : Inst) (w : Who) (p : Put) : Inst × Bool :=
  let x1 := { x with afterDisc := x.afterDisc + (if x.discPuts > 0 then 1 else 0),
                     discPuts := x.discPuts + (if p = Put.disc then 1 else 0) }
  if x1.q < cap ∧ x1.waiting = [] then ({ x1 with q := x1.q + 1 }, false)
  else ({ x1 with waiting := x1.waiting ++ [(w, p)] }, true)

/-- `_close_stream` executed by task `w`: returns new state and whether `w` is now blocked in the put -/
def closeStream (s : St) (w : Who) : St × Bool :=
  match s.cur with
  | none => (s, false)
  | some i =>
    let x := s.inst i
    if x.closed then ({ s with cur := none }, false)     -- stream.handle returns at once
    else
      let x1 := { x with closed := true, access := x.access + (if x.asgi = .fin then 0 else 1) }
      let (x2, blocked) := put s.cap x1 w .disc
      if blocked then ({ s with inst := upd s.inst i x2 }, true)          -- `self.stream = None` not reached yet
      else ({ s with inst := upd s.inst i x2, cur := none }, false)

/-- the part of `_maybe_recycle` after `_close_stream` -/
def afterClose (s : St) : St :=
  if !s.terminated ∧ s.our = .done ∧ s.their = .done then
    { s with their := .idle, our := .idle, busy := false, timer := some (s.now + s.T),
             reader := if s.reader = .parked then .reading else s.reader }
  else
    { s with writerClosed := true, timer := none, busy := false,
             reader := if s.reader = .parked then .reading else s.reader }

def maybeRecycle (s : St) (w : Who) : St :=
  let (s1, blocked) := closeStream s w
  if blocked then
    match w with
    | .app i => { s1 with appClosing := updB s1.appClosing i true }
    | _ => s1
  else afterClose s1

inductive Op where
  | head (hasBody keepAlive : Bool)
  | bodyChunk | bodyEnd | park
  | appRecv (i : Nat) | appStart (i : Nat) | appFinish (i : Nat) | appExit (i : Nat)
  | eof | timerFire | tick (d : Nat) | terminate

def wake (s : St) (w : Who) (p : Put) : St :=
  -- a blocked putter's message has just been accepted: run its continuation
  match w, p with
  | .reader, .disc => { s with cur := none, reader := .finished }                 -- K1
  | .reader, _ => { s with reader := .reading }
  | .timer, _ => { s with cur := none, timerClosing := false, writerClosed := true }   -- K2
  | .app i, _ => afterClose { s with cur := none, appClosing := updB s.appClosing i false }  -- K3

def step (s : St) : Op → Option St
  | .head hasBody ka =>
    if s.reader = .reading ∧ s.their = .idle ∧ s.cur = none ∧ !s.writerClosed then
      some { s with inst := upd s.inst s.n { started := true }, n := s.n + 1, cur := some s.n,
                    their := (if hasBody then .recv else if ka then .done else .mustClose),
                    our := .sendResp, keepAlive := ka, timer := none, busy := true }
    else none
  | .bodyChunk =>
    match s.cur with
    | some i =>
      if s.reader = .reading ∧ s.their = .recv then
        let x := s.inst i
        if x.closed then some s else
        let (x', b) := put s.cap x .reader .body
        some { s with inst := upd s.inst i x', reader := if b then .inPut else .reading }
      else none
    | none => none
  | .bodyEnd =>
    match s.cur with
    | some i =>
      if s.reader = .reading ∧ s.their = .recv then
        let x := s.inst i
        let s1 := { s with their := if s.keepAlive then .done else .mustClose }
        if x.closed then some s1 else
        let (x', b) := put s.cap x .reader .endBody
        some { s1 with inst := upd s.inst i x', reader := if b then .inPut else .reading }
      else none
    | none => none
  | .park => if s.reader = .reading ∧ s.their = .done then some { s with reader := .parked } else none
  | .appRecv i =>
    let x := s.inst i
    if x.started ∧ !x.exited ∧ x.q > 0 then
      match x.waiting with
      | [] => some { s with inst := upd s.inst i { x with q := x.q - 1 } }
      | (w, p) :: rest => some (wake { s with inst := upd s.inst i { x with waiting := rest } } w p)
    else none
  | .appStart i =>
    let x := s.inst i
    if x.started ∧ !x.exited ∧ x.asgi = .req ∧ !s.appClosing i then
      some { s with inst := upd s.inst i { x with asgi := .resp },
                    our := if s.cur = some i ∧ s.our = .sendResp then .sendBody else s.our }
    else none
  | .appFinish i =>
    let x := s.inst i
    if x.started ∧ !x.exited ∧ x.asgi = .resp ∧ !s.appClosing i then
      let s1 := { s with inst := upd s.inst i { x with asgi := .fin, access := x.access + 1 },
                         our := if s.cur = some i ∧ s.our = .sendBody then (if s.keepAlive then .done else .mustClose) else s.our }
      some (maybeRecycle s1 (.app i))
    else none
  | .appExit i =>
    let x := s.inst i
    if x.started ∧ !x.exited ∧ !s.appClosing i then
      let s0 := { s with inst := upd s.inst i { x with exited := true } }
      if x.closed then some s0
      else
        let x1 := { (s0.inst i) with asgi := .fin, access := x.access + (if x.asgi = .req then 1 else 0) }
        let s1 := { s0 with inst := upd s0.inst i x1,
                            our := if x.asgi = .req ∧ s.cur = some i ∧ s.our = .sendResp then .mustClose else s.our }
        some (maybeRecycle s1 (.app i))
    else none
  | .eof =>
    if s.reader = .reading then
      let (s1, blocked) := closeStream { s with their := if s.their = .recv then .err else .closed } .reader
      some { s1 with reader := if blocked then .closing else .finished }
    else none
  | .timerFire =>
    match s.timer with
    | some d =>
      if (d ≤ s.now ∨ s.terminated) ∧ !s.timerClosing then
        let (s1, blocked) := closeStream { s with timer := none } .timer
        some (if blocked then { s1 with timerClosing := true } else { s1 with writerClosed := true })
      else none
    | none => none
  | .tick d => some { s with now := s.now + d }
  | .terminate => some { s with terminated := true }

def run : St → List Op → Option St
  | s, [] => some s
  | s, o :: os => match step s o with
    | none => none
    | some s' => run s' os

def init (cap T : Nat) : St :=
  { inst := fun _ => {}, n := 0, cur := none, their := .idle, our := .idle, keepAlive := true,
    reader := .reading, timer := some T, timerClosing := false, appClosing := fun _ => false,
    writerClosed := false, terminated := false, now := 0, busy := false, cap := cap, T := T }

/-- the handler (task group) is finished -/
def handlerDone (s : St) : Bool :=
  s.reader == .finished && s.timer.isNone && !s.timerClosing &&
  (List.range s.n).all (fun i => (s.inst i).exited && !s.appClosing i)

/-! ### invariants -/
structure Inv (s : St) : Prop where
  once : ∀ i, (s.inst i).discPuts ≤ 1 ∧ (s.inst i).afterDisc = 0 ∧ ((s.inst i).discPuts = 1 → (s.inst i).closed = true)
  armed : s.timer.isSome = true → s.busy = false

theorem put_disc (cap : Nat) (x : Inst) (w : Who) (h0 : x.discPuts = 0) (ha : x.afterDisc = 0) :
    (put cap x w .disc).1.discPuts = 1 ∧ (put cap x w .disc).1.afterDisc = 0 ∧
    (put cap x w .disc).1.closed = x.closed := by
  unfold put; simp [h0, ha]; split <;> simp

theorem put_nondisc (cap : Nat) (x : Inst) (w : Who) (p : Put) (hp : p ≠ .disc) (h0 : x.discPuts = 0) (ha : x.afterDisc = 0) :
    (put cap x w p).1.discPuts = 0 ∧ (put cap x w p).1.afterDisc = 0 ∧ (put cap x w p).1.closed = x.closed := by
  unfold put; simp [h0, ha, hp]; split <;> simp


/-! ### witnesses (replayed on the implementation by the harness) -/
-- F25: EOF on an idle connection: the handler is not done until the idle timer fires
example : (run (init 10 5) [.eof]).map handlerDone = some false := by decide
example : (run (init 10 5) [.eof, .tick 5, .timerFire]).map handlerDone = some true := by decide
-- F08: queue full, application gone: the disconnect put blocks, nothing can ever unblock it
def f08 : List Op := [.head true true, .bodyChunk, .bodyChunk, .appExit 0]
example : (run (init 1 5) f08).map (fun s => (s.reader, s.appClosing 0, (s.inst 0).waiting.length, handlerDone s))
    = some (.inPut, true, 2, false) := by decide
-- ... and every further operation except time and terminate is disabled
example : (run (init 1 5) f08).map (fun s => [Op.eof, .timerFire, .appRecv 0, .appExit 0, .bodyChunk, .bodyEnd, .park,
    .head false true].map (fun o => (step s o).isSome)) = some (List.replicate 8 false) := by decide

def closedInst (s : St) (i : Nat) (w : Who) : Inst :=
  (put s.cap { (s.inst i) with closed := true, access := (s.inst i).access + (if (s.inst i).asgi = .fin then 0 else 1) } w .disc).1

theorem closeStream_open (s : St) (w : Who) (i : Nat) (hc : s.cur = some i) (hcl : (s.inst i).closed = false) :
    (closeStream s w).1.inst = upd s.inst i (closedInst s i w) ∧ (closeStream s w).1.timer = s.timer ∧
    (closeStream s w).1.busy = s.busy := by
  simp only [closeStream, hc, hcl, closedInst]
  by_cases hb : (put s.cap { (s.inst i) with closed := true, access := (s.inst i).access + (if (s.inst i).asgi = .fin then 0 else 1) } w Put.disc).2 = true
  · simp [hb]
  · simp [hb]

theorem closeStream_inv (s : St) (w : Who) (h : Inv s) : Inv (closeStream s w).1 := by
  obtain ⟨h1, h2⟩ := h
  cases hc : s.cur with
  | none => simp only [closeStream, hc]; exact ⟨h1, h2⟩
  | some i =>
    have hi := h1 i
    by_cases hcl : (s.inst i).closed = true
    · simp only [closeStream, hc, hcl]; exact ⟨h1, h2⟩
    · have hcl' : (s.inst i).closed = false := by simpa using hcl
      have h0 : (s.inst i).discPuts = 0 := by
        rcases hi with ⟨a, _, c⟩
        by_cases hz : (s.inst i).discPuts = 0
        · exact hz
        · have : (s.inst i).discPuts = 1 := by omega
          exact absurd (c this) hcl
      have hp := put_disc s.cap { (s.inst i) with closed := true, access := (s.inst i).access + (if (s.inst i).asgi = .fin then 0 else 1) } w h0 hi.2.1
      simp only at hp
      obtain ⟨e1, e2, e3⟩ := closeStream_open s w i hc hcl'
      constructor
      · intro j
        rw [e1]
        by_cases hj : j = i
        · subst hj; simp only [upd, if_true, closedInst]
          obtain ⟨p1, p2, p3⟩ := hp
          refine ⟨by omega, p2, fun _ => by simpa using p3⟩
        · simp only [upd, hj, if_false]; exact h1 j
      · rw [e2, e3]; exact h2


def InstOk (x : Inst) : Prop := x.discPuts ≤ 1 ∧ x.afterDisc = 0 ∧ (x.discPuts = 1 → x.closed = true)

theorem inv_upd (s s' : St) (h : Inv s) (i : Nat) (x : Inst) (hx : InstOk x)
    (hi : s'.inst = upd s.inst i x) (ht : s'.timer.isSome = true → s'.busy = false) : Inv s' := by
  constructor
  · intro j; rw [hi]
    by_cases hj : j = i
    · subst hj; simpa [upd, InstOk] using hx
    · simpa [upd, hj] using h.once j
  · exact ht

theorem inv_same (s s' : St) (h : Inv s) (hi : s'.inst = s.inst)
    (ht : s'.timer.isSome = true → s'.busy = false) : Inv s' :=
  ⟨by intro j; rw [hi]; exact h.once j, ht⟩

theorem afterClose_inv (s : St) (h : Inv s) : Inv (afterClose s) := by
  unfold afterClose
  split
  · exact inv_same s _ h rfl (by simp)
  · exact inv_same s _ h rfl (by simp)

theorem maybeRecycle_inv (s : St) (w : Who) (h : Inv s) : Inv (maybeRecycle s w) := by
  have hc := closeStream_inv s w h
  unfold maybeRecycle
  simp only []
  split
  · cases w with
    | app i => exact inv_same _ _ hc rfl hc.armed
    | reader => exact hc
    | timer => exact hc
  · exact afterClose_inv _ hc

theorem wake_inv (s : St) (w : Who) (p : Put) (h : Inv s) : Inv (wake s w p) := by
  cases w with
  | reader => cases p <;> exact inv_same s _ h rfl h.armed
  | timer => exact inv_same s _ h rfl h.armed
  | app i => exact afterClose_inv _ (inv_same s _ h rfl h.armed)

theorem instOk_put_nondisc (cap : Nat) (x : Inst) (w : Who) (p : Put) (hp : p ≠ .disc) (hx : InstOk x)
    (hc : x.closed = false) : InstOk (put cap x w p).1 := by
  obtain ⟨a, b, c⟩ := hx
  have h0 : x.discPuts = 0 := by
    by_cases hz : x.discPuts = 0
    · exact hz
    · have : x.discPuts = 1 := by omega
      have := c this; simp_all
  obtain ⟨p1, p2, p3⟩ := put_nondisc cap x w p hp h0 b
  exact ⟨by omega, p2, by omega⟩

theorem inv_step (s s' : St) (o : Op) (h : Inv s) (hs : step s o = some s') : Inv s' := by
  cases o with
  | head hb ka =>
    simp only [step] at hs
    split at hs
    · simp at hs; subst hs
      exact inv_upd s _ h s.n { started := true } ⟨by simp, by simp, by simp⟩ rfl (by simp)
    · simp at hs
  | bodyChunk =>
    simp only [step] at hs
    split at hs
    · rename_i i hc
      split at hs
      · by_cases hcl : (s.inst i).closed = true
        · simp [hcl] at hs; subst hs; exact h
        · simp [hcl] at hs; subst hs
          exact inv_upd s _ h i _ (instOk_put_nondisc s.cap (s.inst i) .reader .body (by simp) (h.once i) (by simpa using hcl)) rfl h.armed
      · simp at hs
    · simp at hs
  | bodyEnd =>
    simp only [step] at hs
    split at hs
    · rename_i i hc
      split at hs
      · by_cases hcl : (s.inst i).closed = true
        · simp [hcl] at hs; subst hs; exact inv_same s _ h rfl h.armed
        · simp [hcl] at hs; subst hs
          exact inv_upd s _ h i _ (instOk_put_nondisc s.cap (s.inst i) .reader .endBody (by simp) (h.once i) (by simpa using hcl)) rfl h.armed
      · simp at hs
    · simp at hs
  | park =>
    simp only [step] at hs
    split at hs
    · simp at hs; subst hs; exact inv_same s _ h rfl h.armed
    · simp at hs
  | appRecv i =>
    simp only [step] at hs
    split at hs
    · split at hs
      · simp at hs; subst hs
        exact inv_upd s _ h i _ (by simpa [InstOk] using h.once i) rfl h.armed
      · rename_i w p rest hw
        simp at hs; subst hs
        exact wake_inv _ w p (inv_upd s _ h i _ (by simpa [InstOk] using h.once i) rfl h.armed)
    · simp at hs
  | appStart i =>
    simp only [step] at hs
    split at hs
    · simp at hs; subst hs
      exact inv_upd s _ h i _ (by simpa [InstOk] using h.once i) rfl h.armed
    · simp at hs
  | appFinish i =>
    simp only [step] at hs
    split at hs
    · simp at hs; subst hs
      exact maybeRecycle_inv _ _ (inv_upd s _ h i _ (by simpa [InstOk] using h.once i) rfl h.armed)
    · simp at hs
  | appExit i =>
    simp only [step] at hs
    split at hs
    · have h0 : Inv { s with inst := upd s.inst i { (s.inst i) with exited := true } } :=
        inv_upd s _ h i _ (by simpa [InstOk] using h.once i) rfl h.armed
      split at hs
      · simp at hs; subst hs; exact h0
      · simp at hs; subst hs
        refine maybeRecycle_inv _ _ (inv_upd _ _ h0 i _ ?_ rfl h.armed)
        simpa [InstOk, upd] using h.once i
    · simp at hs
  | eof =>
    simp only [step] at hs
    split at hs
    · simp at hs; subst hs
      have := closeStream_inv { s with their := if s.their = .recv then .err else .closed } .reader (inv_same s _ h rfl h.armed)
      exact inv_same _ _ this rfl this.armed
    · simp at hs
  | timerFire =>
    simp only [step] at hs
    split at hs
    · split at hs
      · simp at hs; subst hs
        have := closeStream_inv { s with timer := none } .timer (inv_same s _ h rfl (by simp))
        split <;> exact inv_same _ _ this rfl this.armed
      · simp at hs
    · simp at hs
  | tick d =>
    simp only [step] at hs; simp at hs; subst hs; exact inv_same s _ h rfl h.armed
  | terminate =>
    simp only [step] at hs; simp at hs; subst hs; exact inv_same s _ h rfl h.armed

theorem inv_init (cap T : Nat) : Inv (init cap T) := ⟨by intro i; simp [init], by simp [init]⟩

/-- C03 `disconnect_at_most_once` and C07 `busy_never_timed_out` for every operation sequence
    (every schedule, every queue capacity, every timeout). -/
theorem safety (cap T : Nat) (ops : List Op) (s : St) (hr : run (init cap T) ops = some s) :
    (∀ i, (s.inst i).discPuts ≤ 1 ∧ (s.inst i).afterDisc = 0) ∧ (s.timer.isSome = true → s.busy = false) := by
  suffices ∀ ops s0 s, Inv s0 → run s0 ops = some s → Inv s by
    have hI := this ops _ s (inv_init cap T) hr
    exact ⟨fun i => ⟨(hI.once i).1, (hI.once i).2.1⟩, hI.armed⟩
  intro ops
  induction ops with
  | nil => intro s0 s h hr; simp [run] at hr; subst hr; exact h
  | cons o os ih =>
    intro s0 s h hr
    simp only [run] at hr
    split at hr
    · simp at hr
    · rename_i s1 hs1; exact ih s1 s (inv_step s0 s1 o h hs1) hr

end Conn
