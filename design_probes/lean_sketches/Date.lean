/-! Prototype: RFC 7231 IMF-fixdate from epoch seconds (what wsgiref.handlers.format_date_time prints). -/
namespace Date

/-- civil from days since 1970-01-01 (Howard Hinnant), for non-negative day counts -/
def civil (z0 : Nat) : Nat × Nat × Nat :=
  let z := z0 + 719468
  let era := z / 146097
  let doe := z - era * 146097                                  -- [0, 146096]
  let yoe := (doe - doe / 1460 + doe / 36524 - doe / 146096) / 365   -- [0, 399]
  let y := yoe + era * 400
  let doy := doe - (365 * yoe + yoe / 4 - yoe / 100)           -- [0, 365]
  let mp := (5 * doy + 2) / 153                                 -- [0, 11]
  let d := doy - (153 * mp + 2) / 5 + 1                         -- [1, 31]
  let m := if mp < 10 then mp + 3 else mp - 9                   -- [1, 12]
  (if m ≤ 2 then y + 1 else y, m, d)

def weekday (days : Nat) : Nat := (days + 3) % 7   -- 0 = Monday; 1970-01-01 was a Thursday

structure Fields where
  wd : Nat
  day : Nat
  mon : Nat
  year : Nat
  hh : Nat
  mm : Nat
  ss : Nat
deriving Repr, DecidableEq

def fields (t : Nat) : Fields :=
  let days := t / 86400
  let rem := t % 86400
  let (y, m, d) := civil days
  { wd := weekday days, day := d, mon := m, year := y, hh := rem / 3600, mm := rem % 3600 / 60, ss := rem % 60 }

theorem fields_in_range (t : Nat) (ht : t ≤ 253402300799) :
    let f := fields t
    f.wd < 7 ∧ 1 ≤ f.day ∧ f.day ≤ 31 ∧ 1 ≤ f.mon ∧ f.mon ≤ 12 ∧ f.year ≤ 9999 ∧
    f.hh < 24 ∧ f.mm < 60 ∧ f.ss < 60 := by
  simp only [fields, civil, weekday]
  refine ⟨by omega, ?_⟩
  split <;> split <;> omega

example : fields 5000 = ⟨3, 1, 1, 1970, 1, 23, 20⟩ := by decide   -- "Thu, 01 Jan 1970 01:23:20 GMT" of the pinned tests
example : fields 1790736000 = ⟨2, 30, 9, 2026, 2, 40, 0⟩ := by decide
end Date

-- NOTE: `1970 ≤ year` needs a finer case analysis than one `omega` call (Lean's omega is incomplete here);
-- not needed for well-formedness (year ≤ 9999, all fields in range).  Calendar agreement with Python is a tie check.
