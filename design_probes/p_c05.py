import asyncio, h2.connection, h2.config, h2.events
from drv import *

async def crash_after_start(scope, receive, send):
    await send({"type":"http.response.start","status":200,"headers":[(b"content-length",b"10")]})
    await send({"type":"http.response.body","body":b"12345","more_body":True})
    raise RuntimeError("boom")

async def main():
    srv, task, log, ctx = mk(crash_after_start, http2=True)
    c = h2.connection.H2Connection(h2.config.H2Configuration(client_side=True, header_encoding=None))
    c.initiate_connection()
    await srv.reader.send(c.data_to_send()); await settle()
    c.send_headers(1, [(b":method",b"GET"),(b":path",b"/"),(b":scheme",b"https"),(b":authority",b"x")], end_stream=True)
    await srv.reader.send(c.data_to_send()); await settle(200)
    evs = c.receive_data(bytes(srv.writer.out))
    print([type(e).__name__ for e in evs])
    print("log exc", log.exc, "acc", log.acc)
    print("streams", srv.protocol.protocol.streams, "buffers", list(srv.protocol.protocol.stream_buffers))
    print("task done", task.done())
asyncio.run(main())
