import asyncio, vloop
from drv import *
async def ok_app(scope, receive, send):
    while True:
        m = await receive()
        if m["type"]=="http.disconnect": return
        if m["type"]=="http.request" and not m.get("more_body"):
            await send({"type":"http.response.start","status":200,"headers":[(b"content-length",b"0")]})
            await send({"type":"http.response.body","body":b""}); return
async def main(send_request):
    loop = asyncio.get_running_loop()
    srv, task, log, ctx = mk(ok_app, keep_alive_timeout=5)
    t0 = loop.time(); ev=[]
    oc = srv.writer.close
    def close(): ev.append(("writer.close", loop.time()-t0)); oc()
    srv.writer.close = close
    task.add_done_callback(lambda t: ev.append(("handler done", loop.time()-t0)))
    await asyncio.sleep(1)
    if send_request:
        await srv.reader.send(b"GET / HTTP/1.1\r\nhost: x\r\n\r\n"); await asyncio.sleep(1)
    srv.reader.close(); ev.append(("client EOF", loop.time()-t0))
    await asyncio.sleep(20)
    print("request" if send_request else "no request", ev)
vloop.run(main(True)); vloop.run(main(False))
