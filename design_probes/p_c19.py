import hypercorn.__main__ as m, hypercorn.config as c
from unittest.mock import patch
import tempfile, os
def cfg(args):
    with patch.object(m, "run") as r:
        m.main(["asgi:app"]+args); return r.call_args[0][0]
x = cfg(["--max-requests-jitter","7"]); print("jitter flag alone ->", x.max_requests, x.max_requests_jitter)
x = cfg(["--max-requests","100","--max-requests-jitter","7"]); print("both ->", x.max_requests, x.max_requests_jitter)
with tempfile.NamedTemporaryFile("w",suffix=".toml",delete=False) as f:
    f.write('statsd_prefix = "pre"\nkeep_alive_timeout = 9\n'); p=f.name
x = cfg(["-c",p]); print("toml statsd_prefix ->", repr(x.statsd_prefix), x.keep_alive_timeout); os.unlink(p)
import socket
conf = c.Config()
for b in ["[::1]", "::1", "[::1]:0", "localhost", "127.0.0.1:0", "[::]"]:
    b2 = b.replace("[","").replace("]","")
    try:
        v = b2.rsplit(":",1); host,port = v[0], int(v[1])
    except (ValueError, IndexError): host,port=b2,8000
    print(b, "->", (host,port))
