import asyncio, base64, h2.connection, h2.config, h2.events, h2.settings, h11
from drv import *
got=[]
async def echo(scope, receive, send):
    body=b""
    while True:
        m = await receive()
        if m["type"]=="http.request":
            body += m.get("body", b"")
            if not m.get("more_body"): break
        else: return
    got.append((scope["http_version"], scope["method"], scope["path"], body))
    await send({"type":"http.response.start","status":200,"headers":[(b"content-length",b"2")]})
    await send({"type":"http.response.body","body":b"ok"})
def opening(with_body=False):
    c = h2.connection.H2Connection(h2.config.H2Configuration(client_side=True, header_encoding=None))
    settings = c.initiate_upgrade_connection()
    hdr = b"POST" if with_body else b"GET"
    req = hdr + b" /up HTTP/1.1\r\nhost: x\r\nconnection: Upgrade, HTTP2-Settings\r\nupgrade: h2c\r\nhttp2-settings: " + settings + b"\r\n"
    if with_body: req += b"content-length: 3\r\n"
    req += b"\r\n"
    if with_body: req += b"abc"
    pre = c.data_to_send()   # preface + settings
    c.send_headers(3, [(b":method",b"GET"),(b":path",b"/second"),(b":scheme",b"http"),(b":authority",b"x")], end_stream=True)
    return c, req, pre + c.data_to_send()
async def run(split, with_body=False):
    got.clear()
    srv, task, log, ctx = mk(echo)
    c, req, rest = opening(with_body)
    data = req + rest
    for part in (data[:split], data[split:]):
        if part: await srv.reader.send(part); await settle(40)
    out = bytes(srv.writer.out)
    res = None
    if out.startswith(b"HTTP/1.1 101"):
        idx = out.index(b"\r\n\r\n")+4
        try:
            evs = c.receive_data(out[idx:])
            res = ("101", sorted((type(e).__name__, getattr(e,'stream_id',0)) for e in evs if isinstance(e,(h2.events.ResponseReceived,h2.events.StreamEnded))))
        except Exception as e: res=("101", repr(e))
    else: res = (out[:12],)
    task.cancel()
    return str((res, sorted(got))), len(data)
async def main():
    outs = {}
    _, n = await run(1)
    for s in range(0, n+1):
        r,_ = await run(s); outs.setdefault(r, []).append(s)
    for k,v in outs.items(): print(len(v), "splits ->", k[:300])
    r,_ = await run(0, with_body=True); print("with body:", r[:300])
asyncio.run(main())
