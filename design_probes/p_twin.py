import json, sys
from twin import *
OK = [("recv_body",), ("send", {"type":"http.response.start","status":200,"headers":[(b"content-length",b"2")]}), ("send", {"type":"http.response.body","body":b"ok"}), ("recv",)]
SLOW = [("recv_body",), ("sleep", 7), ("send", {"type":"http.response.start","status":200,"headers":[(b"content-length",b"2")]}), ("send", {"type":"http.response.body","body":b"ok"})]
CRASH_MID = [("recv_body",), ("send", {"type":"http.response.start","status":200,"headers":[(b"content-length",b"10")]}), ("send", {"type":"http.response.body","body":b"12345","more_body":True}), ("raise",)]
CRASH_EARLY = [("raise",)]
NOREAD_RET = [("return",)]
WS = [("recv",), ("send", {"type":"websocket.accept"}), ("recv_until_disconnect",)]
REQ = b"GET /%d HTTP/1.1\r\nhost: x\r\n\r\n"
POST = b"POST /p HTTP/1.1\r\nhost: x\r\ncontent-length: 10\r\n\r\n"
scenarios = {
 "get": {"apps":[OK], "client":[("send", REQ%1), ("wait", 1)]},
 "pipeline3_oneread": {"apps":[OK], "client":[("send", REQ%1+REQ%2+REQ%3), ("wait", 1)]},
 "post_split": {"apps":[OK], "client":[("send", POST[:20]), ("wait",1), ("send", POST[20:]+b"01234"), ("wait",1), ("send", b"56789")]},
 "eof_mid_request_slowapp": {"apps":[SLOW], "client":[("send", REQ%1), ("wait", 1), ("eof",)]},
 "eof_idle": {"apps":[OK], "client":[("send", REQ%1), ("wait", 1), ("eof",)]},
 "idle_timeout": {"apps":[OK], "client":[("wait", 2), ("send", REQ%1)]},
 "partial_head_timeout": {"apps":[OK], "client":[("send", b"GET / HT")]},
 "malformed": {"apps":[OK], "client":[("send", b"GARBAGE\r\n\r\n")]},
 "crash_mid": {"apps":[CRASH_MID], "client":[("send", REQ%1)]},
 "crash_early": {"apps":[CRASH_EARLY], "client":[("send", REQ%1)]},
 "return_early_then_next": {"apps":[NOREAD_RET, OK], "client":[("send", REQ%1), ("wait",1), ("send", REQ%2)]},
 "conn_close": {"apps":[OK], "client":[("send", b"GET /c HTTP/1.1\r\nhost: x\r\nconnection: close\r\n\r\n" + REQ%2)]},
 "http10": {"apps":[OK], "client":[("send", b"GET /c HTTP/1.0\r\n\r\n")]},
 "max_requests_2": {"config":{"keep_alive_max_requests":2}, "apps":[OK], "client":[("send", REQ%1), ("wait",1), ("send", REQ%2), ("wait",1), ("send", REQ%3)]},
 "early_response_unread_body": {"apps":[[("send", {"type":"http.response.start","status":200,"headers":[(b"content-length",b"0")]}), ("send", {"type":"http.response.body","body":b""})]], "client":[("send", POST), ("wait",1), ("send", b"0123456789"+REQ%2)]},
 "expect_100": {"apps":[OK], "client":[("send", b"POST /p HTTP/1.1\r\nhost: x\r\ncontent-length: 3\r\nexpect: 100-continue\r\n\r\n"), ("wait",1), ("send", b"abc")]},
 "ws_bad_version": {"apps":[WS], "client":[("send", b"GET / HTTP/1.1\r\nhost: x\r\nupgrade: websocket\r\nconnection: upgrade\r\nsec-websocket-version: 12\r\nsec-websocket-key: abc\r\n\r\n")]},
 "server_name_404": {"config":{"server_names":["good"]}, "apps":[OK], "client":[("send", REQ%1)]},
 "head": {"apps":[OK], "client":[("send", b"HEAD /h HTTP/1.1\r\nhost: x\r\n\r\n")]},
 "upgrade_other": {"apps":[OK], "client":[("send", b"GET /u HTTP/1.1\r\nhost: x\r\nupgrade: foo\r\nconnection: upgrade\r\n\r\n"), ("wait",1), ("send", REQ%2)]},
}
for name, sc in scenarios.items():
    a = norm(run_asyncio(sc)); t = norm(run_trio(sc))
    diffs = [k for k in a if a[k]!=t[k]]
    print(f"== {name}: {'SAME' if not diffs else 'DIFF '+','.join(diffs)}")
    show = lambda r: {k:(v if k!="bytes" else v[:70]) for k,v in r.items() if k in ("bytes","close","handler_done","error","access","exc","data_times")}
    print("   asyncio", show(a)); 
    if diffs: print("   trio   ", show(t))
    if "apps" in diffs: print("   apps a", a["apps"]); print("   apps t", t["apps"])
