from hypercorn.app_wrappers import _build_environ, InvalidPathError
base = {"type":"http","http_version":"1.1","method":"POST","path":"/","root_path":"","query_string":b"","headers":[],"server":("h",8080),"client":("c",1),"scheme":"http"}
def env(**kw):
    sc = dict(base, **kw)
    try:
        e = _build_environ(sc, b"body"); e["wsgi.input"] = e["wsgi.input"].read(); e.pop("wsgi.errors"); return e
    except Exception as ex: return repr(ex)
show = lambda e, ks: {k:e.get(k) for k in ks} if isinstance(e, dict) else e
print(show(env(path="/app/café/x", root_path="/app"), ["SCRIPT_NAME","PATH_INFO"]))
print(show(env(path="/app", root_path="/app"), ["SCRIPT_NAME","PATH_INFO"]))
print(show(env(path="/apple", root_path="/app"), ["SCRIPT_NAME","PATH_INFO"]))
print(show(env(path="/other", root_path="/app"), ["SCRIPT_NAME","PATH_INFO"]))
print(show(env(headers=[(b"x-a",b"1"),(b"content-type",b"t/p"),(b"x-a",b"2"),(b"content-length",b"4"),(b"X-B",b"3"),(b"x_a",b"9")]), ["HTTP_X_A","CONTENT_TYPE","CONTENT_LENGTH","HTTP_X_B","HTTP_X-B"]))
print(show(env(query_string=b"a=%C3%A9&b"), ["QUERY_STRING","SERVER_PORT","SERVER_PROTOCOL","REQUEST_METHOD","wsgi.input","REMOTE_ADDR"]))
print(show(env(query_string=b"a=\xc3\xa9"), ["QUERY_STRING"]))
print(show(env(headers=[(b"proxy", b"x")]), ["HTTP_PROXY"]))
