import asyncio, copy
from hypercorn.middleware import ProxyFixMiddleware, DispatcherMiddleware, HTTPToHTTPSRedirectMiddleware
from hypercorn.middleware.proxy_fix import _get_trusted_value
seen=[]
async def inner(scope, receive, send): seen.append(scope)
def run(mw, scope):
    seen.clear(); sent=[]
    async def send(m): sent.append(m)
    asyncio.run(mw(scope, None, send)); return (seen[0] if seen else None), sent
base = {"type":"http","scheme":"http","client":("1.1.1.1",5),"headers":[],"path":"/","raw_path":b"/","query_string":b"","root_path":"","http_version":"1.1","method":"GET","server":("s",80)}
# prefix independence
for hops in (1,2,3):
    trusted=[(b"x-forwarded-for", b"9.9.9.%d"%i) for i in range(hops)]
    s0 = dict(base, headers=[(b"host",b"h")]+trusted)
    s1 = dict(base, headers=[(b"x-forwarded-for", b"6.6.6.6, 7.7.7.7"),(b"host",b"h")]+trusted)
    a,_=run(ProxyFixMiddleware(inner, "legacy", hops), s0); b,_=run(ProxyFixMiddleware(inner, "legacy", hops), s1)
    print("hops",hops,"client without/with attacker prefix:", a["client"], b["client"])
# too few
s = dict(base, headers=[(b"x-forwarded-for", b"6.6.6.6")]); a,_=run(ProxyFixMiddleware(inner,"legacy",2), s); print("too few ->", a["client"], a is s)
# modern
s = dict(base, headers=[(b"forwarded", b"for=1.2.3.4;proto=https;host=ex.com, for=5.6.7.8; proto=http ;host=in.com")])
a,_=run(ProxyFixMiddleware(inner,"modern",1), s); print("modern hop1:", a["client"], a["scheme"], [h for h in a["headers"] if h[0]==b"host"])
a,_=run(ProxyFixMiddleware(inner,"modern",2), s); print("modern hop2:", a["client"], a["scheme"], [h for h in a["headers"] if h[0]==b"host"])
# modern mode without Forwarded falls back to x-forwarded-*
s = dict(base, headers=[(b"x-forwarded-for", b"6.6.6.6")]); a,_=run(ProxyFixMiddleware(inner,"modern",1), s); print("modern fallback to legacy header:", a["client"])
# mutation
orig = dict(base, headers=[(b"x-forwarded-for", b"6.6.6.6"),(b"x-forwarded-host", b"evil")]); snap=copy.deepcopy(orig)
run(ProxyFixMiddleware(inner,"legacy",1), orig); print("caller scope unchanged:", orig==snap)
# dispatcher
d = DispatcherMiddleware({"/api": inner, "/": inner})
for p in ("/api", "/api/x", "/apix", "/other", ""):
    sc = dict(base, path=p); a,sent = run(d, sc); print("dispatch", repr(p), "->", None if a is None else repr(a["path"]), [m.get("status") for m in sent if "status" in m], "caller path now", repr(sc["path"]))
d2 = DispatcherMiddleware({"/api": inner})
a,sent = run(d2, dict(base, path="/zzz")); print("404:", sent)
a,sent = run(d2, dict(base, type="websocket", path="/zzz")); print("ws no match:", sent)
# redirect
r = HTTPToHTTPSRedirectMiddleware(inner, None)
for sc in (dict(base, headers=[(b"host",b"ex.com:80")], raw_path=b"/a%20b", query_string=b"x=1&y=2", root_path="/root"),
           dict(base, headers=[(b"host",b"ex.com")], raw_path=b"//evil.com/x", query_string=b""),
           dict(base, headers=[], raw_path=b"/a"),
           dict(base, type="websocket", scheme="ws", headers=[(b"host",b"ex.com")], raw_path=b"/w", extensions={"websocket.http.response":{}}),
           dict(base, type="websocket", scheme="ws", http_version="2", headers=[(b"host",b"ex.com")], raw_path=b"/w", extensions={"websocket.http.response":{}}),
           dict(base, type="websocket", scheme="ws", headers=[(b"host",b"ex.com")], raw_path=b"/w", extensions={}),
           dict(base, scheme="https", headers=[(b"host",b"ex.com")])):
    try:
        a,sent = run(r, sc); print("redirect", sc["type"], sc["scheme"], "->", [dict(m).get("headers") or m["type"] for m in sent], "passed" if a is not None else "")
    except Exception as e: print("redirect raised", repr(e))
