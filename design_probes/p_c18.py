import asyncio, h2.connection, h2.config, h2.events, h2.settings
from drv import *
started=[]
async def hold_app(scope, receive, send):
    started.append(scope["path"])
    while True:
        m = await receive()
        if m["type"]=="http.disconnect": return
async def main():
    srv, task, log, ctx = mk(hold_app, http2=True, h2_max_concurrent_streams=2)
    c = h2.connection.H2Connection(h2.config.H2Configuration(client_side=True, header_encoding=None))
    c.initiate_connection()
    await srv.reader.send(c.data_to_send()); await settle()
    evs = c.receive_data(bytes(srv.writer.out)); del srv.writer.out[:]
    print("remote max_concurrent", c.remote_settings.max_concurrent_streams)
    await srv.reader.send(c.data_to_send()); await settle()
    # bypass client-side limit by raw frames: craft with second connection object lacking the limit
    c2 = h2.connection.H2Connection(h2.config.H2Configuration(client_side=True, header_encoding=None))
    c2.initiate_connection(); c2.data_to_send()
    for sid in (1,3,5):
        c2.send_headers(sid, [(b":method",b"GET"),(b":path",b"/%d"%sid),(b":scheme",b"https"),(b":authority",b"x")])
    await srv.reader.send(c2.data_to_send()); await settle(100)
    evs = c.receive_data(bytes(srv.writer.out))
    print("started", started, "client saw", [(type(e).__name__, getattr(e,'stream_id',None), getattr(e,'error_code',None)) for e in evs], "task", task.done())
    task.cancel()
asyncio.run(main())
