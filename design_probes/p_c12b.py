import asyncio, itertools
from unittest.mock import AsyncMock, Mock
from hypercorn.protocol.ws_stream import WSStream, ASGIWebsocketState
from hypercorn.protocol.http_stream import HTTPStream, ASGIHTTPState
from hypercorn.protocol.events import Request
from hypercorn.config import Config
from hypercorn.typing import ConnectionState
from hypercorn.asyncio.worker_context import WorkerContext
async def mk_ws():
    tg = AsyncMock(); tg.spawn_app = AsyncMock(return_value=AsyncMock())
    tg.spawn = Mock()
    s = WSStream(AsyncMock(), Config(), WorkerContext(None), tg, False, None, None, AsyncMock(), 1)
    s.config._log = AsyncMock()
    await s.handle(Request(stream_id=1, http_version="1.1", headers=[(b"host",b"x"),(b"upgrade",b"websocket"),(b"connection",b"upgrade"),(b"sec-websocket-key",b"dGhlIHNhbXBsZSBub25jZQ=="),(b"sec-websocket-version",b"13")], raw_path=b"/", method="GET", state=ConnectionState({})))
    return s
MSGS = {
 "accept": {"type":"websocket.accept"},
 "send": {"type":"websocket.send","text":"hi"},
 "close": {"type":"websocket.close"},
 "rstart": {"type":"websocket.http.response.start","status":200,"headers":[]},
 "rbody_more": {"type":"websocket.http.response.body","body":b"x","more_body":True},
 "rbody": {"type":"websocket.http.response.body","body":b"x"},
}
async def main():
    weird = {}
    for seq in itertools.product(MSGS, repeat=3):
        s = await mk_ws(); res=[]
        for k in seq:
            try:
                await s.app_send(dict(MSGS[k])); res.append("ok")
            except Exception as e:
                res.append(type(e).__name__)
        for r in res:
            if r not in ("ok","UnexpectedMessageError"): weird.setdefault(r, []).append((seq,res))
    for k,v in weird.items(): print(k, len(v), v[:3])
    # after completion acceptance
    s = await mk_ws()
    out=[]
    for k in ("accept","close","close","send"):
        try: await s.app_send(dict(MSGS[k])); out.append((k,"ok", s.state.name))
        except Exception as e: out.append((k,type(e).__name__, s.state.name))
    print(out)
asyncio.run(main())
