import asyncio, h2.connection, h2.config, h2.events
from drv import *
got=[]
async def slow_app(scope, receive, send):
    m = await receive(); got.append(m["type"])
    await asyncio.sleep(0.05)
    await send({"type":"http.response.start","status":200,"headers":[(b"content-length",b"2")]})
    await send({"type":"http.response.body","body":b"ok"})
    got.append("sent-all")
    m = await receive(); got.append(m["type"])
async def t1():
    got.clear()
    srv, task, log, ctx = mk(slow_app)
    await srv.reader.send(b"GET /a HTTP/1.1\r\nhost: x\r\n\r\n"); await settle(10)
    srv.reader.close()   # client EOF (half close) while app is working
    await asyncio.sleep(0.2)
    print("h1 EOF mid-request: access", log.acc, "got", got, "out", bytes(srv.writer.out)[:20], "task", task.done())
asyncio.run(t1())
# h2c upgrade + prior knowledge split
async def echo(scope, receive, send):
    got.append((scope["http_version"], scope["path"]))
    await send({"type":"http.response.start","status":200,"headers":[(b"content-length",b"2")]})
    await send({"type":"http.response.body","body":b"ok"})
async def t2(split):
    got.clear()
    srv, task, log, ctx = mk(echo)
    c = h2.connection.H2Connection(h2.config.H2Configuration(client_side=True, header_encoding=None))
    c.initiate_connection(); pre = c.data_to_send()
    c.send_headers(1, [(b":method",b"GET"),(b":path",b"/p"),(b":scheme",b"http"),(b":authority",b"x")], end_stream=True)
    data = pre + c.data_to_send()
    for part in (data[:split], data[split:]):
        await srv.reader.send(part); await settle(30)
    evs = c.receive_data(bytes(srv.writer.out))
    return [type(e).__name__ for e in evs if not isinstance(e,(h2.events.RemoteSettingsChanged,h2.events.SettingsAcknowledged))], list(got)
async def t2all():
    res = set()
    n = 0
    for s in range(1, 60):
        r = await t2(s); res.add(str(r)); n+=1
    print("prior-knowledge split outcomes:", n, "distinct:", res)
asyncio.run(t2all())
