import asyncio, h11, wsproto, wsproto.events as we
from wsproto import WSConnection, ConnectionType
from drv import *
got = []
def mkapp(sub=None):
    async def ws_app(scope, receive, send):
        while True:
            m = await receive(); got.append(m)
            if m["type"]=="websocket.connect":
                await send({"type":"websocket.accept","subprotocol":sub} if sub else {"type":"websocket.accept"})
            if m["type"]=="websocket.disconnect": return
    return ws_app

async def t(code, sub=None, offered=None):
    got.clear()
    srv, task, log, ctx = mk(mkapp(sub))
    c = WSConnection(ConnectionType.CLIENT)
    await srv.reader.send(c.send(we.Request(host="x", target="/", subprotocols=offered or [])))
    await settle(50)
    out = bytes(srv.writer.out); 
    print("handshake resp:", out[:30])
    try:
        c.receive_data(out); del srv.writer.out[:]
        evs = list(c.events()); print([type(e).__name__ for e in evs])
        if code is not None:
            await srv.reader.send(c.send(we.CloseConnection(code=code) if code else we.CloseConnection(code=1005)))
            await settle(50)
    except Exception as e: print("client err", repr(e))
    print(" app got", got, "exc", log.exc, "task", task.done(), task.exception() if task.done() else None)
    task.cancel()
asyncio.run(t(1001))
asyncio.run(t(3000))
asyncio.run(t(None, sub="evil", offered=["good"]))
