import asyncio, h2.connection, h2.config, h2.events, h2.settings
from drv import *
sent = []
async def big_app(scope, receive, send):
    await send({"type":"http.response.start","status":200,"headers":[]})
    try:
        for i in range(200):
            await send({"type":"http.response.body","body":b"x"*10000,"more_body":True})
            sent.append(i)
        await send({"type":"http.response.body","body":b"","more_body":False})
        sent.append("end")
    finally:
        sent.append("app-exit")

async def main(mode):
    sent.clear()
    srv, task, log, ctx = mk(big_app, http2=True)
    c = h2.connection.H2Connection(h2.config.H2Configuration(client_side=True, header_encoding=None))
    c.local_settings = h2.settings.Settings(client=True, initial_values={h2.settings.SettingCodes.INITIAL_WINDOW_SIZE: 0 if mode!="closed" else 65535})
    c.initiate_connection()
    await srv.reader.send(c.data_to_send()); await settle()
    c.receive_data(bytes(srv.writer.out)); del srv.writer.out[:]
    await srv.reader.send(c.data_to_send()); await settle()
    c.send_headers(1, [(b":method",b"GET"),(b":path",b"/"),(b":scheme",b"https"),(b":authority",b"x")], end_stream=True)
    await srv.reader.send(c.data_to_send()); await settle(3000)
    p = srv.protocol.protocol
    print(mode, "app sends completed:", len(sent), "buffer len:", {k: len(v.buffer) for k,v in p.stream_buffers.items()})
    if mode == "closed":
        # window 65535 -> exhausted w/o updates. Now client EOF
        srv.reader.close(); await settle(3000)
        print("  after EOF: sent", sent[-3:], "task done", task.done(), "buffers", {k: len(v.buffer) for k,v in p.stream_buffers.items()})
    if mode == "reset":
        c.reset_stream(1); await srv.reader.send(c.data_to_send()); await settle(3000)
        print("  after RST: sent", sent[-3:], "buffers", {k: len(v.buffer) for k,v in p.stream_buffers.items()})
    task.cancel()
    try: await task
    except BaseException as e: pass
for m in ["zero","closed","reset"]:
    asyncio.run(main(m))
