import asyncio, h2.connection, h2.config, h2.events
from drv import *
res=[]
async def app(scope, receive, send):
    res.append(sorted(scope["extensions"]))
    await send({"type":"http.response.start","status":200,"headers":[(b"trailer", b"x-t")],"trailers":True})
    await send({"type":"http.response.body","body":b"hello","more_body":False})
    try:
        await send({"type":"http.response.trailers","headers":[(b"x-t", b"v")],"more_trailers":False}); res.append("trailers sent ok")
    except Exception as e: res.append(repr(e))
async def main(te):
    res.clear()
    srv, task, log, ctx = mk(app, http2=True)
    c = h2.connection.H2Connection(h2.config.H2Configuration(client_side=True, header_encoding=None))
    c.initiate_connection()
    await srv.reader.send(c.data_to_send()); await settle()
    hs=[(b":method",b"GET"),(b":path",b"/"),(b":scheme",b"https"),(b":authority",b"x")]
    if te: hs.append((b"te", b"trailers"))
    c.send_headers(1, hs, end_stream=True)
    await srv.reader.send(c.data_to_send()); await settle(200)
    evs = c.receive_data(bytes(srv.writer.out))
    print("te" if te else "no te", [(type(e).__name__, getattr(e,'headers',None)) for e in evs if type(e).__name__ in ("ResponseReceived","TrailersReceived","DataReceived","StreamEnded","StreamReset")], res, log.exc)
    task.cancel()
asyncio.run(main(True)); asyncio.run(main(False))
