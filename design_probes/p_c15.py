import asyncio, hypercorn.asyncio, time, sys
from hypercorn.config import Config
async def hang_app(scope, receive, send):
    if scope["type"]=="lifespan":
        while True:
            m = await receive()
            if m["type"]=="lifespan.startup": await send({"type":"lifespan.startup.complete"})
            elif m["type"]=="lifespan.shutdown": await send({"type":"lifespan.shutdown.complete"}); return
    await asyncio.sleep(3600)
async def main():
    config = Config(); config.bind=["127.0.0.1:18232"]; config.errorlog=None; config.graceful_timeout=0.5
    ev = asyncio.Event()
    t = asyncio.create_task(hypercorn.asyncio.serve(hang_app, config, shutdown_trigger=ev.wait))
    await asyncio.sleep(0.3)
    r,w = await asyncio.open_connection("127.0.0.1",18232)
    w.write(b"GET /x HTTP/1.1\r\nhost: a\r\n\r\n"); await w.drain()
    await asyncio.sleep(0.2)
    t0=time.time(); ev.set()
    try:
        await asyncio.wait_for(t, 5); print("serve returned after %.2fs"%(time.time()-t0))
    except asyncio.TimeoutError: print("serve did NOT return within 5s (graceful_timeout=0.5)")
asyncio.run(main())
