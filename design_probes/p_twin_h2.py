import h2.connection, h2.config, h2.events, h2.settings
from twin import *
from p_twin import OK, CRASH_MID, CRASH_EARLY
BIG = [("recv_body",), ("send", {"type":"http.response.start","status":200,"headers":[]})] + [("send", {"type":"http.response.body","body":b"x"*20000,"more_body":True})]*5 + [("send", {"type":"http.response.body","body":b"","more_body":False}), ("recv",)]
def client():
    c = h2.connection.H2Connection(h2.config.H2Configuration(client_side=True, header_encoding=None))
    c.initiate_connection(); return c
def hdrs(path, method=b"GET"): return [(b":method",method),(b":path",path),(b":scheme",b"http"),(b":authority",b"x")]
def parse(c, res):
    data = b"".join(e[2] for e in res["out"] if e[0]=="data")
    out=[]
    try:
        for e in c.receive_data(data):
            n=type(e).__name__
            if n in ("RemoteSettingsChanged","SettingsAcknowledged","WindowUpdated"): continue
            out.append((n, getattr(e,"stream_id",None), len(getattr(e,"data",b"") or b"") if hasattr(e,"data") else None, getattr(e,"error_code",None)))
    except Exception as ex: out.append(("CLIENT-ERR", repr(ex)))
    return out
def scen(name, build, apps, tail=20, extra=None):
    results=[]
    for runner in (run_asyncio, run_trio):
        c = client(); acts = build(c)
        sc = {"apps":apps, "client":acts, "tail":tail}
        if extra: sc.update(extra)
        r = runner(sc)
        results.append({"client": parse(c, r), "close":[e[1] for e in r["out"] if e[0]=="close"][:1], "apps": r["apps"], "access": r["access"], "exc": r["exc"], "error": r["error"], "handler_done": r["handler_done"]})
    a,t = results
    diffs=[k for k in a if a[k]!=t[k]]
    print(f"== {name}: {'SAME' if not diffs else 'DIFF '+','.join(diffs)}")
    print("   asyncio", {k:v for k,v in a.items() if k!='apps'})
    if diffs: print("   trio   ", {k:v for k,v in t.items() if k!='apps'})
    if 'apps' in diffs: print("   apps a", a['apps']); print("   apps t", t['apps'])
def b_get(c):
    c.send_headers(1, hdrs(b"/a"), end_stream=True); return [("send", c.data_to_send())]
def b_post(c):
    c.send_headers(1, hdrs(b"/p", b"POST")); d1=c.data_to_send(); c.send_data(1, b"hello"); c.send_data(1, b"world", end_stream=True); return [("send", d1), ("wait",1), ("send", c.data_to_send())]
def b_two(c):
    c.send_headers(1, hdrs(b"/a"), end_stream=True); c.send_headers(3, hdrs(b"/b"), end_stream=True); return [("send", c.data_to_send())]
def b_get_eof(c):
    c.send_headers(1, hdrs(b"/a"), end_stream=True); return [("send", c.data_to_send()), ("wait",1), ("eof",)]
def b_rst(c):
    c.send_headers(1, hdrs(b"/a"), end_stream=True); d=c.data_to_send(); c.reset_stream(1); return [("send", d), ("wait",1), ("send", c.data_to_send())]
scen("h2 get", b_get, [OK])
scen("h2 post", b_post, [OK])
scen("h2 two streams", b_two, [OK])
scen("h2 crash mid", b_get, [CRASH_MID])
scen("h2 crash early", b_get, [CRASH_EARLY])
scen("h2 big (window exhaust) then eof", b_get_eof, [BIG])
scen("h2 big then rst", b_rst, [BIG])
scen("h2 get, keepalive 5 idle", b_get, [OK], tail=20)
