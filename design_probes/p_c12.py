import asyncio, h2.connection, h2.config, h2.events
from drv import *
res = []
def mkapp(hdrs):
    async def app(scope, receive, send):
        try:
            await send({"type":"http.response.start","status":200,"headers":hdrs})
            await send({"type":"http.response.body","body":b"ok"})
            res.append("sent-ok")
        except Exception as e:
            res.append(repr(e))
    return app
async def run(hdrs, http2):
    res.clear()
    srv, task, log, ctx = mk(mkapp(hdrs), http2=http2)
    if http2:
        c = h2.connection.H2Connection(h2.config.H2Configuration(client_side=True, header_encoding=None, validate_inbound_headers=False))
        c.initiate_connection()
        await srv.reader.send(c.data_to_send()); await settle()
        c.send_headers(1, [(b":method",b"GET"),(b":path",b"/"),(b":scheme",b"https"),(b":authority",b"x")], end_stream=True)
        await srv.reader.send(c.data_to_send()); await settle(200)
        try:
            evs = c.receive_data(bytes(srv.writer.out))
            for e in evs:
                if isinstance(e, h2.events.ResponseReceived): print("  h2 client saw headers", e.headers)
        except Exception as e: print("  client err", repr(e))
    else:
        await srv.reader.send(b"GET / HTTP/1.1\r\nhost: x\r\n\r\n"); await settle(200)
        print("  h1 out", bytes(srv.writer.out)[:120])
    print(" http2" if http2 else " http1", hdrs, "->", res, log.exc)
    task.cancel()
for hdrs in ([(b"x-a", b"v\r\nset-cookie: evil=1")], [(b"x-a", 3)], [(b"x\r\ny", b"1")], [(b"x-nul", b"a\x00b")]):
    for h2_ in (False, True):
        asyncio.run(run(hdrs, h2_))
