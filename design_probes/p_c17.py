import asyncio
from hypercorn.app_wrappers import WSGIWrapper
from functools import partial
closed = []
class It:
    def __init__(self, sr, lazy, fail=False): self.sr=sr; self.lazy=lazy; self.n=0; self.fail=fail
    def __iter__(self): return self
    def __next__(self):
        if self.n==0 and self.lazy: self.sr("200 OK", [("X-A","b")])
        self.n+=1
        if self.fail and self.n==2: raise ValueError("iter fail")
        if self.n>2: raise StopIteration
        return b"chunk%d"%self.n
    def close(self): closed.append(1)
def lazy_app(environ, sr): return It(sr, True)
def eager_fail(environ, sr):
    sr("200 OK", []); return It(sr, False, fail=True)
def nostart(environ, sr): return It(sr, False) if False else It(lambda *a: None, False)
async def run(app):
    closed.clear()
    w = WSGIWrapper(app, 100)
    msgs=[]
    q = [{"type":"http.request","body":b"","more_body":False}]
    async def receive(): return q.pop(0)
    async def send(m): msgs.append(m)
    loop = asyncio.get_event_loop()
    def call_soon(func,*a): return asyncio.run_coroutine_threadsafe(func(*a), loop).result()
    scope={"type":"http","http_version":"1.1","method":"GET","path":"/","root_path":"","query_string":b"","headers":[],"server":("h",80),"client":("c",1),"scheme":"http"}
    try:
        await w(scope, receive, send, partial(loop.run_in_executor,None), call_soon)
        print(app.__name__, "msgs", msgs, "close calls", len(closed))
    except Exception as e:
        print(app.__name__, "raised", repr(e), "msgs", msgs, "close calls", len(closed))
for a in (lazy_app, eager_fail, nostart):
    asyncio.run(run(a))
