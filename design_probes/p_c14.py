import trio, hypercorn.trio, socket
from hypercorn.config import Config
def wsgi_app(environ, sr):
    sr("200 OK", []); return [b"hi"]
async def asgi_return_early(scope, receive, send):
    if scope["type"]=="lifespan": return
async def main(app):
    config = Config(); config.bind=["127.0.0.1:0"]; config.errorlog=None
    sock = socket.socket(); sock.bind(("127.0.0.1",0)); sock.listen(5)
    from hypercorn.config import Sockets
    shutdown = trio.Event()
    try:
        async with trio.open_nursery() as n:
            async def serve():
                await hypercorn.trio.serve(app, config, shutdown_trigger=shutdown.wait)
            config.bind=[f"127.0.0.1:{sock.getsockname()[1]}"]; sock.close()
            n.start_soon(serve)
            await trio.sleep(0.2)
            shutdown.set()
        print(getattr(app,'__name__',app), "clean shutdown")
    except BaseException as e:
        print(getattr(app,'__name__',app), "serve raised", repr(e), getattr(e,'exceptions',None))
trio.run(main, wsgi_app)
trio.run(main, asgi_return_early)
