import tempfile, os, types
from hypercorn.config import Config
vals = {"keep_alive_timeout": 7.5, "bind": "1.2.3.4:5", "root_path": "/api/", "workers": 3, "server_names": ["a","b"], "h2_max_concurrent_streams": 7, "accesslog": "-", "insecure_bind": ["x:1","y:2"], "alpn_protocols": ["h2"], "use_reloader": True, "umask": 18, "websocket_ping_interval": 2.5}
def snap(c): return {k: getattr(c,k) for k in vals}
a = snap(Config.from_mapping(vals)); b = snap(Config.from_mapping(**vals))
class O: pass
o = O(); [setattr(o,k,v) for k,v in vals.items()]
c = snap(Config.from_object(o))
d = tempfile.mkdtemp()
with open(os.path.join(d,"c.py"),"w") as f: f.write("\n".join(f"{k} = {v!r}" for k,v in vals.items()))
e = snap(Config.from_pyfile(os.path.join(d,"c.py")))
import json
def toml(v):
    if isinstance(v,bool): return "true" if v else "false"
    if isinstance(v,str): return json.dumps(v)
    if isinstance(v,list): return "["+", ".join(toml(x) for x in v)+"]"
    return repr(v)
with open(os.path.join(d,"c.toml"),"w") as f: f.write("\n".join(f"{k} = {toml(v)}" for k,v in vals.items()))
t = snap(Config.from_toml(os.path.join(d,"c.toml")))
print("mapping==kwargs", a==b, "object", a==c, "pyfile", a==e, "toml", a==t)
print(a)
# class-level default aliasing: mutable defaults shared?
c1 = Config(); c2 = Config(); c1.server_names.append("zzz"); print("mutable default shared between instances:", c2.server_names, Config.server_names)
try: print(Config.from_object(Config()).bind)
except Exception as ex: print("from_object(Config()) raised", repr(ex))
print("unknown key ignored?", hasattr(Config.from_mapping({"nonexistent": 1}), "nonexistent"))
