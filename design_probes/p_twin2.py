from twin import *
from p_twin import OK, REQ
sc = {"apps":[OK], "client":[("send", b"GET /c HTTP/1.1\r\nhost: x\r\nconnection: close\r\n\r\n" + REQ%2)], "tail": 10}
a = run_asyncio(sc); t = run_trio(sc)
print("asyncio out:", a["out"]); print("  apps", a["apps"], a["error"])
print("trio out:", t["out"]); print("  apps", t["apps"], t["error"])
