import asyncio, heapq, selectors
class VLoop(asyncio.SelectorEventLoop):
    """Virtual-time loop: when nothing is ready, jump the clock to the next timer."""
    def __init__(self):
        super().__init__(selectors.DefaultSelector())
        self._vt = 0.0
        self.steps = 0
    def time(self): return self._vt
    def _run_once(self):
        self.steps += 1
        # drop cancelled timer heads
        while self._scheduled and self._scheduled[0]._cancelled:
            h = heapq.heappop(self._scheduled); h._scheduled = False
            self._timer_cancelled_count -= 1 if self._timer_cancelled_count>0 else 0
        if not self._ready and self._scheduled:
            when = self._scheduled[0]._when
            if when > self._vt: self._vt = when
        super()._run_once()
def run(coro):
    loop = VLoop()
    try:
        asyncio.set_event_loop(loop)
        return loop.run_until_complete(coro), loop
    finally:
        loop.close()
