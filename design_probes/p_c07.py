import asyncio, h11
from drv import *

async def noread_app(scope, receive, send):
    raise RuntimeError("early")

async def ok_app(scope, receive, send):
    while True:
        m = await receive()
        if m["type"]=="http.disconnect": return
        if m["type"]=="http.request" and not m.get("more_body"):
            await asyncio.sleep(0.05)
            await send({"type":"http.response.start","status":200,"headers":[(b"content-length",b"0")]})
            await send({"type":"http.response.body","body":b""}); return

async def t_queue_deadlock():
    srv, task, log, ctx = mk(noread_app, keep_alive_timeout=0.05)
    # first block app start? app raises immediately; so send body of 12 chunks quickly in separate reads before app runs? app runs at first await.
    # Use an app that waits a bit, without reading, then raises
    pass

async def slow_noread(scope, receive, send):
    await asyncio.sleep(0.02)
    raise RuntimeError("late crash without reading")

async def t1():
    srv, task, log, ctx = mk(slow_noread, keep_alive_timeout=0.05)
    await srv.reader.send(b"POST / HTTP/1.1\r\nhost: x\r\ncontent-length: 26\r\n\r\n")
    for i in range(13):
        await srv.reader.send(b"ab"); await settle(5)
    await asyncio.sleep(0.3)
    print("queue-deadlock: task done", task.done(), "out", bytes(srv.writer.out)[:60], "exc", log.exc)
    srv.reader.close(); await asyncio.sleep(0.3)
    print("  after client EOF: task done", task.done(), "writer closed", srv.writer.is_closed)
    task.cancel()

async def t2():
    # websocket bad handshake -> 400 w/o StreamClosed -> no idle timeout
    srv, task, log, ctx = mk(ok_app, keep_alive_timeout=0.05)
    await srv.reader.send(b"GET / HTTP/1.1\r\nhost: x\r\nupgrade: websocket\r\nconnection: upgrade\r\nsec-websocket-version: 12\r\nsec-websocket-key: abc\r\n\r\n")
    await asyncio.sleep(0.5)
    print("ws-400: out", bytes(srv.writer.out)[:40], "task done", task.done(), "writer closed", srv.writer.is_closed)
    task.cancel()

async def t3():
    # invalid server name -> 404
    srv, task, log, ctx = mk(ok_app, keep_alive_timeout=0.05, server_names=["good"])
    await srv.reader.send(b"GET / HTTP/1.1\r\nhost: bad\r\n\r\n")
    await asyncio.sleep(0.5)
    print("host-404: out", bytes(srv.writer.out)[:40], "task done", task.done(), "writer closed", srv.writer.is_closed)
    task.cancel()

async def t4():
    # parked pipelined request; write failure -> closed
    srv, task, log, ctx = mk(ok_app, keep_alive_timeout=0.05)
    await srv.reader.send(b"GET /1 HTTP/1.1\r\nhost: x\r\n\r\nGET /2 HTTP/1.1\r\nhost: x\r\n\r\n")
    await settle(20)
    srv.writer.is_closed = True  # next write raises ConnectionError
    await asyncio.sleep(0.5)
    print("parked: task done", task.done(), "acc", log.acc)
    task.cancel()

for t in [t1,t2,t3,t4]:
    asyncio.run(t())
