import asyncio, h2.connection, h2.config, h2.events
from drv import *

async def early_app(scope, receive, send):
    # respond immediately without reading body
    await send({"type":"http.response.start","status":200,"headers":[(b"content-length",b"2")]})
    await send({"type":"http.response.body","body":b"ok"})

async def run(case):
    srv, task, log, ctx = mk(early_app, http2=True)
    c = h2.connection.H2Connection(h2.config.H2Configuration(client_side=True, header_encoding=None))
    c.initiate_connection()
    await srv.reader.send(c.data_to_send())
    await settle()
    if case == "data_after_response":
        c.send_headers(1, [(b":method",b"POST"),(b":path",b"/"),(b":scheme",b"https"),(b":authority",b"x")])
        await srv.reader.send(c.data_to_send()); await settle()
        # feed server output to client
        c.receive_data(bytes(srv.writer.out)); 
        c.send_data(1, b"late body"); 
        await srv.reader.send(c.data_to_send()); await settle()
    elif case == "connect_nopath":
        c.send_headers(1, [(b":method",b"CONNECT"),(b":authority",b"x:443")])
        await srv.reader.send(c.data_to_send()); await settle()
    elif case == "nonascii_path":
        c.send_headers(1, [(b":method",b"GET"),(b":path",b"/caf\xc3\xa9"),(b":scheme",b"https"),(b":authority",b"x")], end_stream=True)
        await srv.reader.send(c.data_to_send()); await settle()
    print(case, "task done:", task.done(), "exc:", repr(task.exception()) if task.done() else None)
    if not task.done():
        srv.reader.close(); await settle()
        print("  after close done:", task.done())
        if task.done(): print("  exc", repr(task.exception()))

for case in ["data_after_response","connect_nopath","nonascii_path"]:
    asyncio.run(run(case))
