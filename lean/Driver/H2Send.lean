import Driver.Util
import HC.Proto.H2Send
/-! Driver endpoint of C08 / C09: trace acceptance for the HTTP/2 send-path model `HC.Proto.H2Send`.

`h2send.run` {connWin, maxFrame, ids:[stream ids mentioned], ops:[…]} → one entry per op:
`{"en": step enabled?, "ok": opOk (the environment hypothesis of the theorems) holds?, "st": projection of the state
AFTER the op}`; the replay stops at the first op that is not enabled (the remaining entries are `{"skipped": true}`).
`deadlock` (no unblocked member of the priority tree) is evaluated over `ids` — the harness lists every stream id that
occurs in the trace, and streams that never occur are never in the tree. -/
open Lean HC.Proto.H2Send
namespace Driver.H2Send

def ppcName : PPc → String
  | .idle => "idle" | .inPush => "inPush" | .inDrain => "inDrain" | .inAbandon => "inAbandon"

def taskJson : TaskPc → Json
  | .running => "running" | .parked => "parked" | .exited => "exited"
  | .sending i => Json.arr #["sending", toJson i] | .ending i => Json.arr #["ending", toJson i]

def strJson (x : Str) : Json :=
  Json.mkObj [("hasBuf", x.hasBuf), ("buf", toJson x.buf), ("complete", x.complete), ("pausedEv", x.pausedEv), ("emptyEv", x.emptyEv), ("bufClosed", x.bufClosed),
    ("pusher", ppcName x.pusher), ("inTree", x.inTree), ("blocked", x.blocked), ("window", toJson x.window), ("libClosed", x.libClosed),
    ("live", x.live), ("opened", x.opened), ("pushed", toJson x.pushed), ("sent", toJson x.sent), ("dropped", toJson x.dropped),
    ("ended", x.ended), ("credit", toJson x.credit)]

def stJson (ids : List Nat) (s : St) : Json :=
  Json.mkObj [("str", Json.mkObj (ids.map (fun i => (toString i, strJson (s.str i))))), ("connWin", toJson s.connWin),
    ("connSent", toJson s.connSent), ("connCredit", toJson s.connCredit), ("maxFrame", toJson s.maxFrame), ("hasData", s.hasData),
    ("task", taskJson s.task), ("closed", s.closed)]

def deadlockB (ids : List Nat) (s : St) : Bool := ids.all (fun j => !(s.str j).inTree || (s.str j).blocked)

/-- `opOk`, decided (with `deadlock` restricted to `ids`) -/
def opOkB (ids : List Nat) (s : St) : Op → Bool
  | .park => deadlockB ids s
  | _ => true

def opOfJson (j : Json) : Except String Op := do
  let k ← getStr j "op"
  match k with
  | "open" => pure (.open_ (← getNat j "i") (← getInt j "w"))
  | "push" => pure (.push (← getNat j "i") (← getNat j "n"))
  | "pushWake" => pure (.pushWake (← getNat j "i"))
  | "end" => pure (.end_ (← getNat j "i"))
  | "drainWake" => pure (.drainWake (← getNat j "i"))
  | "pick" => pure (.pick (← getNat j "i"))
  | "pickRaise" => pure (.pickRaise (← getNat j "i"))
  | "sent" => pure (.sent (← getNat j "i"))
  | "endSent" => pure (.endSent (← getNat j "i"))
  | "park" => pure .park
  | "wake" => pure .wake
  | "exit" => pure .exit
  | "winStream" => pure (.winStream (← getNat j "i") (← getNat j "k"))
  | "winConn" => pure (.winConn (← getNat j "k"))
  | "settings" => pure (.settings (← getInt j "d"))
  | "maxFrame" => pure (.maxFrame (← getNat j "m"))
  | "rst" => pure (.rst (← getNat j "i"))
  | "prio" => pure (.prio (← getNat j "i") (← getNat j "p"))
  | "abandon" => pure (.abandon (← getNat j "i"))
  | "abandonFin" => pure (.abandonFin (← getNat j "i"))
  | "closed" => pure .closed
  | _ => throw s!"h2send op {k}"

/-- ops of the extended machine: `rebuild` = `next(priority)` handed out a stream the tree does not know -/
def xopOfJson (j : Json) : Except String XOp := do
  let k ← getStr j "op"
  match k with
  | "rebuild" => pure (.rebuild (← getNat j "i"))
  | _ => pure (.op (← opOfJson j))

def xopOkB (ids : List Nat) (s : St) : XOp → Bool
  | .op o => opOkB ids s o
  | .rebuild _ => true

def run : Handler := fun j => do
  let cw ← getInt j "connWin"
  let mf ← getNat j "maxFrame"
  let ids ← (← getArr j "ids").toList.mapM (fun v => v.getNat?)
  let full := (getOpt j "full").isSome
  let mut s : St := init cw mf
  let mut outs : Array Json := #[]
  let mut dead := false
  for opj in (← getArr j "ops") do
    if dead then
      outs := outs.push (Json.mkObj [("skipped", true)])
    else
      let op ← xopOfJson opj
      let ok := xopOkB ids s op
      match xstep s op with
      | none =>
        dead := true
        outs := outs.push (Json.mkObj [("en", false), ("ok", ok), ("st", stJson ids s)])
      | some s' =>
        s := s'
        outs := outs.push (Json.mkObj [("en", true), ("ok", ok), ("st", stJson ids s')])
  let _ := full
  pure (Json.mkObj [("steps", Json.arr outs), ("final", stJson ids s), ("deadlock", deadlockB ids s)])

def handlers : List (String × Handler) := [("h2send.run", run)]

end Driver.H2Send
