import Driver.Util
import Driver.Streams
import HC.Stream.WsOverlap
import HC.Pure.Sha1
/-! Driver handler of C11 for sessions in which the two closing sequences overlap (`HC/Stream/WsOverlap.lean`).

* `c11.wsx` - `c11.ws` (same request, same answer per step, the accept token computed by the Lean SHA-1 / base64) with one more
  form of operation: `{"send": <websocket.close message>, "during": [{"in":"data","events":[…]} | {"in":"streamClosed"}, …], "at": p}`
  = the application's send is suspended in its `p`-th awaited protocol-level send while the reader task handles the inputs of
  `during` (`Ws.appCloseDuring`: the CONNECTED-state close branch as extracted from the source, statement by statement).  The
  step's answer carries `puts` (what the reader put to the application meanwhile) and `during_fired`. -/
open Lean HC HC.Stream HC.Stream.Ws
namespace Driver.C11Overlap
open Driver.Streams

def inOfJson (op : Json) : Except String Ws.In := do
  let kind ← getStr op "in"
  match kind with
  | "data" => do pure (.data (← (← getArr op "events").toList.mapM wsEvOfJson))
  | "streamClosed" => pure .streamClosed
  | k => throw s!"c11.wsx: input {k}"

def stepJson (s : Ws.S) (puts : List Ws.AppMsg) (evs : List Ws.Ev) (err : Option PyErr) : List (String × Json) :=
  [("puts", Json.arr (puts.map wsPutJson).toArray), ("events", Json.arr (evs.map wsEvJson).toArray),
   ("error", optJson (fun e => Json.str (errName e)) err), ("state", wsStName s.st), ("closed", s.closed)]

def wsx : Handler := fun j => do
  let init ← j.getObjVal? "init"
  let tokenF : Bytes → Bytes := HC.Pure.Sha1.acceptToken
  let ext := (getOpt init "ext_accepts").bind (fun v => (bytesOfJson v).toOption)
  let r := Ws.onRequest (← getNat init "max_len") (← getStr init "version") (← headersOfJson (← init.getObjVal? "headers"))
    (← getBool init "server_name_ok") (← getBool init "ping")
  match r with
  | .error e => pure (Json.mkObj [("request_error", Json.str (errName e))])
  | .ok (s0, puts0, evs0) =>
    let mut s := s0
    let mut outs : Array Json := #[Json.mkObj (stepJson s0 puts0 evs0 none)]
    for op in (← getArr j "ops") do
      match op.getObjVal? "send" with
      | .ok m =>
        let msg ← wsMsgOfJson m
        match msg, getOpt op "during" with
        | some (.close code reason), some d =>
          let ins ← (← d.getArr?).toList.mapM inOfJson
          let p ← getNat op "at"
          let (s', puts, evs, err, fired) := Ws.appCloseDuring tokenF ext s code reason p ins
          s := s'
          outs := outs.push (Json.mkObj (stepJson s' puts evs err ++ [("during_fired", Json.bool fired)]))
        | _, some _ => throw "during: only a websocket.close message can carry it"
        | _, none =>
          let (s', evs, err) := Ws.appSend tokenF ext s msg
          s := s'
          outs := outs.push (Json.mkObj (stepJson s' [] evs err))
      | .error _ =>
        let (s', puts, evs, err) := Ws.handle s (← inOfJson op)
        s := s'
        outs := outs.push (Json.mkObj (stepJson s' puts evs err))
    pure (Json.arr outs)

def handlers : List (String × Handler) :=
  [("c11.wsx", wsx)]

end Driver.C11Overlap
