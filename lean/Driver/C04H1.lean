import Driver.Util
import Driver.Streams
import Driver.Proto
import HC.Proto.H11Safe
/-! Driver handler of C04 (HTTP/1 / WebSocket whole-flow totality).

* `c04.h1total` {cfg, token, ext, ops:[…]} (the request of `proto.h11`, ops may also contain {"op":"deferredClose"}) → per op, in the
  state the model reaches: `wf` = `HC.Proto.H11.enabled` (LibWf + scheduling), `escape` = the site at which `escapeT` says an
  exception leaves the connection handler (null = none), `rejected` = `step` answered `none`.  The run stops at the first rejected op. -/
open Lean HC HC.Stream HC.Proto
namespace Driver.C04H1
open Driver Driver.Streams Driver.Proto

def escapeName : H11.Escape → String
  | .continue100 => "continue100"
  | .errorResponse => "errorResponse"
  | .switch101 => "switch101"
  | .streamAnswer => "streamAnswer"
  | .wsHandshake e => "wsHandshake:" ++ errName e
  | .wsHandle e => "wsHandle:" ++ errName e
  | .wsAnswer => "wsAnswer"
  | .headerDecode => "headerDecode"

def h1total : Handler := fun j => do
  let cfg ← cfgOfJson (← j.getObjVal? "cfg")
  let tokenB ← getBytes j "token"
  let ext := (getOpt j "ext").bind (fun v => (bytesOfJson v).toOption)
  let mut st : H11.St := {}
  let mut g : Ws.Frag := none
  let mut outs : Array Json := #[]
  let mut stopped := false
  for opj in (← getArr j "ops") do
    if stopped then
      outs := outs.push Json.null
    else
      let kind ← getStr opj "op"
      let op : H11.OpT ← match kind with
        | "begin" => pure (.op .begin)
        | "ev" => do pure (.op (.ev (← libEvOfJson opj)))
        | "sendHttp" => do pure (.op (.sendHttp (← getNat opj "obj") (← httpMsgOfJson (← opj.getObjVal? "msg"))))
        | "sendWs" => do pure (.op (.sendWs (← getNat opj "obj") (← wsMsgOfJson (← opj.getObjVal? "msg"))))
        | "closed" => pure (.op .closed)
        | "terminate" => pure (.op .terminate)
        | "deferredClose" => pure .deferredClose
        | _ => throw s!"op {kind}"
      let wf := H11.enabled cfg st g op
      let esc := H11.escapeT cfg st op
      match H11.stepT cfg (fun _ => tokenB) ext st op with
      | none =>
        outs := outs.push (Json.mkObj [("wf", wf), ("escape", optJson (fun e => Json.str (escapeName e)) esc), ("rejected", true)])
        stopped := true
      | some (st', _, _) =>
        outs := outs.push (Json.mkObj [("wf", wf), ("escape", optJson (fun e => Json.str (escapeName e)) esc), ("rejected", false)])
        g := H11.ghostT g op
        st := st'
  pure (Json.arr outs)

def handlers : List (String × Handler) := [("c04.h1total", h1total)]

end Driver.C04H1
