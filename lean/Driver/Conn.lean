import Driver.Util
import HC.Conn.Server
/-! Driver endpoint `conn.accept`: trace acceptance for `HC.Conn.Server` (DESIGN A.7).

Input: `{"cfg": {...}, "labels": [ {"op": ...} | {"out": ...} ]}` - the implementation's observed labels in order:
environment / application inputs (`op`) and observable outputs (`out`: access record, transport close, `send()` result,
application start, handler completion).  The acceptor keeps the set of model states consistent with the labels so far;
when a label is not accepted directly it closes the set under the internal steps (timer expiry, closer task, the reader
noticing the server's close, handler exit).  Result: accepted or the first rejected label with what was pending, and the
projection of the final state that the harness compares with the implementation's observation. -/
open Lean HC.Conn
namespace Driver.Conn

def kindOfStr : String → Except String Kind
  | "http" => pure .http | "ws" => pure .ws | k => throw s!"kind {k}"

def amsgOfJson (j : Json) : Except String AMsg := do
  let t ← getStr j "t"
  match t with
  | "start" => pure (.start ((getOpt j "close").isSome && (j.getObjValAs? Bool "close").toOption == some true))
  | "body" => pure (.body (← getBool j "more") (← getBool j "nonEmpty"))
  | "accept" => pure .accept
  | "wsSend" => pure .wsSend
  | "wsClose" => pure .wsClose
  | "wsHttpStart" => pure .wsHttpStart
  | "wsHttpBody" => pure (.wsHttpBody (← getBool j "more"))
  | "other" => pure .other
  | _ => throw s!"amsg {t}"

def whoOfStr (k : String) (i : Nat) : Except String Who :=
  match k with
  | "reader" => pure .reader | "timer" => pure .timer | "app" => pure (.app i) | "closer" => pure (.closer i) | _ => throw s!"who {k}"

def opOfJson (j : Json) : Except String Op := do
  let k ← getStr j "op"
  match k with
  | "read" => pure .read
  | "readEof" => pure .readEof
  | "readReset" => pure .readReset
  | "head" => pure (.head { kind := (← kindOfStr (← getStr j "kind")), keepAlive := (← getBool j "keepAlive"),
                            nameOk := (← getBool j "nameOk"), wsOk := (← getBool j "wsOk") })
  | "body" => pure .body
  | "eom" => pure .eom
  | "h2body" => pure (.h2body (← getNat j "i"))
  | "h2eom" => pure (.h2eom (← getNat j "i"))
  | "h2rst" => pure (.h2rst (← getNat j "i"))
  | "h2goaway" => pure .h2goaway
  | "h2flush" => pure .h2flush
  | "paused" => pure .paused
  | "needData" => pure .needData
  | "connClosed" => pure .connClosed
  | "protoError" => pure .protoError
  | "wsMsg" => pure .wsMsg
  | "wsPing" => pure .wsPing
  | "wsPeerClose" => pure .wsPeerClose
  | "wsEarlyData" => pure .wsEarlyData
  | "appRecv" => pure (.appRecv (← getNat j "i"))
  | "appRecvCall" => pure (.appRecvCall (← getNat j "i"))
  | "appSend" => pure (.appSend (← getNat j "i") (← amsgOfJson (← j.getObjVal? "m")))
  | "appExit" => pure (.appExit (← getNat j "i"))
  | "failWrites" => pure .failWrites
  | "pauseWrites" => pure .pauseWrites
  | "resumeWrites" => pure .resumeWrites
  | "h2prior" => pure .h2prior
  | "h2c" => pure .h2c
  | "resume" => pure (.resume (← whoOfStr (← getStr j "w") (← getNat j "i")))
  | "h2NoCredit" => pure .h2NoCredit
  | "failAfter" => pure (.failAfter (← getNat j "k"))
  | "terminate" => pure .terminate
  | "tick" => pure (.tick (← getNat j "d"))
  | "timerFire" => pure .timerFire
  | "closerRun" => pure (.closerRun (← getNat j "i"))
  | "readerSeesClose" => pure .readerSeesClose
  | "handlerExit" => pure .handlerExit
  | _ => throw s!"op {k}"

def qmsgName : QMsg → String
  | .request true => "request+" | .request false => "request." | .connect => "connect" | .receive => "receive" | .disconnect => "disconnect"

/-- observable outputs the acceptor matches, as JSON arrays -/
def outJson? : Out → Option Json
  | .access i st => some (Json.arr #["access", toJson i, optJson toJson st])
  | .sendRet i ok => some (Json.arr #["sendRet", toJson i, ok])
  | .closeT t => some (Json.arr #["close", toJson t])
  | .done t => some (Json.arr #["done", toJson t])
  | .recv i m => some (Json.arr #["recv", toJson i, qmsgName m])
  | _ => none

/-- a 0 in the status position of an observed/modelled access record matches any status (rejection responses) -/
def outMatches (model observed : Json) : Bool :=
  match model, observed with
  | .arr m, .arr o =>
    if m.size != o.size then false else
    if m.size == 3 && m[0]! == Json.str "access" then
      m[0]! == o[0]! && m[1]! == o[1]! && (m[2]! == o[2]! || m[2]! == toJson (0 : Nat))
    else m == o
  | _, _ => false

structure Cand where
  st : St
  seen : List Nat := []    -- indices into `st.outs` of the outputs already matched with an observed label

/-- outputs produced and not yet observed.  Outputs of one task appear in program order, but two tasks' outputs may be
    observed in either order (a `put` or a write yields on trio), so an observed label may match any of them. -/
def Cand.pendingIdx (c : Cand) : List (Nat × Json) :=
  ((List.range c.st.outs.length).zip c.st.outs).filterMap (fun (k, o) =>
    if c.seen.contains k then none else (outJson? o).map (fun j => (k, j)))

def Cand.pending (c : Cand) : List Json := c.pendingIdx.map (·.2)

/-- consume the first pending output that matches `o` -/
def Cand.take (c : Cand) (o : Json) : Option Cand :=
  (c.pendingIdx.find? (fun p => outMatches p.2 o)).map (fun p => { c with seen := p.1 :: c.seen })

def internals (s : St) : List Op :=
  [.timerFire, .readerSeesClose, .handlerExit] ++ s.closers.map Op.closerRun ++ s.ready.map Op.resume

def Cand.succ (c : Cand) : List Cand :=
  (internals c.st).filterMap (fun o => (step c.st o).map (fun s' => { c with st := s' }))

def LIMIT : Nat := 400

def rpcName : RPc → String
  | .reading => "reading" | .inLoop => "inLoop" | .parked => "parked" | .blocked => "blocked" | .finished => "finished"

def whoName : Who → String
  | .reader => "reader" | .timer => "timer" | .app i => s!"app{i}" | .closer i => s!"closer{i}" | .main => "main"

def allWhos (s : St) : List Who := [Who.reader, Who.timer] ++ (List.range s.n).map Who.app ++ (List.range s.n).map Who.closer

/-- printable key of a candidate (everything the future behaviour depends on), for deduplication -/
def Cand.key (c : Cand) : String :=
  let s := c.st
  let insts := (List.range s.n).map (fun i => let x := s.inst i
    s!"{repr x.kind}{x.hasApp}{x.closed}{repr x.hst}{repr x.wst}{x.accepted}{repr x.q}{repr x.waiting}{x.exiting}{x.exited}{x.respEnded}{x.h2dead}{x.h2buf}{x.waitingRecv}{x.direct}{repr x.inflight}{x.discPuts}{x.access}")
  let conts := (allWhos s).map (fun w => s!"{repr (s.cont w)}")
  s!"{c.seen.length}|{(c.pendingIdx.map (·.1))}|{s.outs.length}|{insts}|{s.live}|{repr s.our}{repr s.their}{s.keepAlive}{s.wsMode}{s.reqComplete}{s.pclosed}{rpcName s.rpc}{s.eofSeen}{s.closedByServer}{s.failWrites}{s.wc}{s.failAt}{s.timer}{s.terminated}{s.now}|{conts}|{s.closers}|{s.ready.map whoName}{s.draining.map (fun p => (whoName p.1, p.2))}{s.noCredit}|{s.wpaused}{s.wblocked.map whoName}{s.wlockq.map whoName}{s.prior}{s.lateIdle}|{s.closeAt}{s.doneAt}"

def dedup (cs : List Cand) : List Cand :=
  (cs.foldl (fun (acc : List String × List Cand) c => let k := c.key; if acc.1.contains k then acc else (k :: acc.1, acc.2 ++ [c])) ([], [])).2

/-- candidates reachable by ≤ `d` internal steps (the candidates themselves first) -/
def closure : Nat → List Cand → List Cand
  | 0, cs => cs
  | d + 1, cs =>
    let nxt := (dedup (cs.flatMap Cand.succ)).take LIMIT
    if nxt.isEmpty then cs else dedup (cs ++ closure d nxt)

def Cand.quiescent (c : Cand) : Bool := c.succ.isEmpty

def feedOp (cs : List Cand) (o : Op) : List Cand :=
  let all := closure 8 cs
  -- virtual time passes only when no internal step is due (the loops run everything that is ready first)
  let base := match o with | .tick (_ + 1) => all.filter Cand.quiescent | _ => all
  (dedup (base.filterMap (fun c => (step c.st o).map (fun s' => { c with st := s' })))).take LIMIT

def feedOut (cs : List Cand) (o : Json) : List Cand :=
  (dedup ((closure 8 cs).filterMap (fun c => c.take o))).take LIMIT

def instJson (x : Inst) : Json :=
  Json.mkObj [("kind", (match x.kind with | .http => "http" | .ws => "ws")), ("hasApp", x.hasApp), ("closed", x.closed),
    ("recvd", Json.arr (x.recvd.map (fun m => Json.str (qmsgName m))).toArray), ("queued", toJson (x.q.length + x.waiting.length)),
    ("handed", Json.arr (x.handed.map (fun m => Json.str (qmsgName m))).toArray),
    ("discPuts", toJson x.discPuts), ("afterDisc", toJson x.afterDisc), ("access", toJson x.access),
    ("exited", x.exited), ("respEnded", x.respEnded)]

def blockedTasks (s : St) : List String :=
  (allWhos s).filterMap
    (fun w => if (s.cont w).isSome then some (whoName w) else none)

def projJson (s : St) : Json :=
  Json.mkObj [("instances", Json.arr ((List.range s.n).map (fun i => instJson (s.inst i))).toArray),
    ("closeAt", optJson toJson s.closeAt), ("doneAt", optJson toJson s.doneAt), ("timer", optJson toJson s.timer),
    ("rpc", rpcName s.rpc), ("live", toJson s.live), ("blocked", toJson (blockedTasks s)), ("busy", s.busy),
    ("now", toJson s.now), ("closers", toJson s.closers), ("fuelOut", s.fuelOut)]

def cfgOfJson (j : Json) : Except String Cfg := do
  let p ← getStr j "proto"
  pure { proto := if p == "h2" then .h2 else .h1, cap := (← getNat j "cap"), T := (← getNat j "T"), trio := (← getBool j "trio") }

def accept : Handler := fun j => do
  let cfg ← cfgOfJson (← j.getObjVal? "cfg")
  let mut cs : List Cand := [{ st := init cfg }]
  let mut idx := 0
  let mut rejected : Option Json := none
  for lj in (← getArr j "labels") do
    if rejected.isSome then break
    let prev := cs
    match lj.getObjVal? "op" with
    | .ok _ =>
      let o ← opOfJson lj
      cs := feedOp cs o
    | .error _ =>
      let o ← lj.getObjVal? "out"
      cs := feedOut cs o
    if cs.isEmpty then
      let c := prev.head?
      rejected := some (Json.mkObj [("index", toJson idx), ("label", lj),
        ("pending", Json.arr ((c.map Cand.pending).getD []).toArray), ("state", (c.map (fun c => projJson c.st)).getD Json.null),
        ("candidates", toJson prev.length)])
    idx := idx + 1
  match rejected with
  | some r => pure (Json.mkObj [("accepted", false), ("rejected", r)])
  | none =>
    -- the observation is over: everything the model produced must have been observed (after the internal steps that are due)
    let fin := (closure 8 cs).filter (fun c => c.pending.isEmpty)
    match fin.reverse.head? with
    | some c => pure (Json.mkObj [("accepted", true), ("final", projJson c.st), ("candidates", toJson cs.length),
        -- every model run consistent with the whole observation (schedules the labels do not distinguish)
        ("finals", Json.arr ((fin.reverse.take 24).map (fun c => projJson c.st)).toArray)])
    | none =>
      let c := cs.head?
      pure (Json.mkObj [("accepted", false), ("rejected", Json.mkObj [("index", toJson idx), ("label", Json.str "<end>"),
        ("pending", Json.arr ((c.map Cand.pending).getD []).toArray), ("state", (c.map (fun c => projJson c.st)).getD Json.null)])])

/-- `conn.run`: plain execution of an op list (witness replays): per op accepted?, final projection -/
def runOps : Handler := fun j => do
  let cfg ← cfgOfJson (← j.getObjVal? "cfg")
  let mut s := init cfg
  let mut okAll := true
  let mut flags : Array Json := #[]
  for oj in (← getArr j "ops") do
    let o ← opOfJson oj
    match step s o with
    | some s' => s := s'; flags := flags.push true
    | none => okAll := false; flags := flags.push false
  pure (Json.mkObj [("accepted", okAll), ("steps", Json.arr flags), ("final", projJson s),
    ("outs", Json.arr (s.outs.filterMap outJson?).toArray)])

def handlers : List (String × Handler) := [("conn.accept", accept), ("conn.run", runOps)]

end Driver.Conn
