import Driver.Util
import HC.Stream.Http
import HC.Stream.Ws
open Lean HC HC.Stream
namespace Driver.Streams

def hvOfJson (j : Json) : Except String HV :=
  match j with
  | .null => pure .none
  | _ =>
    match j.getObjVal? "b" with
    | .ok v => do pure (.bytes (← bytesOfJson v))
    | .error _ =>
      match j.getObjVal? "s" with
      | .ok v => do pure (.str (← v.getStr?))
      | .error _ =>
        match j.getObjVal? "i" with
        | .ok v => do pure (.int (← v.getInt?))
        | .error _ => throw s!"bad HV {j.compress}"

def hvPairs (j : Json) : Except String (List (HV × HV)) := do
  (← j.getArr?).toList.mapM (fun p => do
    let a ← p.getArr?
    if h : a.size = 2 then pure ((← hvOfJson a[0]), (← hvOfJson a[1])) else throw "hv pair")

def optField {α} (j : Json) (k : String) (f : Json → Except String α) : Except String (Option α) :=
  match j.getObjVal? k with
  | .ok v => do pure (some (← f v))
  | .error _ => pure none

def errName : PyErr → String
  | .unexpectedMessage => "UnexpectedMessageError" | .valueError => "ValueError" | .typeError => "TypeError"
  | .indexError => "IndexError" | .keyError => "KeyError" | .attributeError => "AttributeError" | .exception => "Exception"
  | .structError => "error"

/-! ### HTTP -/
def httpMsgOfJson (j : Json) : Except String (Option Http.Msg) := do
  if j.isNull then return none
  let t ← getStr j "t"
  match t with
  | "start" => pure (some (.start (← optField j "status" (·.getNat?)) (← optField j "headers" hvPairs) ((← optField j "trailers" (·.getBool?)).getD false)))
  | "body" => pure (some (.body (← optField j "body" hvOfJson) ((← optField j "more" (·.getBool?)).getD false)))
  | "trailers" => pure (some (.trailers (← optField j "headers" hvPairs) ((← optField j "more" (·.getBool?)).getD false)))
  | "push" => pure (some (.push (← optField j "path" hvOfJson) (← optField j "headers" hvPairs)))
  | "early_hint" => pure (some (.earlyHint (← optField j "links" (fun v => do (← v.getArr?).toList.mapM hvOfJson))))
  | _ => pure (some .other)

def httpEvJson : Http.Ev → Json
  | .response st hs => Json.arr #["response", toJson st, jsonOfHeaders hs]
  | .info st hs => Json.arr #["info", toJson st, jsonOfHeaders hs]
  | .body d => Json.arr #["body", jsonOfBytes d]
  | .endBody => Json.arr #["endBody"]
  | .trailers hs => Json.arr #["trailers", jsonOfHeaders hs]
  | .push p hs => Json.arr #["push", Json.str p, jsonOfHeaders hs]
  | .streamClosed => Json.arr #["streamClosed"]
  | .access st => Json.arr #["access", optJson toJson st]
  | .spawnClose => Json.arr #["spawnClose"]

def httpStName : Http.St → String
  | .request => "REQUEST" | .response => "RESPONSE" | .trailers => "TRAILERS" | .closed => "CLOSED"

def httpInit (j : Json) : Except String Http.S := do
  pure { method := (← getStr j "method"), version := (← getStr j "version"), scheme := (← getBytes j "scheme"),
         reqHeaders := (← headersOfJson (← j.getObjVal? "headers")) }

/-- {"init":{…}, "ops":[ {"send": msg|null} | {"in":"body"|"endBody"|"streamClosed","data":…} ]} -/
def httpRun : Handler := fun j => do
  let mut s ← httpInit (← j.getObjVal? "init")
  let mut outs : Array Json := #[]
  for op in (← getArr j "ops") do
    match op.getObjVal? "send" with
    | .ok m =>
      let msg ← httpMsgOfJson m
      let (s', evs, err) := Http.appSend s msg
      s := s'
      outs := outs.push (Json.mkObj [("events", Json.arr (evs.map httpEvJson).toArray), ("error", optJson (fun e => Json.str (errName e)) err),
        ("state", httpStName s'.st), ("closed", s'.closed)])
    | .error _ =>
      let kind ← getStr op "in"
      let i : Http.In ← match kind with
        | "body" => do pure (.body (← getBytes op "data"))
        | "endBody" => pure .endBody
        | _ => pure .streamClosed
      let (s', puts, evs) := Http.handle s i
      s := s'
      let putJ := puts.map (fun p => match p with
        | .request b more => Json.arr #["http.request", jsonOfBytes b, more]
        | .disconnect => Json.arr #["http.disconnect"])
      outs := outs.push (Json.mkObj [("puts", Json.arr putJ.toArray), ("events", Json.arr (evs.map httpEvJson).toArray), ("error", Json.null),
        ("state", httpStName s'.st), ("closed", s'.closed)])
  pure (Json.arr outs)

/-- client view predicted from the application's messages: {"init":…, "msgs":[…]} -/
def httpView : Handler := fun j => do
  let s ← httpInit (← j.getObjVal? "init")
  let msgs ← (← getArr j "msgs").toList.mapM httpMsgOfJson
  let (s', evs) := Http.feed s msgs
  let heads := evs.filterMap (fun e => match e with | .response st hs => some (st, hs) | _ => none)
  let body := (evs.filterMap (fun e => match e with | .body d => some d | _ => none)).flatten
  let ends := (evs.filter (fun e => e == .endBody)).length
  let trailers := evs.filterMap (fun e => match e with | .trailers hs => some (jsonOfHeaders hs) | _ => none)
  let infos := evs.filterMap (fun e => match e with | .info st hs => some (Json.arr #[toJson st, jsonOfHeaders hs]) | _ => none)
  pure (Json.mkObj [("heads", Json.arr (heads.map (fun (st, hs) => Json.arr #[toJson st, jsonOfHeaders hs])).toArray),
    ("body", jsonOfBytes body), ("ends", toJson ends), ("trailers", Json.arr trailers.toArray), ("infos", Json.arr infos.toArray),
    ("state", httpStName s'.st)])

/-! ### WebSocket -/
def payloadJson : Ws.Payload → Json
  | .text cs => Json.mkObj [("text", jsonOfChars cs)]
  | .bytes bs => Json.mkObj [("bytes", jsonOfBytes bs)]

def payloadOfJson (j : Json) : Except String Ws.Payload :=
  match j.getObjVal? "text" with
  | .ok v => do pure (.text (← v.getStr?).toList)
  | .error _ => do pure (.bytes (← getBytes j "bytes"))

def wsOutJson : Ws.WsOut → Json
  | .message p => Json.arr #["message", payloadJson p]
  | .ping b => Json.arr #["ping", jsonOfBytes b]
  | .pong b => Json.arr #["pong", jsonOfBytes b]
  | .close c => Json.arr #["close", toJson c]

def wsEvJson : Ws.Ev → Json
  | .response st hs => Json.arr #["response", toJson st, jsonOfHeaders hs]
  | .body d => Json.arr #["body", jsonOfBytes d]
  | .endBody => Json.arr #["endBody"]
  | .data f => Json.arr #["data", wsOutJson f]
  | .endData => Json.arr #["endData"]
  | .streamClosed => Json.arr #["streamClosed"]
  | .access st => Json.arr #["access", toJson st]
  | .spawnPings => Json.arr #["spawnPings"]
  | .spawnClose => Json.arr #["spawnClose"]

def wsStName : Ws.St → String
  | .handshake => "HANDSHAKE" | .connected => "CONNECTED" | .response => "RESPONSE" | .closed => "CLOSED" | .httpClosed => "HTTPCLOSED"

def wsPutJson : Ws.AppMsg → Json
  | .connect => Json.arr #["websocket.connect"]
  | .receive p => Json.arr #["websocket.receive", payloadJson p]
  | .disconnect c => Json.arr #["websocket.disconnect", toJson c]

def wsMsgOfJson (j : Json) : Except String (Option Ws.Msg) := do
  if j.isNull then return none
  let t ← getStr j "t"
  match t with
  | "accept" => pure (some (.accept (← optField j "subprotocol" bytesOfJson) ((← optField j "headers" headersOfJson).getD [])))
  | "resp_start" => pure (some (.respStart (← optField j "status" (·.getNat?)) (← optField j "headers" hvPairs)))
  | "resp_body" => pure (some (.respBody (← optField j "body" hvOfJson) ((← optField j "more" (·.getBool?)).getD false)))
  | "send" => pure (some (.send (← optField j "bytes" hvOfJson) (← optField j "text" hvOfJson)))
  | "close" =>
    -- "code": {"i": n} = the value of `int(code)`, {"err": class} = `int(code)` raised; absent = no `code` key
    let code : Ws.CloseCode ← match j.getObjVal? "code" with
      | .error _ => pure .absent
      | .ok c => match c.getObjVal? "err" with
        | .ok e => do
          let n ← e.getStr?
          match n with
          | "ValueError" => pure (.refused .valueError)
          | "TypeError" => pure (.refused .typeError)
          | _ => throw s!"close code error class {n}"
        | .error _ => match c.getInt? with
          | .ok n => pure (.int n)
          | .error _ => do pure (.int (← (← c.getObjVal? "i").getInt?))
    pure (some (.close code (← optField j "reason" hvOfJson)))
  | _ => pure (some .other)

def wsEvOfJson (j : Json) : Except String Ws.WsEv := do
  let a ← j.getArr?
  if h : a.size ≥ 2 then
    let k ← a[0].getStr?
    match k with
    | "message" => if h3 : a.size ≥ 3 then pure (.message (← payloadOfJson a[1]) (← a[2].getBool?)) else throw "message"
    | "ping" => pure (.ping (← bytesOfJson a[1]))
    | "pong" => pure (.pong (← bytesOfJson a[1]))
    | "close" => pure (.close (← a[1].getNat?))
    | "failed" => pure (.failed (← a[1].getNat?))
    | _ => throw s!"ws ev {k}"
  else throw "ws ev"

/-- {"init":{version, headers, max_len, server_name_ok, ping, token, ext_accepts}, "ops":[{"send":…}|{"in":"data","events":[…]}|{"in":"dataEchoLost","events":[["close",code]]}|{"in":"streamClosed"}]} -/
def wsRunWith (leanToken : Option (Bytes → Bytes)) : Handler := fun j => do
  let init ← j.getObjVal? "init"
  let tokenB ← match leanToken with
    | some _ => pure []
    | none => getBytes init "token"
  let tokenF : Bytes → Bytes := match leanToken with
    | some f => f
    | none => fun _ => tokenB
  let ext := (getOpt init "ext_accepts").bind (fun v => (bytesOfJson v).toOption)
  let r := Ws.onRequest (← getNat init "max_len") (← getStr init "version") (← headersOfJson (← init.getObjVal? "headers"))
    (← getBool init "server_name_ok") (← getBool init "ping")
  match r with
  | .error e => pure (Json.mkObj [("request_error", Json.str (errName e))])
  | .ok (s0, puts0, evs0) =>
    let mut s := s0
    let mut outs : Array Json := #[Json.mkObj [("puts", Json.arr (puts0.map wsPutJson).toArray), ("events", Json.arr (evs0.map wsEvJson).toArray),
      ("error", Json.null), ("state", wsStName s0.st), ("closed", s0.closed)]]
    for op in (← getArr j "ops") do
      match op.getObjVal? "send" with
      | .ok m =>
        let msg ← wsMsgOfJson m
        let (s', evs, err) := Ws.appSend tokenF ext s msg
        s := s'
        outs := outs.push (Json.mkObj [("puts", Json.arr #[]), ("events", Json.arr (evs.map wsEvJson).toArray), ("error", optJson (fun e => Json.str (errName e)) err),
          ("state", wsStName s'.st), ("closed", s'.closed)])
      | .error _ =>
        let kind ← getStr op "in"
        let i : Ws.In ← match kind with
          | "data" => do pure (.data (← (← getArr op "events").toList.mapM wsEvOfJson))
          | "dataEchoLost" => do pure (.data (← (← getArr op "events").toList.mapM wsEvOfJson))
          | _ => pure .streamClosed
        -- "dataEchoLost": the write of the first thing this read makes the stream send fails and re-enters with
        -- StreamClosed; modelled for the one case the harness generates - a lone close frame that is echoed
        let lost : Option Nat := match kind, i with
          | "dataEchoLost", .data [.close code] =>
            if s.closed = false ∧ s.hs.accepted = true ∧ s.conn = some .open then some code else none
          | _, _ => none
        let (s', puts, evs, err) := match lost with
          | some code => Ws.handleCloseEchoLost s code
          | none => Ws.handle s i
        s := s'
        outs := outs.push (Json.mkObj [("puts", Json.arr (puts.map wsPutJson).toArray), ("events", Json.arr (evs.map wsEvJson).toArray),
          ("error", optJson (fun e => Json.str (errName e)) err), ("state", wsStName s'.st), ("closed", s'.closed)])
    pure (Json.arr outs)

/-- the accept token is a library value supplied by the harness (`init.token`) -/
def wsRun : Handler := wsRunWith none

def handlers : List (String × Handler) := [("stream.http", httpRun), ("stream.http_view", httpView), ("stream.ws", wsRun)]

end Driver.Streams
