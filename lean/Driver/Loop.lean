import Driver.Util
/-! The driver loop shared by every model driver: one JSON object per input line (`{"cmd": …, …}`), one JSON object per output
line (`{"ok": result}` or `{"error": msg}`).  Pure: every answer is computed by the model definitions the theorems in
`HC/Props` are about. -/
open Lean
namespace Driver

def handleLine (handlers : List (String × Handler)) (line : String) : Json :=
  match Json.parse line with
  | .error e => Json.mkObj [("error", Json.str s!"parse: {e}")]
  | .ok j =>
    match j.getObjValAs? String "cmd" with
    | .error e => Json.mkObj [("error", Json.str e)]
    | .ok cmd =>
      match handlers.lookup cmd with
      | none => Json.mkObj [("error", Json.str s!"unknown cmd {cmd}")]
      | some h =>
        match h j with
        | .ok r => Json.mkObj [("ok", r)]
        | .error e => Json.mkObj [("error", Json.str e)]

partial def loop (handlers : List (String × Handler)) (hin : IO.FS.Stream) (hout : IO.FS.Stream) : IO Unit := do
  let line ← hin.getLine
  if line.isEmpty then return ()
  let l := line.trimAsciiEnd.toString
  if l.isEmpty then loop handlers hin hout else
  hout.putStrLn (handleLine handlers l).compress
  loop handlers hin hout

def runMain (handlers : List (String × Handler)) : IO Unit := do
  let hin ← IO.getStdin
  let hout ← IO.getStdout
  loop handlers hin hout
  hout.flush

end Driver
