import Driver.C14
import HC.Worker.Escape
/-! Driver handlers for `HC/Worker/Escape.lean` (C14): what `handle_lifespan` of a worker does with a tree of exceptions that
leaves the lifespan application (`c14.escape`), and a lifespan script as the server experiences it when its exceptions leave the
application through a nest of exception groups (`c14.escape_script`; the answer is fed to `c14.run`).  The handler used is the one
the extractor read off the worker's source (`HC/Extracted/LifespanSites.lean`).

JSON: a tree is `"failure:startup" | "failure:shutdown" | "cancelled" | "other"` or an array of trees (one exception group);
a wrap is `"own" | "sibling"` or an array of wraps. -/
open Lean HC HC.Worker
namespace Driver.C14Escape

def handlerOf (j : Json) : Except String Extracted.LifespanSites.EscapeHandler := do
  match (← getStr j "worker") with
  | "asyncio" => pure Extracted.LifespanSites.asyncioEscapeHandler
  | "trio" => pure Extracted.LifespanSites.trioEscapeHandler
  | w => throw s!"unknown worker {w}"

partial def treeOfJson (j : Json) : Except String ExcTree :=
  match j with
  | .str "failure:startup" => pure (.leaf (.failure .startup))
  | .str "failure:shutdown" => pure (.leaf (.failure .shutdown))
  | .str "cancelled" => pure (.leaf .cancelled)
  | .str "other" => pure (.leaf .other)
  | .arr a => do pure (.group (← a.toList.mapM treeOfJson))
  | _ => throw s!"not an exception tree: {j.compress}"

def excStr : Exc → String
  | .failure .startup => "failure:startup"
  | .failure .shutdown => "failure:shutdown"
  | .cancelled => "cancelled"
  | .other => "other"

partial def jsonOfTree : ExcTree → Json
  | .leaf e => Json.str (excStr e)
  | .group ts => Json.arr (ts.map jsonOfTree).toArray

partial def wrapOfJson (j : Json) : Except String Wrap :=
  match j with
  | .str "own" => pure .own
  | .str "sibling" => pure .sibling
  | .arr a => do pure (.group (← a.toList.mapM wrapOfJson))
  | _ => throw s!"not a wrap: {j.compress}"

def actStr : LAct → String
  | .recv => "recv"
  | .sendStartupComplete => "startup_complete"
  | .sendStartupFailed => "startup_failed"
  | .sendShutdownComplete => "shutdown_complete"
  | .sendShutdownFailed => "shutdown_failed"
  | .sendUnknown => "unknown"
  | .raise => "raise"
  | .hang => "hang"
  | .ret => "return"
  | .awaitInCleanup => "await"

def escapeH : Handler := fun j => do
  let h ← handlerOf j
  let t ← treeOfJson (← j.getObjVal? "tree")
  match handle h t with
  | .reraise t' => pure (Json.mkObj [("verdict", "reraise"), ("tree", jsonOfTree t')])
  | .unsupported => pure (Json.mkObj [("verdict", "unsupported")])
  | .unknown => pure (Json.mkObj [("verdict", "unknown")])

def escapeScriptH : Handler := fun j => do
  let h ← handlerOf j
  let w ← wrapOfJson (← j.getObjVal? "wrap")
  let script ← (← getArr j "script").toList.mapM (fun a => do Driver.C14.actOfString (← a.getStr?))
  match translate h w script with
  | some s => pure (Json.mkObj [("script", Json.arr (s.map (fun a => Json.str (actStr a))).toArray)])
  | none => throw "the script under this wrap is not expressible in the lifespan model"

def handlers : List (String × Handler) := [("c14.escape", escapeH), ("c14.escape_script", escapeScriptH)]

end Driver.C14Escape
