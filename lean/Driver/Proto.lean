import Driver.Util
import Driver.Streams
import HC.Proto.H11
open Lean HC HC.Stream HC.Proto
namespace Driver.Proto
open Driver.Streams

def hstName : HC.Extracted.H11Tables.HSt → String
  | .idle => "IDLE" | .sendResponse => "SEND_RESPONSE" | .sendBody => "SEND_BODY" | .done => "DONE" | .mustClose => "MUST_CLOSE"
  | .closed => "CLOSED" | .error => "ERROR" | .mightSwitch => "MIGHT_SWITCH_PROTOCOL" | .switched => "SWITCHED_PROTOCOL"

def libSendJson : H11.LibSend → Json
  | .info st hs => Json.arr #["info", toJson st, jsonOfHeaders hs]
  | .response st hs => Json.arr #["response", toJson st, jsonOfHeaders hs]
  | .data d => Json.arr #["data", jsonOfBytes d]
  | .eom => Json.arr #["eom"]

def scopeJson (s : H11.Scope) : Json :=
  Json.mkObj [("type", s.kind), ("method", s.method), ("http_version", s.version), ("raw_path", jsonOfBytes s.rawPath),
    ("query_string", jsonOfBytes s.query), ("headers", jsonOfHeaders s.headers)]

def outJson : H11.Out → Json
  | .libSend e ok => Json.arr #["libSend", libSendJson e, ok]
  | .upRaw _ => Json.arr #["upRaw"]
  | .upClosed => Json.arr #["upClosed"]
  | .upUpdated i => Json.arr #["upUpdated", i]
  | .spawn i sc => Json.arr #["spawn", toJson i, scopeJson sc]
  | .putHttp i m => Json.arr #["put", toJson i, match m with
      | .request b more => Json.arr #["http.request", jsonOfBytes b, more]
      | .disconnect => Json.arr #["http.disconnect"]]
  | .putWs i m => Json.arr #["put", toJson i, wsPutJson m]
  | .access st => Json.arr #["access", optJson toJson st]
  | .switchH2c _ => Json.arr #["switchH2c"]
  | .switchPrior => Json.arr #["switchPrior"]
  | .startNextCycle ok => Json.arr #["startNextCycle", ok]
  | .wsOther e => wsEvJson e

def reqEvOfJson (j : Json) : Except String H11.ReqEv := do
  pure { method := (← getBytes j "method"), target := (← getBytes j "target"), headers := (← headersOfJson (← j.getObjVal? "headers")),
         rawHeaders := (← headersOfJson (← j.getObjVal? "raw_headers")), version := (← getBytes j "version") }

def libEvOfJson (j : Json) : Except String H11.LibEv := do
  let k ← getStr j "k"
  match k with
  | "request" => pure (.request (← reqEvOfJson j))
  | "data" => pure (.data (← getBytes j "data"))
  | "eom" => pure .eom
  | "connClosed" => pure .connClosed
  | "needData" => pure .needData
  | "paused" => pure .paused
  | "protoError" => pure (.protoError (← getNat j "hint"))
  | "wsData" => pure (.wsData (← getBytes j "data") (← (← getArr j "events").toList.mapM wsEvOfJson))
  | _ => throw s!"lib ev {k}"

def cfgOfJson (j : Json) : Except String H11.Cfg := do
  pure { keepAliveMax := (← getNat j "keep_alive_max"), rawHeaders := (← getBool j "raw_headers"),
         serverHeaders := (← headersOfJson (← j.getObjVal? "server_headers")), wsMaxLen := (← getNat j "ws_max_len"),
         serverNames := (← (← getArr j "server_names").toList.mapM bytesOfJson), pingInterval := (← getBool j "ping") }

def pcName : H11.Pc → String | .idle => "idle" | .inLoop => "inLoop" | .parked => "parked"

/-- {"cfg":…, "token":…, "ext":…|null, "ops":[{"op":"begin"}|{"op":"ev",…}|{"op":"sendHttp","obj":i,"msg":…}|{"op":"sendWs",…}|{"op":"closed"}|{"op":"terminate"}|{"op":"deferredClose"}]} -/
def h11Run : Handler := fun j => do
  let cfg ← cfgOfJson (← j.getObjVal? "cfg")
  let tokenB ← getBytes j "token"
  let ext := (getOpt j "ext").bind (fun v => (bytesOfJson v).toOption)
  let mut st : H11.St := {}
  let mut outs : Array Json := #[]
  for opj in (← getArr j "ops") do
    let kind ← getStr opj "op"
    if kind == "deferredClose" then
      -- the spawned `stream_send(StreamClosed)` of a stream that answered by itself: `_maybe_recycle`
      let r := H11.maybeRecycle st
      st := r.1
      outs := outs.push (Json.mkObj [("outs", Json.arr (r.2.map outJson).toArray), ("error", Json.null),
        ("their", hstName st.lib.client), ("our", hstName st.lib.server), ("pc", pcName st.pc), ("cur", optJson toJson st.cur),
        ("kar", toJson st.keepAliveRequests)])
      continue
    let op : H11.Op ← match kind with
      | "begin" => pure .begin
      | "ev" => do pure (.ev (← libEvOfJson opj))
      | "sendHttp" => do pure (.sendHttp (← getNat opj "obj") (← httpMsgOfJson (← opj.getObjVal? "msg")))
      | "sendWs" => do pure (.sendWs (← getNat opj "obj") (← wsMsgOfJson (← opj.getObjVal? "msg")))
      | "closed" => pure .closed
      | "terminate" => pure .terminate
      | _ => throw s!"op {kind}"
    match H11.step cfg (fun _ => tokenB) ext st op with
    | none =>
      outs := outs.push (Json.mkObj [("rejected", true)])
    | some (st', o, err) =>
      st := st'
      outs := outs.push (Json.mkObj [("outs", Json.arr (o.map outJson).toArray), ("error", optJson (fun e => Json.str (errName e)) err),
        ("their", hstName st'.lib.client), ("our", hstName st'.lib.server), ("pc", pcName st'.pc), ("cur", optJson toJson st'.cur),
        ("kar", toJson st'.keepAliveRequests)])
  pure (Json.arr outs)

def handlers : List (String × Handler) := [("proto.h11", h11Run)]

end Driver.Proto
