import Driver.Util
import HC.Proto.H2Recv
/-! Driver handler of C04.

* `c04.h2recv` {ka_max, allow_recursion, ops:[…]} → the run of `HC.Proto.H2Recv` on the operation list (the h2 / priority
  answers recorded by the taps are the oracle fields): per operation `{ok, outs, wf, odd, st}` or `{ok:false, error}`;
  the run stops at the first uncaught exception.  `wf` is `Op.wf` in the state before the operation (`LibWf`, op by op).

Operation encoding (exception classes as the extractor's qualified names, `null` = the call returned):
  {"op":"ev","k":"request","sid","hasMethod","methodAscii","isConnect","hasPath","pathAscii","ins","lib"}
  {"op":"ev","k":"data"|"ended"|"reset"|"window","sid"}   {"op":"ev","k":"settings","iw"}   {"op":"ev","k":"terminated"|"other"}
  {"op":"ev","k":"priority","sid","dep","rep","ins","parentOnError"}
  {"op":"batchEnd"} {"op":"recvRaised","e"} {"op":"closed"} {"op":"terminate"}
  {"op":"app","sid","k":"headers","lib"} | {"k":"body","push"} | {"k":"endBody"} | {"k":"streamClosed","abandon","lib"}
  {"op":"sendTask","k":"deadlock"} | {"k":"raised","e"} | {"k":"stream","sid","window","dataEmpty","send","complete","endStream"} -/
open Lean HC.Proto.H2Recv
namespace Driver.C04
open Driver

def allExn : List Exn :=
  [.keyError, .unboundLocalError, .unicodeDecodeError, .recursionError, .typeError, .attributeError,
   .prioMissing, .prioDuplicate, .prioTooMany, .prioLoop, .prioBadWeight, .prioPseudo, .prioDeadlock,
   .h2Protocol, .h2StreamClosed, .h2NoSuchStream, .h2FlowControl, .h2TooManyStreams, .h2NoAvailableStreamID, .h2FrameTooLarge,
   .bufferComplete]

def exnOfName (n : String) : Except String Exn :=
  match allExn.find? (fun e => e.cls == n) with
  | some e => pure e
  | none => throw s!"unknown exception class {n}"

def optExn (j : Json) (k : String) : Except String (Option Exn) :=
  match getOpt j k with
  | none => pure none
  | some v => do pure (some (← exnOfName (← v.getStr?)))

def getBoolD (j : Json) (k : String) (d : Bool) : Bool := (j.getObjValAs? Bool k).toOption.getD d

def reqOfJson (j : Json) : Except String Req := do
  pure { sid := (← getNat j "sid"), hasMethod := getBoolD j "hasMethod" true, methodAscii := getBoolD j "methodAscii" true,
         isConnect := getBoolD j "isConnect" false, hasPath := getBoolD j "hasPath" true, pathAscii := getBoolD j "pathAscii" true }

def evOfJson (j : Json) : Except String Ev := do
  match (← getStr j "k") with
  | "request" => pure (.request (← reqOfJson j) (← optExn j "ins") (← optExn j "lib"))
  | "data" => pure (.data (← getNat j "sid"))
  | "ended" => pure (.ended (← getNat j "sid"))
  | "reset" => pure (.reset (← getNat j "sid"))
  | "window" => pure (.window (← getNat j "sid"))
  | "priority" => pure (.priority (← getNat j "sid") (← getNat j "dep") (← optExn j "rep") (← optExn j "ins") (getBoolD j "parentOnError" false))
  | "settings" => pure (.settings (getBoolD j "iw" false))
  | "terminated" => pure .terminated
  | "other" => pure .other
  | k => throw s!"event kind {k}"

def oracleOfJson (j : Json) : Except String SendOracle := do
  pure { window := (← optExn j "window"), dataEmpty := getBoolD j "dataEmpty" false, send := (← optExn j "send"),
         complete := getBoolD j "complete" false, endStream := (← optExn j "endStream") }

def opOfJson (j : Json) : Except String Op := do
  match (← getStr j "op") with
  | "ev" => pure (.ev (← evOfJson j))
  | "batchEnd" => pure .batchEnd
  | "recvRaised" => pure (.recvRaised (← exnOfName (← getStr j "e")))
  | "closed" => pure .closed
  | "terminate" => pure .terminate
  | "app" =>
    let sid ← getNat j "sid"
    match (← getStr j "k") with
    | "headers" => pure (.app sid (.headers (← optExn j "lib")))
    | "body" => pure (.app sid (.body (← optExn j "push")))
    | "endBody" => pure (.app sid .endBody)
    | "streamClosed" => pure (.app sid (.streamClosed (getBoolD j "abandon" false) (← optExn j "lib")))
    | k => throw s!"app op {k}"
  | "sendTask" =>
    match (← getStr j "k") with
    | "deadlock" => pure (.sendTask .deadlock)
    | "raised" => pure (.sendTask (.raised (← exnOfName (← getStr j "e"))))
    | "stream" => pure (.sendTask (.stream (← getNat j "sid") (← oracleOfJson j)))
    | k => throw s!"sendTask {k}"
  | k => throw s!"op {k}"

def outJson : Out → Json
  | .toStream sid w => Json.arr #["toStream", toJson sid, w]
  | .h2call n sid r => Json.arr #["h2", n, toJson sid, r]
  | .connCall n r => Json.arr #["conn", n, r]
  | .prioCall n sid r => Json.arr #["prio", n, toJson sid, optJson Json.str r]
  | .spawnStream sid ws => Json.arr #["spawn", toJson sid, ws]
  | .flush => Json.arr #["flush"]
  | .hasData => Json.arr #["hasData"]
  | .upClosed => Json.arr #["upClosed"]
  | .upUpdated i => Json.arr #["upUpdated", optJson Json.bool i]

def stJson (s : St) : Json :=
  Json.mkObj [("streams", toJson s.streams), ("buffers", toJson s.buffers), ("prio", toJson (s.prio.map (·.1))),
    ("active", toJson ((s.prio.filter (·.2)).map (·.1))), ("kar", toJson s.kar), ("closed", s.closed), ("terminated", s.terminated)]

def h2recv : Handler := fun j => do
  let kaMax ← getNat j "ka_max"
  let ar := getBoolD j "allow_recursion" true
  let mut st : St := {}
  let mut res : Array Json := #[]
  let mut dead := false
  for opj in (← getArr j "ops") do
    if dead then
      res := res.push (Json.mkObj [("skipped", true)])
    else
      let op ← opOfJson opj
      let wf := op.wf ar st
      let odd := oddSid st op
      match step kaMax st op with
      | .error e =>
        res := res.push (Json.mkObj [("ok", false), ("error", e.cls), ("wf", wf)])
        dead := true
      | .ok (s1, o) =>
        st := s1
        res := res.push (Json.mkObj [("ok", true), ("outs", Json.arr (o.map outJson).toArray), ("wf", wf), ("odd", optJson toJson odd),
          ("st", stJson s1)])
  pure (Json.arr res)

/-- `c04.catches` {site:[names], e:name} → the model's `catches` (exposes the extracted hierarchy to the harness) -/
def catchesH : Handler := fun j => do
  let site ← (← getArr j "site").toList.mapM (fun x => x.getStr?)
  let e ← exnOfName (← getStr j "e")
  pure (Json.bool (catches site e))

def handlers : List (String × Handler) := [("c04.h2recv", h2recv), ("c04.catches", catchesH)]

end Driver.C04
