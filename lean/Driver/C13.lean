import Driver.Util
import Driver.Proto
import HC.Proto.WrapperRun
import HC.Lib.H2Settings
/-! Driver handlers of C13.

* `c13.run` {alpn, limit, head, req, bad, reads} → the states of `HC.Proto.Wrapper.run` after every read, over the parser
  `oracle head req bad` ("the request head is the byte string `head` and parses to `req`" / "`head` is a malformed head";
  `head = ""`: no complete head in the session), plus the specification's `outcome` for the concatenation of the reads.
* `c13.settings` {value} → `HC.Lib.H2Settings`: accepted?, the decoded payload, the (identifier, value) pairs applied.
* `c13.select` {req} → `checkProtocol`, `isWebsocketRequest`, `h2cSettings`, `h2cHeaders` of a request event. -/
open Lean HC HC.Proto.H11 HC.Proto.Wrapper
namespace Driver.C13

def selJson : Sel → Json
  | .h11wait => Json.str "h11wait"
  | .h11bad => Json.str "h11bad"
  | .h11 _ ws => Json.str (if ws then "h11ws" else "h11")
  | .alpn => Json.str "alpn"
  | .prior _ => Json.str "prior"
  | .h2c _ served => Json.str (if served then "h2c" else "h2c_refused")

def initJson : Option InitPath → Json
  | none => Json.null
  | some .plain => Json.str "plain"
  | some (.upgrade s) => Json.arr #[Json.str "upgrade", jsonOfBytes s]

def viewJson (v : View) : Json :=
  Json.mkObj [("sel", selJson v.sel), ("proto", Json.str (match v.proto with | .h11 => "h11" | .h2 => "h2")),
    ("h11_consumed", jsonOfBytes v.h11Consumed), ("h2_input", jsonOfBytes v.h2Input),
    ("wrote101", Json.bool v.sel.wrote101), ("init", initJson v.sel.initPath),
    ("stream1", optJson jsonOfHeaders v.sel.stream1), ("refused", Json.bool v.sel.refused),
    ("h11_constructed", Json.bool v.sel.h11Constructed)]

def stateJson (s : RS) : Json :=
  (viewJson s.view).mergeObj (Json.mkObj [("h11_input", jsonOfBytes s.w.h11Input), ("cut", Json.num s.cut)])

def emptyReq : ReqEv := { method := [], target := [], headers := [], version := [] }

def runH : Handler := fun j => do
  let alpn := (getOpt j "alpn").bind (fun v => v.getStr?.toOption)
  let limit ← getNat j "limit"
  let head ← getBytes j "head"
  let bad ← getBool j "bad"
  let req ← match getOpt j "req" with
    | some r => Driver.Proto.reqEvOfJson r
    | none => pure emptyReq
  let reads ← (← getArr j "reads").toList.mapM bytesOfJson
  let P := oracle head req bad
  let step := fun (acc : RS × List Json) (d : Bytes) =>
    let s := acc.1.step P limit d
    (s, stateJson s :: acc.2)
  let (fin, trace) := reads.foldl step (RS.init alpn, [])
  pure (Json.mkObj [("init", stateJson (RS.init alpn)), ("trace", Json.arr trace.reverse.toArray), ("final", stateJson fin),
    ("outcome", viewJson (outcome P alpn reads.flatten))])

def settingsH : Handler := fun j => do
  let v ← getBytes j "value"
  pure (Json.mkObj [("accepts", Json.bool (HC.Lib.H2Settings.accepts v)),
    ("decoded", optJson jsonOfBytes (if HC.Lib.H2Settings.isAscii v then HC.Lib.H2Settings.b64decode v else none)),
    ("applied", optJson (fun ps => Json.arr (ps.map (fun (p : Nat × Nat) => Json.arr #[Json.num p.1, Json.num p.2])).toArray)
      (HC.Lib.H2Settings.applied v))])

def selectH : Handler := fun j => do
  let r ← Driver.Proto.reqEvOfJson (← j.getObjVal? "req")
  pure (Json.mkObj [("switch", Json.str (match checkProtocol r with | .none => "none" | .h2c => "h2c" | .prior => "prior")),
    ("ws", Json.bool (isWebsocketRequest r)), ("settings", jsonOfBytes (h2cSettings r)), ("stream1", jsonOfHeaders (h2cHeaders r))])

def handlers : List (String × Handler) := [("c13.run", runH), ("c13.settings", settingsH), ("c13.select", selectH)]

end Driver.C13
