import Driver.Util
import HC.Pure.Wsgi
open Lean HC HC.Wsgi
namespace Driver.C17

/-! JSON conventions: Python `str` travels as a JSON string, `bytes` as a JSON string of code points 0..255
(latin-1), absent / `None` as `null`. -/

def optChars (j : Json) (k : String) : Option Str :=
  (getOpt j k).bind (fun v => v.getStr?.toOption) |>.map String.toList

def scopeOfJson (j : Json) : Except String Scope := do
  let server ← match getOpt j "server" with
    | none => pure none
    | some s => do
      let a ← s.getArr?
      if h : a.size = 2 then
        let port := match a[1] with | Json.null => none | p => p.getInt?.toOption
        pure (some ((← a[0].getStr?).toList, port))
      else throw "server"
  let client ← match getOpt j "client" with
    | none => pure none
    | some c => do
      let a ← c.getArr?
      if h : 0 < a.size then pure (some (← a[0].getStr?).toList) else throw "client"
  pure { method := (← getChars j "method"), path := (← getChars j "path"), rootPath := optChars j "root_path",
         query := (← getBytes j "query_string"), httpVersion := (← getChars j "http_version"),
         scheme := optChars j "scheme", server, client, headers := (← headersOfJson (← j.getObjVal? "headers")) }

def jsonOfVal : Val → Json
  | .str s => Json.mkObj [("s", jsonOfChars s)]
  | .int n => Json.mkObj [("i", toJson n)]
  | .none => Json.mkObj [("none", true)]
  | .bool b => Json.mkObj [("b", b)]
  | .version a b => Json.mkObj [("ver", Json.arr #[toJson a, toJson b])]
  | .input body => Json.mkObj [("input", jsonOfBytes body)]
  | .stdout => Json.mkObj [("stdout", true)]

def jsonOfEnviron (e : Environ) : Json :=
  Json.arr (e.map (fun (k, v) => Json.arr #[jsonOfChars k, jsonOfVal v])).toArray

def envErrName : EnvErr → String
  | .invalidPath => "InvalidPathError"
  | .unicodeDecodeError => "UnicodeDecodeError"
  | .typeError => "TypeError"

def pyErrName : PyErr → String
  | .runtimeError => "RuntimeError"
  | .valueError => "ValueError"
  | .unicodeEncodeError => "UnicodeEncodeError"
  | .unicodeDecodeError => "UnicodeDecodeError"
  | .typeError => "TypeError"
  | .appError => "AppError"
  | .unknownScope => "Exception"

def environH : Handler := fun j => do
  let sc ← scopeOfJson (← j.getObjVal? "scope")
  let body ← getBytes j "body"
  match buildEnviron sc body with
  | .ok e => pure (Json.mkObj [("environ", jsonOfEnviron e)])
  | .error x => pure (Json.mkObj [("raises", envErrName x)])

def msgsOfJson (j : Json) (k : String) : Except String (List ReqMsg) := do
  (← getArr j k).toList.mapM (fun m => do
    let a ← m.getArr?
    if h : a.size = 2 then pure { body := (← bytesOfJson a[0]), more := (← a[1].getBool?) } else throw "request message")

def collectH : Handler := fun j => do
  let max ← getNat j "max"
  let msgs ← msgsOfJson j "msgs"
  match collectBody max msgs with
  | .tooLarge => pure (Json.mkObj [("result", "too_large")])
  | .complete b => pure (Json.mkObj [("result", "complete"), ("body", jsonOfBytes b)])
  | .pending b => pure (Json.mkObj [("result", "pending"), ("body", jsonOfBytes b)])

def pairsOfJson (j : Json) : Except String (List (Str × Str)) := do
  (← j.getArr?).toList.mapM (fun p => do
    let a ← p.getArr?
    if h : a.size = 2 then pure ((← a[0].getStr?).toList, (← a[1].getStr?).toList) else throw "header pair")

def startArgsOfJson (status hs : Json) : Except String StartArgs := do
  pure { status := (← status.getStr?).toList, headers := (← pairsOfJson hs) }

def appOfJson (j : Json) : Except String App := do
  let call ← (← getArr j "call").toList.mapM (fun c => do
    let a ← c.getArr?
    if h : a.size = 2 then startArgsOfJson a[0] a[1] else throw "call entry")
  let iter ← (← getArr j "iter").toList.mapM (fun c => do
    let a ← c.getArr?
    if h : 0 < a.size then
      match (← a[0].getStr?) with
      | "start" => if h3 : a.size = 3 then pure (IterAct.start (← startArgsOfJson a[1] a[2])) else throw "start act"
      | "yield" => if h2 : a.size = 2 then pure (IterAct.yield (← bytesOfJson a[1])) else throw "yield act"
      | "raise" => pure IterAct.raise
      | other => throw s!"unknown act {other}"
    else throw "empty act")
  let flag (k : String) (dflt : Bool) : Except String Bool :=
    match getOpt j k with | some b => b.getBool? | none => pure dflt
  pure { call, callRaises := (← getBool j "call_raises"), iter, hasClose := (← getBool j "has_close"),
         selfIter := (← flag "self_iter" true), iterRaises := (← flag "iter_raises" false),
         iterHasClose := (← flag "iter_has_close" false) }

def jsonOfMsg : Msg → Json
  | .start st hs => Json.mkObj [("type", "start"), ("status", toJson st), ("headers", jsonOfHeaders hs)]
  | .body b more => Json.mkObj [("type", "body"), ("body", jsonOfBytes b), ("more", more)]
  | .wsClose => Json.mkObj [("type", "ws_close")]

def variantOfJson (j : Json) : Except String Variant := do
  match (← getStr j "variant") with
  | "check_after_call" => pure .checkAfterCall
  | "check_at_first_chunk" => pure .checkAtFirstChunk
  | other => throw s!"unknown variant {other}"

/-- the whole of `WSGIWrapper.__call__`: receive loop, environ, `run_app` in the spawned thread, trailing messages -/
def runAppH : Handler := fun j => do
  let v ← variantOfJson j
  let kind ← getStr j "kind"
  let max ← getNat j "max"
  let sc ← scopeOfJson (← j.getObjVal? "scope")
  let msgs ← msgsOfJson j "msgs"
  let app ← appOfJson (← j.getObjVal? "app")
  let o := wrapper v kind max sc msgs app
  -- end to end: optional "worker" (asyncio / trio) and "susp" (which sends suspend) → the messages the stream accepts
  let acc : Option (List Msg) := match getOpt j "worker", getOpt j "susp" with
    | some wj, some sj =>
      match wj.getStr?, sj.getArr? with
      | .ok wn, .ok arr =>
        let flags := arr.toList.map (fun b => (b.getBool?.toOption.getD false))
        let w := if wn = "trio" then Worker.trio else if wn = "asyncio_middleware" then Worker.asyncioMiddleware
                 else if wn = "trio_middleware" then Worker.trioMiddleware else Worker.asyncio
        some (accepted w (fun i => flags.getD i (flags.getLast?.getD false)) o.sent)
      | _, _ => none
    | _, _ => none
  pure (Json.mkObj [("accepted", optJson (fun l => Json.arr (l.map jsonOfMsg).toArray) acc), ("sent", Json.arr (o.sent.map jsonOfMsg).toArray), ("app_calls", toJson o.appCalls),
    ("spawns", toJson o.spawns), ("close_calls", toJson o.closeCalls), ("iter_close_calls", toJson o.iterCloseCalls), ("iter_obtained", o.iterObtained),
    ("exc", optJson (fun e => Json.str (pyErrName e)) o.exc), ("waiting", o.waiting),
    ("environ", optJson jsonOfEnviron o.environ)])

def handlers : List (String × Handler) :=
  [("c17.environ", environH), ("c17.collect", collectH), ("c17.run_app", runAppH)]

end Driver.C17
