import Driver.Loop
import Driver.C20
import Driver.C19
import Driver.Streams
import Driver.Proto
import Driver.C17
import Driver.Utils
import Driver.C14
import Driver.C14Escape
import Driver.C11
import Driver.C11Iter
import Driver.C11Overlap
import Driver.Conn
import Driver.C18
import Driver.H2Send
import Driver.Shell
import Driver.C04
import Driver.H2Wire
import Driver.H2Deliver
import Driver.C04H1
import Driver.C13
/-! `hcdriver`: one JSON object per input line (`{"cmd": …, …}`), one JSON object per output line
(`{"ok": result}` or `{"error": msg}`).  Pure: every answer is computed by the model definitions the
theorems in `HC/Props` are about. -/
open Lean Driver

def allHandlers : List (String × Handler) :=
  Driver.C04.handlers ++ Driver.H2Wire.handlers ++ Driver.H2Deliver.handlers ++ Driver.C04H1.handlers ++ Driver.C13.handlers ++ Driver.Shell.handlers ++ Driver.C20.handlers ++ Driver.C19.handlers ++ Driver.Streams.handlers ++ Driver.Proto.handlers ++ Driver.C17.handlers ++ Driver.Utils.handlers ++ Driver.C14.handlers ++ Driver.C14Escape.handlers ++ Driver.C11.handlers ++ Driver.C11Iter.handlers ++ Driver.C11Overlap.handlers ++ Driver.Conn.handlers ++ Driver.C18.handlers ++ Driver.H2Send.handlers

def main : IO Unit := Driver.runMain allHandlers
