import Driver.Util
import Driver.C20
import Driver.C19
import Driver.Streams
import Driver.Proto
import Driver.C17
import Driver.Utils
import Driver.C14
import Driver.C11
import Driver.Conn
import Driver.C18
import Driver.H2Send
import Driver.Shell
import Driver.C04
/-! `hcdriver`: one JSON object per input line (`{"cmd": …, …}`), one JSON object per output line
(`{"ok": result}` or `{"error": msg}`).  Pure: every answer is computed by the model definitions the
theorems in `HC/Props` are about. -/
open Lean Driver

def allHandlers : List (String × Handler) :=
  Driver.C04.handlers ++ Driver.Shell.handlers ++ Driver.C20.handlers ++ Driver.C19.handlers ++ Driver.Streams.handlers ++ Driver.Proto.handlers ++ Driver.C17.handlers ++ Driver.Utils.handlers ++ Driver.C14.handlers ++ Driver.C11.handlers ++ Driver.Conn.handlers ++ Driver.C18.handlers ++ Driver.H2Send.handlers

def handleLine (line : String) : Json :=
  match Json.parse line with
  | .error e => Json.mkObj [("error", Json.str s!"parse: {e}")]
  | .ok j =>
    match j.getObjValAs? String "cmd" with
    | .error e => Json.mkObj [("error", Json.str e)]
    | .ok cmd =>
      match allHandlers.lookup cmd with
      | none => Json.mkObj [("error", Json.str s!"unknown cmd {cmd}")]
      | some h =>
        match h j with
        | .ok r => Json.mkObj [("ok", r)]
        | .error e => Json.mkObj [("error", Json.str e)]

partial def loop (hin : IO.FS.Stream) (hout : IO.FS.Stream) : IO Unit := do
  let line ← hin.getLine
  if line.isEmpty then return ()
  let l := line.trimAsciiEnd.toString
  if l.isEmpty then loop hin hout else
  hout.putStrLn (handleLine l).compress
  loop hin hout

def main : IO Unit := do
  let hin ← IO.getStdin
  let hout ← IO.getStdout
  loop hin hout
  hout.flush
