import Driver.Util
import Driver.H2Send
import Driver.Streams
import HC.Proto.H2Wire
/-! Driver endpoints of the HTTP/2 composition of C02 (`HC.Proto.H2Wire`, theorem `HC.Props.C02.h2_response_delivered`).

* `h2wire.run` {connWin, maxFrame, srv:[[n,v]…], ids, ops:[…]} – replay of a schedule through the send path *with contents*.
  `ops` are the ops of `h2send.run` (a `push` carries its bytes as `"d"`) plus `{"op":"head","i","status","headers"}` and
  `{"op":"trailers","i","headers"}`.  Answer: the frames written per stream (`[["headers", hs] | ["data", n] | ["end"] |
  ["trailers_end", hs] | ["rst"]]`), the DATA payload per stream, and per stream whether the hypotheses / conclusion of
  `h2_response_delivered` hold at the end.
* `h2wire.predict` {init, msgs, srv, sid, connWin, streamWin, maxFrame, seed, credits:[…]} – the composition itself: the
  application's messages go through the `HTTPStream` model (`Http.feed`), the events become stream events (`evOps`), and a
  pseudo-random schedule of the send path (application steps, send-task steps, wake-ups, WINDOW_UPDATEs from `credits` when
  everything is stalled) is run to quiescence.  Answer: the wire of the stream, and whether the theorem's hypotheses held. -/
open Lean HC HC.Proto.H2Send HC.Proto.H2Wire
namespace Driver.H2Wire
open Driver

def frameJson : Frame → Json
  | .headers hs => Json.arr #["headers", jsonOfHeaders hs]
  | .data d => Json.arr #["data", toJson d.length]
  | .endStream => Json.arr #["end"]
  | .trailersEnd hs => Json.arr #["trailers_end", jsonOfHeaders hs]
  | .rst => Json.arr #["rst"]

def gopOfJson (j : Json) : Except String GOp := do
  match (← getStr j "op") with
  | "head" => pure (.head (← getNat j "i") (← getNat j "status") (← headersOfJson (← j.getObjVal? "headers")))
  | "trailers" => pure (.trailers (← getNat j "i") (← headersOfJson (← j.getObjVal? "headers")))
  | "push" => pure (.body (← getNat j "i") (← getBytes j "d"))
  | _ => pure (.low (← Driver.H2Send.opOfJson j))

def aopJson : AOp → Json
  | .head st hs => Json.arr #["head", toJson st, jsonOfHeaders hs]
  | .body d => Json.arr #["body", toJson d.length]
  | .trailers hs => Json.arr #["trailers", jsonOfHeaders hs]
  | .end_ => Json.arr #["end"]
  | .closed => Json.arr #["closed"]

/-- the state components are functions built by point updates; evaluating them afresh after every step re-runs the whole
    history.  `norm` replaces them by tables over the stream ids that occur (with the same values; other ids fall through to
    the original function), so that a replay is linear in the length of the schedule. -/
def tabOf {α : Type} (t : List (Nat × α)) (f : Nat → α) (j : Nat) : α :=
  match t.lookup j with
  | some v => v
  | none => f j

def norm (ids : List Nat) (g : G) : G :=
  -- (strict: the tables are computed here, once; the closures below only capture them)
  let t1 := ids.map (fun i => (i, g.s.str i))
  let t2 := ids.map (fun i => (i, g.bufB i))
  let t3 := ids.map (fun i => (i, g.trl i))
  let t4 := ids.map (fun i => (i, g.hist i))
  { s := { g.s with str := tabOf t1 g.s.str }, out := g.out, bufB := tabOf t2 g.bufB, trl := tabOf t3 g.trl, hist := tabOf t4 g.hist }

def quiescentB (s : St) : Bool := s.task == .parked && !s.hasData

/-- per stream: the frames, the payload, and the reading of `h2_response_delivered` -/
def streamJson (srv : Headers) (g : G) (i : Nat) : Json :=
  let w := wireOf i g.out
  let x := g.s.str i
  let h := g.hist i
  let hyp := quiescentB g.s && !g.s.closed && !x.libClosed && decide (0 < x.window) && decide (0 < g.s.connWin) && decide (3 ≤ ph h) && ph h != 9
  let concl := w == (headsOf srv h) ++ (payloads w).map Frame.data ++ [endFrame (trlOf h)] && (payloads w).flatten == bodyOf h &&
               (headsOf srv h).length == 1
  Json.mkObj [("frames", Json.arr (w.map frameJson).toArray), ("payload", jsonOfBytes (dataOf w)), ("hyp", hyp), ("concl", concl),
    ("phase", toJson (ph h)), ("buf", toJson (g.bufB i).length), ("ended", x.ended), ("libClosed", x.libClosed), ("window", toJson x.window)]

def run : Handler := fun j => do
  let cw ← getInt j "connWin"
  let mf ← getNat j "maxFrame"
  let srv ← headersOfJson (← j.getObjVal? "srv")
  let ids ← (← getArr j "ids").toList.mapM (fun v => v.getNat?)
  let mut g : G := ginit cw mf
  let mut at_ : Nat := 0
  let mut stopped : Option Nat := none
  for opj in (← getArr j "ops") do
    if stopped.isNone then
      let op ← gopOfJson opj
      match gstep srv g op with
      | none => stopped := some at_
      | some g' => g := norm ids g'
    at_ := at_ + 1
  pure (Json.mkObj [("stopped", optJson toJson stopped), ("closed", g.s.closed), ("quiescent", quiescentB g.s), ("connWin", toJson g.s.connWin),
    ("streams", Json.mkObj (ids.map (fun i => (toString i, streamJson srv g i))))])

/-! ### the composed prediction -/

def lcg (x : Nat) : Nat := (x * 6364136223846793005 + 1442695040888963407) % 18446744073709551616

structure Sim where
  g : G
  todo : List AOp
  credits : List Nat
  rng : Nat
  steps : Nat := 0

def appGOp (i : Nat) : AOp → GOp
  | .head st hs => .head i st hs
  | .body d => .body i d
  | .trailers hs => .trailers i hs
  | .end_ => .low (.end_ i)
  | .closed => .low (.abandon i)

/-- the operations enabled for stream `i`'s application, the send task and the waiting sender (`park` only at deadlock) -/
def candidates (srv : Headers) (i : Nat) (sim : Sim) : List (GOp × Bool) :=
  let g := sim.g
  let x := g.s.str i
  let app : List (GOp × Bool) := match sim.todo with
    | a :: _ => if x.pusher == .idle then [(appGOp i a, true)] else []
    | [] => []
  let wakes : List (GOp × Bool) := [(GOp.low (.pushWake i), false), (GOp.low (.drainWake i), false)]
  let dead := !x.inTree || x.blocked
  let task : List (GOp × Bool) :=
    [(GOp.low (.pick i), false), (GOp.low (.sent i), false), (GOp.low (.endSent i), false), (GOp.low .wake, false)] ++
    (if dead then [(GOp.low .park, false)] else [])
  (app ++ wakes ++ task).filter (fun c => (gstep srv g c.1).isSome)

def simStep (srv : Headers) (i : Nat) (sim : Sim) : Option Sim :=
  let cs := candidates srv i sim
  -- nothing is enabled (send task asleep, the application waiting on flow control or done): give credit if there is any left
  let stalled := cs.isEmpty
  if stalled then
    match sim.credits with
    | [] => none
    | k :: rest =>
      let op : GOp := if sim.rng % 2 == 0 then .low (.winStream i k) else .low (.winConn k)
      -- both windows are needed in general: alternate
      let op2 : GOp := if sim.rng % 2 == 0 then .low (.winConn k) else .low (.winStream i k)
      match gstep srv sim.g op with
      | none => none
      | some g1 => match gstep srv g1 op2 with
        | none => none
        | some g2 => some { sim with g := norm [i] g2, credits := rest, rng := lcg sim.rng, steps := sim.steps + 2 }
  else
    let c := cs.getD ((sim.rng / 65536) % cs.length) (GOp.low .park, false)
    match gstep srv sim.g c.1 with
    | none => none
    | some g' => some { sim with g := norm [i] g', todo := if c.2 then sim.todo.drop 1 else sim.todo, rng := lcg sim.rng, steps := sim.steps + 1 }

def simulate (srv : Headers) (i : Nat) : Nat → Sim → Sim
  | 0, sim => sim
  | fuel + 1, sim => match simStep srv i sim with
    | none => sim
    | some sim' => simulate srv i fuel sim'

def predict : Handler := fun j => do
  let s0 ← Driver.Streams.httpInit (← j.getObjVal? "init")
  let msgs ← (← getArr j "msgs").toList.mapM Driver.Streams.httpMsgOfJson
  let srv ← headersOfJson (← j.getObjVal? "srv")
  let i ← getNat j "sid"
  let cw ← getInt j "connWin"
  let sw ← getInt j "streamWin"
  let mf ← getNat j "maxFrame"
  let seed ← getNat j "seed"
  let credits ← (← getArr j "credits").toList.mapM (fun v => v.getNat?)
  let evs := (HC.Stream.Http.feed s0 msgs).2
  let script := evOps evs
  let g0 := ginit cw mf
  match gstep srv g0 (.low (.open_ i sw)) with
  | none => throw "open"
  | some g1 =>
    let sim := simulate srv i 200000 { g := g1, todo := script, credits := credits, rng := lcg (seed + 1) }
    pure (Json.mkObj [("script", Json.arr (script.map aopJson).toArray), ("left", toJson sim.todo.length), ("steps", toJson sim.steps),
      ("stream", streamJson srv sim.g i), ("quiescent", quiescentB sim.g.s)])

def handlers : List (String × Handler) := [("h2wire.run", run), ("h2wire.predict", predict)]

end Driver.H2Wire
