import Driver.Util
import HC.Pure.Utils
open Lean HC
namespace Driver.Utils
def filterPseudoH : Handler := fun j => do
  pure (jsonOfHeaders (HC.Utils.filterPseudo (← headersOfJson (← j.getObjVal? "headers"))))
def handlers : List (String × Handler) := [("utils.filter_pseudo", filterPseudoH)]
end Driver.Utils
