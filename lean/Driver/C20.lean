import Driver.Util
import HC.Pure.Middleware
open Lean HC HC.Middleware
namespace Driver.C20

def scopeOfJson (j : Json) : Except String Scope := do
  let kind ← getStr j "kind"
  let client ← match getOpt j "client" with
    | none => pure none
    | some c => do
      let a ← c.getArr?
      if h : a.size = 2 then pure (some ((← bytesOfJson a[0]), (← a[1].getNat?))) else throw "client"
  let scheme ← getBytes j "scheme"
  let headers ← headersOfJson (← j.getObjVal? "headers")
  pure { kind, client, scheme, headers }

def jsonOfScope (s : Scope) : Json :=
  Json.mkObj [("kind", s.kind), ("client", optJson (fun (h, p) => Json.arr #[jsonOfBytes h, toJson p]) s.client),
    ("scheme", jsonOfBytes s.scheme), ("headers", jsonOfHeaders s.headers)]

def proxy : Handler := fun j => do
  let modern ← getBool j "modern"
  let hops ← getNat j "hops"
  let sc ← scopeOfJson (← j.getObjVal? "scope")
  pure (jsonOfScope (proxyFix modern hops sc))

def dispatchH : Handler := fun j => do
  let mounts ← (← getArr j "mounts").toList.mapM (fun m => do pure (← m.getStr?).toList)
  let path ← getChars j "path"
  match dispatch mounts path with
  | none => pure Json.null
  | some (i, p) => pure (Json.mkObj [("index", toJson i), ("path", jsonOfChars p)])

def fan : Handler := fun j => do
  let n ← getNat j "n"
  let ops ← (← getArr j "ops").toList.mapM (fun o => do
    let a ← o.getArr?
    if h : a.size = 2 then
      let k ← a[0].getStr?
      let i ← a[1].getNat?
      match k with
      | "s" => pure (FanOp.startupComplete i)
      | "d" => pure (FanOp.shutdownComplete i)
      | _ => pure (FanOp.other i)
    else throw "fan op")
  let (f, outs) := ops.foldl (fun (acc : Fan × List Bool) o =>
      let (f', b) := acc.1.step o; (f', acc.2 ++ [b])) (Fan.init n, [])
  pure (Json.mkObj [("forwarded", toJson outs), ("fwdStartup", toJson f.fwdStartup), ("fwdShutdown", toJson f.fwdShutdown)])

def redirectH : Handler := fun j => do
  let cfgHost := (getOpt j "host").bind (fun h => h.getStr?.toOption) |>.map String.toList
  let s ← j.getObjVal? "scope"
  let sc : RScope := {
    kind := (← getStr s "kind"), scheme := (← getStr s "scheme"), httpVersion := (← getStr s "http_version"),
    hasWsResponseExt := (← getBool s "ws_ext"),
    hostHeader := (getOpt s "host_header").bind (fun h => h.getStr?.toOption) |>.map String.toList,
    rootPath := (← getChars s "root_path"), rawPath := (← getChars s "raw_path"),
    path := (← getChars s "path"), query := (← getChars s "query") }
  match redirect cfgHost sc with
  | .httpRedirect u => pure (Json.mkObj [("action", "http_redirect"), ("url", jsonOfChars u)])
  | .wsRedirect u => pure (Json.mkObj [("action", "ws_redirect"), ("url", jsonOfChars u)])
  | .wsClose => pure (Json.mkObj [("action", "ws_close")])
  | .passThrough => pure (Json.mkObj [("action", "pass")])
  | .valueError => pure (Json.mkObj [("action", "value_error")])

def handlers : List (String × Handler) :=
  [("c20.proxy", proxy), ("c20.dispatch", dispatchH), ("c20.fan", fan), ("c20.redirect", redirectH)]

end Driver.C20
