import Driver.Util
import HC.Lib.H11Buf
import HC.Proto.H2Lim
import HC.Worker.Recycle
import HC.Extracted.Consts
open Lean HC
namespace Driver.C18
open HC.Proto HC.Worker

def optNat : Option Nat → Json
  | some n => toJson n
  | none => Json.null

/-- the configuration defaults and the h11 hint the theorems are stated with -/
def consts : Handler := fun _ => do
  pure (Json.mkObj [
    ("h11_max_incomplete_size", toJson Extracted.Consts.cfg_h11_max_incomplete_size),
    ("h2_max_concurrent_streams", toJson Extracted.Consts.cfg_h2_max_concurrent_streams),
    ("h2_max_header_list_size", toJson Extracted.Consts.cfg_h2_max_header_list_size),
    ("h2_max_inbound_frame_size", toJson Extracted.Consts.cfg_h2_max_inbound_frame_size),
    ("keep_alive_max_requests", toJson Extracted.Consts.cfg_keep_alive_max_requests),
    ("max_requests", optNat Extracted.Consts.cfg_max_requests),
    ("max_requests_jitter", toJson Extracted.Consts.cfg_max_requests_jitter),
    ("h11_hint", toJson Extracted.Limits.h11LibIncompleteHint),
    ("hpack_overhead", toJson Extracted.Limits.hpackEntryOverhead)])

/-- {"L":…, "H":…, "buffered":…, "reads":[…]} -/
def h11buf : Handler := fun j => do
  let L ← getNat j "L"
  let H ← getNat j "H"
  let b ← getNat j "buffered"
  let rs ← (← getArr j "reads").toList.mapM (fun x => x.getNat?)
  pure (match Lib.H11Buf.feed L H b 0 rs with
    | .waiting n => Json.mkObj [("kind", "waiting"), ("buffered", toJson n)]
    | .rejected k n => Json.mkObj [("kind", "rejected"), ("read", toJson k), ("buffered", toJson n), ("hint", toJson Extracted.Limits.h11LibIncompleteHint)]
    | .accepted k => Json.mkObj [("kind", "accepted"), ("read", toJson k)])

def h2CfgOfJson (j : Json) : Except String H2Lim.Cfg := do
  pure { keepAliveMax := (← getNat j "keep_alive_max"), maxStreams := (← getNat j "max_streams"), maxHeaderList := (← getNat j "max_header_list") }

def pairJson (p : Nat × Nat) : Json := Json.arr #[toJson p.1, toJson p.2]

def h2StJson (s : H2Lim.St) : Json :=
  Json.mkObj [("served", toJson s.served), ("pushed", toJson s.pushed), ("goaways", Json.arr (s.goaways.map pairJson).toArray),
    ("kar", toJson s.kar), ("closed", s.lib.closed), ("up_closed", s.upClosed), ("opened", toJson s.lib.opened), ("highest", toJson s.lib.highest),
    ("deliverable", toJson (s.served.filter (H2Lim.responseDeliverable s)))]

def frameOfJson (j : Json) : Except String H2Lim.Frame := do
  let fields ← (← getArr j "fields").toList.mapM (fun p => do
    let pa ← p.getArr?
    if h : pa.size = 2 then pure ((← pa[0].getNat?), (← pa[1].getNat?)) else throw "field pair")
  pure { sid := (← getNat j "sid"), fields := fields }

/-- {"cfg":{…}, "ops":[{"op":"read","frames":[{"sid":n,"fields":[[name_len,value_len],…]}]} | {"op":"push","accepted":b} | {"op":"done","sid":n}]}
    → the advertised settings and the state after every op -/
def h2 : Handler := fun j => do
  let cfg ← h2CfgOfJson (← j.getObjVal? "cfg")
  -- "h2c": true = the connection was opened by `Upgrade: h2c` (`initiate` served the HTTP/1.1 request on stream 1)
  let h2c := (j.getObjVal? "h2c").toOption.bind (fun b => b.getBool?.toOption) |>.getD false
  let mut st : H2Lim.St := if h2c then H2Lim.afterUpgrade cfg else {}
  let mut outs : Array Json := #[]
  for opj in (← getArr j "ops") do
    let kind ← getStr opj "op"
    let op : H2Lim.Op ← match kind with
      | "read" => do pure (.read (← (← getArr opj "frames").toList.mapM frameOfJson))
      | "push" => do pure (.push (← getBool opj "accepted"))
      | "done" => do pure (.done (← getNat opj "sid"))
      | _ => throw s!"op {kind}"
    st := H2Lim.step cfg st op
    outs := outs.push (h2StJson st)
  pure (Json.mkObj [("advertised", Json.arr ((H2Lim.advertised cfg).map pairJson).toArray),
    ("enforced_header_list", optNat (H2Lim.enforcedHeaderList cfg)), ("states", Json.arr outs)])

/-- {"worker":"asyncio"|"trio", "base":n|null, "j":n, "n":k} → budget and the `terminate` flag after each of k requests -/
def recycle : Handler := fun j => do
  let w ← getStr j "worker"
  let sh := if w == "trio" then Recycle.Shape.trio else Recycle.Shape.asyncio
  let base := (getOpt j "base").bind (fun v => v.getNat?.toOption)
  let jv ← getNat j "j"
  let n ← getNat j "n"
  let c0 := Recycle.Ctx.new sh (Recycle.budget sh base jv)
  let flags := (List.range n).map (fun k => (Recycle.Ctx.markN sh (k + 1) c0).terminate)
  pure (Json.mkObj [("budget", optNat c0.max), ("lo", toJson sh.lo), ("flags", toJson flags)])

def handlers : List (String × Handler) :=
  [("c18.consts", consts), ("c18.h11buf", h11buf), ("c18.h2", h2), ("c18.recycle", recycle)]

end Driver.C18
