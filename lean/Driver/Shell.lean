import Driver.Util
import HC.Conn.Shell
import HC.Extracted.Runtime
/-! Driver endpoint of C16: trace acceptance for the connection-shell model `HC.Conn.Shell`.

`shell.run` {rt: "asyncio" | "trio", ops: [[kind, arg?], …]} → {accepted, failedAt, handled: [[kind, len, open]…],
written: [len…], closed, closeStep, timerArmed, readerDone}.  Byte strings travel as lengths (the shell never looks
inside them). -/
open Lean HC HC.Conn.Shell
namespace Driver.Shell

def zeros (n : Nat) : Bytes := List.replicate n 0

def opOfJson (j : Json) : Except String Op := do
  let a ← j.getArr?
  let k ← (a[0]?.getD Json.null).getStr?
  let natArg : Except String Nat := (a[1]?.getD Json.null).getNat?
  match k with
  | "read" => pure (.read (zeros (← natArg)))
  | "readEmpty" => pure (.readEmpty (← (a[1]?.getD Json.null).getBool?) (← (a[2]?.getD Json.null).getBool?))
  | "drainFail" => pure .drainFail
  | "readEnd" => pure .readEnd
  | "peerGone" => pure .peerGone
  | "pRaw" => pure (.pRaw (zeros (← natArg)))
  | "pClosed" => pure .pClosed
  | "pUpdated" => pure (.pUpdated (← (a[1]?.getD Json.null).getBool?))
  | "timerFire" => pure .timerFire
  | "groupDone" => pure .groupDone
  | s => throw s!"unknown shell op {s}"

def runCount (rt : Runtime) : St → List Op → Nat → St × Option Nat
  | s, [], _ => (s, none)
  | s, o :: os, i => match step rt s o with
    | none => (s, some i)
    | some s' => runCount rt s' os (i + 1)

def pevJson : PEv × Bool → Json
  | (.raw d, o) => Json.arr #["raw", toJson d.length, o]
  | (.closed, o) => Json.arr #["closed", toJson (0 : Nat), o]

def runH : Handler := fun j => do
  let rt ← match (← getStr j "rt") with
    | "asyncio" => pure HC.Extracted.Runtime.asyncioRt
    | "trio" => pure HC.Extracted.Runtime.trioRt
    | s => throw s!"unknown runtime {s}"
  let ops ← (← getArr j "ops").toList.mapM opOfJson
  let (s, failed) := runCount rt {} ops 0
  pure (Json.mkObj [("accepted", failed.isNone), ("failedAt", optJson toJson failed),
    ("handled", Json.arr (s.handled.map pevJson).toArray), ("written", toJson (s.written.map List.length)),
    ("closed", s.transportClosed), ("closeStep", optJson toJson s.closeStep), ("timerArmed", s.timerArmed), ("readerDone", s.readerDone)])

def handlers : List (String × Handler) := [("shell.run", runH)]
end Driver.Shell
