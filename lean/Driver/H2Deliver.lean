import Driver.Util
import Driver.C04
import HC.Proto.H2Deliver
/-! Driver endpoint of the HTTP/2 composition of C01 (`HC.Proto.H2Deliver`, theorem `HC.Props.C01.h2_request_delivered`).

`h2deliver.run` {ka_max, ids:[stream ids], ops:[…]} – the run of the receive side *with contents*.  `ops` are the ops of
`c04.h2recv`, except that a RequestReceived is `{"op":"request","sid","headers":[[n,v]…],"ins","lib"}` and a DataReceived is
`{"op":"data","sid","d","flow"}`.  Answer: the deliveries in order (`["start", sid, ws, scope] | ["body", sid, d] |
["endBody", sid] | ["closed", sid] | ["ack", sid, n]`), per id in `ids` whether `Adm` holds (the hypothesis of the theorem,
`admB`; `admLen`: the longest prefix of the run on which it holds), the abstract request the wrapper computed for each `request` (compared by the harness with what the C04 taps derived),
and the uncaught exception class if the run stopped. -/
open Lean HC HC.Proto.H2Recv HC.Proto.H2Deliver
namespace Driver.H2Deliver
open Driver

def rxOfJson (j : Json) : Except String RxOp := do
  match (← getStr j "op") with
  | "request" => pure (.request (← getNat j "sid") (← headersOfJson (← j.getObjVal? "headers")) (← Driver.C04.optExn j "ins") (← Driver.C04.optExn j "lib"))
  | "data" => pure (.data (← getNat j "sid") (← getBytes j "d") (← getNat j "flow"))
  | _ => pure (.low (← Driver.C04.opOfJson j))

def scopeJson (r : Request) : Json :=
  let sc := HC.Proto.H2Deliver.scopeOf r
  Json.mkObj [("method", sc.method), ("http_version", sc.version), ("raw_path", jsonOfBytes sc.rawPath), ("query_string", jsonOfBytes sc.query),
    ("headers", jsonOfHeaders sc.headers)]

def dlvJson : Dlv → Json
  | .start sid ws r => Json.arr #["start", toJson sid, ws, scopeJson r]
  | .body sid d => Json.arr #["body", toJson sid, jsonOfBytes d]
  | .endBody sid => Json.arr #["endBody", toJson sid]
  | .closed sid => Json.arr #["closed", toJson sid]
  | .ack sid n => Json.arr #["ack", toJson sid, toJson n]

def reqJson (r : Req) : Json :=
  Json.mkObj [("sid", toJson r.sid), ("hasMethod", r.hasMethod), ("methodAscii", r.methodAscii), ("isConnect", r.isConnect), ("hasPath", r.hasPath),
    ("pathAscii", r.pathAscii)]

/-- the length of the longest prefix of the run on which the hypothesis of `h2_request_delivered` holds for stream `i` (`Adm`): the
    run up to the operation that removes the stream (its application finishing, a reset, the connection closing) -/
def admLen (i kaMax : Nat) : St → List RxOp → Nat
  | _, [] => 0
  | s, op :: rest =>
    if opAdm i s op then
      match rxStep kaMax s op with
      | .ok (s1, _) => 1 + admLen i kaMax s1 rest
      | .error _ => 1
    else 0

def run : Handler := fun j => do
  let kaMax ← getNat j "ka_max"
  let ids ← (← getArr j "ids").toList.mapM (fun v => v.getNat?)
  let ops ← (← getArr j "ops").toList.mapM rxOfJson
  let mut st : St := {}
  let mut dl : Array Json := #[]
  let mut err : Option String := none
  let mut reqs : Array Json := #[]
  for op in ops do
    if err.isNone then
      match op with
      | .request sid hs _ _ => reqs := reqs.push (reqJson (reqOf sid hs))
      | _ => pure ()
      match rxStep kaMax st op with
      | .error e => err := some e.cls
      | .ok (s1, d1) =>
        st := s1
        dl := dl ++ (d1.map dlvJson).toArray
  let okAll := ops.all RxOp.ok
  pure (Json.mkObj [("dlv", Json.arr dl), ("error", optJson Json.str err), ("ok", okAll), ("reqs", Json.arr reqs),
    ("adm", Json.mkObj (ids.map (fun i => (toString i, Json.bool (admB i kaMax {} ops))))),
    ("admLen", Json.mkObj (ids.map (fun i => (toString i, toJson (admLen i kaMax {} ops))))),
    ("streams", toJson st.streams)])

def handlers : List (String × Handler) := [("h2deliver.run", run)]

end Driver.H2Deliver
