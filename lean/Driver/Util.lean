import Lean.Data.Json
import HC.Prelude
/-! JSON helpers shared by the driver handlers.  `bytes` travel as JSON strings whose code points are the byte
values (latin-1), text as ordinary JSON strings. -/
open Lean
namespace Driver

abbrev Handler := Json → Except String Json

def getBytes (j : Json) (k : String) : Except String HC.Bytes := do
  let s ← j.getObjValAs? String k
  pure (HC.Bytes.ofString s)

def bytesOfJson (j : Json) : Except String HC.Bytes := do
  let s ← j.getStr?
  pure (HC.Bytes.ofString s)

def jsonOfBytes (b : HC.Bytes) : Json := Json.str (HC.Bytes.toString b)

def getChars (j : Json) (k : String) : Except String (List Char) := do
  let s ← j.getObjValAs? String k
  pure s.toList

def jsonOfChars (cs : List Char) : Json := Json.str (String.ofList cs)

def getOpt (j : Json) (k : String) : Option Json :=
  match j.getObjVal? k with
  | .ok Json.null => none
  | .ok v => some v
  | .error _ => none

def getArr (j : Json) (k : String) : Except String (Array Json) := do
  let v ← j.getObjVal? k
  v.getArr?

def headersOfJson (j : Json) : Except String HC.Headers := do
  let arr ← j.getArr?
  arr.toList.mapM (fun p => do
    let pa ← p.getArr?
    if h : pa.size = 2 then
      pure ((← bytesOfJson pa[0]), (← bytesOfJson pa[1]))
    else throw "header pair")

def jsonOfHeaders (hs : HC.Headers) : Json :=
  Json.arr (hs.map (fun (n, v) => Json.arr #[jsonOfBytes n, jsonOfBytes v])).toArray

def getNat (j : Json) (k : String) : Except String Nat := j.getObjValAs? Nat k
def getBool (j : Json) (k : String) : Except String Bool := j.getObjValAs? Bool k
def getStr (j : Json) (k : String) : Except String String := j.getObjValAs? String k
def getInt (j : Json) (k : String) : Except String Int := j.getObjValAs? Int k

def optJson {α} (f : α → Json) : Option α → Json
  | some a => f a
  | none => Json.null

end Driver
