import Driver.Util
import HC.Pure.Config
import HC.Pure.ConfigObjects
open Lean HC HC.Config HC.Extracted
namespace Driver.C19

def cli : Handler := fun j => do
  let app ← getStr j "app"
  let given ← (← getArr j "given").toList.mapM (fun p => do
    let a ← p.getArr?
    if h : a.size = 2 then pure ((← a[0].getStr?), (← a[1].getStr?)) else throw "given pair")
  let asg := assignments Cli.wires (givenOf app given)
  pure (Json.arr (asg.map (fun (a, v) => Json.arr #[Json.str a, optJson Json.str v])).toArray)

def argsH : Handler := fun _ => do
  pure (Json.arr (Cli.args.map (fun a => Json.mkObj [("flags", toJson a.flags), ("dest", a.dest), ("default", a.default),
    ("action", a.action), ("type", a.type)])).toArray)

def wiresH : Handler := fun _ => do
  pure (Json.arr (Cli.wires.map (fun w => Json.mkObj [("guard", w.guard), ("attr", w.attr), ("source", w.source), ("kind", w.kind)])).toArray)

def valOfJson (j : Json) : Except String Val := do
  match j with
  | .str s => pure (.str s.toList)
  | .arr a =>
    match a.toList.mapM (fun x => x.getStr?.toOption.map String.toList) with
    | some l => pure (.strs l)
    | none => pure (.other j.compress)
  | .obj _ =>
    match j.getObjVal? "VerifyMode" with
    | .ok n => pure (.verifyMode n.compress)
    | .error _ => pure (.other j.compress)
  | _ => pure (.other j.compress)

def jsonOfVal : Val → Json
  | .verifyMode r => Json.mkObj [("VerifyMode", match Json.parse r with | .ok j => j | .error _ => Json.str r)]
  | .str s => Json.str (String.ofList s)
  | .strs l => Json.arr (l.map (fun s => Json.str (String.ofList s))).toArray
  | .other r => match Json.parse r with | .ok j => j | .error _ => Json.str r

def fromMappingH : Handler := fun j => do
  let kvs ← (← getArr j "items").toList.mapM (fun p => do
    let a ← p.getArr?
    if h : a.size = 2 then pure ((← a[0].getStr?), (← valOfJson a[1])) else throw "item")
  pure (Json.arr ((fromMapping kvs).map (fun (k, v) => Json.arr #[Json.str k, jsonOfVal v])).toArray)

/-- items: `[name, kind, value]` with kind one of plain / module / class / function -/
def fromObjectH : Handler := fun j => do
  let attrs ← (← getArr j "items").toList.mapM (fun p => do
    let a ← p.getArr?
    if h : a.size = 3 then
      let kind ← match (← a[1].getStr?) with
        | "plain" => pure AttrKind.plain
        | "module" => pure AttrKind.module
        | "class" => pure AttrKind.cls
        | "function" => pure AttrKind.func
        | other => throw s!"unknown attribute kind {other}"
      pure ({ name := (← a[0].getStr?), kind, val := (← valOfJson a[2]) } : Attr)
    else throw "attribute item")
  pure (Json.arr ((fromObject attrs).map (fun (k, v) => Json.arr #[Json.str k, jsonOfVal v])).toArray)

def jsonOfBind : Bind → Json
  | .unix p => Json.mkObj [("kind", "unix"), ("path", jsonOfChars p)]
  | .fd n => Json.mkObj [("kind", "fd"), ("fd", optJson toJson n)]
  | .inet v6 h p => Json.mkObj [("kind", "inet"), ("v6", v6), ("host", jsonOfChars h), ("port", toJson p)]

def bindH : Handler := fun j => do
  let s ← getChars j "bind"
  pure (jsonOfBind (parseBind s))

/-- a whole list through the loop of `_create_sockets` -/
def bindsH : Handler := fun j => do
  let ss ← (← getArr j "binds").toList.mapM (fun b => do pure (← b.getStr?).toList)
  pure (Json.arr ((createSockets ss).map jsonOfBind).toArray)

def dateH : Handler := fun j => do
  let t ← getNat j "t"
  pure (jsonOfChars (formatDate t))

def headersH : Handler := fun j => do
  let alt ← (← getArr j "alt_svc").toList.mapM bytesOfJson
  let c : HeaderCfg := { includeDate := (← getBool j "include_date"), includeServer := (← getBool j "include_server"), altSvc := alt }
  pure (jsonOfHeaders (responseHeaders c (← getBytes j "date") (← getBytes j "protocol")))

/-- a history of operations on several `Config` objects; answers the headers of every object after every operation -/
def historyH : Handler := fun j => do
  let alpn ← (← getArr j "alpn").toList.mapM bytesOfJson
  let date ← getBytes j "date"
  let protocol ← getBytes j "protocol"
  let ops ← (← getArr j "ops").toList.mapM (fun o => do
    match (← getStr o "op") with
    | "new" => pure Op.new
    | "set_date" => pure (Op.setDate (← getNat o "obj") (← getBool o "value"))
    | "set_server" => pure (Op.setServer (← getNat o "obj") (← getBool o "value"))
    | "set_alt_svc" => pure (Op.setAltSvc (← getNat o "obj") (← (← getArr o "value").toList.mapM bytesOfJson))
    | "set_ssl" => pure (Op.setSsl (← getNat o "obj") (← getBool o "value"))
    | "create_sockets" => pure (Op.createSockets (← getNat o "obj") (← (← getArr o "quic").toList.mapM (fun p => p.getNat?)))
    | other => throw s!"unknown operation {other}")
  let (_, out) := ops.foldl (fun (acc : World × List Json) op =>
    let w := step acc.1 op
    (w, acc.2 ++ [Json.arr (w.objs.map (fun o => jsonOfHeaders (objHeaders w o alpn date protocol))).toArray])) (World.init, [])
  pure (Json.arr out.toArray)

def handlers : List (String × Handler) :=
  [("c19.cli", cli), ("c19.args", argsH), ("c19.wires", wiresH), ("c19.from_mapping", fromMappingH), ("c19.from_object", fromObjectH), ("c19.bind", bindH), ("c19.binds", bindsH),
   ("c19.date", dateH), ("c19.headers", headersH), ("c19.history", historyH)]

end Driver.C19
