import Driver.Util
import HC.Worker.Run
/-! Driver handlers for the worker model (C14 lifespan ordering, C15 graceful shutdown).

`c14.run` / `c15.run` take a runtime, a configuration (timeouts in ticks), a lifespan script and a timed list of
environment events, and execute the model `HC.Worker.step` under one deterministic scheduling policy:

  at every instant: deliver the requests that are due, then let `worker_serve` act (`srv`), then the lifespan
  task (`app`, unless it is sleeping in an `await`), until nothing is enabled; then apply the environment
  events of that instant; then advance the clock to the next interesting instant (`tick`).

The policy only *chooses* an operation list; the answer is `run init ops`, so every theorem of HC/Props/C14.lean
and C15.lean (all of which quantify over every operation list) applies to it.  The chosen list is returned. -/
open Lean HC HC.Worker
namespace Driver.C14

def stageStr : Stage → String
  | .startup => "startup"
  | .shutdown => "shutdown"

def errStr : ServeErr → String
  | .lifespanFailure st => s!"LifespanFailureError:{stageStr st}"
  | .lifespanTimeout st => s!"LifespanTimeoutError:{stageStr st}"
  | .closedResource => "ClosedResourceError"
  | .cancelled => "CancelledError"

def msgStr : LMsg → String
  | .startup => "lifespan.startup"
  | .shutdown => "lifespan.shutdown"

def evJson : Ev → Json
  | .startupPut => Json.arr #["startup_put"]
  | .shutdownPut => Json.arr #["shutdown_put"]
  | .appRecv m => Json.arr #["app_recv", msgStr m]
  | .appStartupComplete => Json.arr #["app_startup_complete"]
  | .appShutdownComplete => Json.arr #["app_shutdown_complete"]
  | .appLeft => Json.arr #["app_left"]
  | .warn => Json.arr #["warn"]
  | .listening => Json.arr #["listening"]
  | .accepted i => Json.arr #["accepted", toJson i]
  | .scope i => Json.arr #["scope", toJson i]
  | .terminated => Json.arr #["terminated"]
  | .closedIdle i => Json.arr #["closed_idle", toJson i]
  | .delivered i => Json.arr #["delivered", toJson i]
  | .cancelled i => Json.arr #["cancelled", toJson i]
  | .goaway i => Json.arr #["goaway", toJson i]
  | .refusedStream i => Json.arr #["refused_stream", toJson i]
  | .streamDone i => Json.arr #["stream_done", toJson i]
  | .wsDone i => Json.arr #["ws_done", toJson i]
  | .peerClosed i => Json.arr #["peer_closed", toJson i]
  | .returned => Json.arr #["returned"]
  | .raised e => Json.arr #["raised", errStr e]

def phaseJson : Phase → Json
  | .booting => "booting"
  | .waitingStartup _ => "waiting_startup"
  | .serving => "serving"
  | .closing => "closing"
  | .draining _ => "draining"
  | .lifespanShutdown _ => "lifespan_shutdown"
  | .done => "done"
  | .failed _ => "failed"

def actOfString : String → Except String LAct
  | "recv" => pure .recv
  | "startup_complete" => pure .sendStartupComplete
  | "startup_failed" => pure .sendStartupFailed
  | "shutdown_complete" => pure .sendShutdownComplete
  | "shutdown_failed" => pure .sendShutdownFailed
  | "unknown" => pure .sendUnknown
  | "raise" => pure .raise
  | "hang" => pure .hang
  | "return" => pure .ret
  | "await" => pure .awaitInCleanup
  | s => throw s!"unknown lifespan action {s}"

def opJson : Op → Json
  | .app => "app"
  | .srv => "srv"
  | .connect .h1 => Json.arr #["connect", "h1"]
  | .connect .h2 => Json.arr #["connect", "h2"]
  | .connect .ws => Json.arr #["connect", "ws"]
  | .partialHead i => Json.arr #["partial", toJson i]
  | .request i r => Json.arr #["request", toJson i, optJson toJson r]
  | .newStream i => Json.arr #["stream", toJson i]
  | .progress i => Json.arr #["progress", toJson i]
  | .finish i => Json.arr #["finish", toJson i]
  | .clientClose i => Json.arr #["client_close", toJson i]
  | .trigger => "trigger"
  | .tick d => Json.arr #["tick", toJson d]
  | .lifeWrite k v => Json.arr #["life_write", toJson k, toJson v]
  | .connWrite i k v => Json.arr #["conn_write", toJson i, toJson k, toJson v]

def runtimeOfJson (j : Json) : Except String Runtime := do
  match j with
  | .str "asyncio" => pure Runtime.asyncio
  | .str "asyncio_before_fixes" => pure Runtime.asyncioBeforeFixes
  | .str "asyncio_before_f32" => pure Runtime.asyncioBeforeF32
  | .str "trio_before_fixes" => pure Runtime.trioBeforeFixes
  | .str "trio" => pure Runtime.trio
  | _ =>
    let base ← match (j.getObjValAs? String "base") with
      | .ok "trio" => pure Runtime.trio
      | .ok "asyncio_before_fixes" => pure Runtime.asyncioBeforeFixes
      | .ok "asyncio_before_f32" => pure Runtime.asyncioBeforeF32
      | .ok "trio_before_fixes" => pure Runtime.trioBeforeFixes
      | _ => pure Runtime.asyncio
    let b (k : String) (d : Bool) : Bool := match j.getObjValAs? Bool k with
      | .ok v => v
      | .error _ => d
    pure { base with
      taskDoneCheckOnly := b "taskDoneCheckOnly" base.taskDoneCheckOnly,
      lifespanInNursery := b "lifespanInNursery" base.lifespanInNursery,
      failedSetsEvent := b "failedSetsEvent" base.failedSetsEvent,
      channelsClosedOnExit := b "channelsClosedOnExit" base.channelsClosedOnExit,
      exitCheckpoints := b "exitCheckpoints" base.exitCheckpoints,
      waitClosedBlocksOnConnections := b "waitClosedBlocksOnConnections" base.waitClosedBlocksOnConnections,
      stateCopiedAtServe := b "stateCopiedAtServe" base.stateCopiedAtServe,
      h2PriorFreshIdleTimer := b "h2PriorFreshIdleTimer" base.h2PriorFreshIdleTimer,
      endCancelRaises := b "endCancelRaises" base.endCancelRaises,
      h2CancelDeadlocks := b "h2CancelDeadlocks" base.h2CancelDeadlocks,
      h2CancelSaysGoaway := b "h2CancelSaysGoaway" base.h2CancelSaysGoaway }

/-- an environment event of the scenario; `cid` is the harness's connection number -/
structure EnvEv where
  t : Nat
  op : String
  cid : Nat := 0
  kind : String := "h1"
  rem : Option Nat := none
  k : Nat := 0
  v : Nat := 0
  wait : Bool := false          -- keep trying at later instants until the model enables it (kernel accept queue)
  tag : Nat := 0                -- stream number on its connection (ties a `progress` to the `stream` that opened it)

def envOfJson (j : Json) : Except String EnvEv := do
  let t ← getNat j "t"
  let op ← getStr j "op"
  let natD (key : String) : Nat := match j.getObjValAs? Nat key with
    | .ok v => v
    | .error _ => 0
  pure { t := t, op := op, cid := natD "cid",
         kind := (match j.getObjValAs? String "kind" with | .ok s => s | .error _ => "h1"),
         rem := (match getOpt j "rem" with | some v => v.getNat?.toOption | none => none),
         k := natD "k", v := natD "v", tag := natD "tag",
         wait := (match j.getObjValAs? Bool "wait" with | .ok b => b | .error _ => false) }

def kvJson (kv : KV) : Json := Json.arr (kv.map (fun (k, v) => Json.arr #[toJson k, toJson v])).toArray

structure Sim where
  w : W
  ops : List Op := []                       -- reversed
  timeline : List (Nat × Ev) := []          -- reversed
  cmap : List (Nat × Nat) := []             -- harness connection number ↦ model connection id
  appWake : Option Nat := none
  awaitTicks : Nat
  outcomes : List Json := []                -- reversed: what happened to each environment event
  pending : List EnvEv := []                -- `wait` events not yet enabled, in order
  states : List Json := []                  -- reversed: connection state dicts as seen at connect / after a write
  streams : List (Nat × Nat) := []          -- (harness connection, stream tag) of HTTP/2 streams that reached an application
  error : Option String := none

def Sim.apply (m : Sim) (o : Op) : Option Sim :=
  match step m.w o with
  | none => none
  | some w' =>
    let fresh := w'.log.drop m.w.log.length
    some { m with w := w', ops := o :: m.ops, timeline := (fresh.map (fun e => (w'.now, e))).reverse ++ m.timeline }

def Sim.dueConn (m : Sim) : Option Nat :=
  (m.w.conns.find? (fun c => match c.phase with
    | .inRequest (some due) => decide (due ≤ m.w.now)
    | _ => false)).map (·.id)

/-- run everything that is enabled at the current instant -/
def Sim.settle : Nat → Sim → Sim
  | 0, m => { m with error := some "settle: fuel exhausted" }
  | fuel + 1, m =>
    match m.dueConn with
    | some i =>
      match m.apply (.finish i) with
      | some m' => Sim.settle fuel m'
      | none => { m with error := some "settle: due request cannot finish" }
    | none =>
      match m.apply .srv with
      | some m' => Sim.settle fuel m'
      | none =>
        let awake := match m.appWake with
          | some t => decide (t ≤ m.w.now)
          | none => true
        if awake then
          match m.apply .app with
          | some m' =>
            let slept := m'.w.life.sleeping && !m'.w.life.exited
            Sim.settle fuel { m' with appWake := if slept then some (m'.w.now + m.awaitTicks) else none }
          | none => m
        else m

def kindOf : String → Kind
  | "h2" => .h2
  | "ws" => .ws
  | _ => .h1

/-- try one environment event now; `none` = the model does not enable it -/
def Sim.connState (m : Sim) (i : Nat) : Json :=
  match m.w.findConn i with
  | some c => kvJson (m.w.mem.heap c.ref)
  | none => Json.null

def Sim.env (m : Sim) (e : EnvEv) : Option Sim :=
  let conn := m.cmap.lookup e.cid
  match e.op with
  | "connect" =>
    match m.apply (.connect (kindOf e.kind)) with
    | some m' => some { m' with cmap := (e.cid, m.w.nextId) :: m'.cmap,
                                states := Json.arr #[toJson e.cid, "connect", m'.connState m.w.nextId] :: m'.states }
    | none => none
  | "trigger" => m.apply .trigger
  | "life_write" => m.apply (.lifeWrite e.k e.v)
  | _ =>
    match conn with
    | none => none
    | some i =>
      match e.op with
      | "partial" => m.apply (.partialHead i)
      | "request" => m.apply (.request i e.rem)
      | "stream" =>
        match m.apply (.newStream i) with
        | some m' =>
          some (if m'.w.g.refusedStreams == m.w.g.refusedStreams then { m' with streams := (e.cid, e.tag) :: m'.streams } else m')
        | none => none
      | "progress" =>
        -- the end of a stream that was refused (or never opened) is not an event
        if e.tag != 0 && !m.streams.contains (e.cid, e.tag) then none else m.apply (.progress i)
      | "client_close" => m.apply (.clientClose i)
      | "conn_write" =>
        match m.apply (.connWrite i e.k e.v) with
        | some m' => some { m' with states := Json.arr #[toJson e.cid, "write", m'.connState i] :: m'.states }
        | none => none
      | _ => none

def outcomeJson (e : EnvEv) (ok : Bool) (at_ : Nat) : Json :=
  Json.mkObj [("t", toJson e.t), ("op", e.op), ("cid", toJson e.cid), ("enabled", ok), ("at", toJson at_)]

/-- environment events of this instant (and waiting ones), each followed by a settle -/
def Sim.feed (fuel : Nat) (m : Sim) (evs : List EnvEv) : Sim :=
  evs.foldl (fun m e =>
    if m.error.isSome then m else
    -- an event on a connection whose `connect` is still waiting waits behind it
    let blocked := m.pending.any (fun p => p.cid == e.cid)
    if blocked && e.op != "trigger" then { m with pending := m.pending ++ [e] } else
    match m.env e with
    | some m' => Sim.settle fuel { m' with outcomes := outcomeJson e true m.w.now :: m'.outcomes }
    | none =>
      if e.wait then { m with pending := m.pending ++ [e] }
      else { m with outcomes := outcomeJson e false m.w.now :: m.outcomes }) m

def Sim.retryPending (fuel : Nat) (m : Sim) : Sim :=
  let ps := m.pending
  Sim.feed fuel { m with pending := [] } ps

/-- the next instant at which something is scheduled to happen -/
def Sim.nextInstant (m : Sim) (evs : List EnvEv) (until_ : Nat) : Option Nat :=
  let w := m.w
  let cands : List Nat :=
    (match evs with | e :: _ => [e.t] | [] => []) ++
    (match m.appWake with | some t => (if w.life.exited then [] else [t]) | none => []) ++
    (match w.phase with
     | .waitingStartup since => [since + w.cfg.startupTimeout]
     | .draining since => [since + w.cfg.gracefulTimeout]
     | .lifespanShutdown since => [since + w.cfg.shutdownTimeout]
     | _ => []) ++
    w.conns.filterMap (fun c => match c.phase with
      | .inRequest (some due) => some due
      | _ => none)
  let future := cands.filter (fun t => w.now < t && t ≤ until_)
  future.foldl (fun acc t => match acc with
    | none => some t
    | some a => some (min a t)) none

def Sim.loop : Nat → Sim → List EnvEv → Nat → Sim
  | 0, m, _, _ => { m with error := some "loop: fuel exhausted" }
  | fuel + 1, m, evs, until_ =>
    if m.error.isSome then m else
    let m := Sim.settle 200 m
    let m := Sim.retryPending 200 m
    let nowEvs := evs.takeWhile (fun e => e.t ≤ m.w.now)
    let later := evs.dropWhile (fun e => e.t ≤ m.w.now)
    let m := Sim.feed 200 m nowEvs
    if m.error.isSome then m else
    let over := match m.w.phase with
      | .done => true
      | .failed _ => true
      | _ => false
    if over then m else
    match m.nextInstant later until_ with
    | none => m
    | some t =>
      match m.apply (.tick (t - m.w.now)) with
      | some m' => Sim.loop fuel m' later until_
      | none =>
        -- a deadline has been reached and `worker_serve` has no action to take (Props/C15 `h2_cancel_deadlock`): the model's
        -- clock cannot pass that instant - `worker_serve` never returns; the run ends here, in a non-terminal phase ("stuck")
        let atDeadline := match m.w.phase with
          | .draining since => decide (since + m.w.cfg.gracefulTimeout ≤ m.w.now)
          | _ => false
        if atDeadline && m.w.srvStep.isNone then m
        else { m with error := some s!"tick {t - m.w.now} at {m.w.now} refused by the model" }

def connPhaseJson : ConnPhase → Json
  | .idle => "idle"
  | .midHead => "mid_head"
  | .inRequest d => Json.arr #["in_request", optJson toJson d]
  | .h2 k t => Json.arr #["h2", toJson k, toJson t]
  | .ws => "ws"

def runH : Handler := fun j => do
  let rt ← runtimeOfJson (← j.getObjVal? "runtime")
  let cj ← j.getObjVal? "config"
  let cfg : Cfg := { startupTimeout := (← getNat cj "startup_timeout"), shutdownTimeout := (← getNat cj "shutdown_timeout"),
                     gracefulTimeout := (← getNat cj "graceful_timeout"),
                     maxRequests := (match getOpt cj "max_requests" with | some v => v.getNat?.toOption | none => none) }
  let cap := match cj.getObjValAs? Nat "cap" with | .ok c => c | .error _ => 10
  let script ← (← getArr j "script").toList.mapM (fun a => do actOfString (← a.getStr?))
  let evs ← (← getArr j "events").toList.mapM envOfJson
  let until_ ← getNat j "until"
  let awaitTicks := match j.getObjValAs? Nat "await_ticks" with | .ok c => c | .error _ => 1
  let m0 : Sim := { w := W.init rt cfg script cap, awaitTicks := awaitTicks }
  -- what the lifespan application writes into its state before its first await comes before everything else
  let pre := evs.takeWhile (fun e => e.t == 0 && e.op == "life_write")
  let m0 := pre.foldl (fun m e => match m.env e with | some m' => m' | none => m) m0
  let evs := evs.dropWhile (fun e => e.t == 0 && e.op == "life_write")
  let m := Sim.loop 2000 m0 evs until_
  match m.error with
  | some e => throw e
  | none =>
    let w := m.w
    let err := match w.phase with | .failed e => Json.str (errStr e) | _ => Json.null
    pure (Json.mkObj [
      ("phase", phaseJson w.phase), ("error", err), ("now", toJson w.now),
      ("timeline", Json.arr (m.timeline.reverse.map (fun (t, e) => Json.arr #[toJson t, evJson e])).toArray),
      ("outcomes", Json.arr m.outcomes.reverse.toArray),
      ("pending", Json.arr (m.pending.map (fun e => outcomeJson e false w.now)).toArray),
      ("cmap", Json.arr (m.cmap.reverse.map (fun (a, b) => Json.arr #[toJson a, toJson b])).toArray),
      ("return_time", optJson toJson w.g.returnTime), ("trigger_time", optJson toJson w.g.triggerTime),
      ("shutdown_put_at", optJson toJson w.g.shutdownPutAt),
      ("startup_puts", toJson w.g.startupPuts), ("shutdown_puts", toJson w.g.shutdownPuts),
      ("ever_listening", w.g.everListening), ("accepts", toJson w.g.accepts), ("scopes", toJson w.g.scopes),
      ("supported", w.life.supported), ("complete_seen", w.life.completeSeen),
      ("received", Json.arr (w.life.recvd.map (fun x => Json.str (msgStr x))).toArray),
      ("warnings", toJson w.life.warnings), ("exceptions_logged", toJson w.life.exceptionsLogged),
      ("refused_streams", toJson w.g.refusedStreams),
      ("closed_idle", toJson w.hist.closedIdle), ("goaway", toJson w.hist.goaway),
      ("delivered", Json.arr (w.hist.delivered.map (fun (i, t) => Json.arr #[toJson i, toJson t])).toArray),
      ("cancelled", Json.arr (w.hist.cancelled.map (fun (i, p, t) => Json.arr #[toJson i, connPhaseJson p, toJson t])).toArray),
      ("aborted", Json.arr (w.hist.aborted.map (fun (i, p, t) => Json.arr #[toJson i, connPhaseJson p, toJson t])).toArray),
      ("live", Json.arr (w.conns.map (fun c => Json.arr #[toJson c.id, connPhaseJson c.phase])).toArray),
      ("lifespan_state", kvJson (w.mem.heap 0)), ("states", Json.arr m.states.reverse.toArray),
      ("conn_states", Json.arr (w.conns.map (fun c => Json.arr #[toJson c.id, kvJson (w.mem.heap c.ref)])).toArray),
      ("ops", Json.arr (m.ops.reverse.map opJson).toArray)])

def runtimeJson (rt : Runtime) : Json :=
  Json.mkObj [("taskDoneCheckOnly", rt.taskDoneCheckOnly), ("lifespanInNursery", rt.lifespanInNursery),
    ("failedSetsEvent", rt.failedSetsEvent), ("channelsClosedOnExit", rt.channelsClosedOnExit),
    ("exitCheckpoints", rt.exitCheckpoints), ("waitClosedBlocksOnConnections", rt.waitClosedBlocksOnConnections),
    ("stateCopiedAtServe", rt.stateCopiedAtServe), ("h2PriorFreshIdleTimer", rt.h2PriorFreshIdleTimer),
    ("endCancelRaises", rt.endCancelRaises), ("h2CancelDeadlocks", rt.h2CancelDeadlocks),
    ("h2CancelSaysGoaway", rt.h2CancelSaysGoaway), ("blockedWriteOutlivesCancel", rt.blockedWriteOutlivesCancel)]

/-- the runtime constants the named witnesses of HC/Props/C14.lean and C15.lean are about -/
def runtimesH : Handler := fun _ =>
  pure (Json.mkObj [("asyncio", runtimeJson Runtime.asyncio), ("trio", runtimeJson Runtime.trio),
    ("asyncio_before_fixes", runtimeJson Runtime.asyncioBeforeFixes), ("asyncio_before_f32", runtimeJson Runtime.asyncioBeforeF32), ("trio_before_fixes", runtimeJson Runtime.trioBeforeFixes)])

def handlers : List (String × Handler) := [("c14.run", runH), ("c15.run", runH), ("c14.runtimes", runtimesH)]

end Driver.C14
