import Driver.Util
import Driver.Streams
import HC.Stream.WsSpec
import HC.Pure.Sha1
/-! Driver handlers of C10 / C11.

* `c11.token` {key} → the RFC 6455 accept token computed by the Lean SHA-1 / base64 (`HC.Pure.Sha1.acceptToken`).
* `c11.ws` — `stream.ws` with the model's `token` parameter instantiated by `HC.Pure.Sha1.acceptToken`
  (`init.token` is ignored): the rendered `sec-websocket-accept` is the Lean-computed one.
* `c11.valid` {version, headers} → `Handshake.ofRequest >>= isValid` of the model (true / false / error name).
* `c10.spec` {max_len, msgs:[{kind:"text"|"bytes", frags:[…], ctl:[[ctl…]…]}], trail:[ctl…]} → what
  `handleEvents` does with `sessionEvs msgs trail` from a fresh accepted stream: delivered messages, frames sent,
  error.  `ctl` = `["ping", payload]` / `["pong", payload]`; `ctl[i]` are the control frames before fragment `i`. -/
open Lean HC HC.Stream HC.Stream.Ws
namespace Driver.C11

def token : Handler := fun j => do
  let key ← getBytes j "key"
  pure (jsonOfBytes (HC.Pure.Sha1.acceptToken key))

def valid : Handler := fun j => do
  let version ← getStr j "version"
  let hs ← headersOfJson (← j.getObjVal? "headers")
  match Handshake.ofRequest version hs >>= Handshake.isValid with
  | .ok b => pure (Json.bool b)
  | .error e => pure (Json.str (Driver.Streams.errName e))

def ctlOfJson (j : Json) : Except String Ctl := do
  let a ← j.getArr?
  if h : a.size = 2 then
    let k ← a[0].getStr?
    let p ← bytesOfJson a[1]
    match k with
    | "ping" => pure (.ping p)
    | "pong" => pure (.pong p)
    | _ => throw s!"ctl {k}"
  else throw "ctl"

def ctlsOfJson (j : Json) : Except String (List Ctl) := do (← j.getArr?).toList.mapM ctlOfJson

/-- split a non-empty list into (init, last) -/
def initLast {α : Type} : List α → Option (List α × α)
  | [] => none
  | [x] => some ([], x)
  | x :: r => (initLast r).map (fun (i, l) => (x :: i, l))

def cmsgOfJson (j : Json) : Except String CMsg := do
  let kind ← getStr j "kind"
  let frags := (← getArr j "frags").toList
  let ctl ← (← getArr j "ctl").toList.mapM ctlsOfJson
  if frags.length ≠ ctl.length then throw "frags/ctl length"
  match kind with
  | "text" =>
    let fs ← frags.mapM (fun f => do pure (← f.getStr?).toList)
    match initLast (ctl.zip fs) with
    | none => throw "empty fragmentation"
    | some (i, (lc, l)) => pure (.text i lc l)
  | _ =>
    let fs ← frags.mapM bytesOfJson
    match initLast (ctl.zip fs) with
    | none => throw "empty fragmentation"
    | some (i, (lc, l)) => pure (.bytes i lc l)

def spec : Handler := fun j => do
  let maxLen ← getNat j "max_len"
  let msgs ← (← getArr j "msgs").toList.mapM cmsgOfJson
  let trail ← ctlsOfJson (← j.getObjVal? "trail")
  let s : S := { st := .connected, hs := { version := "1.1", accepted := true }, conn := some .open,
                 buffer := { maxLength := maxLen }, hasAppPut := true }
  let (s', puts, evs, err) := handleEvents s (sessionEvs msgs trail)
  pure (Json.mkObj [("delivered", Json.arr (puts.map Driver.Streams.wsPutJson).toArray),
    ("events", Json.arr (evs.map Driver.Streams.wsEvJson).toArray),
    ("error", optJson (fun e => Json.str (Driver.Streams.errName e)) err),
    ("sizes", Json.arr (msgs.map (fun m => toJson m.size)).toArray),
    ("buffer_empty", Json.bool (s'.buffer.value.isNone && s'.buffer.length == 0))])

def handlers : List (String × Handler) :=
  [("c11.token", token), ("c11.ws", Driver.Streams.wsRunWith (some HC.Pure.Sha1.acceptToken)), ("c11.valid", valid),
   ("c10.spec", spec)]

end Driver.C11
