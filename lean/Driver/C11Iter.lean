import Driver.Util
import Driver.Streams
import HC.Stream.WsIter
/-! Driver handler of C11 for the `headers` of `websocket.accept` as an iterable (`HC/Stream/WsIter.lean`).

* `c11.extra` {headers, one_shot} → what the traversals `Handshake.accept` performs over `additional_headers`
  (`WsGuards.acceptExtraPasses`, extracted from the source) append for an iterable yielding `headers` - once (`one_shot`:
  generator / iterator / map object) or every time (list / tuple): `{"headers": […]}` or `{"error": name}`; `passes` = the
  extracted traversals. -/
open Lean HC HC.Stream HC.Stream.Ws
namespace Driver.C11Iter

def passName : HC.Extracted.WsGuards.ExtraPass → String
  | .materialise => "materialise" | .check => "check" | .emit => "emit" | .checkEmit => "checkEmit"

def extra : Handler := fun j => do
  let hs ← headersOfJson (← j.getObjVal? "headers")
  let oneShot ← getBool j "one_shot"
  let passes := Json.arr (HC.Extracted.WsGuards.acceptExtraPasses.map (fun p => Json.str (passName p))).toArray
  match acceptExtra { items := hs, oneShot := oneShot } with
  | .ok r => pure (Json.mkObj [("headers", jsonOfHeaders r), ("passes", passes)])
  | .error e => pure (Json.mkObj [("error", Json.str (Driver.Streams.errName e)), ("passes", passes)])

def handlers : List (String × Handler) :=
  [("c11.extra", extra)]

end Driver.C11Iter
