import HC.Prelude
import HC.Pure.Middleware
import HC.Pure.Config
import HC.Props.C20
import HC.Props.C19
