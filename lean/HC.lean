import HC.Prelude
import HC.Pure.Middleware
import HC.Pure.Config
import HC.Stream.Http
import HC.Stream.Ws
import HC.Props.C20
import HC.Props.C19
import HC.Props.C12
