import HC.Prelude
import HC.Pure.Middleware
import HC.Props.C20
