import Driver.Main
