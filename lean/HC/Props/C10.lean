import HC.Stream.Ws
import HC.Stream.WsSpec
import HC.Stream.WsWire
import HC.Extracted.WsSend
import HC.Extracted.Atomic
/-!
# C10 — WebSocket message fidelity and message-size limit

Model: `HC/Stream/Ws.lean` (`WSStream._handle_events`, `WebsocketBuffer`, `app_send` for `websocket.send`); the
events wsproto yields are inputs.  Specification vocabulary: `HC/Stream/WsSpec.lean` (`CMsg` = one message as an
arbitrary fragmentation with control frames interleaved; every value is well-formed, so the theorems below quantify
over *all* message lists, fragmentations and interleavings without side conditions).

Full statement (property text): every complete message is delivered exactly once, in order, same type and payload;
every ping is answered by a pong with the same payload; a message whose accumulated size exceeds
`websocket_max_message_size` is never delivered, nor is anything after it, and the server closes with 1009;
application messages reach the client with identical type and payload, in order.

All of it is proved at full strength: `receive_fidelity`, `segmentation_independence`, `ping_pong`, `limit_text`,
`limit_bytes`, `limit_total` (after the overflow the handler stays total and silent, for ALL later batches),
`nothing_after_overflow`, `send_fidelity`, `send_sequence`; and, for the several tasks that write to one WebSocket stream
(application, reader task's replies, ping task) under EVERY schedule of their suspension points:
`send_frames_never_interleaved`, `send_stream_parses`, `send_fidelity_concurrent` (model `HC/Stream/WsWire.lean`, granularity
read off the source by `frame_hand_over_assumed`).  (Before the repair of F05 — `extend` now refuses
everything once the buffer is over the limit — a later fragment of the other kind raised `TypeError`.)
-/
namespace HC.Props.C10
open HC HC.Stream HC.Stream.Ws HC.Extracted

/-! ### `_handle_events` is a left-to-right fold that stops at `break` / raise; batching does not matter -/

theorem handleEvents_eq_runEvs (evs : List WsEv) : ∀ s : S, handleEvents s evs = (runEvs s evs).1 := by
  induction evs with
  | nil => intro s; rfl
  | cons ev rest ih =>
    intro s
    cases ev with
    | message p fin =>
      rcases hx : s.buffer.extend p with ⟨b, oe⟩
      cases oe with
      | none =>
        cases fin <;> simp [handleEvents, runEvs, stepEv, hx, ih, HOut.seq] <;> cases b.value <;> rfl
      | some e => cases e <;> simp [handleEvents, runEvs, stepEv, hx]
    | ping payload =>
      rcases hx : sendWs s (.pong payload) with ⟨s1, e, err⟩
      cases err <;> simp [handleEvents, runEvs, stepEv, hx, ih, HOut.seq]
    | pong payload => simp [handleEvents, runEvs, stepEv, ih, HOut.seq]
    | close code =>
      simp only [handleEvents, runEvs, stepEv]
      split <;> simp_all [HOut.seq]
    | failed code =>
      simp only [handleEvents, runEvs, stepEv]
      split <;> simp_all [HOut.seq]

theorem runEvs_append (a : List WsEv) : ∀ (s : S) (b : List WsEv),
    runEvs s (a ++ b) =
      if (runEvs s a).2 then (((runEvs s a).1).seq (runEvs (runEvs s a).1.1 b).1, (runEvs (runEvs s a).1.1 b).2)
      else runEvs s a := by
  induction a with
  | nil => intro s b; simp [runEvs, HOut.seq]
  | cons ev rest ih =>
    intro s b
    simp only [List.cons_append, runEvs]
    by_cases hc : (stepEv s ev).2 = true
    · simp only [hc, if_true, ih]
      by_cases hc2 : (runEvs (stepEv s ev).1.1 rest).2 = true
      · simp [hc2, HOut.seq]
      · simp [hc2]
    · simp [hc]

/-- the extracted comparison `self.length > self.max_length` is the strict one: exactly `max` is still accepted -/
theorem cmp_iff (n m : Nat) : Guards.wsBufferCmp.eval n m = true ↔ n > m := by
  simp [Guards.wsBufferCmp, Guards.Cmp.eval]

/-- buffer `b` holds the fragments received so far (`a`) of a message of kind `mk` -/
def AccB {β : Type} (mk : List β → Payload) (b : Buffer) (a : List β) : Prop :=
  b.length = a.length ∧ (b.value = some (mk a) ∨ (b.value = none ∧ a = []))

/-- `mk` is one of the two payload kinds: extending a buffer of that kind appends and counts elements -/
def IsKind {β : Type} (mk : List β → Payload) : Prop :=
  ∀ (b : Buffer) (a c : List β), Guards.wsBufferCmp.eval b.length b.maxLength = false →
    (b.value = some (mk a) ∨ (b.value = none ∧ a = [])) →
    b.extend (mk c) = ({ b with value := some (mk (a ++ c)), length := b.length + c.length },
      if Guards.wsBufferCmp.eval (b.length + c.length) b.maxLength then some .tooLarge else none)

theorem isKind_text : IsKind Payload.text := by
  intro b a c hn h
  rcases h with h | ⟨h, rfl⟩ <;> simp [Buffer.extend, h, hn]

theorem isKind_bytes : IsKind Payload.bytes := by
  intro b a c hn h
  rcases h with h | ⟨h, rfl⟩ <;> simp [Buffer.extend, h, hn]

/-- a buffer that holds at most `maxLength` is not over the limit (the guard at the top of `extend` does not fire) -/
theorem not_over_of_le (b : Buffer) (h : b.length ≤ b.maxLength) : Guards.wsBufferCmp.eval b.length b.maxLength = false := by
  cases hx : Guards.wsBufferCmp.eval b.length b.maxLength
  · rfl
  · have := (cmp_iff _ _).mp hx; omega

theorem runEvs_ctl (cs : List Ctl) (s : S) (hopen : s.conn = some .open) :
    runEvs s (ctlEvs cs) = ((s, [], pongsFor cs, none), true) := by
  induction cs with
  | nil => rfl
  | cons c r ih =>
    cases c with
    | ping p =>
      have h1 : stepEv s (.ping p) = ((s, [], [.data (.pong p)], none), true) := by
        have hs : { s with conn := some ConnSt.open } = s := by cases s; simp_all
        simp [stepEv, sendWs, hopen, connSend, hs]
      simp only [ctlEvs, List.map_cons, Ctl.ev] at ih ⊢
      simp [runEvs, h1, ih, HOut.seq, pongsFor]
    | pong p =>
      simp only [ctlEvs, List.map_cons, Ctl.ev] at ih ⊢
      simp [runEvs, stepEv, ih, HOut.seq, pongsFor]

theorem pongsFor_append (a b : List Ctl) : pongsFor (a ++ b) = pongsFor a ++ pongsFor b := by
  induction a with
  | nil => rfl
  | cons c r ih => cases c <;> simp [pongsFor, ih]

/-- non-final fragments within the limit only accumulate: nothing is delivered, pings are answered -/
theorem runEvs_part {β : Type} (mk : List β → Payload) (hk : IsKind mk) (fs : List (List Ctl × List β)) :
    ∀ (s : S) (a : List β), s.conn = some .open → AccB mk s.buffer a →
      a.length + (partData fs).length ≤ s.buffer.maxLength →
      ∃ b', runEvs s (partEvs mk fs) = (({ s with buffer := b' }, [], pongsFor (partCtl fs), none), true) ∧
        AccB mk b' (a ++ partData fs) ∧ b'.maxLength = s.buffer.maxLength := by
  induction fs with
  | nil =>
    intro s a hopen hacc hlim
    refine ⟨s.buffer, ?_, by simpa [partData] using hacc, rfl⟩
    simp [partEvs, runEvs, partCtl, pongsFor]
  | cons f r ih =>
    intro s a hopen hacc hlim
    obtain ⟨cs, d⟩ := f
    have hd : partData ((cs, d) :: r) = d ++ partData r := by simp [partData]
    have hc : partCtl ((cs, d) :: r) = cs ++ partCtl r := by simp [partCtl]
    rw [hd] at hlim ⊢
    simp only [List.length_append] at hlim
    have hnc : Guards.wsBufferCmp.eval (s.buffer.length + d.length) s.buffer.maxLength = false := by
      have := cmp_iff (s.buffer.length + d.length) s.buffer.maxLength
      have hl := hacc.1
      cases hx : Guards.wsBufferCmp.eval (s.buffer.length + d.length) s.buffer.maxLength
      · rfl
      · have := this.mp hx; omega
    let b1 : Buffer := { s.buffer with value := some (mk (a ++ d)), length := s.buffer.length + d.length }
    have hstep : stepEv s (.message (mk d) false) = (({ s with buffer := b1 }, [], [], none), true) := by
      simp [stepEv, hk s.buffer a d (not_over_of_le _ (by have := hacc.1; omega)) hacc.2, hnc, b1]
    have hacc1 : AccB mk b1 (a ++ d) := ⟨by simp [b1, hacc.1], Or.inl rfl⟩
    obtain ⟨b', h1, h2, h3⟩ := ih { s with buffer := b1 } (a ++ d) hopen hacc1 (by simp [b1]; omega)
    refine ⟨b', ?_, by simpa [List.append_assoc] using h2, by simpa [b1] using h3⟩
    simp only [partEvs, List.append_assoc, runEvs_append, runEvs_ctl cs s hopen, if_true, hc, pongsFor_append]
    simp [runEvs, hstep, h1, HOut.seq]

/-! ### receive fidelity -/

/-- accepted, connected, wsproto connection OPEN, nothing buffered -/
def Fresh (s : S) : Prop := s.conn = some .open ∧ s.buffer.value = none ∧ s.buffer.length = 0

instance (s : S) : Decidable (Fresh s) := inferInstanceAs (Decidable (_ ∧ _ ∧ _))

private theorem fresh_clear (s : S) (b' : Buffer) (hf : Fresh s) (hm : b'.maxLength = s.buffer.maxLength) :
    { s with buffer := b'.clear } = s := by
  obtain ⟨_, h2, h3⟩ := hf
  cases s with | mk st closed hs conn buffer response hasAppPut pingInterval clientCloseCode =>
  cases buffer; cases b'; simp_all [Buffer.clear]

/-- the final fragment delivers the concatenation and empties the buffer -/
theorem runEvs_final {β : Type} (mk : List β → Payload) (hk : IsKind mk) (s : S) (a l : List β) (lc : List Ctl)
    (hopen : s.conn = some .open) (hacc : AccB mk s.buffer a) (hlim : a.length + l.length ≤ s.buffer.maxLength) :
    runEvs s (ctlEvs lc ++ [.message (mk l) true]) =
      (({ s with buffer := s.buffer.clear }, [.receive (mk (a ++ l))], pongsFor lc, none), true) := by
  have hnc : Guards.wsBufferCmp.eval (s.buffer.length + l.length) s.buffer.maxLength = false := by
    have := cmp_iff (s.buffer.length + l.length) s.buffer.maxLength
    have hl := hacc.1
    cases hx : Guards.wsBufferCmp.eval (s.buffer.length + l.length) s.buffer.maxLength
    · rfl
    · have := this.mp hx; omega
  have hstep : stepEv s (.message (mk l) true) =
      (({ s with buffer := s.buffer.clear }, [.receive (mk (a ++ l))], [], none), true) := by
    simp [stepEv, hk s.buffer a l (not_over_of_le _ (by have := hacc.1; omega)) hacc.2, hnc, Buffer.clear]
  simp only [runEvs_append, runEvs_ctl lc s hopen, if_true]
  simp [runEvs, hstep, HOut.seq]

/-- **one complete message, however fragmented and whatever control frames are interleaved, is delivered once with
    the concatenated payload, and the stream is back in the state it started from** -/
theorem runEvs_msg (m : CMsg) (s : S) (hf : Fresh s) (hlim : m.size ≤ s.buffer.maxLength) :
    runEvs s m.evs = ((s, [.receive m.payload], pongsFor m.ctl, none), true) := by
  have hacc0 : ∀ {β : Type} (mk : List β → Payload), AccB mk s.buffer [] := fun mk => ⟨by simp [hf.2.2], Or.inr ⟨hf.2.1, rfl⟩⟩
  cases m with
  | text init lc l =>
    simp only [CMsg.size, CMsg.payload, Payload.size, List.length_append] at hlim
    obtain ⟨b', h1, h2, h3⟩ := runEvs_part Payload.text isKind_text init s [] hf.1 (hacc0 _) (by simp; omega)
    have hfin := runEvs_final Payload.text isKind_text { s with buffer := b' } (partData init) l lc hf.1
      (by simpa using h2) (by simp [h3]; omega)
    simp only [CMsg.evs, List.append_assoc, runEvs_append, h1, if_true, hfin]
    simp [HOut.seq, CMsg.payload, CMsg.ctl, pongsFor_append, fresh_clear s b' hf h3]
  | bytes init lc l =>
    simp only [CMsg.size, CMsg.payload, Payload.size, List.length_append] at hlim
    obtain ⟨b', h1, h2, h3⟩ := runEvs_part Payload.bytes isKind_bytes init s [] hf.1 (hacc0 _) (by simp; omega)
    have hfin := runEvs_final Payload.bytes isKind_bytes { s with buffer := b' } (partData init) l lc hf.1
      (by simpa using h2) (by simp [h3]; omega)
    simp only [CMsg.evs, List.append_assoc, runEvs_append, h1, if_true, hfin]
    simp [HOut.seq, CMsg.payload, CMsg.ctl, pongsFor_append, fresh_clear s b' hf h3]

theorem runEvs_msgs (ms : List CMsg) (s : S) (hf : Fresh s) (hlim : ∀ m ∈ ms, m.size ≤ s.buffer.maxLength) :
    runEvs s (msgsEvs ms) = ((s, ms.map (fun m => AppMsg.receive m.payload), pongsFor (msgsCtl ms), none), true) := by
  induction ms with
  | nil => rfl
  | cons m r ih =>
    have h1 := runEvs_msg m s hf (hlim m (by simp))
    have h2 := ih (fun x hx => hlim x (by simp [hx]))
    simp only [msgsEvs, msgsCtl, List.map_cons, List.flatten_cons] at h2 ⊢
    simp [runEvs_append, h1, h2, HOut.seq, pongsFor_append]

theorem runEvs_session (ms : List CMsg) (trail : List Ctl) (s : S) (hf : Fresh s)
    (hlim : ∀ m ∈ ms, m.size ≤ s.buffer.maxLength) :
    runEvs s (sessionEvs ms trail) =
      ((s, ms.map (fun m => AppMsg.receive m.payload), pongsFor (msgsCtl ms ++ trail), none), true) := by
  simp [sessionEvs, runEvs_append, runEvs_msgs ms s hf hlim, runEvs_ctl trail s hf.1, HOut.seq, pongsFor_append]

/-- **receive fidelity**: for EVERY list of messages within the limit, EVERY fragmentation of each, EVERY
    interleaving of pings / pongs, the application is handed exactly the messages (kind and concatenated payload),
    in order, each once; nothing raises; the buffer is empty afterwards (the state is the one it started from);
    and the frames sent are exactly one pong per ping, same payload, same order -/
theorem receive_fidelity (s : S) (ms : List CMsg) (trail : List Ctl) (hf : Fresh s)
    (hlim : ∀ m ∈ ms, m.size ≤ s.buffer.maxLength) :
    handleEvents s (sessionEvs ms trail) =
      (s, ms.map (fun m => AppMsg.receive m.payload), pongsFor (msgsCtl ms ++ trail), none) := by
  rw [handleEvents_eq_runEvs, runEvs_session ms trail s hf hlim]

/-! ### batching / segmentation independence -/

/-- **two reads or one**: if the loop ran to the end of the first batch, handling `evs1` and then `evs2` is handling
    `evs1 ++ evs2` -/
theorem batching (s : S) (evs1 evs2 : List WsEv) (h : (runEvs s evs1).2 = true) :
    handleEvents s (evs1 ++ evs2) = HOut.seq (handleEvents s evs1) (handleEvents (handleEvents s evs1).1 evs2) := by
  simp [handleEvents_eq_runEvs, runEvs_append, h]

/-- after a `break` (over-limit message) or a raise, the rest of the batch is not looked at -/
theorem batching_stop (s : S) (evs1 evs2 : List WsEv) (h : (runEvs s evs1).2 = false) :
    handleEvents s (evs1 ++ evs2) = handleEvents s evs1 := by
  simp [handleEvents_eq_runEvs, runEvs_append, h]

theorem runEvs_prefix (s : S) (a b : List WsEv) (h : (runEvs s (a ++ b)).2 = true) : (runEvs s a).2 = true := by
  rw [runEvs_append] at h
  by_cases hc : (runEvs s a).2 = true
  · exact hc
  · simp [hc] at h

/-- the batches of one connection handled one after the other -/
def feedBatches : S → List (List WsEv) → HOut
  | s, [] => (s, [], [], none)
  | s, b :: bs => HOut.seq (handleEvents s b) (feedBatches (handleEvents s b).1 bs)

theorem feedBatches_eq (bs : List (List WsEv)) : ∀ (s : S), (runEvs s bs.flatten).2 = true →
    feedBatches s bs = handleEvents s bs.flatten := by
  induction bs with
  | nil => intro s _; rfl
  | cons b r ih =>
    intro s h
    simp only [List.flatten_cons] at h ⊢
    have hb := runEvs_prefix s b r.flatten h
    have hr : (runEvs (runEvs s b).1.1 r.flatten).2 = true := by
      rw [runEvs_append] at h; simpa [hb] using h
    simp only [feedBatches, batching s b r.flatten hb]
    rw [ih _ (by simpa [handleEvents_eq_runEvs] using hr)]

/-- **segmentation independence of `receive_fidelity`**: however the session's events are cut into batches (reads),
    the application receives the same messages and the client the same pongs -/
theorem segmentation_independence (s : S) (ms : List CMsg) (trail : List Ctl) (hf : Fresh s)
    (hlim : ∀ m ∈ ms, m.size ≤ s.buffer.maxLength) (batches : List (List WsEv))
    (hcut : batches.flatten = sessionEvs ms trail) :
    feedBatches s batches = (s, ms.map (fun m => AppMsg.receive m.payload), pongsFor (msgsCtl ms ++ trail), none) := by
  rw [feedBatches_eq batches s (by rw [hcut, runEvs_session ms trail s hf hlim]), hcut]
  exact receive_fidelity s ms trail hf hlim

/-! ### ping / pong -/

def pingPayloads : List Ctl → List Bytes
  | [] => []
  | .ping p :: r => p :: pingPayloads r
  | .pong _ :: r => pingPayloads r

/-- **every ping is answered by a pong with the same payload, in order** (unsolicited pongs are ignored) -/
theorem ping_pong (cs : List Ctl) : pongsFor cs = (pingPayloads cs).map (fun p => Ev.data (.pong p)) := by
  induction cs with
  | nil => rfl
  | cons c r ih => cases c <;> simp [pongsFor, pingPayloads, ih]

theorem ping_answered (s : S) (p : Bytes) (hopen : s.conn = some .open) :
    handleEvents s [.ping p] = (s, [], [.data (.pong p)], none) := by
  have := runEvs_ctl [.ping p] s hopen
  rw [handleEvents_eq_runEvs]; simpa [ctlEvs, Ctl.ev, pongsFor] using congrArg Prod.fst this

/-- honest boundary: once a close frame has been sent or received wsproto refuses the pong (`LocalProtocolError`,
    swallowed by `_send_wsproto_event`) — the ping is then not answered -/
theorem ping_not_answered_when_closing (s : S) (p : Bytes) (c : ConnSt) (hc : s.conn = some c) (hne : c ≠ .open) :
    handleEvents s [.ping p] = (s, [], [], none) := by
  simp [handleEvents, sendWs, hc, connSend, hne]

/-! ### the limit -/

private theorem ctl_then_over {β : Type} (mk : List β → Payload) (hk : IsKind mk) (s : S) (a c : List β) (ctl : List Ctl)
    (fin : Bool) (rest : List WsEv) (hopen : s.conn = some .open) (hacc : AccB mk s.buffer a)
    (ha : a.length ≤ s.buffer.maxLength) (hover : a.length + c.length > s.buffer.maxLength) :
    runEvs s (ctlEvs ctl ++ ([.message (mk c) fin] ++ rest)) =
      (({ s with buffer := { s.buffer with value := some (mk (a ++ c)), length := a.length + c.length },
                 conn := some .localClosing }, [], pongsFor ctl ++ [.data (.close 1009)], none), false) := by
  have hyc : Guards.wsBufferCmp.eval (s.buffer.length + c.length) s.buffer.maxLength = true := by
    rw [cmp_iff, hacc.1]; exact hover
  clear hyc
  have hyc' : Guards.wsBufferCmp.eval (a.length + c.length) s.buffer.maxLength = true := by
    rw [cmp_iff]; exact hover
  have hstep : stepEv s (.message (mk c) fin) =
      (({ s with buffer := { s.buffer with value := some (mk (a ++ c)), length := a.length + c.length },
                 conn := some .localClosing }, [], [.data (.close 1009)], none), false) := by
    simp [stepEv, hk s.buffer a c (not_over_of_le _ (by have := hacc.1; omega)) hacc.2, hyc', sendWs, hopen, connSend, hacc.1]
  simp only [runEvs_append, runEvs_ctl ctl s hopen, if_true]
  simp [runEvs, hstep, HOut.seq]

/-- **the limit, generic in the kind**: `pre` are complete messages within the limit; of the next message the
    fragments `part` (accumulated size still within the limit) have arrived when the fragment `c` takes the
    accumulated size over `maxLength`.  Then exactly `pre` is delivered, every ping up to that point is answered, a
    close frame with code 1009 is sent, and `rest` — the remaining fragments and everything after them in the same
    batch — has no influence at all. -/
theorem limit_generic {β : Type} (mk : List β → Payload) (hk : IsKind mk) (s : S) (pre : List CMsg)
    (part : List (List Ctl × List β)) (ctl : List Ctl) (c : List β) (fin : Bool) (rest : List WsEv) (hf : Fresh s)
    (hpre : ∀ m ∈ pre, m.size ≤ s.buffer.maxLength)
    (hpart : (partData part).length ≤ s.buffer.maxLength)
    (hover : (partData part).length + c.length > s.buffer.maxLength) :
    handleEvents s (msgsEvs pre ++ (partEvs mk part ++ (ctlEvs ctl ++ ([.message (mk c) fin] ++ rest)))) =
      ({ s with buffer := { s.buffer with value := some (mk (partData part ++ c)),
                                          length := (partData part).length + c.length },
                conn := some .localClosing },
       pre.map (fun m => AppMsg.receive m.payload),
       pongsFor (msgsCtl pre ++ partCtl part ++ ctl) ++ [.data (.close 1009)], none) := by
  have hacc0 : AccB mk s.buffer [] := ⟨by simp [hf.2.2], Or.inr ⟨hf.2.1, rfl⟩⟩
  obtain ⟨b', h1, h2, h3⟩ := runEvs_part mk hk part s [] hf.1 hacc0 (by simpa using hpart)
  have h4 := ctl_then_over mk hk { s with buffer := b' } (partData part) c ctl fin rest hf.1 (by simpa using h2)
    (by simpa [h3] using hpart) (by simpa [h3] using hover)
  rw [handleEvents_eq_runEvs]
  simp only [runEvs_append, runEvs_msgs pre s hf hpre, if_true, h1, h4]
  have hb : ({ b' with value := some (mk (partData part ++ c)), length := (partData part).length + c.length } : Buffer) =
      { s.buffer with value := some (mk (partData part ++ c)), length := (partData part).length + c.length } := by
    cases b'; cases hsb : s.buffer; simp_all
  simp [HOut.seq, pongsFor_append, hb]

/-- **limit, text**: the size that counts is the number of *characters* -/
theorem limit_text (s : S) (pre : List CMsg) (part : List (List Ctl × List Char)) (ctl : List Ctl) (c : List Char)
    (fin : Bool) (rest : List WsEv) (hf : Fresh s) (hpre : ∀ m ∈ pre, m.size ≤ s.buffer.maxLength)
    (hpart : (partData part).length ≤ s.buffer.maxLength)
    (hover : (partData part).length + c.length > s.buffer.maxLength) :
    (handleEvents s (msgsEvs pre ++ (partEvs Payload.text part ++ (ctlEvs ctl ++ ([.message (.text c) fin] ++ rest))))).2 =
      (pre.map (fun m => AppMsg.receive m.payload),
       pongsFor (msgsCtl pre ++ partCtl part ++ ctl) ++ [.data (.close 1009)], none) := by
  rw [limit_generic Payload.text isKind_text s pre part ctl c fin rest hf hpre hpart hover]

/-- **limit, binary**: the size that counts is the number of *bytes* -/
theorem limit_bytes (s : S) (pre : List CMsg) (part : List (List Ctl × Bytes)) (ctl : List Ctl) (c : Bytes)
    (fin : Bool) (rest : List WsEv) (hf : Fresh s) (hpre : ∀ m ∈ pre, m.size ≤ s.buffer.maxLength)
    (hpart : (partData part).length ≤ s.buffer.maxLength)
    (hover : (partData part).length + c.length > s.buffer.maxLength) :
    (handleEvents s (msgsEvs pre ++ (partEvs Payload.bytes part ++ (ctlEvs ctl ++ ([.message (.bytes c) fin] ++ rest))))).2 =
      (pre.map (fun m => AppMsg.receive m.payload),
       pongsFor (msgsCtl pre ++ partCtl part ++ ctl) ++ [.data (.close 1009)], none) := by
  rw [limit_generic Payload.bytes isKind_bytes s pre part ctl c fin rest hf hpre hpart hover]

/-- the boundary is exact: a message of exactly `maxLength` characters / bytes is delivered (`receive_fidelity` needs
    only `size ≤ maxLength`), `maxLength + 1` is not (`limit_*` needs only `>`) -/
theorem limit_boundary (n m : Nat) : (Guards.wsBufferCmp.eval n m = false ↔ n ≤ m) := by
  have := cmp_iff n m
  cases h : Guards.wsBufferCmp.eval n m <;> simp_all <;> omega

/-! ### after the overflow — later batches

`break` only leaves the loop: wsproto keeps the unparsed frames and yields them on the next read, and the stream is
not closed.  The buffer stays over the limit, and `extend` refuses everything in that state (`if self.length >
self.max_length: raise FrameTooLargeError()` comes first), whatever the kind of the fragment: -/

def Over (b : Buffer) : Prop := b.length > b.maxLength

instance (b : Buffer) : Decidable (Over b) := inferInstanceAs (Decidable (_ > _))

theorem extend_over (b : Buffer) (p : Payload) (h : Over b) : b.extend p = (b, some .tooLarge) := by
  have : Guards.wsBufferCmp.eval b.length b.maxLength = true := (cmp_iff _ _).mpr h
  simp [Buffer.extend, this]

/-- **`limit`, total half**: once a message went over the limit every later batch — whatever it contains, fragments
    of either kind included — is handled without an exception, delivers nothing, and leaves the buffer over the
    limit (so the same holds for all batches to come) -/
theorem limit_total (evs : List WsEv) : ∀ (s : S) (c : ConnSt), Over s.buffer → s.conn = some c →
    (handleEvents s evs).2.2.2 = none ∧ (handleEvents s evs).2.1 = [] ∧ Over (handleEvents s evs).1.buffer ∧
    ∃ c', (handleEvents s evs).1.conn = some c' := by
  induction evs with
  | nil => intro s c h hc; exact ⟨rfl, rfl, h, c, hc⟩
  | cons ev rest ih =>
    intro s c h hc
    cases ev with
    | message p fin =>
      simp only [handleEvents, extend_over _ _ h, sendWs, hc]
      cases hs : connSend c (.close 1009) <;> simp [h]
    | ping payload =>
      simp only [handleEvents, sendWs, hc]
      cases hs : connSend c (.pong payload) with
      | none => simpa using ih s c h hc
      | some c2 =>
        have := ih { s with conn := some c2 } c2 h rfl
        simpa using this
    | pong payload => simpa [handleEvents] using ih s c h hc
    | close code =>
      simp only [handleEvents, hc, Option.map_some]
      by_cases hr : connRecvClose c = .remoteClosing
      · simp only [hr, if_true, sendWs, connSend]
        have := ih { s with conn := some .closed, clientCloseCode := some code } .closed h rfl
        simpa using this
      · have hne : ¬ (some (connRecvClose c) = some ConnSt.remoteClosing) := by simpa using hr
        simp only [hne, if_false]
        have := ih { s with conn := some (connRecvClose c) } (connRecvClose c) h rfl
        simpa using this
    | failed code =>
      simp only [handleEvents, hc]
      by_cases hr : c = .remoteClosing
      · subst hr
        simp only [if_true, sendWs, connSend]
        have := ih { s with conn := some .closed, clientCloseCode := some code } .closed h rfl
        simpa using this
      · have hne : ¬ (some c = some ConnSt.remoteClosing) := by simpa using hr
        simp only [hne, if_false]
        simpa using ih s c h hc

/-- **nothing after the over-limit message is ever delivered, and nothing raises** — not in the same batch
    (`limit_*`) and not in any later one: for ALL later protocol inputs (arbitrary event batches, including the frames
    wsproto kept back at the `break`, and the final `StreamClosed`) the application is put no `websocket.receive` -/
theorem nothing_after_overflow (ins : List In) : ∀ (s : S) (c : ConnSt), Over s.buffer → s.conn = some c →
    ∀ m ∈ (feedIn s ins).2.1, isReceive m = false := by
  induction ins with
  | nil => intro s c _ _ m hm; simp [feedIn] at hm
  | cons i r ih =>
    intro s c h hc m hm
    have hstep : (∀ m ∈ (handle s i).2.1, isReceive m = false) ∧ Over (handle s i).1.buffer ∧ ∃ c', (handle s i).1.conn = some c' := by
      unfold handle
      split
      · exact ⟨by simp, h, c, hc⟩
      · cases i with
        | data evs =>
          simp only
          split
          · split   -- (data before the handshake was accepted: answered in HANDSHAKE, ignored once a rejection was started)
            · refine ⟨?_, h, c, hc⟩
              intro m hm; split at hm <;> simp at hm; subst hm; rfl
            · exact ⟨by simp, h, c, hc⟩
          · obtain ⟨_, h1, h2, h3⟩ := limit_total evs s c h hc
            exact ⟨by simp [h1], h2, h3⟩
        | streamClosed =>
          simp only
          refine ⟨?_, h, c, hc⟩
          intro m hm; split at hm <;> simp at hm; subst hm; rfl
    simp only [feedIn, List.mem_append] at hm
    rcases hm with hm | hm
    · exact hstep.1 m hm
    · obtain ⟨c', hc'⟩ := hstep.2.2
      exact ih _ c' hstep.2.1 hc' m hm

/-- the state `limit_generic` ends in is such a state -/
theorem limit_state_over {β : Type} (s : S) (v : Payload) (part : List β) (c : List β)
    (hover : part.length + c.length > s.buffer.maxLength) :
    Over ({ s with buffer := { s.buffer with value := some v, length := part.length + c.length },
                   conn := some ConnSt.localClosing } : S).buffer := hover

def overWitness : S :=
  { st := .connected, hs := { version := "1.1", accepted := true }, conn := some .open, buffer := { maxLength := 5 },
    hasAppPut := true }

/-- the model's own run of the scenario that used to raise `TypeError` (F05, repaired by `fix: nothing is buffered
    after a websocket message exceeded the size limit`): a 6-byte binary message against a limit of 5, then a text
    message -/
example : handle overWitness (.data [.message (.bytes [1, 2, 3, 4, 5, 6]) true]) =
    ({ overWitness with buffer := { value := some (.bytes [1, 2, 3, 4, 5, 6]), length := 6, maxLength := 5 },
                        conn := some .localClosing }, [], [.data (.close 1009)], none) := by decide
example : (handle (handle overWitness (.data [.message (.bytes [1, 2, 3, 4, 5, 6]) true])).1
    (.data [.message (.text ['o', 'k']) true])).2 = ([], [], none) := by decide

/-! ### send fidelity -/

/-- **`websocket.send` ↦ one wsproto message of the same kind and payload** (CONNECTED, connection OPEN) -/
theorem send_fidelity (token : Bytes → Bytes) (ext : Option Bytes) (s : S) (o : AppOut)
    (hc : s.closed = false) (hst : s.st = .connected) (hopen : s.conn = some .open) :
    appSend token ext s (some o.msg) = (s, [.data o.frame], none) := by
  cases s with | mk st closed hs conn buffer response hasAppPut pingInterval clientCloseCode =>
  simp only at hc hst hopen
  subst hc hst hopen
  cases o <;> simp [appSend, AppOut.msg, AppOut.frame, sendWs, connSend]

/-- **a sequence of sends yields the sequence of frames, in order, nothing else** -/
theorem send_sequence (token : Bytes → Bytes) (ext : Option Bytes) (os : List AppOut) (s : S)
    (hc : s.closed = false) (hst : s.st = .connected) (hopen : s.conn = some .open) :
    feed token ext s (os.map (fun o => some o.msg)) = (s, os.map (fun o => Ev.data o.frame)) := by
  induction os with
  | nil => rfl
  | cons o r ih => simp [feed, send_fidelity token ext s o hc hst hopen, ih]

/-- honest boundary: after a close frame was sent or received wsproto refuses the message (`LocalProtocolError`,
    swallowed): the send returns normally and nothing reaches the client -/
theorem send_dropped_when_closing (token : Bytes → Bytes) (ext : Option Bytes) (s : S) (o : AppOut) (c : ConnSt)
    (hcl : s.closed = false) (hst : s.st = .connected) (hc : s.conn = some c) (hne : c ≠ .open) :
    appSend token ext s (some o.msg) = (s, [], none) := by
  cases o <;> simp [appSend, AppOut.msg, hcl, hst, sendWs, hc, connSend, hne]

/-! ### several writer tasks, one stream: frames are never interleaved (model `HC/Stream/WsWire.lean`) -/

/-- the source facts the granularity of `WsWire` rests on (extracted from the current tree, tools/extract_wssend.py):
    one wsproto event = one serialised frame = one `Data` event; the HTTP/2 carrier passes the whole of `event.data` to ONE
    `StreamBuffer.push`, which appends the whole of it to the buffer before its first suspension point, nothing loops;
    the HTTP/1.1 carrier passes the whole of it on as ONE `RawData`, which both workers write in ONE call under the send lock;
    `Event.set()` / `Event.clear()` (called on the way) do not suspend on either worker -/
theorem frame_hand_over_assumed :
    WsSend.wsEventData = ["self.connection.send(event)"] ∧
    WsSend.h2DataPushArgs = ["event.data"] ∧ WsSend.h2DataLoops = false ∧
    WsSend.pushExtendArgs = ["data"] ∧ WsSend.pushAwaitsBeforeExtend = [] ∧ WsSend.pushLoops = false ∧
    WsSend.h11DataSendArgs = ["event.data"] ∧ WsSend.h11DataLoops = false ∧
    WsSend.asyncioWriteArgs = ["event.data"] ∧ WsSend.asyncioWriteLocked = true ∧ WsSend.asyncioWriteLoops = false ∧
    WsSend.trioWriteArgs = ["event.data"] ∧ WsSend.trioWriteLocked = true ∧ WsSend.trioWriteLoops = false ∧
    Atomic.asyncioEventSetSuspends = false ∧ Atomic.asyncioEventClearSuspends = false ∧
    Atomic.trioEventSetSuspends = false ∧ Atomic.trioEventClearSuspends = false := by decide

/-- **for every number of writer tasks, every list of frames per task and every schedule** of hand-overs and of takes by the
    send task: what has been sent plus what is buffered is the concatenation of whole frames in hand-over order, and each
    task's frames are handed over in that task's order, none lost, none twice -/
theorem send_frames_never_interleaved {σ φ : Type} (F : WsWire.Framing σ φ) (init : Nat → List φ) (ops : List WsWire.Op) :
    let s := WsWire.run F (WsWire.start init) ops
    s.wire ++ s.buf = WsWire.wireOf F (s.log.map (·.2)) ∧ ∀ w, WsWire.sentBy w s.log ++ s.todo w = init w :=
  ⟨(WsWire.inv_run F init ops).stream, (WsWire.inv_run F init ops).order⟩

/-- the client's parser is never left with a damaged frame: a drained stream parses into the frames handed over -/
theorem send_stream_parses {σ φ : Type} (F : WsWire.Framing σ φ) (init : Nat → List φ) (ops : List WsWire.Op)
    (hdrained : (WsWire.run F (WsWire.start init) ops).buf = []) :
    WsWire.Decodes F (WsWire.run F (WsWire.start init) ops).wire ((WsWire.run F (WsWire.start init) ops).log.map (·.2)) :=
  WsWire.client_can_parse F init ops hdrained

/-- **messages the application sends reach the client with identical type and payload, in order - whatever the other
    writers of the stream do meanwhile** (and every pong the reader task sends reaches it, in order): with every task sending
    frames of its own class (`cls`, the opcode: 0 = messages, 1 = pong / close replies, 2 = pings), after any schedule that
    hands everything over and drains the buffer, whatever the client parses contains for each class exactly that task's
    frames, in its order -/
theorem send_fidelity_concurrent {σ φ : Type} (F : WsWire.Framing σ φ) (cls : φ → Nat) (init : Nat → List φ) (ops : List WsWire.Op)
    (hcls : ∀ w, ∀ f ∈ init w, cls f = w)
    (hall : ∀ w, (WsWire.run F (WsWire.start init) ops).todo w = []) (hdrained : (WsWire.run F (WsWire.start init) ops).buf = [])
    (got : List φ) (hgot : WsWire.Decodes F (WsWire.run F (WsWire.start init) ops).wire got) :
    ∀ w, got.filter (fun f => cls f == w) = init w :=
  WsWire.client_sees_each_writer_in_order F cls init ops hcls hall hdrained got hgot

/-- why the granularity matters (negation witness): were a frame handed over in pieces with a suspension point in between
    (`WsWire.Sliced`), a schedule exists after which the stream is no concatenation of the whole frames in either order,
    and the client parses a "message" that contains the other task's frame -/
theorem sliced_hand_over_interleaves :
    let init : Nat → List (List Nat) := fun w => if w = 0 then [[7, 7, 7, 7]] else if w = 1 then [[9]] else []
    let s := WsWire.Sliced.run WsWire.lp { todo := init, part := fun _ => [], buf := [], wire := [] }
               [.handOverPiece 0 2, .handOverPiece 1 5, .handOverPiece 0 5, .take 100]
    s.wire = [4, 7, 1, 9, 7, 7, 7] ∧ s.buf = [] ∧ (∀ w, s.todo w = [] ∧ s.part w = []) ∧
    s.wire ≠ WsWire.wireOf WsWire.lp [[7, 7, 7, 7], [9]] ∧ s.wire ≠ WsWire.wireOf WsWire.lp [[9], [7, 7, 7, 7]] ∧
    WsWire.lp.dec s.wire = some ([7, 1, 9, 7], [7, 7]) := by
  refine ⟨by decide, by decide, ?_, by decide, by decide, by decide⟩
  intro w
  by_cases h0 : w = 0
  · subst h0; decide
  · by_cases h1 : w = 1
    · subst h1; decide
    · simp [WsWire.Sliced.run, WsWire.Sliced.step, WsWire.lp, h0, h1]

/-! ### non-vacuity -/

private def s5 : S := { st := .connected, hs := { version := "1.1", accepted := true }, conn := some .open, buffer := { maxLength := 5 } }

example : Fresh s5 := by decide

/-- "hé" + ping + "llo" (5 characters, 6 bytes: within a limit of 5 because characters count), then 5 bytes -/
example :
    handleEvents s5 (sessionEvs [.text [([], ['h', 'é'])] [.ping "p1".b] ['l', 'l', 'o'], .bytes [] [] [1, 2, 3, 4, 5]] [.ping "p2".b]) =
      (s5, [.receive (.text ['h', 'é', 'l', 'l', 'o']), .receive (.bytes [1, 2, 3, 4, 5])],
       [.data (.pong "p1".b), .data (.pong "p2".b)], none) := by decide

example : (handleEvents s5 ([.message (.bytes [1, 2, 3]) false, .message (.bytes [4, 5, 6]) true, .message (.bytes [7]) true])).2 =
    ([], [.data (.close 1009)], none) := by decide

/-- two writers (the application: two messages; the reader task: one pong), the pong handed over between the two messages
    whilst the send task has taken half of the first: whole frames, in order -/
example :
    let init : Nat → List (List Nat) := fun w => if w = 0 then [[7, 7, 7, 7], [8]] else if w = 1 then [[9]] else []
    let s := WsWire.run WsWire.lp (WsWire.start init) [.handOver 0, .take 2, .handOver 1, .take 3, .handOver 0, .take 100]
    s.wire = [4, 7, 7, 7, 7, 1, 9, 1, 8] ∧ s.log = [(0, [7, 7, 7, 7]), (1, [9]), (0, [8])] := by decide

end HC.Props.C10
