import HC.Pure.Wsgi
/-!
# C17 — WSGI adapter conforms to PEP 3333

Property theorems only (model: `HC/Pure/Wsgi.lean`).  Theorems about `run_app` are stated per `Variant`:
`checkAfterCall` is the shape of the pinned tree (F19), `checkAtFirstChunk` the repaired shape; the harness reads the
shape off the current source and reports which set applies.
-/
namespace HC.Props.C17
open HC HC.Wsgi

/-! ### spellings, comparator -/

/-- every key constant of the model is the string the code writes -/
theorem key_spellings :
    kRequestMethod = "REQUEST_METHOD".toList ∧ kScriptName = "SCRIPT_NAME".toList ∧ kPathInfo = "PATH_INFO".toList ∧
    kQueryString = "QUERY_STRING".toList ∧ kServerName = "SERVER_NAME".toList ∧ kServerPort = "SERVER_PORT".toList ∧
    kServerProtocol = "SERVER_PROTOCOL".toList ∧ kWsgiVersion = "wsgi.version".toList ∧ kUrlScheme = "wsgi.url_scheme".toList ∧
    kInput = "wsgi.input".toList ∧ kErrors = "wsgi.errors".toList ∧ kMultithread = "wsgi.multithread".toList ∧
    kMultiprocess = "wsgi.multiprocess".toList ∧ kRunOnce = "wsgi.run_once".toList ∧ kRemoteAddr = "REMOTE_ADDR".toList ∧
    kContentLength = "CONTENT_LENGTH".toList ∧ kContentType = "CONTENT_TYPE".toList ∧ httpPrefix = "HTTP_".toList ∧
    bContentLength = "content-length".b ∧ bContentType = "content-type".b := by decide +kernel

/-- the extracted comparator is `>` (re-checked against the source on every run) -/
theorem body_cmp (a b : Nat) : Extracted.Guards.wsgiBodyCmp.eval a b = decide (a > b) := by
  simp [Extracted.Guards.wsgiBodyCmp, Extracted.Guards.Cmp.eval]

/-! ### transcoding -/

private theorem utf8_append (a b : Str) : utf8 (a ++ b) = utf8 a ++ utf8 b := by simp [utf8]
private theorem latin1_append (a b : Bytes) : latin1 (a ++ b) = latin1 a ++ latin1 b := by simp [latin1]

private theorem utf8Char_ne_nil (c : Char) : utf8Char c ≠ [] := by
  unfold utf8Char; simp only []; repeat' split
  all_goals simp

private theorem utf8_eq_nil (s : Str) : utf8 s = [] ↔ s = [] := by
  cases s with
  | nil => simp [utf8]
  | cons c cs => simp [utf8, utf8Char_ne_nil]

/-- ASCII passes through `encode("utf8").decode("latin1")` unchanged (so `%xx` escapes survive verbatim) -/
theorem transcode_ascii (s : Str) (h : ∀ c ∈ s, c.toNat < 128) : latin1 (utf8 s) = s := by
  induction s with
  | nil => rfl
  | cons c cs ih =>
    have hc : c.toNat < 128 := h c (by simp)
    have ih' := ih (fun c' hc' => h c' (by simp [hc']))
    have e : utf8 (c :: cs) = utf8Char c ++ utf8 cs := by simp [utf8]
    have hu : utf8Char c = [c.toNat.toUInt8] := by simp [utf8Char, hc]
    have hm : c.toNat % 256 = c.toNat := Nat.mod_eq_of_lt (by omega)
    rw [e, latin1_append, ih', hu]
    simp [latin1, hm]

example : latin1 (utf8 ['/', 'é']) = ['/', Char.ofNat 0xC3, Char.ofNat 0xA9] := by decide
example : utf8 [Char.ofNat 0x4E2D] = [0xE4, 0xB8, 0xAD] ∧ utf8 [Char.ofNat 0x1F600] = [0xF0, 0x9F, 0x98, 0x80] := by decide

/-! ### the environ dictionary -/

private theorem getKey_setKey_same (k : Str) (v : Val) (e : Environ) : getKey k (setKey k v e) = some v := by
  induction e with
  | nil => simp [setKey, getKey]
  | cons kv e ih =>
    obtain ⟨k', v'⟩ := kv
    simp only [setKey]; split <;> simp_all [getKey]

private theorem getKey_setKey_other (k k' : Str) (v : Val) (e : Environ) (h : k' ≠ k) :
    getKey k' (setKey k v e) = getKey k' e := by
  induction e with
  | nil => simp [setKey, getKey, Ne.symm h]
  | cons kv e ih =>
    obtain ⟨k'', v'⟩ := kv
    simp only [setKey]; split
    · rename_i h2; subst h2; simp [getKey, Ne.symm h]
    · simp only [getKey]; split <;> simp_all

private theorem getKey_none_of_not_mem (e : Environ) (k : Str) (h : k ∉ e.map Prod.fst) : getKey k e = none := by
  induction e with
  | nil => rfl
  | cons kv e ih =>
    obtain ⟨k', v⟩ := kv
    simp only [List.map_cons, List.mem_cons, not_or] at h
    simp only [getKey, if_neg (Ne.symm h.1), ih h.2]

/-- a header variable is `CONTENT_LENGTH`, `CONTENT_TYPE`, or starts with `HTTP_` -/
theorem headerKey_cases (n : Bytes) :
    headerKey n = kContentLength ∨ headerKey n = kContentType ∨ httpPrefix <+: headerKey n := by
  unfold headerKey
  split
  · exact .inl rfl
  · split
    · exact .inr (.inl rfl)
    · exact .inr (.inr (List.prefix_append _ _))

private theorem base_not_header :
    ∀ k ∈ baseKeys, k ≠ kContentLength ∧ k ≠ kContentType ∧ httpPrefix.isPrefixOf k = false := by decide

/-- **no request header can overwrite a request-derived variable**: header variables and the base keys are disjoint -/
theorem headerKey_not_base (n : Bytes) : headerKey n ∉ baseKeys := by
  intro hm
  obtain ⟨h1, h2, h3⟩ := base_not_header _ hm
  rcases headerKey_cases n with h | h | h
  · exact h1 h
  · exact h2 h
  · have := List.isPrefixOf_iff_prefix.mpr h
    rw [h3] at this; exact Bool.noConfusion this

/-- **content-length / content-type are not prefixed**, every other name is `HTTP_` + upper-cased with `-` → `_` -/
theorem content_headers_not_prefixed :
    headerKey bContentLength = kContentLength ∧ headerKey bContentType = kContentType ∧
    ∀ n, n ≠ bContentLength → n ≠ bContentType →
      headerKey n = httpPrefix ++ (n.flatMap upperL1).map (fun c => if c = '-' then '_' else c) := by
  refine ⟨by decide, by decide, ?_⟩
  intro n h1 h2
  simp [headerKey, h1, h2]

/-- only the header spelled exactly `content-length` feeds `CONTENT_LENGTH` (likewise `CONTENT_TYPE`) -/
theorem content_key_iff (n : Bytes) :
    (headerKey n = kContentLength ↔ n = bContentLength) ∧ (headerKey n = kContentType ↔ n = bContentType) := by
  have hne : bContentLength ≠ bContentType := by decide
  have hk : kContentLength ≠ kContentType := by decide
  unfold headerKey
  by_cases h1 : n = bContentLength
  · subst h1; simp [hne, hk]
  · by_cases h2 : n = bContentType
    · subst h2; simp [Ne.symm hne, Ne.symm hk]
    · simp [h1, h2, httpPrefix, kContentLength, kContentType]

example : headerKey "x-forwarded-for".b = "HTTP_X_FORWARDED_FOR".toList := by decide +kernel
example : headerKey "Content-Length".b = "HTTP_CONTENT_LENGTH".toList := by decide +kernel

/-! ### the codecs of `_build_environ` (read off the source on every run: `HC/Extracted/WsgiSites.lean`) -/

/-- **a header value is decoded as latin-1, strictly, with no second attempt in another codec** - decided on the `.decode()`
    call the extractor read in the header loop of `_build_environ`; every statement about header variables below rests on it -/
theorem header_value_latin1 (b : Bytes) : headerValue b = some (latin1 b) := by
  simp [headerValue, decodeWith, codecDecode, Extracted.WsgiSites.environHeaderValueDecode]

/-- the other transcodings the model has built in: header names are latin-1 (`headerKey` upper-cases byte by byte with
    `upperL1`), the query string is ASCII (`asciiDecode`), the path and the root path are UTF-8 bytes re-read as latin-1
    (`latin1 (utf8 …)`) -/
theorem environ_codecs :
    Extracted.WsgiSites.environHeaderNameDecode = { codec := .latin1, errors := none, fallback := none } ∧
    Extracted.WsgiSites.environQueryDecode = { codec := .ascii, errors := none, fallback := none } ∧
    Extracted.WsgiSites.environPathTranscode = { encode := .utf8, decode := .latin1 } ∧
    Extracted.WsgiSites.environScriptNameTranscode = { encode := .utf8, decode := .latin1 } := by decide

private theorem latin1_roundtrip (b : Bytes) : (latin1 b).mapM encodeChar = some b := by
  induction b with
  | nil => rfl
  | cons x xs ih =>
    have hx : x.toNat < 256 := x.toNat_lt
    have hc : (Char.ofNat x.toNat).toNat = x.toNat := by
      have : x.toNat.isValidChar := by
        left
        omega
      simp [Char.ofNat, this, Char.toNat, Char.ofNatAux]
    have ih' : List.mapM encodeChar (latin1 xs) = some xs := ih
    simp only [latin1, List.map_cons, List.mapM_cons, encodeChar, hc, hx, ↓reduceIte]
    simp only [latin1] at ih'
    simp [ih']

/-- **PEP 3333 round trip**: the native string handed to the application for a header value gives the request's bytes back
    under `value.encode("latin1")` - for EVERY byte string, in particular one that happens to be valid multi-byte UTF-8 -/
theorem header_value_roundtrip (b : Bytes) : (headerValue b).bind (fun v => v.mapM encodeChar) = some b := by
  rw [header_value_latin1]
  exact latin1_roundtrip b

/-- why the codec matters: decoding as UTF-8 first (latin-1 only as the fall-back) hands the application `é` for the bytes
    `C3 A9` - which `encode("latin1")` turns into the single byte `E9` - and `中` for `E4 B8 AD`, which `encode("latin1")`
    rejects (UnicodeEncodeError); a byte string that is not UTF-8 still round-trips, so only valid multi-byte UTF-8 shows it -/
theorem utf8_first_breaks_roundtrip :
    let d : Extracted.WsgiSites.Decode := { codec := .utf8, errors := none, fallback := some .latin1 }
    (decodeWith d [0xC3, 0xA9]).bind (fun v => v.mapM encodeChar) = some [0xE9] ∧
    (decodeWith d [0xE4, 0xB8, 0xAD]).bind (fun v => v.mapM encodeChar) = none ∧
    (decodeWith d [0xF0, 0x9F, 0x98, 0x80]).bind (fun v => v.mapM encodeChar) = none ∧
    (decodeWith d [0x76, 0xE9]).bind (fun v => v.mapM encodeChar) = some [0x76, 0xE9] ∧
    (decodeWith d [0xC3, 0xA9, 0xFF]).bind (fun v => v.mapM encodeChar) = some [0xC3, 0xA9, 0xFF] := by decide

/-- values of the header lines whose variable is `k`, in arrival order -/
def valuesFor (k : Str) (hs : Headers) : List Str :=
  (hs.filter (fun h => headerKey h.1 = k)).map (fun h => latin1 h.2)

/-- `",".join(vs)` -/
def joinComma : List Str → Str
  | [] => []
  | [v] => v
  | v :: w :: vs => v ++ ',' :: joinComma (w :: vs)

/-- what the header loop leaves under a key that held `old`, after lines with values `vs` for that key -/
def folded (old : Option Val) : List Str → Option Val
  | [] => old
  | v :: vs => some (.str (joinComma ((match old with | some (.str s) => [s] | _ => []) ++ v :: vs)))

private theorem joinComma_snoc_cons (a : List Str) (x : Str) (vs : List Str) (ha : a.length ≤ 1) :
    joinComma (joinComma (a ++ [x]) :: vs) = joinComma (a ++ x :: vs) := by
  match a, ha with
  | [], _ => simp [joinComma]
  | [s], _ =>
    cases vs with
    | nil => simp [joinComma]
    | cons y ys => simp [joinComma, List.append_assoc]

/-- every entry stored under a header variable is a `str` (so `+ "," +` cannot raise) -/
private def StrInv (e : Environ) : Prop := ∀ n v, getKey (headerKey n) e = some v → ∃ s, v = .str s

private theorem addHeaders_spec (hs : Headers) : ∀ (e : Environ), StrInv e →
    ∃ e', addHeaders e hs = .ok e' ∧ ∀ k, getKey k e' = folded (getKey k e) (valuesFor k hs) := by
  induction hs with
  | nil => intro e _; exact ⟨e, rfl, fun k => by simp [valuesFor, folded]⟩
  | cons h hs ih =>
    intro e hI
    -- one turn of the loop
    have step : ∃ new, addHeader e h = .ok (setKey (headerKey h.1) (.str new) e) ∧
        new = joinComma ((match getKey (headerKey h.1) e with | some (.str s) => [s] | _ => []) ++ [latin1 h.2]) := by
      unfold addHeader
      rw [header_value_latin1]
      cases hg : getKey (headerKey h.1) e with
      | none => exact ⟨_, rfl, by simp [joinComma]⟩
      | some v =>
        obtain ⟨s, rfl⟩ := hI h.1 v hg
        exact ⟨_, rfl, by simp [joinComma]⟩
    obtain ⟨new, hadd, hnew⟩ := step
    have hI' : StrInv (setKey (headerKey h.1) (.str new) e) := by
      intro n v hv
      by_cases hk : headerKey n = headerKey h.1
      · rw [hk, getKey_setKey_same] at hv; exact ⟨new, by simpa using hv.symm⟩
      · rw [getKey_setKey_other _ _ _ _ hk] at hv; exact hI n v hv
    obtain ⟨e', hrun, hspec⟩ := ih _ hI'
    refine ⟨e', by simp only [addHeaders, hadd, hrun], ?_⟩
    intro k
    rw [hspec k]
    by_cases hk : headerKey h.1 = k
    · subst hk
      have hv : valuesFor (headerKey h.1) (h :: hs) = latin1 h.2 :: valuesFor (headerKey h.1) hs := by
        simp [valuesFor]
      rw [hv, getKey_setKey_same]
      have hlen : (match getKey (headerKey h.1) e with | some (.str s) => [s] | _ => []).length ≤ 1 := by
        split <;> simp
      cases hvs : valuesFor (headerKey h.1) hs with
      | nil => simp [folded, hnew]
      | cons y ys =>
        simp only [folded, List.singleton_append]
        rw [hnew, joinComma_snoc_cons _ _ _ hlen]
    · have hv : valuesFor k (h :: hs) = valuesFor k hs := by simp [valuesFor, hk]
      rw [hv, getKey_setKey_other _ _ _ _ (Ne.symm hk)]

private theorem base_keys (sc : Scope) (q : Str) (body : Bytes) :
    ∀ k ∈ (baseEnviron sc q body).map Prod.fst, k ∈ baseKeys := by
  cases h : sc.client <;> simp only [baseEnviron, h, List.map_cons, List.map_append, List.map_nil] <;> decide

private theorem base_strInv (sc : Scope) (q : Str) (body : Bytes) : StrInv (baseEnviron sc q body) := by
  intro n v hv
  rw [getKey_none_of_not_mem _ _ (fun hm => headerKey_not_base n (base_keys sc q body _ hm))] at hv
  exact absurd hv (by simp)

/-- shape of every successful `_build_environ`: root path is a prefix, the query is ASCII, and every key holds the base
    value folded with the header lines of that key; the `+ "," +` TypeError cannot occur -/
theorem buildEnviron_ok (sc : Scope) (body : Bytes) (env : Environ) (h : buildEnviron sc body = .ok env) :
    (sc.rootPath.getD []) <+: sc.path ∧ ∃ q, asciiDecode sc.query = some q ∧
      ∀ k, getKey k env = folded (getKey k (baseEnviron sc q body)) (valuesFor k sc.headers) := by
  unfold buildEnviron at h
  split at h
  · rename_i hp
    split at h
    · rename_i q hq
      obtain ⟨e', hrun, hspec⟩ := addHeaders_spec sc.headers _ (base_strInv sc q body)
      rw [hrun] at h
      cases h
      exact ⟨List.isPrefixOf_iff_prefix.mp hp, q, hq, hspec⟩
    · cases h
  · cases h

/-- the error cases are exactly: path outside the root path (→ 404), non-ASCII query bytes (UnicodeDecodeError) -/
theorem buildEnviron_total (sc : Scope) (body : Bytes) :
    (∃ env, buildEnviron sc body = .ok env) ∨ buildEnviron sc body = .error .invalidPath ∨
    buildEnviron sc body = .error .unicodeDecodeError := by
  unfold buildEnviron
  split
  · split
    · rename_i q _
      obtain ⟨e', hrun, _⟩ := addHeaders_spec sc.headers _ (base_strInv sc q body)
      exact .inl ⟨e', hrun⟩
    · exact .inr (.inr rfl)
  · exact .inr (.inl rfl)

theorem buildEnviron_ok_iff (sc : Scope) (body : Bytes) :
    (∃ env, buildEnviron sc body = .ok env) ↔ ((sc.rootPath.getD []) <+: sc.path ∧ (asciiDecode sc.query).isSome) := by
  constructor
  · rintro ⟨env, h⟩
    obtain ⟨hp, q, hq, _⟩ := buildEnviron_ok sc body env h
    exact ⟨hp, by simp [hq]⟩
  · rintro ⟨hp, hq⟩
    obtain ⟨q, hq'⟩ := Option.isSome_iff_exists.mp hq
    obtain ⟨e', hrun, _⟩ := addHeaders_spec sc.headers _ (base_strInv sc q body)
    exact ⟨e', by simp [buildEnviron, List.isPrefixOf_iff_prefix.mpr hp, hq', hrun]⟩

/-- a key no header line maps to keeps its request-derived value -/
private theorem base_value (sc : Scope) (body : Bytes) (env : Environ) (h : buildEnviron sc body = .ok env) (k : Str)
    (hk : k ∈ baseKeys) : ∃ q, asciiDecode sc.query = some q ∧ getKey k env = getKey k (baseEnviron sc q body) := by
  obtain ⟨_, q, hq, hspec⟩ := buildEnviron_ok sc body env h
  refine ⟨q, hq, ?_⟩
  have : valuesFor k sc.headers = [] := by
    simp only [valuesFor, List.map_eq_nil_iff, List.filter_eq_nil_iff]
    intro x _ hx
    have hx' : headerKey x.1 = k := by simpa using hx
    exact headerKey_not_base x.1 (hx' ▸ hk)
  rw [hspec k, this, folded]

/-- **environ_spec (request line)**: method, script name, path, query string, protocol, scheme, server and the body
    are functions of the request alone, whatever the headers say -/
theorem environ_spec (sc : Scope) (body : Bytes) (env : Environ) (h : buildEnviron sc body = .ok env) :
    getKey kRequestMethod env = some (.str sc.method) ∧
    getKey kScriptName env = some (.str (latin1 (utf8 (sc.rootPath.getD [])))) ∧
    getKey kPathInfo env = some (.str (latin1 (utf8 (pathInfoOf (sc.rootPath.getD []) sc.path)))) ∧
    (∃ q, asciiDecode sc.query = some q ∧ getKey kQueryString env = some (.str q)) ∧
    getKey kServerProtocol env = some (.str ("HTTP/".toList ++ sc.httpVersion)) ∧
    getKey kUrlScheme env = some (.str (sc.scheme.getD "http".toList)) ∧
    getKey kServerName env = some (.str (sc.server.getD ("localhost".toList, some 80)).1) ∧
    getKey kInput env = some (.input body) ∧
    getKey kWsgiVersion env = some (.version 1 0) ∧
    getKey kRemoteAddr env = sc.client.map .str := by
  have hb := base_value sc body env h
  refine ⟨?_, ?_, ?_, ?_, ?_, ?_, ?_, ?_, ?_, ?_⟩
  · obtain ⟨q, _, e⟩ := hb kRequestMethod (by decide); rw [e]; simp [baseEnviron, getKey]
  · obtain ⟨q, _, e⟩ := hb kScriptName (by decide); rw [e]; simp [baseEnviron, getKey, kRequestMethod, kScriptName]
  · obtain ⟨q, _, e⟩ := hb kPathInfo (by decide); rw [e]
    simp [baseEnviron, getKey, kRequestMethod, kScriptName, kPathInfo]
  · obtain ⟨q, hq, e⟩ := hb kQueryString (by decide); refine ⟨q, hq, ?_⟩; rw [e]
    simp [baseEnviron, getKey, kRequestMethod, kScriptName, kPathInfo, kQueryString]
  · obtain ⟨q, _, e⟩ := hb kServerProtocol (by decide); rw [e]
    simp [baseEnviron, getKey, kRequestMethod, kScriptName, kPathInfo, kQueryString, kServerName, kServerPort, kServerProtocol]
  · obtain ⟨q, _, e⟩ := hb kUrlScheme (by decide); rw [e]
    simp [baseEnviron, getKey, kRequestMethod, kScriptName, kPathInfo, kQueryString, kServerName, kServerPort, kServerProtocol,
      kWsgiVersion, kUrlScheme]
  · obtain ⟨q, _, e⟩ := hb kServerName (by decide); rw [e]
    simp [baseEnviron, getKey, kRequestMethod, kScriptName, kPathInfo, kQueryString, kServerName]
  · obtain ⟨q, _, e⟩ := hb kInput (by decide); rw [e]
    simp [baseEnviron, getKey, kRequestMethod, kScriptName, kPathInfo, kQueryString, kServerName, kServerPort, kServerProtocol,
      kWsgiVersion, kUrlScheme, kInput]
  · obtain ⟨q, _, e⟩ := hb kWsgiVersion (by decide); rw [e]
    simp [baseEnviron, getKey, kRequestMethod, kScriptName, kPathInfo, kQueryString, kServerName, kServerPort, kServerProtocol,
      kWsgiVersion]
  · obtain ⟨q, _, e⟩ := hb kRemoteAddr (by decide); rw [e]
    cases hc : sc.client <;>
    simp [baseEnviron, hc, getKey, kRequestMethod, kScriptName, kPathInfo, kQueryString, kServerName, kServerPort, kServerProtocol,
      kWsgiVersion, kUrlScheme, kInput, kErrors, kMultithread, kMultiprocess, kRunOnce, kRemoteAddr]

/-- **wsgi.input holds exactly the request body** -/
theorem wsgi_input_is_body (sc : Scope) (body : Bytes) (env : Environ) (h : buildEnviron sc body = .ok env) :
    getKey kInput env = some (.input body) := (environ_spec sc body env h).2.2.2.2.2.2.2.1

/-- **PATH_INFO is never empty** -/
theorem path_info_nonempty (root path : Str) : latin1 (utf8 (pathInfoOf root path)) ≠ [] := by
  have h : pathInfoOf root path ≠ [] := by unfold pathInfoOf; simp only []; split <;> simp_all
  intro hc
  have : utf8 (pathInfoOf root path) = [] := by simpa [latin1] using hc
  exact h ((utf8_eq_nil _).mp this)

/-- **SCRIPT_NAME ++ PATH_INFO re-assembles the (transcoded) path**; when the path *is* the root path, PATH_INFO is "/" -/
theorem script_path_reassemble (sc : Scope) (body : Bytes) (env : Environ) (h : buildEnviron sc body = .ok env) :
    ∃ script info, getKey kScriptName env = some (.str script) ∧ getKey kPathInfo env = some (.str info) ∧ info ≠ [] ∧
      (script ++ info = latin1 (utf8 sc.path) ∨ (sc.path = sc.rootPath.getD [] ∧ info = ['/'])) := by
  obtain ⟨hp, _⟩ := buildEnviron_ok sc body env h
  obtain ⟨_, hs, hi, _⟩ := environ_spec sc body env h
  refine ⟨_, _, hs, hi, path_info_nonempty _ _, ?_⟩
  obtain ⟨t, ht⟩ := hp
  by_cases hte : t = []
  · right
    subst hte
    have : sc.path = sc.rootPath.getD [] := by simpa using ht.symm
    refine ⟨this, ?_⟩
    simp [pathInfoOf, this, latin1, utf8, utf8Char]
  · left
    have hd : pathInfoOf (sc.rootPath.getD []) sc.path = t := by
      simp [pathInfoOf, ← ht, hte]
    rw [hd, ← latin1_append, ← utf8_append, ht]

/-- **repeated headers are comma-joined in arrival order** (and a variable exists only if some line maps to it) -/
theorem headers_comma_joined (sc : Scope) (body : Bytes) (env : Environ) (h : buildEnviron sc body = .ok env) (n : Bytes) :
    getKey (headerKey n) env =
      (match valuesFor (headerKey n) sc.headers with
       | [] => none
       | vs => some (.str (joinComma vs))) := by
  obtain ⟨_, q, _, hspec⟩ := buildEnviron_ok sc body env h
  rw [hspec (headerKey n),
    getKey_none_of_not_mem _ _ (fun hm => headerKey_not_base n (base_keys sc q body _ hm))]
  cases valuesFor (headerKey n) sc.headers <;> simp [folded]

private def exScope : Scope :=
  { method := "POST".toList, path := "/app/café/x%20y".toList, rootPath := some "/app".toList, query := "a=%C3%A9&b".b,
    httpVersion := "1.1".toList, scheme := some "https".toList, server := some ("h".toList, some 8080), client := some "c".toList,
    headers := [("x-a".b, "1".b), ("content-type".b, "t/p".b), ("x-a".b, "2".b), ("content-length".b, "4".b), ("x_a".b, "3".b)] }

example : (buildEnviron exScope "body".b).toOption.map (fun e =>
      (getKey kScriptName e, getKey kPathInfo e, getKey "HTTP_X_A".toList e, getKey kContentLength e, getKey kInput e)) =
    some (some (.str "/app".toList), some (.str (latin1 ("/caf".b ++ [0xC3, 0xA9] ++ "/x%20y".b))),
          some (.str "1,2,3".toList), some (.str "4".toList), some (.input "body".b)) := by decide +kernel
example : buildEnviron { exScope with path := "/other".toList } [] = .error .invalidPath := by decide +kernel
example : valuesFor "HTTP_X_A".toList exScope.headers = ["1".toList, "2".toList, "3".toList] := by decide +kernel

/-! ### the body limit -/

/-- the request body: chunks up to and including the first message without `more_body` -/
def requestBody : List ReqMsg → Bytes
  | [] => []
  | m :: ms => if m.more then m.body ++ requestBody ms else m.body

/-- some message ends the body -/
def terminated : List ReqMsg → Bool
  | [] => false
  | m :: ms => !m.more || terminated ms

private theorem collectFrom_spec (max : Nat) : ∀ (msgs : List ReqMsg) (acc : Bytes), terminated msgs = true →
    collectFrom max acc msgs =
      if (acc ++ requestBody msgs).length > max then .tooLarge else .complete (acc ++ requestBody msgs) := by
  intro msgs
  induction msgs with
  | nil => intro acc h; simp [terminated] at h
  | cons m ms ih =>
    intro acc ht
    simp only [collectFrom, body_cmp, decide_eq_true_eq, requestBody]
    by_cases hm : m.more = true
    · have ht' : terminated ms = true := by simpa [terminated, hm] using ht
      simp only [hm, if_true]
      by_cases hbig : (acc ++ m.body).length > max
      · have : (acc ++ (m.body ++ requestBody ms)).length > max := by
          simp only [List.length_append] at hbig ⊢; omega
        rw [if_pos hbig, if_pos this]
      · rw [if_neg hbig, ih _ ht', List.append_assoc]
    · have hm' : m.more = false := by simpa using hm
      simp only [hm', Bool.false_eq_true, if_false]

/-- every chunking of a terminated body: too large iff the body exceeds the limit, otherwise the exact body -/
theorem collect_spec (max : Nat) (msgs : List ReqMsg) (ht : terminated msgs = true) :
    collectBody max msgs = if (requestBody msgs).length > max then .tooLarge else .complete (requestBody msgs) := by
  simpa [collectBody] using collectFrom_spec max msgs [] ht

/-- the outcome depends on the body, not on how it was cut into messages -/
theorem chunking_irrelevant (max : Nat) (m1 m2 : List ReqMsg) (h1 : terminated m1 = true) (h2 : terminated m2 = true)
    (hb : requestBody m1 = requestBody m2) : collectBody max m1 = collectBody max m2 := by
  rw [collect_spec max m1 h1, collect_spec max m2 h2, hb]

/-- the application is never started on a partial body -/
theorem unterminated_never_complete (max : Nat) : ∀ (msgs : List ReqMsg) (acc : Bytes), terminated msgs = false →
    ∀ b, collectFrom max acc msgs ≠ .complete b := by
  intro msgs
  induction msgs with
  | nil => intro acc _ b; simp [collectFrom]
  | cons m ms ih =>
    intro acc ht b
    simp only [terminated, Bool.or_eq_false_iff, Bool.not_eq_false'] at ht
    simp only [collectFrom, ht.1, if_true]
    split
    · simp
    · exact ih _ ht.2 b

/-- **limit_400_no_call**: for every limit and every chunking, a body larger than the limit is answered
    400 + empty final body and nothing else happens (no spawn, no application call) -/
theorem limit_400_no_call (v : Variant) (max : Nat) (sc : Scope) (msgs : List ReqMsg) (app : App)
    (ht : terminated msgs = true) (hbig : (requestBody msgs).length > max) :
    handleHttp v max sc msgs app = { sent := [.start 400 [], finalBody] } := by
  simp [handleHttp, collect_spec max msgs ht, hbig]

/-- the six ways through `run_app` -/
private theorem runApp_cases (v : Variant) (app : App) :
    (∃ e, callPhase none app.call = .error e ∧ runApp v app = ⟨[], 1, 0, false, some e, 0⟩) ∨
    (∃ r, callPhase none app.call = .ok r ∧ app.callRaises = true ∧ runApp v app = ⟨[], 1, 0, false, some .appError, 0⟩) ∨
    (∃ r, callPhase none app.call = .ok r ∧ app.callRaises = false ∧ iterEscapes app = true ∧
      runApp v app = ⟨[], 1, 0, true, some .appError, 0⟩) ∨
    (v = .checkAfterCall ∧ callPhase none app.call = .ok none ∧ app.callRaises = false ∧ iterEscapes app = false ∧
      runApp v app = ⟨[], 1, 0, true, some .runtimeError, 0⟩) ∨
    (∃ st hs, v = .checkAfterCall ∧ callPhase none app.call = .ok (some (st, hs)) ∧ app.callRaises = false ∧
      iterEscapes app = false ∧
      runApp v app = ⟨.start st hs :: (iterate (some (st, hs)) true app.acts).1, 1, (closeCounts app).1, true,
        (iterate (some (st, hs)) true app.acts).2, (closeCounts app).2⟩) ∨
    (∃ r, v = .checkAtFirstChunk ∧ callPhase none app.call = .ok r ∧ app.callRaises = false ∧ iterEscapes app = false ∧
      runApp v app = ⟨(iterate r false app.acts).1, 1, (closeCounts app).1, true, (iterate r false app.acts).2,
        (closeCounts app).2⟩) := by
  cases hr : callPhase none app.call with
  | error e => exact .inl ⟨e, rfl, by simp [runApp, hr]⟩
  | ok r =>
    cases hcr : app.callRaises with
    | true => exact .inr (.inl ⟨r, rfl, rfl, by simp [runApp, hr, hcr]⟩)
    | false =>
      cases hesc : iterEscapes app with
      | true => exact .inr (.inr (.inl ⟨r, rfl, rfl, rfl, by simp [runApp, hr, hcr, hesc]⟩))
      | false =>
        cases v with
        | checkAfterCall =>
          cases r with
          | none => exact .inr (.inr (.inr (.inl ⟨rfl, rfl, rfl, rfl, by simp [runApp, hr, hcr, hesc]⟩)))
          | some p => exact .inr (.inr (.inr (.inr (.inl ⟨p.1, p.2, rfl, rfl, rfl, rfl, by simp [runApp, hr, hcr, hesc]⟩))))
        | checkAtFirstChunk => exact .inr (.inr (.inr (.inr (.inr ⟨r, rfl, rfl, rfl, rfl, by simp [runApp, hr, hcr, hesc]⟩))))

theorem runApp_calls_once (v : Variant) (app : App) : (runApp v app).appCalls = 1 := by
  rcases runApp_cases v app with ⟨e, _, h⟩ | ⟨r, _, _, h⟩ | ⟨r, _, _, _, h⟩ | ⟨_, _, _, _, h⟩ | ⟨st, hs, _, _, _, _, h⟩ |
    ⟨r, _, _, _, _, h⟩ <;> rw [h]

/-- **at_limit_called**: for every limit and every chunking, a body of at most the limit (exactly at it included)
    reaches the application, once, in one spawned thread, with `wsgi.input` = the whole body -/
theorem at_limit_called (v : Variant) (max : Nat) (sc : Scope) (msgs : List ReqMsg) (app : App)
    (ht : terminated msgs = true) (hle : (requestBody msgs).length ≤ max)
    (hp : (sc.rootPath.getD []) <+: sc.path) (hq : (asciiDecode sc.query).isSome) :
    ∃ env, (handleHttp v max sc msgs app).environ = some env ∧ getKey kInput env = some (.input (requestBody msgs)) ∧
      (handleHttp v max sc msgs app).appCalls = 1 ∧ (handleHttp v max sc msgs app).spawns = 1 := by
  obtain ⟨env, henv⟩ := (buildEnviron_ok_iff sc (requestBody msgs)).mpr ⟨hp, hq⟩
  have hc : collectBody max msgs = .complete (requestBody msgs) := by
    rw [collect_spec max msgs ht, if_neg (by omega)]
  refine ⟨env, ?_, wsgi_input_is_body sc _ env henv, ?_, ?_⟩ <;>
    simp [handleHttp, hc, henv, runApp_calls_once]

example : collectBody 4 [⟨"ab".b, true⟩, ⟨[], true⟩, ⟨"cd".b, false⟩] = .complete "abcd".b := by decide +kernel
example : collectBody 4 [⟨"ab".b, true⟩, ⟨"cde".b, true⟩, ⟨[], false⟩] = .tooLarge := by decide +kernel
example : collectBody 0 [⟨[], false⟩] = .complete [] := by decide +kernel

/-! ### exactly one call, off the event loop -/

/-- **called_once**: the application runs only inside the function handed to `sync_spawn`, that happens at most
    once, and exactly when the body was accepted and the environ could be built -/
theorem called_once (v : Variant) (max : Nat) (sc : Scope) (msgs : List ReqMsg) (app : App) :
    let o := handleHttp v max sc msgs app
    o.appCalls = o.spawns ∧ o.spawns ≤ 1 ∧
    (o.appCalls = 1 ↔ ∃ body env, collectBody max msgs = .complete body ∧ buildEnviron sc body = .ok env) := by
  cases hc : collectBody max msgs with
  | tooLarge => simp [handleHttp, hc]
  | pending b => simp [handleHttp, hc]
  | complete body =>
    cases hb : buildEnviron sc body with
    | error e => cases e <;> simp [handleHttp, hc, hb]
    | ok env => simp [handleHttp, hc, hb, runApp_calls_once]

/-- rejected requests (too large, path outside the root path) never reach the application -/
theorem rejected_not_called (v : Variant) (max : Nat) (sc : Scope) (msgs : List ReqMsg) (app : App)
    (h : collectBody max msgs = .tooLarge ∨ ∃ body, collectBody max msgs = .complete body ∧ buildEnviron sc body = .error .invalidPath) :
    (handleHttp v max sc msgs app).appCalls = 0 ∧ (handleHttp v max sc msgs app).spawns = 0 := by
  rcases h with h | ⟨body, h1, h2⟩
  · simp [handleHttp, h]
  · simp [handleHttp, h1, h2]

/-- **bad_root_path_404**: a path that does not start with the root path is answered 404 + empty final body -/
theorem bad_root_path_404 (v : Variant) (max : Nat) (sc : Scope) (msgs : List ReqMsg) (app : App) (body : Bytes)
    (hc : collectBody max msgs = .complete body) (hp : ¬ (sc.rootPath.getD []) <+: sc.path) :
    handleHttp v max sc msgs app = { sent := [.start 404 [], finalBody] } := by
  have : buildEnviron sc body = .error .invalidPath := by
    have : (sc.rootPath.getD []).isPrefixOf sc.path = false := by
      cases hx : (sc.rootPath.getD []).isPrefixOf sc.path
      · rfl
      · exact absurd (List.isPrefixOf_iff_prefix.mp hx) hp
    simp [buildEnviron, this]
  simp [handleHttp, hc, this]

/-- **websocket_refused** -/
theorem websocket_refused (v : Variant) (max : Nat) (sc : Scope) (msgs : List ReqMsg) (app : App) :
    wrapper v "websocket" max sc msgs app = { sent := [.wsClose] } := by
  simp [wrapper]

theorem lifespan_ignored (v : Variant) (max : Nat) (sc : Scope) (msgs : List ReqMsg) (app : App) :
    wrapper v "lifespan" max sc msgs app = {} := by
  simp [wrapper]

/-! ### what the application produced reaches the client -/

/-- the chunks an iteration yields, in order -/
def yieldsOf : List IterAct → List Bytes
  | [] => []
  | .yield c :: rest => c :: yieldsOf rest
  | _ :: rest => yieldsOf rest

def bodies (cs : List Bytes) : List Msg := cs.map (fun c => Msg.body c true)

/-- `start_response("<digits> <reason>", headers)` records the numeric status and the headers, names lower-cased -/
theorem start_response_records (raw reason : Str) (hs : List (Str × Str)) (n : Nat) (ehs : Headers)
    (hsp : ' ' ∉ raw) (hn : parseInt raw = some n) (hh : hs.mapM encodeHeader = some ehs) :
    startResponse ⟨raw ++ ' ' :: reason, hs⟩ = .ok (n, ehs) := by
  have : splitSpace (raw ++ ' ' :: reason) = some (raw, reason) := by
    induction raw with
    | nil => simp [splitSpace]
    | cons c cs ih =>
      simp only [List.mem_cons, not_or] at hsp
      have hc : c ≠ ' ' := fun h => hsp.1 h.symm
      -- `parseInt` of the tail is irrelevant for the split
      have : splitSpace (cs ++ ' ' :: reason) = some (cs, reason) := by
        clear hn ih
        induction cs with
        | nil => simp [splitSpace]
        | cons d ds ih2 =>
          simp only [List.mem_cons, not_or] at hsp
          have hd : d ≠ ' ' := fun h => hsp.2.1 h.symm
          simp [splitSpace, hd, ih2 ⟨hsp.1, hsp.2.2⟩]
      simp [splitSpace, hc, this]
  simp [startResponse, this, hn, hh]

/-- header values with code points below 256 are encoded byte for code point (the client sees them unchanged) -/
theorem header_value_unchanged (v : Str) (h : ∀ c ∈ v, c.toNat < 256) :
    ∃ bs, v.mapM encodeChar = some bs ∧ latin1 bs = v := by
  induction v with
  | nil => exact ⟨[], rfl, rfl⟩
  | cons c cs ih =>
    obtain ⟨bs, h1, h2⟩ := ih (fun c' hc' => h c' (by simp [hc']))
    have hc : c.toNat < 256 := h c (by simp)
    refine ⟨c.toNat.toUInt8 :: bs, by simp [List.mapM_cons, encodeChar, hc, h1], ?_⟩
    have hm : c.toNat % 256 = c.toNat := Nat.mod_eq_of_lt hc
    simp [latin1, hm] at h2 ⊢
    exact h2

private theorem iterate_yields_sent (r : Recorded) (cs : List Bytes) :
    iterate r true (cs.map .yield) = (bodies cs, none) := by
  induction cs with
  | nil => simp [iterate, bodies]
  | cons c cs ih => simp [iterate, ih, bodies]

private theorem iterate_yields_unsent (st : Nat) (hs : Headers) (cs : List Bytes) :
    iterate (some (st, hs)) false (cs.map .yield) = (.start st hs :: bodies cs, none) := by
  cases cs with
  | nil => simp [iterate, bodies]
  | cons c cs => simp [iterate, iterate_yields_sent, bodies]

/-- **output_fidelity** (both shapes of `run_app`): an application that called `start_response` before returning —
    the last call recorded `(st, hs)` — and whose iterable yields `chunks` makes the wrapper emit exactly
    start(st, hs), one body message per chunk in order (empty chunks included, all `more_body=True`), and then exactly
    one final empty `more_body=False` message; no exception -/
theorem output_fidelity (v : Variant) (max : Nat) (sc : Scope) (msgs : List ReqMsg) (body : Bytes) (env : Environ)
    (call : List StartArgs) (chunks : List Bytes) (hasClose selfIter iterHasClose : Bool) (st : Nat) (hs : Headers)
    (hc : collectBody max msgs = .complete body) (he : buildEnviron sc body = .ok env)
    (hstart : callPhase none call = .ok (some (st, hs))) :
    let o := handleHttp v max sc msgs ⟨call, false, chunks.map .yield, hasClose, selfIter, false, iterHasClose⟩
    o.sent = .start st hs :: bodies chunks ++ [finalBody] ∧ o.exc = none := by
  cases v <;>
    simp [handleHttp, hc, he, runApp, hstart, iterate_yields_sent, iterate_yields_unsent, iterEscapes, App.acts]

private theorem callPhase_append (r : Recorded) (as bs : List StartArgs) :
    callPhase r (as ++ bs) = (match callPhase r as with | .ok r' => callPhase r' bs | .error e => .error e) := by
  induction as generalizing r with
  | nil => simp [callPhase]
  | cons a as ih =>
    simp only [List.cons_append, callPhase]
    cases startResponse a with
    | ok s => simp [ih]
    | error e => simp

/-- **eager_lazy_same** (repaired shape): moving the last `start_response` call from the call phase to the front of the
    iteration changes neither the messages nor the exception -/
theorem eager_lazy_same (cs : List StartArgs) (a : StartArgs) (rest : List IterAct) (hasClose selfIter iterHasClose : Bool) :
    (runApp .checkAtFirstChunk ⟨cs ++ [a], false, rest, hasClose, selfIter, false, iterHasClose⟩).msgs =
      (runApp .checkAtFirstChunk ⟨cs, false, .start a :: rest, hasClose, selfIter, false, iterHasClose⟩).msgs ∧
    (runApp .checkAtFirstChunk ⟨cs ++ [a], false, rest, hasClose, selfIter, false, iterHasClose⟩).exc =
      (runApp .checkAtFirstChunk ⟨cs, false, .start a :: rest, hasClose, selfIter, false, iterHasClose⟩).exc := by
  simp only [runApp, callPhase_append, iterEscapes, App.acts, Bool.false_and, Bool.false_eq_true, if_false]
  cases callPhase none cs with
  | error e => simp
  | ok r =>
    simp only [callPhase, iterate]
    cases startResponse a with
    | ok s => simp
    | error e => simp

/-- **lazy start_response** (repaired shape): a generator-style application that calls `start_response` only when first
    iterated gets the same messages as an eager one -/
theorem lazy_output_fidelity (max : Nat) (sc : Scope) (msgs : List ReqMsg) (body : Bytes) (env : Environ)
    (a : StartArgs) (chunks : List Bytes) (hasClose selfIter iterHasClose : Bool) (st : Nat) (hs : Headers)
    (hc : collectBody max msgs = .complete body) (he : buildEnviron sc body = .ok env)
    (hstart : startResponse a = .ok (st, hs)) :
    let o := handleHttp .checkAtFirstChunk max sc msgs
      ⟨[], false, .start a :: chunks.map .yield, hasClose, selfIter, false, iterHasClose⟩
    o.sent = .start st hs :: bodies chunks ++ [finalBody] ∧ o.exc = none ∧ o.appCalls = 1 := by
  simp [handleHttp, hc, he, runApp, callPhase, iterate, hstart, iterate_yields_unsent, iterEscapes, App.acts]

/- Full statement of the lazy clause for the code as pinned — FALSE there (F19):
     ∀ a chunks …, startResponse a = .ok (st, hs) →
       (handleHttp .checkAfterCall max sc msgs ⟨[], false, .start a :: chunks.map .yield, hasClose⟩).sent
         = .start st hs :: bodies chunks ++ [finalBody]
   The pinned `run_app` checks `response_started` as soon as the callable returns. -/

private def lazyApp : App :=
  { call := [], callRaises := false,
    iter := [.start ⟨"200 OK".toList, [("X-A".toList, "b".toList)]⟩, .yield "chunk1".b, .yield "chunk2".b], hasClose := true }

/-- negation witness for the pinned shape: a lazily starting application is rejected with RuntimeError, nothing is sent -/
theorem lazy_start_rejected_as_is :
    ¬ (∀ (a : StartArgs) (chunks : List Bytes) (st : Nat) (hs : Headers), startResponse a = .ok (st, hs) →
        (runApp .checkAfterCall ⟨[], false, .start a :: chunks.map .yield, true, true, false, false⟩).msgs =
          .start st hs :: bodies chunks) := by
  intro h
  have := h ⟨"200 OK".toList, []⟩ [] 200 [] (by decide +kernel)
  revert this
  decide +kernel

example : (runApp .checkAfterCall lazyApp).exc = some .runtimeError ∧ (runApp .checkAfterCall lazyApp).msgs = [] := by
  decide +kernel
example : (runApp .checkAtFirstChunk lazyApp).msgs =
    [.start 200 [("x-a".b, "b".b)], .body "chunk1".b true, .body "chunk2".b true] ∧
    (runApp .checkAtFirstChunk lazyApp).exc = none := by decide +kernel

private theorem iterate_prefix : ∀ (acts : List IterAct) (r : Recorded) (sent : Bool),
    ∃ cs, cs <+: yieldsOf acts ∧
      ((iterate r sent acts).1 = bodies cs ∨ (sent = false ∧ ∃ st hs, (iterate r sent acts).1 = .start st hs :: bodies cs)) ∧
      ((iterate r sent acts).2 = none → cs = yieldsOf acts ∧
        (sent = false → ∃ st hs, (iterate r sent acts).1 = .start st hs :: bodies cs)) := by
  intro acts
  induction acts with
  | nil =>
    intro r sent
    refine ⟨[], List.prefix_refl _, ?_, ?_⟩
    · cases sent
      · cases r with
        | none => left; simp [iterate, bodies]
        | some p => right; exact ⟨rfl, p.1, p.2, by simp [iterate, bodies]⟩
      · left; simp [iterate, bodies]
    · intro hn
      refine ⟨rfl, ?_⟩
      intro hs
      subst hs
      cases r with
      | none => simp [iterate] at hn
      | some p => exact ⟨p.1, p.2, by simp [iterate, bodies]⟩
  | cons a acts ih =>
    intro r sent
    cases a with
    | raise => exact ⟨[], List.nil_prefix, .inl (by simp [iterate, bodies]), by simp [iterate]⟩
    | start a =>
      simp only [iterate, yieldsOf]
      cases startResponse a with
      | ok s => exact ih (some s) sent
      | error e => exact ⟨[], List.nil_prefix, .inl (by simp [bodies]), by simp⟩
    | yield c =>
      simp only [yieldsOf]
      obtain ⟨cs, hpre, hshape, hdone⟩ := ih r true
      have hb : (iterate r true acts).1 = bodies cs := by
        rcases hshape with h | ⟨h, _⟩
        · exact h
        · exact Bool.noConfusion h
      cases sent with
      | true =>
        refine ⟨c :: cs, by simpa [List.cons_prefix_cons] using hpre, .inl (by simp [iterate, hb, bodies]), ?_⟩
        intro hn
        have := hdone (by simpa [iterate] using hn)
        exact ⟨by rw [this.1], fun h => Bool.noConfusion h⟩
      | false =>
        cases r with
        | none => exact ⟨[], List.nil_prefix, .inl (by simp [iterate, bodies]), by simp [iterate]⟩
        | some p =>
          refine ⟨c :: cs, by simpa [List.cons_prefix_cons] using hpre,
            .inr ⟨rfl, p.1, p.2, by simp [iterate, hb, bodies]⟩, ?_⟩
          intro hn
          have := hdone (by simpa [iterate] using hn)
          exact ⟨by rw [this.1], fun _ => ⟨p.1, p.2, by simp [iterate, hb, bodies]⟩⟩

private theorem acts_yields_prefix (app : App) : yieldsOf app.acts <+: yieldsOf app.iter := by
  unfold App.acts
  split
  · simp [yieldsOf]
  · exact List.prefix_refl _

/-- **on every path (any application, both shapes)** the messages `run_app` emits are either nothing, or one start
    message followed by body messages carrying a prefix of the chunks the iterable yields, in order, all `more_body=True` -/
theorem emitted_is_prefix (v : Variant) (app : App) :
    ∃ cs, cs <+: yieldsOf app.iter ∧
      ((runApp v app).msgs = [] ∨ ∃ st hs, (runApp v app).msgs = .start st hs :: bodies cs) := by
  rcases runApp_cases v app with ⟨e, _, h⟩ | ⟨r, _, _, h⟩ | ⟨r, _, _, _, h⟩ | ⟨_, _, _, _, h⟩ | ⟨st, hs, _, _, _, _, h⟩ |
    ⟨r, _, _, _, _, h⟩
  · exact ⟨[], List.nil_prefix, .inl (by rw [h])⟩
  · exact ⟨[], List.nil_prefix, .inl (by rw [h])⟩
  · exact ⟨[], List.nil_prefix, .inl (by rw [h])⟩
  · exact ⟨[], List.nil_prefix, .inl (by rw [h])⟩
  · obtain ⟨cs, hpre, hshape, _⟩ := iterate_prefix app.acts (some (st, hs)) true
    rcases hshape with hb | ⟨hb, _⟩
    · exact ⟨cs, hpre.trans (acts_yields_prefix app), .inr ⟨st, hs, by rw [h, hb]⟩⟩
    · exact Bool.noConfusion hb
  · obtain ⟨cs, hpre, hshape, _⟩ := iterate_prefix app.acts r false
    rcases hshape with hb | ⟨_, st, hs, hb⟩
    · cases cs with
      | nil => exact ⟨[], List.nil_prefix, .inl (by rw [h]; simpa [bodies] using hb)⟩
      | cons c cs' =>
        -- a body message can only follow a start message: `iterate _ false` never begins with one
        exfalso
        have hne : ∀ (acts : List IterAct) (r : Recorded) (c : Bytes) (rest : List Msg),
            (iterate r false acts).1 ≠ .body c true :: rest := by
          intro acts
          induction acts with
          | nil => intro r c rest; cases r <;> simp [iterate]
          | cons a acts ih2 =>
            intro r c rest
            cases a with
            | raise => simp [iterate]
            | start a => simp only [iterate]; cases startResponse a <;> simp [ih2]
            | yield c' => cases r <;> simp [iterate]
        exact hne app.acts r c (bodies cs') (by simpa [bodies] using hb)
    · exact ⟨cs, hpre.trans (acts_yields_prefix app), .inr ⟨st, hs, by rw [h, hb]⟩⟩

private theorem acts_of_no_exc (app : App) (r : Recorded) (sent : Bool) (h : (iterate r sent app.acts).2 = none) :
    app.acts = app.iter := by
  unfold App.acts at h ⊢
  split
  · rename_i hi; simp [hi, iterate] at h
  · rfl

/-- **no exception ⇒ everything was delivered**: whenever `run_app` returns normally (any application, both shapes), it
    emitted one start message and then *all* chunks of the iterable in order -/
theorem no_exception_complete (v : Variant) (app : App) (h : (runApp v app).exc = none) :
    ∃ st hs, (runApp v app).msgs = .start st hs :: bodies (yieldsOf app.iter) := by
  rcases runApp_cases v app with ⟨e, _, hr⟩ | ⟨r, _, _, hr⟩ | ⟨r, _, _, _, hr⟩ | ⟨_, _, _, _, hr⟩ | ⟨st, hs, _, _, _, _, hr⟩ |
    ⟨r, _, _, _, _, hr⟩ <;> rw [hr] at h ⊢
  · simp at h
  · simp at h
  · simp at h
  · simp at h
  · have ha := acts_of_no_exc app _ _ h
    obtain ⟨cs, _, hshape, hdone⟩ := iterate_prefix app.acts (some (st, hs)) true
    have hd := hdone h
    rcases hshape with hb | ⟨hb, _⟩
    · exact ⟨st, hs, by simp only [hb, hd.1]; rw [ha]⟩
    · exact Bool.noConfusion hb
  · have ha := acts_of_no_exc app _ _ h
    obtain ⟨cs, _, _, hdone⟩ := iterate_prefix app.acts r false
    have hd := hdone h
    obtain ⟨st, hs, hm⟩ := hd.2 rfl
    exact ⟨st, hs, by simp only [hm, hd.1]; rw [ha]⟩

/-- the wrapper appends the final `more_body=False` message exactly when `run_app` returned normally: an error never
    looks like a complete response -/
theorem final_iff_no_exception (v : Variant) (max : Nat) (sc : Scope) (msgs : List ReqMsg) (app : App) (body : Bytes)
    (env : Environ) (hc : collectBody max msgs = .complete body) (he : buildEnviron sc body = .ok env) :
    let o := handleHttp v max sc msgs app
    (o.exc = none → o.sent = (runApp v app).msgs ++ [finalBody]) ∧
    (o.exc ≠ none → o.sent = (runApp v app).msgs ∧ finalBody ∉ o.sent) := by
  simp only [handleHttp, hc, he]
  cases hx : (runApp v app).exc with
  | none => simp
  | some e =>
    obtain ⟨cs, _, hs⟩ := emitted_is_prefix v app
    rcases hs with h | ⟨st, hds, h⟩ <;> simp [h, finalBody, bodies]

/-! ### every message reaches the protocol: `call_soon` is synchronous -/

open Extracted.WsgiSites in
/-- **`call_soon` waits for each send on both workers, in the built-in WSGI mode and through the WSGI middleware
    classes** — re-decided against the current source (the extractor reads `_call_soon` of asyncio/task_group.py, the
    `call_soon` argument of trio/task_group.py, and the pair `AsyncioWSGIMiddleware.__call__` / `TrioWSGIMiddleware.__call__`
    of middleware/wsgi.py hand to `WSGIWrapper`) -/
theorem call_soon_synchronous (w : Worker) : callSoonWaits w = true := by
  cases w <;> decide

private theorem acceptedFrom_waits (susp : Nat → Bool) : ∀ (msgs : List Msg) (i : Nat),
    acceptedFrom true susp i false msgs = msgs := by
  intro msgs
  induction msgs with
  | nil => intro i; simp [acceptedFrom]
  | cons m ms ih => intro i; cases m <;> simp [acceptedFrom, ih]

/-- **nothing the application produced is lost on the way to the protocol, however the transport paces the sends**: on
    either worker, for every pattern of suspending sends, the stream accepts exactly the messages `run_app` issued, in
    order -/
theorem accepted_all (w : Worker) (susp : Nat → Bool) (msgs : List Msg) : accepted w susp msgs = msgs := by
  simp [accepted, call_soon_synchronous, acceptedFrom_waits]

/-- output fidelity end to end (both workers, both shapes of `run_app`, any pacing) -/
theorem output_fidelity_delivered (w : Worker) (susp : Nat → Bool) (v : Variant) (max : Nat) (sc : Scope) (msgs : List ReqMsg)
    (body : Bytes) (env : Environ) (call : List StartArgs) (chunks : List Bytes) (hasClose selfIter iterHasClose : Bool)
    (st : Nat) (hs : Headers)
    (hc : collectBody max msgs = .complete body) (he : buildEnviron sc body = .ok env)
    (hstart : callPhase none call = .ok (some (st, hs))) :
    accepted w susp (handleHttp v max sc msgs ⟨call, false, chunks.map .yield, hasClose, selfIter, false, iterHasClose⟩).sent =
      .start st hs :: bodies chunks ++ [finalBody] := by
  rw [accepted_all]
  exact (output_fidelity v max sc msgs body env call chunks hasClose selfIter iterHasClose st hs hc he hstart).1

/-- why the hypothesis matters (a `call_soon` that does not wait): with the start message's send suspended, the body is
    dropped — the client would get the head and a truncated body -/
theorem fire_and_forget_loses_body :
    acceptedFrom false (fun _ => true) 0 false [.start 200 [], .body "a".b true, finalBody] = [.start 200 []] := by
  decide +kernel

/-! ### close() -/

open Extracted.WsgiSites in
/-- **`close` is looked up on the object the application returned** — re-decided against the current source: the
    extractor reads off `WSGIWrapper.run_app` what the iterated-and-closed name is bound to.  (`iter()` of the returned
    object, taken before the `try`, would close the *iterator* instead and let an exception of `__iter__` escape.) -/
theorem body_binding_returned : wsgiBodyBinding = .returned := by decide

private theorem closeCounts_returned (app : App) : closeCounts app = (if app.hasClose then 1 else 0, 0) := by
  simp [closeCounts, body_binding_returned]

private theorem iterEscapes_false (app : App) : iterEscapes app = false := by
  simp [iterEscapes, body_binding_returned]

private theorem closeCounts_le (app : App) : (closeCounts app).1 + (closeCounts app).2 ≤ 1 := by
  unfold closeCounts
  split
  · split <;> simp
  · split
    · split <;> simp
    · split <;> simp

/-- at most one `close()` call is ever made, whatever it is made on -/
theorem close_at_most_once (v : Variant) (app : App) : (runApp v app).closeCalls + (runApp v app).iterCloseCalls ≤ 1 := by
  have := closeCounts_le app
  rcases runApp_cases v app with ⟨e, _, h⟩ | ⟨r, _, _, h⟩ | ⟨r, _, _, _, h⟩ | ⟨_, _, _, _, h⟩ | ⟨st, hs, _, _, _, _, h⟩ |
    ⟨r, _, _, _, _, h⟩ <;> rw [h] <;> simp only [] <;> omega

/-- when the callable raised there is no iterable, and nothing to close -/
theorem no_iterable_no_close (v : Variant) (app : App) (h : (runApp v app).iterObtained = false) :
    (runApp v app).closeCalls = 0 ∧ (runApp v app).iterCloseCalls = 0 := by
  rcases runApp_cases v app with ⟨e, _, hr⟩ | ⟨r, _, _, hr⟩ | ⟨r, _, _, _, hr⟩ | ⟨_, _, _, _, hr⟩ | ⟨st, hs, _, _, _, _, hr⟩ |
    ⟨r, _, _, _, _, hr⟩ <;> rw [hr] at h ⊢ <;> simp_all

/-- **close_once** (repaired shape, full statement): on every path on which the callable returned an iterable — normal
    end, exception during iteration, lazy `start_response`, no `start_response` at all, an iterable that is not its own
    iterator, an `__iter__` that raises — `close()` of *that iterable* is called exactly once if it has one, and no other
    object is closed in its place -/
theorem close_once (app : App) (h : (runApp .checkAtFirstChunk app).iterObtained = true) :
    (runApp .checkAtFirstChunk app).closeCalls = (if app.hasClose then 1 else 0) ∧
    (runApp .checkAtFirstChunk app).iterCloseCalls = 0 := by
  rcases runApp_cases .checkAtFirstChunk app with ⟨e, _, hr⟩ | ⟨r, _, _, hr⟩ | ⟨r, _, _, he, _⟩ | ⟨hv, _⟩ | ⟨st, hs, hv, _⟩ |
    ⟨r, _, _, _, _, hr⟩
  · rw [hr] at h; simp at h
  · rw [hr] at h; simp at h
  · rw [iterEscapes_false] at he; cases he
  · cases hv
  · cases hv
  · rw [hr, closeCounts_returned]; simp

/-- an `__iter__` that raises is an error during iteration like any other: nothing is sent, the exception leaves
    `run_app` (so no final message follows), and the iterable is still closed -/
theorem iter_raises_closed (app : App) (hi : app.iterRaises = true) (h : (runApp .checkAtFirstChunk app).iterObtained = true) :
    (runApp .checkAtFirstChunk app).msgs = [] ∧ (runApp .checkAtFirstChunk app).exc = some .appError ∧
    (runApp .checkAtFirstChunk app).closeCalls = if app.hasClose then 1 else 0 := by
  refine ⟨?_, ?_, (close_once app h).1⟩ <;>
  · rcases runApp_cases .checkAtFirstChunk app with ⟨e, _, hr⟩ | ⟨r, _, _, hr⟩ | ⟨r, _, _, he, _⟩ | ⟨hv, _⟩ | ⟨st, hs, hv, _⟩ |
      ⟨r, _, _, _, _, hr⟩
    · rw [hr] at h; simp at h
    · rw [hr] at h; simp at h
    · rw [iterEscapes_false] at he; cases he
    · cases hv
    · cases hv
    · rw [hr]; simp [App.acts, hi, iterate]

/- Full statement for the code as pinned — FALSE there (F19):
     theorem close_once_as_is (app : App) (h : (runApp .checkAfterCall app).iterObtained = true) :
         (runApp .checkAfterCall app).closeCalls = if app.hasClose then 1 else 0
   The `try … finally: close()` of the pinned `run_app` begins after the `response_started` check. -/

/-- **close_once_partial** (pinned shape): the same, under the extra hypothesis that `start_response` had been called
    (validly) by the time the callable returned -/
theorem close_once_partial (app : App) (h : (runApp .checkAfterCall app).iterObtained = true)
    (hstarted : callPhase none app.call ≠ .ok none) :
    (runApp .checkAfterCall app).closeCalls = if app.hasClose then 1 else 0 := by
  rcases runApp_cases .checkAfterCall app with ⟨e, _, hr⟩ | ⟨r, _, _, hr⟩ | ⟨r, _, _, he, _⟩ | ⟨_, hn, _⟩ |
    ⟨st, hs, _, _, _, _, hr⟩ | ⟨r, hv, _⟩
  · rw [hr] at h; simp at h
  · rw [hr] at h; simp at h
  · rw [iterEscapes_false] at he; cases he
  · exact absurd hn hstarted
  · rw [hr, closeCounts_returned]
  · cases hv

private def noStartApp : App := { call := [], callRaises := false, iter := [.yield "result".b], hasClose := true }

/-- negation witness (pinned shape): an iterable with `close` whose application never called `start_response`
    (or would call it lazily) is dropped without `close()` -/
theorem close_once_fails_as_is :
    ¬ (∀ app : App, (runApp .checkAfterCall app).iterObtained = true →
        (runApp .checkAfterCall app).closeCalls = if app.hasClose then 1 else 0) := by
  intro h
  have := h noStartApp (by decide)
  revert this
  decide

example : (runApp .checkAfterCall lazyApp).iterObtained = true ∧ (runApp .checkAfterCall lazyApp).closeCalls = 0 := by
  decide +kernel
example : (runApp .checkAtFirstChunk noStartApp).closeCalls = 1 ∧
    (runApp .checkAtFirstChunk noStartApp).exc = some .runtimeError ∧ (runApp .checkAtFirstChunk noStartApp).msgs = [] := by decide
-- raise during iteration: chunks before the raise are delivered, close() runs, no final message
example : let r := runApp .checkAfterCall ⟨[⟨"200 OK".toList, []⟩], false, [.yield "a".b, .raise, .yield "b".b], true, true, false, false⟩
    r.msgs = [.start 200 [], .body "a".b true] ∧ r.exc = some .appError ∧ r.closeCalls = 1 := by decide +kernel
-- raise before / after start_response in the call phase: nothing is sent, there is no iterable
example : (runApp .checkAfterCall ⟨[⟨"200 OK".toList, []⟩], true, [.yield "a".b], true, true, false, false⟩).msgs = [] ∧
    (runApp .checkAfterCall ⟨[], true, [], true, true, false, false⟩).iterObtained = false := by decide +kernel
-- a status line without a space / a header outside Latin-1 make start_response itself raise
example : startResponse ⟨"200".toList, []⟩ = .error .valueError ∧
    startResponse ⟨"200 OK".toList, [("x".toList, [Char.ofNat 0x4E2D])]⟩ = .error .unicodeEncodeError := by decide +kernel
-- a resource-holding container whose `__iter__` is a generator (PEP 3333's classic shape): the container is closed, once,
-- on success, after an error in the middle, and when `__iter__` itself raises; the generator's own close() is not a substitute
private def containerApp (acts : List IterAct) (iterRaises : Bool) : App :=
  { call := [⟨"200 OK".toList, []⟩], callRaises := false, iter := acts, hasClose := true, selfIter := false,
    iterRaises := iterRaises, iterHasClose := true }
example : (runApp .checkAtFirstChunk (containerApp [.yield "a".b] false)).closeCalls = 1 ∧
    (runApp .checkAtFirstChunk (containerApp [.yield "a".b] false)).iterCloseCalls = 0 ∧
    (runApp .checkAtFirstChunk (containerApp [.yield "a".b, .raise] false)).closeCalls = 1 ∧
    (runApp .checkAtFirstChunk (containerApp [.yield "a".b] true)).closeCalls = 1 ∧
    (runApp .checkAtFirstChunk (containerApp [.yield "a".b] true)).exc = some .appError := by decide +kernel

end HC.Props.C17
