import HC.Worker.Invariants
import HC.Worker.BlockedWrite
/-!
# C15 — Graceful shutdown is orderly and bounded

Property theorems only.  Model: `HC/Worker/Run.lean` (timed; `tick` never jumps over a deadline and is disabled
while `worker_serve` has an action to take); invariants: `HC/Worker/Invariants.lean`.

All theorems hold for **every operation list** — any number and mix of connections (idle, mid-head, requests that
finish early, late or never, HTTP/2 with any number of open streams, WebSockets), any trigger instant and either
trigger source (`Op.trigger`, or `context.mark_request()` exceeding `max_requests`), every lifespan script, every
time-out value.  `t` is the instant `context.terminated` was set.
-/
namespace HC.Props.C15
open HC HC.Worker

/-- the two worker classes as the code is now (the flags are re-measured on every run of the check).
    `Runtime.asyncioBeforeFixes` / `Runtime.trioBeforeFixes` / `Runtime.asyncioBeforeF32` are kept for the record: the runs
    that refuted the full statements before the `fix:` commits 4c08dc8 (F18), b7ab22b (F31) and 5d167c5 (F32) are theorems
    about them.  Each clause appears as
    `…_of_flags` (arbitrary runtime, hypotheses on flags) and as the full statement for the current runtimes. -/
def Current (rt : Runtime) : Prop := rt = Runtime.asyncio ∨ rt = Runtime.trio

/-! ### bounded -/

/-- `worker_serve` is back within `graceful_timeout + shutdown_timeout` of the trigger on every runtime on which it does
    not sit in a `Server.wait_closed()` that waits for connections before the bounded wait for the handlers: when it has
    returned (or raised) it did so by then, and as long as it has not the clock cannot be past that instant -/
theorem bounded_of_flags (rt : Runtime) (cfg : Cfg) (script : List LAct) (cap : Nat) (ops : List Op) (s : W)
    (hnb : rt.waitClosedBlocksOnConnections = false)
    (hr : run (W.init rt cfg script cap) ops = some s) (t : Nat) (ht : s.g.triggerTime = some t) :
    (∀ r, s.g.returnTime = some r → r ≤ t + cfg.gracefulTimeout + cfg.shutdownTimeout) ∧
    (s.phase.terminal = false → s.now ≤ t + cfg.gracefulTimeout + cfg.shutdownTimeout) := by
  obtain ⟨hR, hrt, hcfg, _⟩ := reach_run rt cfg script cap ops s hr
  have hnb' : s.rt.waitClosedBlocksOnConnections = false := by rw [hrt]; exact hnb
  refine ⟨fun r hret => by rw [← hcfg]; exact hR.T.t7 hnb' r t hret ht, ?_⟩
  intro hnt
  rw [← hcfg]
  cases hp : s.phase with
  | booting => have := (hR.P.early (hR.P.boot hp).2).1; simp [ht] at this
  | waitingStartup t0 => have := (hR.P.early (hR.P.wait t0 hp).2.1).1; simp [ht] at this
  | serving => have := (hR.P.serv hp).2.2.1; simp [ht] at this
  | closing => exact absurd hp (hR.T.t1c hnb')
  | draining since =>
    have h1 := hR.T.t1b hnb' since hp
    rw [ht] at h1
    simp only [Option.some.injEq] at h1
    have := (hR.P.drain since hp).2.2.2.2.2.2
    omega
  | lifespanShutdown since =>
    have h1 := hR.T.t6 hnb' since hp t ht
    have h2 := (hR.P.lsd since hp).2.2.2.2.2.2.2.2
    omega
  | done => simp [hp, Phase.terminal] at hnt
  | failed e => simp [hp, Phase.terminal] at hnt

/-- **`worker_serve` is back within `graceful_timeout + shutdown_timeout` of the trigger, however many connections are
    stuck** — both worker classes (asyncio: on every CPython, since 4c08dc8 `wait_closed()` is no longer awaited).
    *Scope of the model*: "stuck" = requests, streams and WebSockets whose application does not finish; the model's handlers
    end when they are cancelled.  A handler held in a transport write its peer does not drain is not a state of this model,
    and on the code as it is such a handler does outlive the grace period on both workers (known finding F113, found by
    the noread_h1 scenarios of the correspondence run, which are judged by the monitors only). -/
theorem bounded (rt : Runtime) (hc : Current rt) (cfg : Cfg) (script : List LAct) (cap : Nat) (ops : List Op) (s : W)
    (hr : run (W.init rt cfg script cap) ops = some s) (t : Nat) (ht : s.g.triggerTime = some t) :
    (∀ r, s.g.returnTime = some r → r ≤ t + cfg.gracefulTimeout + cfg.shutdownTimeout) ∧
    (s.phase.terminal = false → s.now ≤ t + cfg.gracefulTimeout + cfg.shutdownTimeout) :=
  bounded_of_flags rt cfg script cap ops s (by rcases hc with rfl | rfl <;> rfl) hr t ht

/-- **`bounded` does not extend to a handler held in a blocked transport write, as the code is (known finding F113)**: on
    both worker classes such a handler, cancelled at the end of the grace period, is still there after any amount of time
    in which its peer neither reads nor leaves - `worker_serve`, which waits for the cancelled handlers, is not back -/
theorem blocked_write_outlives_grace (rt : Runtime) (hc : Current rt) (es : List BlockedWrite.Ev) (hs : BlockedWrite.Silent es) :
    BlockedWrite.run rt .writing (.cancel :: es) = .cancelledWaiting := by
  refine BlockedWrite.outlives_cancel rt ?_ es hs
  rcases hc with rfl | rfl <;> rfl

/-- … it ends when the peer leaves (what the correspondence runs observe when the harness's client closes), and a runtime
    that gave the connection up on cancellation would be rid of it at once -/
theorem blocked_write_released (rt : Runtime) (p : BlockedWrite.Phase) (es : List BlockedWrite.Ev) :
    BlockedWrite.run rt p (.peerLeaves :: es) = .over ∧
    (rt.blockedWriteOutlivesCancel = false → BlockedWrite.run rt .writing (.cancel :: es) = .over) :=
  ⟨BlockedWrite.released_by_peer rt p es, fun h => BlockedWrite.released_at_once rt h es⟩

-- non-vacuity: asyncio, cancelled, ten ticks: still waiting; then the peer leaves: over
example : BlockedWrite.run Runtime.asyncio .writing (.cancel :: List.replicate 10 .tick) = .cancelledWaiting ∧
    BlockedWrite.run Runtime.trio .writing (.cancel :: List.replicate 10 .tick ++ [.peerLeaves]) = .over := by decide

/-- … and the clock is never stuck: at either deadline `worker_serve` has an action to take (the put cannot block
    because the queue bound is at least 2 and at most one message is still queued) — on runtimes on which a cancelled
    handler always finishes (`h2CancelDeadlocks = false`) -/
theorem deadline_forces_progress_of_flags (rt : Runtime) (cfg : Cfg) (script : List LAct) (cap : Nat) (ops : List Op) (s : W)
    (hcap : 2 ≤ cap) (hdl : rt.h2CancelDeadlocks = false) (hr : run (W.init rt cfg script cap) ops = some s) :
    (∀ since, s.phase = .draining since → since + cfg.gracefulTimeout ≤ s.now → s.srvStep.isSome = true) ∧
    (∀ since, s.phase = .lifespanShutdown since → since + cfg.shutdownTimeout ≤ s.now → s.srvStep.isSome = true) := by
  obtain ⟨hR, hrt, hcfg, hc⟩ := reach_run rt cfg script cap ops s hr
  constructor
  · intro since hp hto
    have hd := hR.P.drain since hp
    -- at most the start-up message is queued
    have hq : s.life.queue.length < s.life.cap := by
      have := congrArg List.length hR.Q.q
      simp only [List.length_append, List.length_replicate, hd.2.2.2.2.1] at this
      have := hR.P.putsLe.1
      omega
    have hsls : ∀ x : W, x.life = s.life → x.startLifespanShutdown.isSome = true := by
      intro x hx
      unfold W.startLifespanShutdown
      rcases put_cases x.life .shutdown with ⟨h, _⟩ | ⟨h, _⟩ | ⟨h, _, _, h3⟩ | ⟨h, _⟩ <;> simp only [h] <;> try rfl
      rw [hx] at h3; omega
    simp only [W.srvStep, hp]
    split
    · exact hsls s rfl
    · rw [hcfg]; simp only [hto, if_true, hrt, hdl, Bool.false_and, Bool.false_eq_true, if_false]; exact hsls s.cancelAll rfl
  · intro since hp hto
    simp only [W.srvStep, hp]
    split
    · rfl
    · rw [hcfg]; simp [hto]

/-- **at either deadline `worker_serve` has an action to take, whatever is still open — both worker classes, HTTP/2 streams
    in progress on asyncio included** (since the F32 repair a cancelled handler always finishes: the HTTP/2 send task releases
    every waiting sender when it ends).  With `bounded` (the clock cannot pass trigger + graceful_timeout + shutdown_timeout
    while `worker_serve` has not returned, and `tick` is disabled while `worker_serve` has an action to take): the return is
    forced, not merely permitted -/
theorem deadline_forces_progress (rt : Runtime) (hc : Current rt) (cfg : Cfg) (script : List LAct) (cap : Nat) (ops : List Op)
    (s : W) (hcap : 2 ≤ cap) (hr : run (W.init rt cfg script cap) ops = some s) :
    (∀ since, s.phase = .draining since → since + cfg.gracefulTimeout ≤ s.now → s.srvStep.isSome = true) ∧
    (∀ since, s.phase = .lifespanShutdown since → since + cfg.shutdownTimeout ≤ s.now → s.srvStep.isSome = true) :=
  deadline_forces_progress_of_flags rt cfg script cap ops s hcap (by rcases hc with rfl | rfl <;> rfl) hr

/-- the F18 run: one request that never finishes -/
def f18Script : List LAct := [.recv, .sendStartupComplete, .recv, .sendShutdownComplete, .ret]
def f18Ops (wait : Nat) : List Op :=
  [.app, .srv, .app, .srv, .connect .h1, .request 0 none, .trigger, .srv, .tick wait]
def cfg0 : Cfg := { startupTimeout := 4, shutdownTimeout := 4, gracefulTimeout := 4, maxRequests := none }

/-- history (F18, fixed by 4c08dc8): before the fix, on CPython ≥ 3.12.1, an arbitrary long time after the trigger
    `worker_serve` was still inside `server.wait_closed()` -/
theorem f18_run_before_fix :
    (run (W.init .asyncioBeforeFixes cfg0 f18Script 10) (f18Ops 1000)).map (fun s => decide
      (s.phase = .closing ∧ s.g.triggerTime = some 0 ∧ s.now = 1000 ∧ s.g.returnTime = none ∧ s.conns.length = 1)) =
      some true := by decide

/-- history: `bounded` was false while `worker_serve` awaited a `wait_closed()` that waits for connections
    (`Runtime.asyncioBeforeFixes`) — the flag hypothesis of `bounded_of_flags` is needed -/
theorem bounded_fails_when_wait_closed_blocks :
    ¬ (∀ (cfg : Cfg) (script : List LAct) (cap : Nat) (ops : List Op) (s : W) (t : Nat),
        run (W.init .asyncioBeforeFixes cfg script cap) ops = some s → s.g.triggerTime = some t → s.phase.terminal = false →
        s.now ≤ t + cfg.gracefulTimeout + cfg.shutdownTimeout) := by
  intro h
  have hw := f18_run_before_fix
  cases hr : run (W.init .asyncioBeforeFixes cfg0 f18Script 10) (f18Ops 1000) with
  | none => simp [hr] at hw
  | some s =>
    simp only [hr, Option.map_some, Option.some.injEq, decide_eq_true_eq] at hw
    obtain ⟨h1, h2, h3, _, _⟩ := hw
    have := h _ _ _ _ s 0 hr h2 (by simp [h1, Phase.terminal])
    simp [h3, cfg0] at this

/-- the F32 run: an HTTP/2 connection with a stream still in progress when the grace period ends -/
def f32Ops : List Op := [.app, .srv, .app, .srv, .connect .h2, .newStream 0, .trigger, .srv, .tick 4]

/-- history (F32, fixed): before the repair, on asyncio, with an HTTP/2 stream still in progress when the grace period ended
    `worker_serve` had no action to take and the clock could not advance: it never returned -/
theorem h2_cancel_deadlock_before_fix :
    (run (W.init .asyncioBeforeF32 cfg0 f18Script 10) f32Ops).map (fun s => decide
      (s.phase = .draining 0 ∧ s.now = 4 ∧ s.srvStep.isNone = true ∧ (step s (.tick 1)).isNone = true)) = some true := by decide

/-- history: `deadline_forces_progress` was false for `Runtime.asyncioBeforeF32` — the `h2CancelDeadlocks` hypothesis of
    `deadline_forces_progress_of_flags` is needed -/
theorem deadline_forces_progress_failed_before_fix :
    ¬ (∀ (cfg : Cfg) (script : List LAct) (cap : Nat) (ops : List Op) (s : W) (since : Nat), 2 ≤ cap →
        run (W.init .asyncioBeforeF32 cfg script cap) ops = some s → s.phase = .draining since →
        since + cfg.gracefulTimeout ≤ s.now → s.srvStep.isSome = true) := by
  intro h
  have hw := h2_cancel_deadlock_before_fix
  cases hr : run (W.init .asyncioBeforeF32 cfg0 f18Script 10) f32Ops with
  | none => simp [hr] at hw
  | some s =>
    simp only [hr, Option.map_some, Option.some.injEq, decide_eq_true_eq] at hw
    obtain ⟨h1, h2, h3, _⟩ := hw
    have := h cfg0 f18Script 10 f32Ops s 0 (by decide) hr h1 (by simp [h2, cfg0])
    simp [Option.isNone_iff_eq_none.mp h3] at this

-- the F32 run on the code as it is now: the handler is cancelled at trigger + graceful_timeout, the peer is told to go away,
-- lifespan shutdown follows and `worker_serve` returns at that instant - on both workers (trio: without the GOAWAY)
example : (run (W.init .asyncio cfg0 f18Script 10) (f32Ops ++ [.srv, .app, .srv])).map
    (fun s => decide (s.phase = .done ∧ s.g.returnTime = some 4 ∧ s.hist.cancelled = [(0, .h2 1 true, 4)] ∧
      s.log.contains (.goaway 0) = true)) = some true := by decide
example : (run (W.init .trio cfg0 f18Script 10) (f32Ops ++ [.srv, .app, .app, .srv])).map
    (fun s => decide (s.phase = .done ∧ s.g.returnTime = some 4 ∧ s.hist.cancelled = [(0, .h2 1 true, 4)] ∧
      s.log.contains (.goaway 0) = false)) = some true := by decide

-- the F18 run on the code as it is now: both workers return at exactly `trigger + graceful_timeout`
example : (run (W.init .asyncio cfg0 f18Script 10)
    [.app, .srv, .app, .srv, .connect .h1, .request 0 none, .trigger, .srv, .tick 4, .srv, .app, .srv]).map
    (fun s => decide (s.phase = .done ∧ s.g.returnTime = some 4 ∧ s.hist.cancelled.length = 1)) = some true := by decide
example : (run (W.init .trio cfg0 f18Script 10)
    [.app, .srv, .app, .srv, .connect .h1, .request 0 none, .trigger, .srv, .tick 4, .srv, .app, .app, .srv]).map
    (fun s => decide (s.phase = .done ∧ s.g.returnTime = some 4 ∧ s.hist.cancelled.length = 1)) = some true := by decide
-- and the clock cannot run past the deadline: `tick 5` is refused
example : (run (W.init .trio cfg0 f18Script 10)
    [.app, .srv, .app, .srv, .connect .h1, .request 0 none, .trigger, .srv, .tick 5]).isNone = true := by decide
example : (run (W.init .asyncio cfg0 f18Script 10) (f18Ops 5)).isNone = true := by decide

/-! ### orderly -/

/-- **once `terminated` is set: the listeners are closed, no connection with an armed idle timer is left (idle and
    mid-head HTTP/1 connections, HTTP/2 connections that became idle), and no connection was accepted and no
    application instance was started after that instant** -/
theorem orderly (rt : Runtime) (cfg : Cfg) (script : List LAct) (cap : Nat) (ops : List Op) (s : W)
    (hr : run (W.init rt cfg script cap) ops = some s) :
    (s.terminated = true → s.listening = false ∧ ∀ c ∈ s.conns, c.phase.hasIdleTimer = false) ∧
    s.g.acceptsAfterTerm = 0 ∧ s.g.scopesAfterTerm = 0 := by
  obtain ⟨hR, _⟩ := reach_run rt cfg script cap ops s hr
  refine ⟨fun ht => ⟨?_, hR.O.o1 ht⟩, hR.O.o2.1, hR.O.o2.2⟩
  by_cases hl : s.listening = true
  · have := (hR.P.listen hl).2; simp [ht] at this
  · simpa using hl

/-- every idle connection is closed at the instant of the trigger — on a runtime where a fresh prior-knowledge
    HTTP/2 connection has its idle timer -/
theorem idle_closed_of_flags (rt : Runtime) (cfg : Cfg) (script : List LAct) (cap : Nat) (ops : List Op) (s : W)
    (hf : rt.h2PriorFreshIdleTimer = true)
    (hr : run (W.init rt cfg script cap) ops = some s) (ht : s.terminated = true) :
    ∀ c ∈ s.conns, c.phase.isIdle = false := by
  obtain ⟨hR, hrt, _, _⟩ := reach_run rt cfg script cap ops s hr
  intro c hc
  have h1 := hR.O.o1 ht c hc
  have h3 := hR.O.o3 (by rw [hrt]; exact hf) c hc
  cases hp : c.phase with
  | idle => simp [hp, ConnPhase.hasIdleTimer] at h1
  | midHead => simp [hp, ConnPhase.hasIdleTimer] at h1
  | inRequest d => rfl
  | ws => rfl
  | h2 k t =>
    cases k with
    | zero =>
      have := h3 t hp
      subst this
      simp [hp, ConnPhase.hasIdleTimer] at h1
    | succ k => rfl

/-- **every idle connection (HTTP/1 between requests or mid-head, HTTP/2 without a stream in progress — fresh or not) is
    closed at the instant of the trigger** — both worker classes -/
theorem idle_closed (rt : Runtime) (hc : Current rt) (cfg : Cfg) (script : List LAct) (cap : Nat) (ops : List Op) (s : W)
    (hr : run (W.init rt cfg script cap) ops = some s) (ht : s.terminated = true) :
    ∀ c ∈ s.conns, c.phase.isIdle = false :=
  idle_closed_of_flags rt cfg script cap ops s (by rcases hc with rfl | rfl <;> rfl) hr ht

/-- history (F31, fixed by b7ab22b): before the fix a prior-knowledge HTTP/2 connection that had not had a stream yet had no
    idle timer, so it was idle and yet survived the trigger until the grace period ended -/
theorem idle_closed_failed_before_fix :
    ¬ (∀ (cfg : Cfg) (script : List LAct) (cap : Nat) (ops : List Op) (s : W),
        run (W.init .trioBeforeFixes cfg script cap) ops = some s → s.terminated = true →
        ∀ c ∈ s.conns, c.phase.isIdle = false) := by
  intro h
  have hw : (run (W.init .trioBeforeFixes cfg0 f18Script 10) [.app, .srv, .app, .srv, .connect .h2, .trigger, .srv, .tick 3]).map
      (fun s => decide (s.terminated = true ∧ s.conns.map (·.phase) = [.h2 0 false])) = some true := by decide
  cases hr : run (W.init .trioBeforeFixes cfg0 f18Script 10) [.app, .srv, .app, .srv, .connect .h2, .trigger, .srv, .tick 3] with
  | none => simp [hr] at hw
  | some s =>
    simp only [hr, Option.map_some, Option.some.injEq, decide_eq_true_eq] at hw
    obtain ⟨h1, h2⟩ := hw
    cases hc : s.conns with
    | nil => simp [hc] at h2
    | cons c rest =>
      simp only [hc, List.map_cons, List.cons.injEq] at h2
      have := h _ _ _ _ s hr h1 c (by simp [hc])
      simp [h2.1, ConnPhase.isIdle] at this

-- now: the fresh HTTP/2 connection is closed with the trigger, on both workers
example : (run (W.init .trio cfg0 f18Script 10) [.app, .srv, .app, .srv, .connect .h2, .trigger, .srv]).map
    (fun s => decide (s.terminated = true ∧ s.conns = [] ∧ s.hist.closedIdle = [0])) = some true := by decide
example : (run (W.init .asyncio cfg0 f18Script 10) [.app, .srv, .app, .srv, .connect .h2, .trigger, .srv]).map
    (fun s => decide (s.terminated = true ∧ s.conns = [] ∧ s.hist.closedIdle = [0])) = some true := by decide

/-- after the trigger a connection attempt is not accepted, a request head on a surviving connection starts no
    application, a new HTTP/2 stream is refused without an application instance, and the end of the last stream of an
    HTTP/2 connection sends GOAWAY and closes it -/
theorem after_trigger_refusals (s : W) (ht : s.terminated = true) :
    (∀ k, step s (.connect k) = none) ∧ (∀ i rem, step s (.request i rem) = none) ∧
    (∀ i s', step s (.newStream i) = some s' → s'.g.scopes = s.g.scopes ∧ s'.g.refusedStreams = s.g.refusedStreams + 1 ∧
      s'.conns = s.conns) ∧
    (∀ i c t s', s.findConn i = some c → c.phase = .h2 1 t → step s (.progress i) = some s' →
      s'.hist.goaway = s.hist.goaway ++ [i] ∧ s'.conns = s.dropConn i) := by
  refine ⟨?_, ?_, ?_, ?_⟩
  · intro k; simp [step, ht]
  · intro i rem; simp only [step, ht]; split <;> simp
  · intro i s' hs
    cases step_rel s s' _ hs with
    | streamRefused => exact ⟨rfl, rfl, rfl⟩
    | streamNew i c k t hc hp hw hnt => simp [ht] at hnt
  · intro i c t s' hc hp hs
    cases step_rel s s' _ hs with
    | lastStreamGoaway => exact ⟨rfl, rfl⟩
    | lastStreamIdle i c' t' hc' hp' hnt => simp [ht] at hnt
    | streamDone i c' k t' hc' hp' => rw [hc] at hc'; cases hc'; rw [hp] at hp'; cases hp'
    | wsDone i c' hc' hp' => rw [hc] at hc'; cases hc'; rw [hp] at hp'; cases hp'

/-! ### a keep-alive connection is not recycled once `terminated` is set -/

/-- **the model's decision when a response has been delivered is the code's `_maybe_recycle` guard**
    (`HC.Extracted.Guards.h11Recycle`, regenerated from `protocol/h11.py` on every run) evaluated where the model takes the
    step: the protocol is not closed and both h11 sides are DONE (a complete keep-alive exchange).  The connection goes
    back to idle iff the guard holds; otherwise it is closed.  A guard that consults anything but `context.terminated`
    (e.g. `context.terminate`, which only `max_requests` sets) is not translated by the extractor, and one that is
    translated differently breaks this proof -/
theorem finish_follows_recycle_guard (s s' : W) (i : Nat) (hs : step s (.finish i) = some s') :
    s'.conns = (if Extracted.Guards.h11Recycle false s.terminated true true then s.setPhase i .idle else s.dropConn i) := by
  cases step_rel s s' _ hs with
  | finish i c due hc hp hd => cases ht : s.terminated <;> simp [Extracted.Guards.h11Recycle]

/-- the guard itself: recycling needs `terminated` to be unset, whatever the other three atoms are -/
theorem recycle_guard_needs_not_terminated (closed ourDone theirDone : Bool) :
    Extracted.Guards.h11Recycle closed true ourDone theirDone = false := by
  cases closed <;> cases ourDone <;> cases theirDone <;> rfl

/-- **once `terminated` is set, the connection whose request finishes is closed — it is not there to take the request
    that was pipelined behind it (or that arrives later), no application instance is started for such a request, and
    this holds after every further operation list** (both trigger sources: `terminated` is set by the exit path of
    `worker_serve` whether `shutdown_trigger` returned or `context.terminate` was set by `mark_request`) -/
theorem not_recycled_after_trigger (s s' : W) (i : Nat) (ht : s.terminated = true) (hs : step s (.finish i) = some s') :
    s'.findConn i = none ∧ s'.terminated = true ∧ s'.g.scopes = s.g.scopes ∧ (∀ rem, step s' (.request i rem) = none) := by
  cases step_rel s s' _ hs with
  | finish i c due hc hp hd =>
    refine ⟨?_, ht, rfl, ?_⟩
    · simp only [ht, if_true, W.findConn, W.dropConn]
      apply List.find?_eq_none.mpr
      intro x hx
      simp only [List.mem_filter, bne_iff_ne, ne_eq] at hx
      simpa using hx.2
    · intro rem
      simp only [step, ht]
      split <;> simp

-- non-vacuity: two requests pipelined on one connection, the trigger while the first is in progress: the first is
-- delivered, the connection is closed, the second is never enabled, one application instance in all, `worker_serve`
-- returns at once (nothing left to wait for) — and without the trigger the same connection serves both
example : (run (W.init .asyncio cfg0 f18Script 10)
    [.app, .srv, .app, .srv, .connect .h1, .request 0 (some 2), .trigger, .srv, .tick 2, .finish 0]).map
    (fun s => decide (s.conns = [] ∧ s.hist.delivered = [(0, 2)] ∧ s.g.scopes = 1 ∧ (step s (.request 0 (some 0))).isNone = true)) =
    some true := by decide
example : (run (W.init .asyncio cfg0 f18Script 10)
    [.app, .srv, .app, .srv, .connect .h1, .request 0 (some 2), .tick 2, .finish 0, .request 0 (some 0), .finish 0]).map
    (fun s => decide (s.conns.map (·.phase) = [.idle] ∧ s.hist.delivered = [(0, 2), (0, 2)] ∧ s.g.scopes = 2)) = some true := by decide

/-! ### requests that finish within the grace period are delivered -/

/-- **a handler is cancelled only when the grace period is over, and a cancelled request was not due before that
    instant**: a request due before `trigger + graceful_timeout` is never cancelled -/
theorem in_grace_delivered (rt : Runtime) (cfg : Cfg) (script : List LAct) (cap : Nat) (ops : List Op) (s : W)
    (hr : run (W.init rt cfg script cap) ops = some s) (t : Nat) (ht : s.g.triggerTime = some t)
    (i at_ : Nat) (ph : ConnPhase) (hc : (i, ph, at_) ∈ s.hist.cancelled) :
    t + cfg.gracefulTimeout ≤ at_ ∧ ∀ due, ph = .inRequest (some due) → t + cfg.gracefulTimeout ≤ due := by
  obtain ⟨hR, _, hcfg, _⟩ := reach_run rt cfg script cap ops s hr
  have := hR.T.t2 _ hc t ht
  rw [hcfg] at this
  exact ⟨this.1, fun due hd => Nat.le_trans this.1 (this.2.2 due hd)⟩

/-- the clock never passes the instant a live request is due, and when it is due its response can be delivered:
    so a request due before the end of the grace period *is* delivered (it cannot be cancelled, by `in_grace_delivered`,
    and it cannot linger) -/
theorem due_request_finishes (rt : Runtime) (cfg : Cfg) (script : List LAct) (cap : Nat) (ops : List Op) (s : W)
    (hr : run (W.init rt cfg script cap) ops = some s) (c : Conn) (hc : c ∈ s.conns) (due : Nat)
    (hp : c.phase = .inRequest (some due)) :
    s.now ≤ due ∧ (due ≤ s.now → ∃ s', step s (.finish c.id) = some s' ∧ (c.id, s.now) ∈ s'.hist.delivered) := by
  obtain ⟨hR, _⟩ := reach_run rt cfg script cap ops s hr
  refine ⟨hR.T.t4 c hc due hp, ?_⟩
  intro hd
  have hfind : s.findConn c.id = some c := by
    unfold W.findConn
    cases hf : s.conns.find? (fun x => x.id == c.id) with
    | none =>
      have := List.find?_eq_none.mp hf c hc
      simp at this
    | some c' =>
      have hm := List.mem_of_find?_eq_some hf
      have hid : c'.id = c.id := by simpa using List.find?_some hf
      rw [nodup_map_inj hR.S.s6 hm hc hid]
  have hstep : step s (.finish c.id) = some
      { s with conns := if s.terminated then s.dropConn c.id else s.setPhase c.id .idle,
               hist := { s.hist with delivered := s.hist.delivered ++ [(c.id, s.now)] },
               log := s.log ++ [.delivered c.id] } := by
    simp only [step, hfind, hp, hd, if_true]
  exact ⟨_, hstep, by simp⟩

/-! ### then the lifespan shutdown -/

/-- **`lifespan.shutdown` is put only after the drain**: not before the trigger, with no handler alive, and — when a
    handler had to be cancelled — not before `trigger + graceful_timeout` -/
theorem then_lifespan (rt : Runtime) (cfg : Cfg) (script : List LAct) (cap : Nat) (ops : List Op) (s : W)
    (hr : run (W.init rt cfg script cap) ops = some s) (p : Nat) (hp : s.g.shutdownPutAt = some p) :
    ∃ t, s.g.triggerTime = some t ∧ t ≤ p ∧ p ≤ s.now ∧ (s.hist.cancelled ≠ [] → t + cfg.gracefulTimeout ≤ p) := by
  obtain ⟨hR, _, hcfg, _⟩ := reach_run rt cfg script cap ops s hr
  have h1 : s.g.shutdownPuts = 1 := by
    have := hR.P.putsLe.2
    by_cases h0 : s.g.shutdownPuts = 0
    · have := hR.T.t10 h0; simp [hp] at this
    · omega
  obtain ⟨_, y2, _⟩ := hR.Y.y h1
  obtain ⟨t, ht⟩ := Option.isSome_iff_exists.mp y2
  have := hR.T.t3 p hp t ht
  exact ⟨t, ht, this.1, this.2.1, by rw [← hcfg]; exact this.2.2⟩

-- non-vacuity: a short request is delivered, then the put, then the return; a long one is cancelled at the deadline
example : (run (W.init .trio cfg0 f18Script 10)
    [.app, .srv, .app, .srv, .connect .h1, .request 0 (some 2), .trigger, .srv, .tick 2, .finish 0, .srv, .app, .app, .srv]).map
    (fun s => decide (s.phase = .done ∧ s.hist.delivered = [(0, 2)] ∧ s.hist.cancelled = [] ∧ s.g.shutdownPutAt = some 2 ∧
      s.g.returnTime = some 2)) = some true := by decide
example : (run (W.init .trio { cfg0 with maxRequests := some 0 } f18Script 10)
    [.app, .srv, .app, .srv, .connect .h1, .request 0 (some 2), .srv]).map
    (fun s => decide (s.terminated = true ∧ s.g.triggerTime = some 0 ∧ s.conns.length = 1 ∧ s.g.scopes = 1)) = some true := by
  decide

end HC.Props.C15
