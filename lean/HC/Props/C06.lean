import HC.Proto.H11
import HC.Proto.H11Close
import HC.Conn.Shell
import HC.Extracted.Runtime
/-!
# C06 — HTTP/1.x persistent-connection and pipelining safety

Theorems about the model of `H11Protocol` (`HC/Proto/H11.lean`) composed with the h11 connection-state machine
`H11M` (tables extracted from the installed library).  "For every op sequence" = every interleaving of library
events, application sends (of *any* stream object, current or orphaned), connection closes and termination.
-/
namespace HC.Props.C06
open HC HC.Stream HC.Lib HC.Proto.H11 HC.Extracted.H11Tables

/-! ### facts about the library machine (decided on the extracted tables) -/

theorem firePair_client_idle (pend ka : Bool) (c sv : HSt) : (H11M.firePair pend ka c sv).1 = .idle → c = .idle := by
  cases pend <;> cases ka <;> cases c <;> cases sv <;> decide

theorem fireOnce_client_idle (s : H11M.St) : (H11M.fireOnce s).client = .idle → s.client = .idle := by
  simp only [H11M.fireOnce]; exact firePair_client_idle _ _ _ _

/-- the state-triggered transitions never move the client side to IDLE -/
theorem fire_client_idle (s : H11M.St) : (H11M.fire s).client = .idle → s.client = .idle := by
  intro h
  simp only [H11M.fire] at h
  exact fireOnce_client_idle _ (fireOnce_client_idle _ (fireOnce_client_idle _ (fireOnce_client_idle _
    (fireOnce_client_idle _ (fireOnce_client_idle _ h)))))

/-- a `Request` event is only accepted from the client state IDLE (the extracted event table) -/
theorem request_needs_idle (st t : HSt) (h : H11M.lookupEvent .client st .request = some t) : st = .idle := by
  have key : (H11M.lookupEvent .client st .request).isSome = true → st = .idle := by cases st <;> decide
  exact key (by simp [h])

/-- no client-side event leads *to* IDLE (only `start_next_cycle` does) -/
theorem client_event_not_idle (st t : HSt) (k : EvKey) (h : H11M.lookupEvent .client st k = some t) : t ≠ .idle := by
  have key : H11M.lookupEvent .client st k ≠ some .idle := by cases st <;> cases k <;> decide
  intro ht; subst ht; exact key h

theorem stepServer_client (s s' : H11M.St) (k : EvKey) (h : H11M.stepServer s k = some s') :
    s'.client = .idle → s.client = .idle := by
  unfold H11M.stepServer at h
  split at h
  · cases h
  · split at h
    · cases h
    · simp only [Option.some.injEq] at h
      subst h
      intro hi
      simpa using fire_client_idle _ hi

theorem stepClient_client (s s' : H11M.St) (k : EvKey) (h : H11M.stepClient s k = some s') : s'.client ≠ .idle := by
  unfold H11M.stepClient at h
  split at h
  · cases h
  · rename_i c hc
    simp only [Option.some.injEq] at h
    subst h
    intro hi
    exact client_event_not_idle _ _ _ hc (by simpa using fire_client_idle _ hi)

theorem keepAliveDisabled_client (s : H11M.St) : (H11M.keepAliveDisabled s).client = .idle → s.client = .idle := by
  intro h; simpa [H11M.keepAliveDisabled] using fire_client_idle _ h

theorem sendFailed_client (s : H11M.St) : (H11M.sendFailed s).client = .idle → s.client = .idle := by
  intro h; simpa [H11M.sendFailed, H11M.processError] using fire_client_idle _ h

theorem recvError_client (s : H11M.St) : (H11M.recvError s).client ≠ .idle := by
  intro h
  have := fire_client_idle _ h
  simp at this

theorem sendInfo_client (s s' : H11M.St) (n : Nat) (h : H11M.sendInfo s n = some s') : s'.client = .idle → s.client = .idle := by
  unfold H11M.sendInfo at h
  split at h
  · cases h
  · simp only [Option.map_eq_some_iff] at h
    obtain ⟨s1, h1, rfl⟩ := h
    intro hi
    exact stepServer_client s s1 _ h1 (by simpa using hi)

theorem sendData_client (s s' : H11M.St) (h : H11M.sendData s = some s') : s'.client = .idle → s.client = .idle := by
  unfold H11M.sendData at h
  split at h
  · cases h
  · exact stepServer_client s s' _ h

theorem sendEom_client (s s' : H11M.St) (h : H11M.sendEom s = some s') : s'.client = .idle → s.client = .idle := by
  unfold H11M.sendEom at h
  split at h
  · cases h
  · exact stepServer_client s s' _ h

theorem sendResponse_client (s s' : H11M.St) (r : H11M.RespInfo) (h : H11M.sendResponse s r = some s') :
    s'.client = .idle → s.client = .idle := by
  unfold H11M.sendResponse at h
  split at h
  · cases h
  · split at h
    · cases h
    · rename_i s1 hs1
      simp only [Option.some.injEq] at h
      subst h
      intro hi
      have h0 : s1.client = .idle := by
        split at hi
        · simpa using keepAliveDisabled_client _ hi
        · simpa using hi
      exact stepServer_client s s1 _ hs1 h0

theorem proposals_client (s : H11M.St) (r : H11M.ReqInfo) : (H11M.proposals s r).client = .idle → s.client = .idle := by
  unfold H11M.proposals
  intro h
  by_cases hu : r.hasUpgrade = true <;> by_cases hc : r.isConnect = true <;> simp only [hu, hc, if_true, if_false] at h
  · have := fire_client_idle _ h; simp at this; simpa using fire_client_idle _ this
  · simpa using fire_client_idle _ h
  · simpa using fire_client_idle _ h
  · simpa using h

theorem afterRequest_client (s : H11M.St) (r : H11M.ReqInfo) : (H11M.afterRequest s r).client = .idle → s.client = .idle := by
  unfold H11M.afterRequest
  intro h
  by_cases he : r.expect100 = true <;> by_cases hk : r.keepAlive = true <;> simp only [he, hk, if_true, if_false] at h
  · simpa using h
  · simp at h; simpa using keepAliveDisabled_client _ h
  · simpa using h
  · simpa using keepAliveDisabled_client _ h

/-- after a `Request` event the client side is not IDLE, and the event was only possible from IDLE -/
theorem recvRequest_client (s s' : H11M.St) (r : H11M.ReqInfo) (h : H11M.recvRequest s r = some s') :
    s'.client ≠ .idle ∧ s.client = .idle := by
  unfold H11M.recvRequest at h
  split at h
  · cases h
  · rename_i s1 hs1
    simp only [Option.some.injEq] at h
    unfold H11M.stepRequest at hs1
    split at hs1
    · cases hs1
    · rename_i c hc
      split at hs1
      · cases hs1
      · simp only [Option.some.injEq] at hs1
        refine ⟨?_, proposals_client s r (request_needs_idle _ _ hc)⟩
        intro hi
        subst h
        have h1 := afterRequest_client _ _ hi
        subst hs1
        exact client_event_not_idle _ _ _ hc (by simpa using fire_client_idle _ h1)

/-! ### the protocol: a live stream is never overwritten -/

/-- `self.stream is not None` implies the h11 client side is past IDLE -/
def Inv (st : St) : Prop := st.cur.isSome = true → st.lib.client ≠ .idle

theorem inv_init : Inv {} := by intro h; simp at h

private theorem libSend_inv (st : St) (e : LibSend) (hI : Inv st) :
    Inv (libSend st e).1 ∧ (libSend st e).1.cur = st.cur := by
  unfold libSend
  cases e <;> simp only [] <;> split <;> (refine ⟨?_, rfl⟩; intro hc hi; apply hI hc)
  · exact sendInfo_client _ _ _ ‹_› hi
  · exact sendFailed_client _ hi
  · exact sendResponse_client _ _ _ ‹_› hi
  · exact sendFailed_client _ hi
  · exact sendData_client _ _ ‹_› hi
  · exact sendFailed_client _ hi
  · exact sendEom_client _ _ ‹_› hi
  · exact sendFailed_client _ hi

private theorem closeStream_cur (st : St) : (closeStream st).1.cur = none := by
  unfold closeStream
  (repeat' split) <;> simp_all [St.setObj]

private theorem maybeRecycle_cur (st : St) : (maybeRecycle st).1.cur = none := by
  unfold maybeRecycle
  have := closeStream_cur st
  simp only []
  split
  · split <;> simp_all
  · simp_all

private theorem inv_of_cur_none (st : St) (h : st.cur = none) : Inv st := by intro hc; simp [h] at hc

private theorem httpStreamSend_inv (cfg : Cfg) (st : St) (e : Http.Ev) (hI : Inv st) : Inv (httpStreamSend cfg st e).1 := by
  cases e <;> simp only [httpStreamSend]
  · split <;> exact (libSend_inv _ _ hI).1
  · exact hI
  · exact (libSend_inv _ _ hI).1
  · exact (libSend_inv _ _ hI).1
  · exact hI
  · exact hI
  · exact inv_of_cur_none _ (maybeRecycle_cur st)
  · exact hI
  · exact hI

private theorem wsStreamSend_inv (cfg : Cfg) (st : St) (e : Ws.Ev) (hI : Inv st) : Inv (wsStreamSend cfg st e).1 := by
  cases e <;> simp only [wsStreamSend]
  · split <;> exact (libSend_inv _ _ hI).1
  · exact (libSend_inv _ _ hI).1
  · exact (libSend_inv _ _ hI).1
  · exact hI
  · exact hI
  · exact inv_of_cur_none _ (maybeRecycle_cur st)
  · exact hI
  · exact hI
  · exact hI

private theorem runHttpEvs_inv (cfg : Cfg) : ∀ (evs : List Http.Ev) (st : St), Inv st → Inv (runHttpEvs cfg st evs).1 := by
  intro evs
  induction evs with
  | nil => intro st h; exact h
  | cons e es ih =>
    intro st h
    simp only [runHttpEvs]
    have h1 := httpStreamSend_inv cfg st e h
    split
    · exact h1
    · exact ih _ h1

private theorem runWsEvs_inv (cfg : Cfg) : ∀ (evs : List Ws.Ev) (st : St), Inv st → Inv (runWsEvs cfg st evs).1 := by
  intro evs
  induction evs with
  | nil => intro st h; exact h
  | cons e es ih =>
    intro st h
    simp only [runWsEvs]
    have h1 := wsStreamSend_inv cfg st e h
    split
    · exact h1
    · exact ih _ h1

private theorem setObj_inv (st : St) (i : Nat) (o : Stream) (h : Inv st) : Inv (st.setObj i o) := by
  intro hc; exact h hc

private theorem inv_kar (st : St) (n : Nat) (h : Inv st) : Inv { st with keepAliveRequests := n } := h

private theorem inv_of_client (st : St) (h : st.lib.client ≠ .idle) : Inv st := fun _ => h

private theorem loopTop_inv (cfg : Cfg) (st : St) (hI : Inv st) : Inv (loopTop cfg st).1 := by
  unfold loopTop
  split
  · exact (libSend_inv _ _ hI).1
  · exact hI

private theorem libSend_client (st : St) (e : LibSend) (h : st.lib.client ≠ .idle) : (libSend st e).1.lib.client ≠ .idle := by
  intro hi
  apply h
  unfold libSend at hi
  cases e <;> simp only [] at hi <;> split at hi
  · exact sendInfo_client _ _ _ ‹_› hi
  · exact sendFailed_client _ hi
  · exact sendResponse_client _ _ _ ‹_› hi
  · exact sendFailed_client _ hi
  · exact sendData_client _ _ ‹_› hi
  · exact sendFailed_client _ hi
  · exact sendEom_client _ _ ‹_› hi
  · exact sendFailed_client _ hi

private theorem onLibEvBody_inv (cfg : Cfg) (st : St) (o0 : List Out) (e : LibEv) (s1 : St) (o1 : List Out)
    (hI : Inv st) (h : onLibEvBody cfg st o0 e = some (s1, o1)) : Inv s1 := by
  cases e with
  | protoError hint =>
    simp only [onLibEvBody] at h
    have hc : (H11M.recvError st.lib).client ≠ .idle := recvError_client _
    split at h
    · simp only [Option.some.injEq, Prod.mk.injEq] at h
      obtain ⟨rfl, _⟩ := h
      exact inv_of_client _ hc
    · split at h
      all_goals
        simp only [Option.some.injEq, Prod.mk.injEq] at h
        obtain ⟨rfl, _⟩ := h
        apply inv_of_client
      · exact libSend_client _ _ (libSend_client _ _ hc)
      · exact hc
  | request r =>
    simp only [onLibEvBody] at h
    split at h
    · cases h
    · rename_i lib' hl
      have hc : lib'.client ≠ .idle := (recvRequest_client _ _ _ hl).1
      split at h
      · simp only [Option.some.injEq, Prod.mk.injEq] at h
        obtain ⟨rfl, _⟩ := h
        exact inv_of_client _ (libSend_client _ _ hc)
      · simp only [Option.some.injEq, Prod.mk.injEq] at h
        obtain ⟨rfl, _⟩ := h
        exact inv_of_client _ hc
      · split at h
        · split at h
          · cases h
          · simp only [Option.some.injEq, Prod.mk.injEq] at h
            obtain ⟨rfl, _⟩ := h
            apply inv_kar
            apply runWsEvs_inv
            apply inv_of_client
            simpa [St.newObj] using hc
        · simp only [Option.some.injEq, Prod.mk.injEq] at h
          obtain ⟨rfl, _⟩ := h
          apply inv_kar
          split
          · apply inv_of_client
            simpa [St.newObj] using hc
          · apply runHttpEvs_inv
            apply inv_of_client
            simpa [St.newObj] using hc
  | paused =>
    simp only [onLibEvBody] at h
    split at h <;> (simp only [Option.some.injEq, Prod.mk.injEq] at h; obtain ⟨rfl, _⟩ := h; exact hI)
  | needData =>
    simp only [onLibEvBody, Option.some.injEq, Prod.mk.injEq] at h
    obtain ⟨rfl, _⟩ := h
    exact hI
  | connClosed =>
    simp only [onLibEvBody] at h
    split at h
    · cases h
    · rename_i lib' hl
      simp only [Option.some.injEq, Prod.mk.injEq] at h
      obtain ⟨rfl, _⟩ := h
      exact inv_of_client _ (stepClient_client _ _ _ hl)
  | data d =>
    simp only [onLibEvBody] at h
    split at h
    · cases h
    · rename_i lib' hl
      have hc : lib'.client ≠ .idle := by
        simp only [H11M.recvData, Option.map_eq_some_iff] at hl
        obtain ⟨x, hx, rfl⟩ := hl
        simpa using stepClient_client _ _ _ hx
      (repeat' split at h) <;> (try (cases h; done)) <;>
        (simp only [Option.some.injEq, Prod.mk.injEq] at h; obtain ⟨rfl, _⟩ := h; exact inv_of_client _ (by simpa [St.setObj] using hc))
  | eom =>
    simp only [onLibEvBody] at h
    split at h
    · cases h
    · rename_i lib' hl
      have hc : lib'.client ≠ .idle := by
        simp only [H11M.recvEom, Option.map_eq_some_iff] at hl
        obtain ⟨x, hx, rfl⟩ := hl
        simpa using stepClient_client _ _ _ hx
      (repeat' split at h) <;> (try (cases h; done)) <;>
        (simp only [Option.some.injEq, Prod.mk.injEq] at h; obtain ⟨rfl, _⟩ := h; exact inv_of_client _ (by simpa [St.setObj] using hc))
  | wsData d evs =>
    simp only [onLibEvBody] at h
    (repeat' split at h) <;> (try (cases h; done))
    · simp only [Option.some.injEq, Prod.mk.injEq] at h
      obtain ⟨rfl, _⟩ := h
      exact runWsEvs_inv cfg _ _ (setObj_inv _ _ _ hI)
    · simp only [Option.some.injEq, Prod.mk.injEq] at h
      obtain ⟨rfl, _⟩ := h
      exact runWsEvs_inv cfg _ _ (setObj_inv _ _ _ hI)
    · simp only [Option.some.injEq, Prod.mk.injEq] at h
      obtain ⟨rfl, _⟩ := h
      exact hI

/-- **the invariant is preserved by every op**, whichever stream object (current or orphaned) an application drives -/
theorem inv_step (cfg : Cfg) (token : Bytes → Bytes) (ext : Option Bytes) (st st' : St) (op : Op) (outs : List Out)
    (err : Option PyErr) (hI : Inv st) (hs : step cfg token ext st op = some (st', outs, err)) : Inv st' := by
  cases op with
  | begin =>
    simp only [step] at hs
    split at hs <;> simp at hs
    obtain ⟨rfl, _, _⟩ := hs
    exact hI
  | terminate =>
    simp only [step, Option.some.injEq, Prod.mk.injEq] at hs
    obtain ⟨rfl, _, _⟩ := hs
    exact hI
  | closed =>
    simp only [step, Option.some.injEq, Prod.mk.injEq] at hs
    obtain ⟨rfl, _, _⟩ := hs
    exact inv_of_cur_none _ (closeStream_cur st)
  | sendHttp i m =>
    simp only [step, Option.some.injEq] at hs
    have : Inv (appSendHttp cfg st i m).1 := by
      unfold appSendHttp
      split
      · simp only []
        split
        · exact setObj_inv _ _ _ (runHttpEvs_inv cfg _ _ (setObj_inv _ _ _ hI))
        · exact runHttpEvs_inv cfg _ _ (setObj_inv _ _ _ hI)
      · exact hI
    rw [hs] at this; exact this
  | sendWs i m =>
    simp only [step, Option.some.injEq] at hs
    have : Inv (appSendWs cfg token ext st i m).1 := by
      unfold appSendWs
      split
      · simp only []
        split
        · exact setObj_inv _ _ _ (runWsEvs_inv cfg _ _ (setObj_inv _ _ _ hI))
        · exact runWsEvs_inv cfg _ _ (setObj_inv _ _ _ hI)
      · exact hI
    rw [hs] at this; exact this
  | ev e =>
    simp only [step, Option.map_eq_some_iff] at hs
    obtain ⟨⟨s1, o1⟩, hev, heq⟩ := hs
    simp only [Prod.mk.injEq] at heq
    obtain ⟨rfl, _, _⟩ := heq
    unfold onLibEv at hev
    split at hev
    · cases hev
    · exact onLibEvBody_inv cfg _ _ e _ _ (loopTop_inv cfg st hI) hev


/-! ### the property theorems -/

/-- state transition of the protocol model, outputs dropped -/
def next (cfg : Cfg) (token : Bytes → Bytes) (ext : Option Bytes) (st : St) (op : Op) : Option St :=
  (step cfg token ext st op).map (·.1)

/-- every state reachable by any sequence of ops (library events, sends of any application, closes) satisfies `Inv` -/
theorem inv_reachable (cfg : Cfg) (token : Bytes → Bytes) (ext : Option Bytes) (ops : List Op) (st : St)
    (h : runOps (next cfg token ext) {} ops = some st) : Inv st := by
  refine inv_runOps (next cfg token ext) Inv (fun _ => True) ?_ ops {} st inv_init (fun _ _ => trivial) h
  intro s o s' _ hI hs
  simp only [next, Option.map_eq_some_iff] at hs
  obtain ⟨⟨s1, o1, e1⟩, hstep, rfl⟩ := hs
  exact inv_step cfg token ext s s1 o o1 e1 hI hstep

/-- **requests are served strictly one at a time**: in every reachable state, a new `Request` event is accepted only
    when no stream is live — a live stream (and its application) is never overwritten by the next pipelined request -/
theorem serial (cfg : Cfg) (token : Bytes → Bytes) (ext : Option Bytes) (ops : List Op) (st : St) (r : ReqEv)
    (res : St × List Out × Option PyErr)
    (hreach : runOps (next cfg token ext) {} ops = some st)
    (hstep : step cfg token ext st (.ev (.request r)) = some res) : st.cur = none := by
  have hI := inv_reachable cfg token ext ops st hreach
  simp only [step, Option.map_eq_some_iff] at hstep
  obtain ⟨⟨s1, o1⟩, hev, _⟩ := hstep
  unfold onLibEv at hev
  split at hev
  · cases hev
  · simp only [onLibEvBody] at hev
    split at hev
    · cases hev
    · rename_i lib' hl
      have hidle := (recvRequest_client _ _ _ hl).2
      -- the loop-top `100 Continue` leaves `cur` alone and cannot make the client side IDLE unless it already was
      have hcur : (loopTop cfg st).1.cur = st.cur := by
        unfold loopTop; split
        · exact (libSend_inv _ _ hI).2
        · rfl
      have hI' := loopTop_inv cfg st hI
      cases hc : st.cur with
      | none => rfl
      | some i =>
        exfalso
        exact hI' (by rw [hcur, hc]; rfl) hidle

theorem closeStream_outs (st : St) : ∀ o ∈ (closeStream st).2,
    (∃ a, o = Out.access a) ∨ (∃ i m, o = Out.putHttp i m) ∨ (∃ i m, o = Out.putWs i m) := by
  intro o ho
  unfold closeStream at ho
  split at ho
  · simp at ho
  · split at ho
    · simp at ho
    · simp only [List.mem_append, List.mem_filterMap, List.mem_map] at ho
      rcases ho with ⟨e, _, he⟩ | ⟨m, _, rfl⟩
      · split at he
        · simp only [Option.some.injEq] at he; exact Or.inl ⟨_, he.symm⟩
        · cases he
      · exact Or.inr (Or.inl ⟨_, _, rfl⟩)
    · simp only [List.mem_map] at ho
      obtain ⟨m, _, rfl⟩ := ho
      exact Or.inr (Or.inr ⟨_, _, rfl⟩)

/-- **the connection is reused iff request and response are both complete, neither side asked to close (h11 then has
    both sides DONE), the connection has not been lost (`handle(Closed)`, repair 1726ce9) and shutdown has not begun;
    otherwise `Closed` is sent** -/
theorem reuse_iff (st : St) :
    (Out.startNextCycle true ∈ (maybeRecycle st).2 ↔
      (st.closed = false ∧ st.terminated = false ∧ st.lib.server = .done ∧ st.lib.client = .done ∧ st.wsMode = false)) ∧
    (Out.upClosed ∈ (maybeRecycle st).2 ↔
      ¬ (st.closed = false ∧ st.terminated = false ∧ st.lib.server = .done ∧ st.lib.client = .done ∧ st.wsMode = false)) := by
  have hcs : ∀ o ∈ (closeStream st).2, o ≠ Out.startNextCycle true ∧ o ≠ Out.upClosed := by
    intro o ho
    rcases closeStream_outs st o ho with ⟨a, rfl⟩ | ⟨i, m, rfl⟩ | ⟨i, m, rfl⟩ <;> simp
  have hlib : (closeStream st).1.lib = st.lib ∧ (closeStream st).1.terminated = st.terminated ∧ (closeStream st).1.wsMode = st.wsMode ∧
      (closeStream st).1.closed = st.closed := by
    unfold closeStream; (repeat' split) <;> simp [St.setObj]
  obtain ⟨h1, h2, h3, h4⟩ := hlib
  have hn1 : Out.startNextCycle true ∉ (closeStream st).2 := fun h => (hcs _ h).1 rfl
  have hn2 : Out.upClosed ∉ (closeStream st).2 := fun h => (hcs _ h).2 rfl
  unfold maybeRecycle
  simp only [h1, h2, h3, h4]
  by_cases hc : st.closed = false ∧ st.terminated = false ∧ st.lib.server = .done ∧ st.lib.client = .done ∧ st.wsMode = false
  · obtain ⟨hcl0, ht, hs, hcl, hw⟩ := hc
    have hsn : H11M.startNextCycle st.lib = some { st.lib with client := .idle, server := .idle, waiting100 := false, reqHead := false, reqConnect := false } := by
      simp [H11M.startNextCycle, hs, hcl]
    simp [hcl0, ht, hs, hcl, hw, hsn, hn1, hn2]
  · have hcond : (!st.closed && !st.terminated && st.lib.server == .done && st.lib.client == .done && !st.wsMode) = false := by
      cases hc0 : st.closed <;> cases ht : st.terminated <;> cases hw : st.wsMode <;> simp_all
    simp [hcond, hn1, hn2, hc]

/-- `_maybe_recycle` never calls into h11's `send`: its outputs are the close-stream notifications, the cycle restart
    and the `Updated` / `Closed` events -/
theorem maybeRecycle_no_libSend (st : St) (e : LibSend) (ok : Bool) : Out.libSend e ok ∉ (maybeRecycle st).2 := by
  intro hmem
  have hcs := closeStream_outs st
  unfold maybeRecycle at hmem
  have hin : Out.libSend e ok ∈ (closeStream st).2 := by
    simp only [] at hmem
    (repeat' split at hmem) <;> simp at hmem <;> exact hmem
  rcases hcs _ hin with ⟨a, ha⟩ | ⟨j, m, ha⟩ | ⟨j, m, ha⟩ <;> cases ha

/-- **after a close decision nothing more is served**: if the protocol did not recycle when its current stream ended,
    h11 will never yield another `Request` on this connection (the client side is not IDLE and never returns to it) -/
theorem no_request_after_close (cfg : Cfg) (st : St) (r : ReqEv) (hI : Inv st) (hcur : st.cur.isSome = true)
    (hnot : ¬ (st.closed = false ∧ st.terminated = false ∧ st.lib.server = .done ∧ st.lib.client = .done ∧ st.wsMode = false)) :
    onLibEv cfg { (maybeRecycle st).1 with pc := .inLoop } (.request r) = none := by
  have hidle : st.lib.client ≠ .idle := hI hcur
  have hlib : (maybeRecycle st).1.lib = st.lib := by
    have hl : (closeStream st).1.lib = st.lib ∧ (closeStream st).1.terminated = st.terminated ∧ (closeStream st).1.wsMode = st.wsMode ∧
        (closeStream st).1.closed = st.closed := by
      unfold closeStream; (repeat' split) <;> simp [St.setObj]
    unfold maybeRecycle
    simp only [hl.1, hl.2.1, hl.2.2.1, hl.2.2.2]
    have hcond : (!st.closed && !st.terminated && st.lib.server == .done && st.lib.client == .done && !st.wsMode) = false := by
      cases hc0 : st.closed <;> cases ht : st.terminated <;> cases hw : st.wsMode <;> simp_all
    simp [hcond, hl.1]
  unfold onLibEv
  split
  · rfl
  · simp only [onLibEvBody]
    split
    · rfl
    · rename_i lib' hl
      exfalso
      have := (recvRequest_client _ _ _ hl).2
      -- the lib of the loop-top state has a client that is IDLE only if the recycled state's was
      have hlt : (loopTop cfg { (maybeRecycle st).1 with pc := .inLoop }).1.lib.client = .idle → st.lib.client = .idle := by
        intro hi
        unfold loopTop at hi
        split at hi
        · have hne : ({ (maybeRecycle st).1 with pc := .inLoop } : St).lib.client ≠ .idle := by simpa [hlib] using hidle
          exact absurd hi (libSend_client _ _ hne)
        · simpa [hlib] using hi
      exact hidle (hlt this)

/-- **close is announced on the response head** whenever the cause is known when the head is sent: the client asked
    (`Connection: close` / HTTP/1.0: h11's keep-alive flag is off) or the per-connection request maximum is reached -/
theorem close_announced (cfg : Cfg) (st : St) (status : Nat) (app : Headers) (hs : 200 ≤ status)
    (hcause : st.lib.keepAlive = false ∨ st.keepAliveRequests ≥ cfg.keepAliveMax) :
    ∃ hdrs, Proto.Heads.h11Response status app cfg.serverHeaders st.keepAliveRequests cfg.keepAliveMax = Proto.Heads.H11Head.final status hdrs ∧
      H11M.respAnnouncesClose st.lib (respInfo status hdrs) = true := by
  have hfin : Extracted.Guards.h11FinalStatusCmp.eval status 200 = true := by
    simp [Extracted.Guards.h11FinalStatusCmp, Extracted.Guards.Cmp.eval, hs]
  unfold Proto.Heads.h11Response
  rw [if_pos hfin]
  refine ⟨_, rfl, ?_⟩
  rcases hcause with hk | hm
  · simp [H11M.respAnnouncesClose, hk]
  · have hcmp : Extracted.Guards.h11KeepAliveCmp.eval st.keepAliveRequests cfg.keepAliveMax = true := by
      simp [Extracted.Guards.h11KeepAliveCmp, Extracted.Guards.Cmp.eval]; omega
    have : (respInfo status (app ++ (cfg.serverHeaders ++ [("connection".b, "close".b)]))).connClose = true := by
      simp only [respInfo, List.any_append, List.any_cons, List.any_nil, Bool.or_false]
      have : (Bytes.lower "connection".b == "connection".b && hasToken "close".b "close".b) = true := by decide
      simp [this]
    simp [hcmp, H11M.respAnnouncesClose, this]

/-- server-generated error responses (malformed request, 404 by server name, 500) always announce close -/
theorem error_response_announces_close (st : St) (status : Nat) (srv : Headers) :
    H11M.respAnnouncesClose st.lib (respInfo status ([("content-length".b, "0".b), ("connection".b, "close".b)] ++ srv)) = true := by
  have : (respInfo status (("content-length".b, "0".b) :: ("connection".b, "close".b) :: srv)).connClose = true := by
    simp only [respInfo, List.any_cons]
    have : (Bytes.lower "connection".b == "connection".b && hasToken "close".b "close".b) = true := by decide
    simp [this]
  simp [H11M.respAnnouncesClose, this]

/-! ### "neither side asked to close" and "an aborted or malformed message", over whole runs

`H11Close.step_closed`: one walk over the protocol model for predicates of (`request_complete`, h11 state) that every
library call preserves; three instances. -/

open HC.Proto.H11Close in
/-- a `Closed` predicate that holds in `st` holds after every accepted run from `st` -/
theorem closed_run {P : Bool → H11M.St → Prop} (hC : Closed P) (cfg : Cfg) (token : Bytes → Bytes) (ext : Option Bytes)
    (ops : List Op) (st st' : St) (h0 : R P st) (h : runOps (next cfg token ext) st ops = some st') : R P st' := by
  refine inv_runOps (next cfg token ext) (R P) (fun _ => True) ?_ ops st st' h0 (fun _ _ => trivial) h
  intro s o s' _ hI hs
  simp only [next, Option.map_eq_some_iff] at hs
  obtain ⟨⟨s1, o1, e1⟩, hstep, rfl⟩ := hs
  exact step_closed hC cfg token ext s s1 o o1 e1 hI hstep

/-- what the model hard-codes about `self.request_complete` and about the application's response head is what the source
    says now (extracted on every run): the flag is reset when a new `h11.Request` arrives, before its stream is created,
    and set at `EndOfMessage`; `HTTPStream.app_send` hands the validated headers of `http.response.start` to the protocol
    as they are (so h11 sees the application's own `connection: close`) -/
theorem close_sites_guard : Extracted.Guards.h11RequestResetsComplete = true ∧ Extracted.Guards.h11EomSetsComplete = true ∧
    Extracted.Guards.httpStartHeadersVerbatim = true ∧ Extracted.Guards.h11CloseOnFinalOnly = true := by decide

/-- **a protocol error is only ever ignored after a COMPLETE request**: the guard of `except h11.RemoteProtocolError: if <guard>:
    break` in `_handle_events`, extracted on every run as a function of its atoms (a stream is live, `request_complete`, h11's two
    states), is `stream is not None and request_complete` - whatever h11's writer is doing (the application may have begun its
    response while the body is still arriving).  The model's `malformed` branch evaluates the extracted guard (`errIgnored`);
    `malformed_body_closes` below needs this equation. -/
theorem error_ignored_only_after_complete_request (streamLive requestComplete : Bool) (our their : Nat) :
    Extracted.Guards.h11ErrorIgnored streamLive requestComplete our their = (streamLive && requestComplete) := by
  rfl

/-- **the server's own `connection: close` goes on final response heads only**: an interim head (status below 200: the
    101 of a websocket accept, whatever `keep_alive_requests` is) is the stream's headers followed by the configured ones
    and nothing else, so the upgrade that is the last request a connection may serve is still answered by the faithful
    rendering of the accept (placement of the append extracted: `close_sites_guard`) -/
theorem interim_head_never_announces_close (status : Nat) (app srv : Headers) (kar kmax : Nat) (hs : status < 200) :
    Proto.Heads.h11Response status app srv kar kmax = Proto.Heads.H11Head.informational status (app ++ srv) := by
  have hfin : Extracted.Guards.h11FinalStatusCmp.eval status 200 = false := by
    simp [Extracted.Guards.h11FinalStatusCmp, Extracted.Guards.Cmp.eval]; omega
  unfold Proto.Heads.h11Response
  simp [hfin]

/-- a new request starts incomplete: whatever the flag was (the previous request of a reused connection left it set) -/
theorem request_resets_complete (cfg : Cfg) (st st' : St) (o0 outs : List Out) (r : ReqEv)
    (h : onLibEvBody cfg st o0 (.request r) = some (st', outs)) : st'.requestComplete = false := by
  have key : ∀ (s : St) (e : LibSend), (libSend s e).1.requestComplete = s.requestComplete := by
    intro s e; unfold libSend; cases e <;> simp only [] <;> split <;> rfl
  have hmr : ∀ s : St, (maybeRecycle s).1.requestComplete = s.requestComplete := by
    intro s
    have := (Proto.H11Close.closeStream_key s).1
    unfold maybeRecycle; simp only []; (repeat' split) <;> simpa using this
  have hhttp : ∀ (evs : List Http.Ev) (s : St), (runHttpEvs cfg s evs).1.requestComplete = s.requestComplete := by
    intro evs
    induction evs with
    | nil => intro s; rfl
    | cons e es ih =>
      intro s
      simp only [runHttpEvs]
      have h1 : (httpStreamSend cfg s e).1.requestComplete = s.requestComplete := by
        cases e <;> simp only [httpStreamSend] <;> (try rfl) <;> (try exact key _ _) <;> (try exact hmr _)
        split <;> exact key _ _
      split
      · exact h1
      · rw [ih, h1]
  have hws : ∀ (evs : List Ws.Ev) (s : St), (runWsEvs cfg s evs).1.requestComplete = s.requestComplete := by
    intro evs
    induction evs with
    | nil => intro s; rfl
    | cons e es ih =>
      intro s
      simp only [runWsEvs]
      have h1 : (wsStreamSend cfg s e).1.requestComplete = s.requestComplete := by
        cases e <;> simp only [wsStreamSend] <;> (try rfl) <;> (try exact key _ _) <;> (try exact hmr _)
        split <;> exact key _ _
      split
      · exact h1
      · rw [ih, h1]
  simp only [onLibEvBody] at h
  split at h
  · cases h
  · split at h
    · simp only [Option.some.injEq, Prod.mk.injEq] at h
      obtain ⟨rfl, _⟩ := h
      exact key _ _
    · simp only [Option.some.injEq, Prod.mk.injEq] at h
      obtain ⟨rfl, _⟩ := h
      rfl
    · split at h
      · split at h
        · cases h
        · simp only [Option.some.injEq, Prod.mk.injEq] at h
          obtain ⟨rfl, _⟩ := h
          show (runWsEvs cfg _ _).1.requestComplete = false
          rw [hws]; rfl
      · simp only [Option.some.injEq, Prod.mk.injEq] at h
        obtain ⟨rfl, _⟩ := h
        show (_ : St × List Out × Bool).1.requestComplete = false
        split
        · rfl
        · rw [hhttp]; rfl

/-- **`request_complete` only ever refers to the request in progress**: in every reachable state, while h11 is still
    reading a request body (`their_state is SEND_BODY`) the flag is down - also on a reused connection, also for a
    pipelined request -/
theorem complete_means_body_over (cfg : Cfg) (token : Bytes → Bytes) (ext : Option Bytes) (ops : List Op) (st : St)
    (h : runOps (next cfg token ext) {} ops = some st) (hb : st.lib.client = .sendBody) : st.requestComplete = false := by
  have hR := closed_run Proto.H11Close.closed_RC cfg token ext ops {} st (by intro hc; cases hc) h
  cases hc : st.requestComplete
  · rfl
  · exact absurd hb (hR hc)

/-- **a message that goes wrong inside its body is never ignored** (reused connection or not): for every reachable state
    in which h11 is reading a request body, a RemoteProtocolError out of `next_event()` makes the protocol send `Closed`
    and leave the read loop; when h11's writer is still IDLE / SEND_RESPONSE the hinted error response (which announces
    close: `error_response_announces_close`) and its EndOfMessage go out first -/
theorem malformed_body_closes (cfg : Cfg) (token : Bytes → Bytes) (ext : Option Bytes) (ops : List Op) (st : St) (hint : Nat)
    (h : runOps (next cfg token ext) {} ops = some st) (hb : st.lib.client = .sendBody) (hpc : st.pc = .inLoop) (hsw : st.switched = false) :
    ∃ st' outs, onLibEv cfg st (.protoError hint) = some (st', outs) ∧ Out.upClosed ∈ outs ∧ st'.pc = .idle ∧
      (((H11M.recvError (loopTop cfg st).1.lib).server = .idle ∨ (H11M.recvError (loopTop cfg st).1.lib).server = .sendResponse) →
        ∃ hs ok, Out.libSend (.response hint ([("content-length".b, "0".b), ("connection".b, "close".b)] ++ hs)) ok ∈ outs) := by
  have hrc := complete_means_body_over cfg token ext ops st h hb
  have hlt : (loopTop cfg st).1.requestComplete = false := by
    unfold loopTop; split
    · have key : ∀ (s : St) (e : LibSend), (libSend s e).1.requestComplete = s.requestComplete := by
        intro s e; unfold libSend; cases e <;> simp only [] <;> split <;> rfl
      rw [key]; exact hrc
    · exact hrc
  unfold onLibEv
  have hc : (st.pc != .inLoop || st.switched) = false := by simp [hpc, hsw]
  rw [if_neg (by simp [hc])]
  have hign : errIgnored { (loopTop cfg st).1 with lib := H11M.recvError (loopTop cfg st).1.lib } = false := by
    rw [errIgnored_eq error_ignored_only_after_complete_request]; simp only [hlt, Bool.and_false]
  simp only [onLibEvBody, hign, Bool.false_eq_true, if_false]
  refine ⟨_, _, rfl, by simp, rfl, ?_⟩
  intro hst
  have hcond : ((H11M.recvError (loopTop cfg st).1.lib).server == .idle || (H11M.recvError (loopTop cfg st).1.lib).server == .sendResponse) = true := by
    rcases hst with h1 | h1 <;> simp [h1]
  simp only [hcond, if_true]
  refine ⟨cfg.serverHeaders, ?_⟩
  unfold libSend
  simp only []
  split
  · exact ⟨true, by simp⟩
  · exact ⟨false, by simp⟩

/-- the response head the protocol hands to h11 for an application's `http.response.start` carries the application's
    headers first and unchanged (status 200 and up) -/
theorem app_headers_reach_h11 (cfg : Cfg) (st : St) (status : Nat) (app : Headers) (hs : 200 ≤ status) :
    ∃ rest, Proto.Heads.h11Response status app cfg.serverHeaders st.keepAliveRequests cfg.keepAliveMax = Proto.Heads.H11Head.final status (app ++ rest) := by
  have hfin : Extracted.Guards.h11FinalStatusCmp.eval status 200 = true := by
    simp [Extracted.Guards.h11FinalStatusCmp, Extracted.Guards.Cmp.eval, hs]
  unfold Proto.Heads.h11Response
  rw [if_pos hfin]
  exact ⟨_, by rw [List.append_assoc]⟩

/-- **either side asking to close ends the connection's reuse for good**: once a response head with `connection: close`
    (the application's own header, the server's at the request maximum or on an error response) was accepted by h11 - or
    the client asked (`Connection: close`, HTTP/1.0), i.e. h11's keep-alive flag is off in `st` - then after ANY further
    ops the end of the current stream does not recycle the connection: no `start_next_cycle`, `Closed` is sent -/
theorem asked_to_close_never_reused (cfg : Cfg) (token : Bytes → Bytes) (ext : Option Bytes) (ops ops' : List Op) (st st' : St)
    (h : runOps (next cfg token ext) {} ops = some st) (hoff : st.lib.keepAlive = false)
    (h' : runOps (next cfg token ext) st ops' = some st') :
    Out.startNextCycle true ∉ (maybeRecycle st').2 ∧ Out.upClosed ∈ (maybeRecycle st').2 := by
  have hoff' : st'.lib.keepAlive = false := closed_run Proto.H11Close.closed_off cfg token ext ops' st st' hoff h'
  have hka : Proto.H11Close.KA st'.lib :=
    closed_run Proto.H11Close.closed_KA cfg token ext (ops ++ ops') {} st' (by intro hk; cases hk)
      (by rw [runOps_append, h]; exact h')
  have hnd : st'.lib.server ≠ .done := hka hoff'
  have hr := reuse_iff st'
  constructor
  · intro hm; exact hnd (hr.1.mp hm).2.2.1
  · exact hr.2.mpr (fun hc => hnd hc.2.2.1)

/-- the application's `connection: close` turns h11's keep-alive flag off when its head is sent -/
theorem app_close_turns_keepalive_off (st : St) (status : Nat) (hdrs : Headers)
    (hc : (respInfo status hdrs).connClose = true) (hok : Out.libSend (.response status hdrs) true ∈ (libSend st (.response status hdrs)).2.1) :
    (libSend st (.response status hdrs)).1.lib.keepAlive = false := by
  unfold libSend at hok ⊢
  simp only [] at hok ⊢
  split
  · rename_i lib' hl
    exact Proto.H11Close.sendResponse_close_off _ _ _ hc hl
  · rename_i hl
    rw [hl] at hok
    simp at hok

/-! ### an aborted exchange: a write of the response failed, the worker's shell told the protocol `Closed`

The two halves of "an aborted message closes the connection without processing further requests" when the abort is seen
by the WRITER (the reader is parked behind a pipelined request and does not read the end of the stream):
* shell (`HC/Conn/Shell.lean`, `Runtime` records extracted from the two `tcp_server.py`): a `send(RawData)` that cannot be
  written calls `protocol.handle(Closed())` - for both workers (`failed_write_tells_protocol`);
* protocol: from then on (`self.closed` set while h11's reader side is past IDLE) no op whatsoever - the application
  finishing its response into the void, h11 reaching DONE / DONE, the released reader looping - recycles the connection or
  starts another instance, and a `Request` event is not enabled (`aborted_exchange_never_reused`). -/

/-- `self.closed` is set while h11's reader side is past IDLE (a request is in progress, or complete and not recycled);
    `n` application instances started and `c` recycles so far -/
def Lost (n c : Nat) (st : St) : Prop := st.closed = true ∧ st.lib.client ≠ .idle ∧ st.spawns = n ∧ st.cycles = c

private theorem lost_mk (n c : Nat) (st st' : St) (h : Lost n c st) (h1 : st'.closed = st.closed) (h2 : st'.lib.client ≠ .idle)
    (h3 : st'.spawns = st.spawns) (h4 : st'.cycles = st.cycles) : Lost n c st' := by
  unfold Lost at *; rw [h1, h3, h4]; exact ⟨h.1, h2, h.2.2.1, h.2.2.2⟩

private theorem libSend_keeps (st : St) (e : LibSend) : (libSend st e).1.closed = st.closed ∧ (libSend st e).1.spawns = st.spawns ∧
    (libSend st e).1.cycles = st.cycles := by
  unfold libSend
  cases e <;> simp only [] <;> split <;> exact ⟨rfl, rfl, rfl⟩

private theorem libSend_lost (n c : Nat) (st : St) (e : LibSend) (h : Lost n c st) : Lost n c (libSend st e).1 :=
  lost_mk n c st _ h (libSend_keeps st e).1 (libSend_client st e h.2.1) (libSend_keeps st e).2.1 (libSend_keeps st e).2.2

private theorem closeStream_keeps (st : St) : (closeStream st).1.closed = st.closed ∧ (closeStream st).1.lib = st.lib ∧
    (closeStream st).1.spawns = st.spawns ∧ (closeStream st).1.cycles = st.cycles := by
  unfold closeStream; (repeat' split) <;> simp [St.setObj]

private theorem closeStream_lost (n c : Nat) (st : St) (h : Lost n c st) : Lost n c (closeStream st).1 := by
  obtain ⟨k1, k2, k3, k4⟩ := closeStream_keeps st
  exact lost_mk n c st _ h k1 (by rw [k2]; exact h.2.1) k3 k4

/-- with `self.closed` set, the end of a stream never recycles: `not self.closed` is the first conjunct of the test -/
private theorem maybeRecycle_lost (n c : Nat) (st : St) (h : Lost n c st) : Lost n c (maybeRecycle st).1 := by
  have hc := closeStream_lost n c st h
  unfold maybeRecycle
  simp only []
  split
  · rename_i hcond
    exfalso
    have h1 : (closeStream st).1.closed = true := hc.1
    simp [h1] at hcond
  · exact ⟨rfl, hc.2.1, hc.2.2.1, hc.2.2.2⟩

private theorem httpStreamSend_lost (n c : Nat) (cfg : Cfg) (st : St) (e : Http.Ev) (h : Lost n c st) : Lost n c (httpStreamSend cfg st e).1 := by
  cases e <;> simp only [httpStreamSend]
  · split <;> exact libSend_lost n c _ _ h
  · exact h
  · exact libSend_lost n c _ _ h
  · exact libSend_lost n c _ _ h
  · exact h
  · exact h
  · exact maybeRecycle_lost n c st h
  · exact h
  · exact h

private theorem wsStreamSend_lost (n c : Nat) (cfg : Cfg) (st : St) (e : Ws.Ev) (h : Lost n c st) : Lost n c (wsStreamSend cfg st e).1 := by
  cases e <;> simp only [wsStreamSend]
  · split <;> exact libSend_lost n c _ _ h
  · exact libSend_lost n c _ _ h
  · exact libSend_lost n c _ _ h
  · exact h
  · exact h
  · exact maybeRecycle_lost n c st h
  · exact h
  · exact h
  · exact h

private theorem runHttpEvs_lost (n c : Nat) (cfg : Cfg) : ∀ (evs : List Http.Ev) (st : St), Lost n c st → Lost n c (runHttpEvs cfg st evs).1 := by
  intro evs
  induction evs with
  | nil => intro st h; exact h
  | cons e es ih =>
    intro st h
    simp only [runHttpEvs]
    have h1 := httpStreamSend_lost n c cfg st e h
    split
    · exact h1
    · exact ih _ h1

private theorem runWsEvs_lost (n c : Nat) (cfg : Cfg) : ∀ (evs : List Ws.Ev) (st : St), Lost n c st → Lost n c (runWsEvs cfg st evs).1 := by
  intro evs
  induction evs with
  | nil => intro st h; exact h
  | cons e es ih =>
    intro st h
    simp only [runWsEvs]
    have h1 := wsStreamSend_lost n c cfg st e h
    split
    · exact h1
    · exact ih _ h1

private theorem setObj_lost (n c : Nat) (st : St) (i : Nat) (o : Stream) (h : Lost n c st) : Lost n c (st.setObj i o) := h

private theorem loopTop_lost (n c : Nat) (cfg : Cfg) (st : St) (h : Lost n c st) : Lost n c (loopTop cfg st).1 := by
  unfold loopTop
  split
  · exact libSend_lost n c _ _ h
  · exact h

private theorem lost_lib (n c : Nat) (st : St) (lib' : H11M.St) (h : Lost n c st) (hc : lib'.client ≠ .idle) :
    Lost n c { st with lib := lib' } := ⟨h.1, hc, h.2.2.1, h.2.2.2⟩

private theorem lost_pc (n c : Nat) (st : St) (p : Pc) (h : Lost n c st) : Lost n c { st with pc := p } := h

private theorem onLibEvBody_lost (n c : Nat) (cfg : Cfg) (st : St) (o0 : List Out) (e : LibEv) (s1 : St) (o1 : List Out)
    (hL : Lost n c st) (h : onLibEvBody cfg st o0 e = some (s1, o1)) : Lost n c s1 := by
  cases e with
  | protoError hint =>
    simp only [onLibEvBody] at h
    have hl := lost_lib n c st _ hL (recvError_client st.lib)
    split at h
    · simp only [Option.some.injEq, Prod.mk.injEq] at h
      obtain ⟨rfl, _⟩ := h
      exact lost_pc n c _ _ hl
    · split at h
      all_goals
        simp only [Option.some.injEq, Prod.mk.injEq] at h
        obtain ⟨rfl, _⟩ := h
      · exact libSend_lost n c _ _ (libSend_lost n c _ _ hl)
      · exact hl
  | request r =>
    -- h11 yields a `Request` only from IDLE
    simp only [onLibEvBody] at h
    split at h
    · cases h
    · rename_i lib' hl
      exact absurd (recvRequest_client _ _ _ hl).2 hL.2.1
  | paused =>
    simp only [onLibEvBody] at h
    split at h <;> (simp only [Option.some.injEq, Prod.mk.injEq] at h; obtain ⟨rfl, _⟩ := h; exact hL)
  | needData =>
    simp only [onLibEvBody, Option.some.injEq, Prod.mk.injEq] at h
    obtain ⟨rfl, _⟩ := h
    exact hL
  | connClosed =>
    simp only [onLibEvBody] at h
    split at h
    · cases h
    · rename_i lib' hl
      simp only [Option.some.injEq, Prod.mk.injEq] at h
      obtain ⟨rfl, _⟩ := h
      exact lost_pc n c _ _ (lost_lib n c st _ hL (stepClient_client _ _ _ hl))
  | data d =>
    simp only [onLibEvBody] at h
    split at h
    · cases h
    · rename_i lib' hl
      have hc : lib'.client ≠ .idle := by
        simp only [H11M.recvData, Option.map_eq_some_iff] at hl
        obtain ⟨x, hx, rfl⟩ := hl
        simpa using stepClient_client _ _ _ hx
      have hl' := lost_lib n c st _ hL hc
      (repeat' split at h) <;> (try (cases h; done)) <;>
        (simp only [Option.some.injEq, Prod.mk.injEq] at h; obtain ⟨rfl, _⟩ := h; exact hl')
  | eom =>
    simp only [onLibEvBody] at h
    split at h
    · cases h
    · rename_i lib' hl
      have hc : lib'.client ≠ .idle := by
        simp only [H11M.recvEom, Option.map_eq_some_iff] at hl
        obtain ⟨x, hx, rfl⟩ := hl
        simpa using stepClient_client _ _ _ hx
      have hl' := lost_lib n c st _ hL hc
      (repeat' split at h) <;> (try (cases h; done)) <;>
        (simp only [Option.some.injEq, Prod.mk.injEq] at h; obtain ⟨rfl, _⟩ := h; exact hl')
  | wsData d evs =>
    simp only [onLibEvBody] at h
    (repeat' split at h) <;> (try (cases h; done))
    · simp only [Option.some.injEq, Prod.mk.injEq] at h
      obtain ⟨rfl, _⟩ := h
      exact runWsEvs_lost n c cfg _ _ (setObj_lost n c _ _ _ hL)
    · simp only [Option.some.injEq, Prod.mk.injEq] at h
      obtain ⟨rfl, _⟩ := h
      exact runWsEvs_lost n c cfg _ _ (setObj_lost n c _ _ _ hL)
    · simp only [Option.some.injEq, Prod.mk.injEq] at h
      obtain ⟨rfl, _⟩ := h
      exact hL

/-- `Lost` is preserved by every op: library events, sends of any application (current or orphaned), closes, termination -/
theorem lost_step (n c : Nat) (cfg : Cfg) (token : Bytes → Bytes) (ext : Option Bytes) (st st' : St) (op : Op) (outs : List Out)
    (err : Option PyErr) (hL : Lost n c st) (hs : step cfg token ext st op = some (st', outs, err)) : Lost n c st' := by
  cases op with
  | begin =>
    simp only [step] at hs
    split at hs <;> simp at hs
    obtain ⟨rfl, _, _⟩ := hs
    exact hL
  | terminate =>
    simp only [step, Option.some.injEq, Prod.mk.injEq] at hs
    obtain ⟨rfl, _, _⟩ := hs
    exact hL
  | closed =>
    simp only [step, Option.some.injEq, Prod.mk.injEq] at hs
    obtain ⟨rfl, _, _⟩ := hs
    have hc := closeStream_lost n c st hL
    exact ⟨rfl, hc.2.1, hc.2.2.1, hc.2.2.2⟩
  | sendHttp i m =>
    simp only [step, Option.some.injEq] at hs
    have : Lost n c (appSendHttp cfg st i m).1 := by
      unfold appSendHttp
      split
      · simp only []
        split
        · exact setObj_lost n c _ _ _ (runHttpEvs_lost n c cfg _ _ (setObj_lost n c _ _ _ hL))
        · exact runHttpEvs_lost n c cfg _ _ (setObj_lost n c _ _ _ hL)
      · exact hL
    rw [hs] at this; exact this
  | sendWs i m =>
    simp only [step, Option.some.injEq] at hs
    have : Lost n c (appSendWs cfg token ext st i m).1 := by
      unfold appSendWs
      split
      · simp only []
        split
        · exact setObj_lost n c _ _ _ (runWsEvs_lost n c cfg _ _ (setObj_lost n c _ _ _ hL))
        · exact runWsEvs_lost n c cfg _ _ (setObj_lost n c _ _ _ hL)
      · exact hL
    rw [hs] at this; exact this
  | ev e =>
    simp only [step, Option.map_eq_some_iff] at hs
    obtain ⟨⟨s1, o1⟩, hev, heq⟩ := hs
    simp only [Prod.mk.injEq] at heq
    obtain ⟨rfl, _, _⟩ := heq
    unfold onLibEv at hev
    split at hev
    · cases hev
    · exact onLibEvBody_lost n c cfg _ _ e _ _ (loopTop_lost n c cfg st hL) hev

/-- in a `Lost` state a `Request` event is not enabled: h11 yields one only from IDLE -/
theorem lost_no_request (n c : Nat) (cfg : Cfg) (token : Bytes → Bytes) (ext : Option Bytes) (st : St) (r : ReqEv) (hL : Lost n c st) :
    step cfg token ext st (.ev (.request r)) = none := by
  cases hres : step cfg token ext st (.ev (.request r)) with
  | none => rfl
  | some res =>
    exfalso
    simp only [step, Option.map_eq_some_iff] at hres
    obtain ⟨⟨s1, o1⟩, hev, _⟩ := hres
    unfold onLibEv at hev
    split at hev
    · cases hev
    · simp only [onLibEvBody] at hev
      split at hev
      · cases hev
      · rename_i lib' hl
        exact (loopTop_lost n c cfg st hL).2.1 (recvRequest_client _ _ _ hl).2

/-- **the worker tells the protocol when a write fails** (both workers, `Runtime` records extracted from the two
    `tcp_server.py` on every run): a `send(RawData)` on a transport that is broken or already closed, and a write that fails
    later in `drain()`, each call `protocol.handle(Closed())` - at once, not through the read loop, which is parked behind a
    pipelined request exactly when it matters and would never see the end of the stream -/
theorem failed_write_tells_protocol (rt : Conn.Shell.Runtime) (hrt : rt = Extracted.Runtime.asyncioRt ∨ rt = Extracted.Runtime.trioRt)
    (s s' : Conn.Shell.St) :
    (∀ d, (s.transportClosed = true ∨ s.writeBroken = true) → Conn.Shell.step rt s (.pRaw d) = some s' →
      s'.handled = s.handled ++ [(.closed, !s.transportClosed)]) ∧
    (Conn.Shell.step rt s .drainFail = some s' → s'.handled = s.handled ++ [(.closed, !s.transportClosed)]) := by
  have hw : rt.writeErrorClosesProtocol = true := by rcases hrt with rfl | rfl <;> rfl
  constructor
  · intro d hb h
    have hb' : (s.transportClosed || s.writeBroken) = true := by rcases hb with hb | hb <;> simp [hb]
    simp only [Conn.Shell.step, hb', hw, if_true, Option.some.injEq] at h
    subst h
    rfl
  · intro h
    simp only [Conn.Shell.step, hw, if_true, Option.some.injEq] at h
    subst h
    rfl

/-- **an aborted exchange ends the connection's reuse for good**: in any state in which h11 is inside an exchange (its reader
    side is past IDLE: a request is being read or answered - in particular whenever a stream is live, `Inv`), once the protocol
    is told `Closed` (the worker does so when a write of the response fails: `failed_write_tells_protocol`), then after ANY
    further ops - the application finishing its response into the void so that h11 reaches DONE / DONE, the reader released
    from behind a parked pipelined request - no further instance has been started, the connection has not been recycled, and
    h11 cannot even yield the pipelined `Request` -/
theorem aborted_exchange_never_reused (cfg : Cfg) (token : Bytes → Bytes) (ext : Option Bytes) (ops : List Op) (st st1 st' : St)
    (o : List Out) (e : Option PyErr) (r : ReqEv)
    (hbusy : st.lib.client ≠ .idle)
    (hc : step cfg token ext st .closed = some (st1, o, e))
    (h' : runOps (next cfg token ext) st1 ops = some st') :
    st'.spawns = st.spawns ∧ st'.cycles = st.cycles ∧ st'.closed = true ∧ step cfg token ext st' (.ev (.request r)) = none := by
  have h1 : Lost st.spawns st.cycles st1 := by
    simp only [step, Option.some.injEq, Prod.mk.injEq] at hc
    obtain ⟨rfl, _, _⟩ := hc
    obtain ⟨_, k2, k3, k4⟩ := closeStream_keeps st
    exact ⟨rfl, by simpa [k2] using hbusy, k3, k4⟩
  have hL : Lost st.spawns st.cycles st' := by
    refine inv_runOps (next cfg token ext) (Lost st.spawns st.cycles) (fun _ => True) ?_ ops st1 st' h1 (fun _ _ => trivial) h'
    intro s op s' _ hI hs
    simp only [next, Option.map_eq_some_iff] at hs
    obtain ⟨⟨s2, o2, e2⟩, hstep, rfl⟩ := hs
    exact lost_step _ _ cfg token ext s s2 op o2 e2 hI hstep
  exact ⟨hL.2.2.1, hL.2.2.2, hL.1, lost_no_request _ _ cfg token ext st' r hL⟩

/-- … in particular whenever a stream is live in a reachable state (a response can only be written for a live stream) -/
theorem live_stream_is_busy (cfg : Cfg) (token : Bytes → Bytes) (ext : Option Bytes) (ops : List Op) (st : St)
    (h : runOps (next cfg token ext) {} ops = some st) (hcur : st.cur.isSome = true) : st.lib.client ≠ .idle :=
  inv_reachable cfg token ext ops st h hcur

-- non-vacuity: a two-request pipeline in one read, the second parked until the first response completed
example :
    let req : ReqEv := { method := "GET".b, target := "/a".b, headers := [("host".b, "x".b)], version := "1.1".b }
    let ops : List Op := [.begin, .ev (.request req), .ev .eom, .ev .paused,
      .sendHttp 0 (some (.start (some 200) (some []) false)), .sendHttp 0 (some (.body none false)),
      .ev (.request req)]
    ((runOps (next { keepAliveMax := 10 } (fun _ => []) none) {} ops).map (fun s => (s.cur, s.cycles, s.spawns))) = some (some 1, 1, 2) := by
  decide

-- non-vacuity: a REUSED connection whose second request goes wrong inside its chunked body: the flag left by the first
-- request is down again, the error is answered (400 + close) and `Closed` is sent
private def exGet : ReqEv := { method := "GET".b, target := "/a".b, headers := [("host".b, "x".b)], version := "1.1".b }
private def exPost : ReqEv :=
  { method := "POST".b, target := "/b".b, headers := [("host".b, "x".b), ("transfer-encoding".b, "chunked".b)], version := "1.1".b }
private def exReused : Option St :=
  runOps (next { keepAliveMax := 10 } (fun _ => []) none) {} [.begin, .ev (.request exGet), .ev .eom, .ev .paused,
    .sendHttp 0 (some (.start (some 200) (some []) false)), .sendHttp 0 (some (.body none false)),
    .ev (.request exPost), .ev (.data "ab".b)]
set_option maxRecDepth 8000 in
example : exReused.map (fun s => (s.cycles, decide (s.lib.client = .sendBody), decide (s.pc = .inLoop), s.requestComplete)) =
    some (1, true, true, false) := by decide
set_option maxRecDepth 8000 in
example : (exReused.bind (fun s => onLibEv { keepAliveMax := 10 } s (.protoError 400))).map (fun r => (r.2.contains .upClosed,
    r.2.contains (.libSend (.response 400 [("content-length".b, "0".b), ("connection".b, "close".b)]) true))) = some (true, true) := by decide

-- non-vacuity: the application answers with its own `connection: close`: keep-alive goes off, the connection is not
-- recycled (no cycle restart, `closed` set), and the pipelined request is never accepted
set_option maxRecDepth 8000 in
example :
    let req : ReqEv := { method := "GET".b, target := "/a".b, headers := [("host".b, "x".b)], version := "1.1".b }
    let ops : List Op := [.begin, .ev (.request req), .ev .eom, .ev .paused,
      .sendHttp 0 (some (.start (some 200) (some [(.bytes "Connection".b, .bytes "close".b)]) false)), .sendHttp 0 (some (.body none false))]
    ((runOps (next { keepAliveMax := 10 } (fun _ => []) none) {} ops).map (fun s => (s.lib.keepAlive, s.cycles, s.closed, s.cur,
      (onLibEv { keepAliveMax := 10 } s (.request req)).isSome))) = some (false, 0, true, none, false) := by
  decide

-- non-vacuity: two pipelined requests in one read, the reader parked behind the second; the write of response 1's head fails and
-- the worker tells the protocol `Closed` (the same ops WITHOUT `.closed` recycle and accept the second request: first example
-- above): the released reader meets PAUSED again and leaves, whatever the application still sends goes nowhere, nothing is
-- recycled, no second instance, and the pipelined `Request` is not enabled
set_option maxRecDepth 8000 in
example :
    let req : ReqEv := { method := "GET".b, target := "/a".b, headers := [("host".b, "x".b)], version := "1.1".b }
    let ops : List Op := [.begin, .ev (.request req), .ev .eom, .ev .paused,
      .sendHttp 0 (some (.start (some 200) (some []) false)), .closed, .ev .paused,
      .sendHttp 0 (some (.body none false)), .sendHttp 0 none]
    ((runOps (next { keepAliveMax := 10 } (fun _ => []) none) {} ops).map (fun s => (s.cycles, s.spawns, s.closed, s.cur,
      decide (s.pc = .idle), (step { keepAliveMax := 10 } (fun _ => []) none s (.ev (.request req))).isSome))) =
      some (0, 1, true, none, true, false) := by
  decide

-- non-vacuity of `failed_write_tells_protocol`: on a broken transport the asyncio shell's log of `protocol.handle` calls gains
-- exactly `Closed` (transport still open), nothing is written
example :
    ((Conn.Shell.run Extracted.Runtime.asyncioRt {} [.read [71], .peerGone, .pRaw [72]]).map (fun s => (s.handled, s.written))) =
      some ([(.raw [71], true), (.closed, true)], []) := by
  decide

end HC.Props.C06
