import HC.Conn.Inv
import HC.Extracted.WsSeq
/-!
# C03 — exactly-once disconnect and access record; sends after close are no-ops

Theorems about `HC.Conn.Server` for **every** configuration (protocol, worker, queue capacity, timeout) and **every**
operation sequence (all schedules of reader, applications, timer, closer tasks; all close sources).
`handed` is the ordered list of messages given to `app_put` for an instance, `recvd` what `receive()` returned.
-/
namespace HC.Props.C03
open HC.Conn HC.Extracted.ConnGuards

/-- the extracted guards the proofs below were checked against (a change in the source regenerates these to `false`
    or breaks the extractor, which re-opens the proofs) -/
theorem guards_as_extracted :
    httpHandleClosedGuard = true ∧ wsHandleClosedGuard = true ∧ httpClosedBeforePut = true ∧ wsClosedBeforePut = true ∧
    httpPutIsDisconnect = true ∧ wsPutIsDisconnect = true ∧ wsSendClosedGuard = true ∧ httpExitClosedGuard = true ∧
    httpStreamClosedLogsUnlessEnded = true ∧ httpLogGuardedClosed = true ∧ httpLogGuardedError = true ∧
    httpStateClosedBeforeLogClosed = true ∧ httpStateClosedBeforeLogError = true ∧ h11CloseStreamForgets = true ∧
    h2CloseStreamPopsFirst = true ∧ httpSendsBeforeStateClosedClosed = true ∧ httpSendsBeforeStateClosedError = true ∧
    h2ClosedTellsEveryStream = true ∧ h2ClosedReleasesBuffers = true := by decide

/-- **every report of `Closed` reaches every registered stream**, whether or not the connection was already marked closed:
    `protocol.handle(Closed())` is, on both protocols and from any state, the program that closes each stream registered
    at that moment (then releases waiting senders and a parked reader).  `Closed` is reported by several parties (a failed
    write, the reader's end, the idle timer) and HTTP/2 registers new streams on a closed connection, so the report that
    comes last must not be skipped -/
theorem closed_tells_every_stream (f : Nat) (s : St) (w : Who) (rest : List Instr) :
    exec (f + 1) s w (.handleClosed :: rest) =
      exec f { s with pclosed := true } w (s.live.map Instr.closeStream ++ [.releaseDrains none] ++ [.canReadSet] ++ rest) := by
  simp [exec, h2ClosedTellsEveryStream, h11ClosedSetsFlag, h11ClosedClosesStream, h11ClosedReleasesReader]

/-- … and telling a registered stream closes it: afterwards the stream is closed, and if it was open with an application
    its disconnect has been handed over in that very action (at most its put is still waiting for room: F08) -/
theorem close_stream_tells (s : St) (w : Who) (i : Nat) (pop : Bool) (hl : i ∈ s.live) :
    ((closeStreamP s w i pop).1.inst i).closed = true ∧
    ((s.inst i).closed = false → (s.inst i).hasApp = true →
      ((closeStreamP s w i pop).1.inst i).discPuts = (s.inst i).discPuts + 1) := by
  have hc : s.live.contains i = true := by simpa using hl
  obtain ⟨m1, _, _, _, m5, _, m7, _⟩ := markStreamClosed_fields (s.inst i)
  unfold closeStreamP
  simp only [hc, Bool.not_true, Bool.false_eq_true, if_false]
  split
  · rename_i hg
    simp only [Bool.and_eq_true] at hg
    exact ⟨hg.2, fun h0 => by rw [h0] at hg; exact absurd hg.2 (by simp)⟩
  · split
    · rename_i ha
      have e : ((offer (({ s with live := if pop = true then s.live.erase i else s.live } : St).setInst i (s.inst i).markStreamClosed |>.emit
          (if (s.inst i).streamClosedLogs then [.access i none] else [])) w i .disconnect).1.inst i) =
          ((s.inst i).markStreamClosed.offer s.cfg.cap w .disconnect).1 := by
        simp [offer, St.setInst, St.emit, upd]
      refine ⟨?_, fun _ _ => ?_⟩
      · rw [e, (offer_same _ _ _ _).1]; exact m1
      · rw [e, (offer_counts _ _ _ _).1, m7]; simp
    · rename_i ha
      refine ⟨by simp [St.setInst, St.emit, upd, m1], fun _ h1 => absurd h1 ha⟩

/-- **disconnect_at_most_once**: at every moment of every run, at most one disconnect has been handed to an instance
    and nothing was handed over after it -/
theorem disconnect_at_most_once (cfg : Cfg) (ops : List Op) (s : St) (hr : run (init cfg) ops = some s) (i : Nat) :
    (s.inst i).discPuts ≤ 1 ∧ (s.inst i).afterDisc = 0 :=
  ⟨((reachable_inv cfg ops s hr).inst i).d1, ((reachable_inv cfg ops s hr).inst i).d2⟩

/-- **nothing_after_disconnect**, stated on the message lists themselves: the disconnect occurs at most once in what
    was handed over, only as the last element; what the application received is a prefix of it (FIFO, nothing invented) -/
theorem nothing_after_disconnect (cfg : Cfg) (ops : List Op) (s : St) (hr : run (init cfg) ops = some s) (i : Nat) :
    (∀ pre post, (s.inst i).handed = pre ++ [QMsg.disconnect] ++ post → post = [] ∧ QMsg.disconnect ∉ pre) ∧
    (∃ rest, (s.inst i).handed = (s.inst i).recvd ++ rest) := by
  have hI := (reachable_inv cfg ops s hr).inst i
  refine ⟨?_, ⟨(s.inst i).inflight.toList ++ (s.inst i).q ++ (s.inst i).waiting.map Prod.snd, by rw [hI.fifo]; simp [List.append_assoc]⟩⟩
  intro pre post he
  have hmem : QMsg.disconnect ∈ (s.inst i).handed := by rw [he]; simp
  have h1 : (s.inst i).discPuts = 1 := by
    have := hI.d1
    by_cases hz : (s.inst i).discPuts = 0
    · exact absurd hmem (hI.d5 hz)
    · omega
  obtain ⟨pre', e', hn'⟩ := hI.d6 h1
  rw [e'] at he
  -- pre' ++ [d] = pre ++ [d] ++ post with d ∉ pre'
  have : post = [] := by
    cases hp : post.reverse with
    | nil => simpa using hp
    | cons x xs =>
      have hpost : post = xs.reverse ++ [x] := by
        have := congrArg List.reverse hp; simpa using this
      rw [hpost] at he
      have he2 : pre' ++ [QMsg.disconnect] = (pre ++ [QMsg.disconnect] ++ xs.reverse) ++ [x] := by simpa [List.append_assoc] using he
      have := List.append_inj' he2 rfl
      have hpre : pre' = pre ++ [QMsg.disconnect] ++ xs.reverse := this.1
      exact absurd (by rw [hpre]; simp) hn'
  subst this
  refine ⟨rfl, ?_⟩
  have he2 : pre' ++ [QMsg.disconnect] = pre ++ [QMsg.disconnect] := by simpa using he
  have := List.append_inj' he2 rfl
  rw [← this.1]; exact hn'

/-- … hence in what the application *received* nothing follows the disconnect -/
theorem received_disconnect_is_last (cfg : Cfg) (ops : List Op) (s : St) (hr : run (init cfg) ops = some s) (i : Nat)
    (pre post : List QMsg) (he : (s.inst i).recvd = pre ++ [QMsg.disconnect] ++ post) : post = [] := by
  obtain ⟨h1, rest, h2⟩ := nothing_after_disconnect cfg ops s hr i
  have := h1 pre (post ++ rest) (by rw [h2, he]; simp [List.append_assoc])
  have h3 := this.1
  simp at h3
  exact h3.1

/-- **the disconnect is put in the same atomic action that closes the stream**: a closed stream with an application has
    been handed exactly one disconnect (whatever the queue's fill state), and only a closed stream has -/
theorem disconnect_with_close (cfg : Cfg) (ops : List Op) (s : St) (hr : run (init cfg) ops = some s) (i : Nat) :
    ((s.inst i).closed = true → (s.inst i).hasApp = true → (s.inst i).discPuts = 1) ∧
    ((s.inst i).discPuts = 1 → (s.inst i).closed = true) :=
  ⟨((reachable_inv cfg ops s hr).inst i).d4, ((reachable_inv cfg ops s hr).inst i).d3⟩

/-- when the handler finishes, no stream is registered, so every stream ever created is closed -/
theorem all_closed_at_exit (cfg : Cfg) (ops : List Op) (s s' : St) (hr : run (init cfg) ops = some s)
    (hd : step s .handlerExit = some s') (i : Nat) (hi : i < s.n) : (s.inst i).closed = true := by
  have hI := reachable_inv cfg ops s hr
  simp only [step] at hd
  split at hd
  · rename_i hrdy
    simp only [St.handlerReady, Bool.and_eq_true, List.isEmpty_iff] at hrdy
    have hl : s.live = [] := hrdy.1.1.1.1.1.1.2
    rcases hI.lv i hi with c | m
    · exact c
    · rw [hl] at m; cases m
  · simp at hd

/-- **disconnect_exactly_once** (at handler completion): every application instance has been handed exactly one
    disconnect, and it is the last message handed over -/
theorem disconnect_exactly_once (cfg : Cfg) (ops : List Op) (s s' : St) (hr : run (init cfg) ops = some s)
    (hd : step s .handlerExit = some s') (i : Nat) (hi : i < s.n) (ha : (s.inst i).hasApp = true) :
    (s'.inst i).discPuts = 1 ∧ ∃ pre, (s'.inst i).handed = pre ++ [QMsg.disconnect] ∧ QMsg.disconnect ∉ pre := by
  have hI := reachable_inv cfg ops s hr
  have hc := all_closed_at_exit cfg ops s s' hr hd i hi
  have h1 := (hI.inst i).d4 hc ha
  have hs' : s'.inst = s.inst := by
    simp only [step] at hd
    split at hd
    · simp at hd; subst hd
      simp [St.emit, closeTransport_inst, stopTimer_inst]
    · simp at hd
  rw [hs']
  exact ⟨h1, (hI.inst i).d6 h1⟩

/-- **access_once** (HTTP): never more than one access record per request; exactly one as soon as the stream is closed
    or its response has ended -/
theorem access_at_most_once_http (cfg : Cfg) (ops : List Op) (s : St) (hr : run (init cfg) ops = some s) (i : Nat)
    (hk : (s.inst i).kind = .http) :
    (s.inst i).access ≤ 1 ∧ (((s.inst i).closed = true ∨ (s.inst i).hst = .closed) → (s.inst i).access = 1) :=
  ⟨((reachable_inv cfg ops s hr).inst i).a1 hk, ((reachable_inv cfg ops s hr).inst i).a2 hk⟩

/-- **access_once** (HTTP, at handler completion): every HTTP request that produced a scope has exactly one record -/
theorem access_once_http (cfg : Cfg) (ops : List Op) (s s' : St) (hr : run (init cfg) ops = some s)
    (hd : step s .handlerExit = some s') (i : Nat) (hi : i < s.n) (hk : (s.inst i).kind = .http) : (s.inst i).access = 1 :=
  ((reachable_inv cfg ops s hr).inst i).a2 hk (Or.inl (all_closed_at_exit cfg ops s s' hr hd i hi))

/-- **send_after_close_ok** (WebSocket): on a closed stream every message - valid in the current state or not - is
    accepted: the `send()` returns normally and nothing else happens (no write, no state change, no record) -/
theorem ws_send_after_close_ok (s : St) (i : Nat) (m : AMsg) (hc : (s.inst i).closed = true) :
    wsSendProg s i m = [.sendRet i true] ∧ s.run (.app i) (wsSendProg s i m) = s.emit [.sendRet i true] := by
  have h1 : wsSendProg s i m = [.sendRet i true] := by simp [wsSendProg, wsSendClosedGuard, hc]
  exact ⟨h1, by rw [h1]; rfl⟩

/-- **send_after_close_ok** (HTTP/2): a message valid in the instance's ASGI state returns normally, closed or not -/
theorem http2_valid_send_ok (s : St) (i : Nat) (hp : s.cfg.proto = .h2) :
    (∀ c, (s.inst i).hst = .request → (httpSendProg s i (.start c)).getLast? = some (.sendRet i true)) ∧
    (∀ more ne, (s.inst i).hst = .response → (httpSendProg s i (.body more ne)).getLast? = some (.sendRet i true)) := by
  constructor
  · intro c hh; simp [httpSendProg, hh, hp]
  · intro more ne hh; simp [httpSendProg, hh, hp]

/-- **send_after_close_ok** (HTTP/1): a state-valid message returns normally unless h11 itself refuses the event while
    the peer's side is not in error; that h11 never does so after closure is library behaviour, sampled on every run -/
theorem http1_valid_send_ok (s : St) (i : Nat) (hp : s.cfg.proto = .h1) :
    (∀ c, (s.inst i).hst = .request → libTry s .sendResp ≠ .raises → (httpSendProg s i (.start c)).getLast? = some (.sendRet i true)) ∧
    (∀ more ne, (s.inst i).hst = .response → libTry s .sendBody ≠ .raises → (httpSendProg s i (.body more ne)).getLast? = some (.sendRet i true)) := by
  constructor
  · intro c hh hl
    cases hx : libTry s .sendResp <;> simp_all [httpSendProg]
  · intro more ne hh hl
    cases hx : libTry s .sendBody <;> simp_all [httpSendProg] <;> (cases more <;> cases ne <;> simp)

/-- the application's exit on a closed stream does nothing but end the task (`if not self.closed` / `if self.closed: return`) -/
theorem exit_after_close_noop (s : St) (i : Nat) (hc : (s.inst i).closed = true) : exitProg s i = [.markExited i] := by
  cases hk : (s.inst i).kind <;> simp [exitProg, hk, hc, httpExitClosedGuard, wsSendClosedGuard]

/-! ### the connection is lost in the middle of one of the stream's own closing sequences

A WebSocket stream answers and closes on its own in several places (404 / 400 to the handshake, 400 for data before the
acceptance, 500 or close frame 1011 for an application that has finished, the echo of the client's close frame); each is a
sequence of awaited steps, and during any of them the connection may be lost - the failed write of that very response, the
reader's end, the idle timer - which makes the protocol call `handle(StreamClosed)` *inside* the await, after which the
sequence runs on.  `HC.Extracted.WsSeq.wsClosingPaths` is every such path of the current source (`tools/extract_wsseq.py`),
`HC.Stream.WsSeq.run` what a path does with the connection lost during its k-th await. -/
section WsSequences
open HC.Stream.WsSeq HC.Extracted.WsSeq

/-- **exactly one disconnect, whichever await of a closing sequence the connection is lost in** (or in none): every path of
    `WSStream.handle` / `WSStream.app_send` that closes the stream - started on an open stream with or without an application
    (without, when it is the path of the `Request` itself) - ends with the stream closed, exactly one disconnect handed to the
    application if there is one (none otherwise), and nothing handed over after it.  The only thing between the stream's own
    disconnect and the one `handle(StreamClosed)` puts is the `closed` flag: a sequence that awaits a send with an application
    waiting and the flag still down fails here -/
theorem ws_sequences_disconnect_once :
    ∀ p ∈ wsClosingPaths, ∀ a ∈ p.apps appPutStartsNone, ∀ loss ∈ p.losses,
      (run loss { hasApp := a } p.steps).ok = true := by
  have h : (wsClosingPaths.all (Path.holds appPutStartsNone)) = true := by decide
  intro p hp a ha loss hl
  have h1 := List.all_eq_true.mp h p hp
  unfold Path.holds at h1
  exact List.all_eq_true.mp (List.all_eq_true.mp h1 a ha) loss hl

/-- … and the paths are there: a sequence that sends and then puts the disconnect itself (the 400 for data before the
    acceptance), one that answers the `Request` (404 / 400), one that sends and then has the protocol close the stream (500,
    close frame, echo of the client's close) -/
theorem ws_sequences_cover :
    (wsClosingPaths.any fun p => p.steps.contains .send && p.steps.contains (.put true)) = true ∧
    (wsClosingPaths.any fun p => p.first && p.steps.contains .send) = true ∧
    (wsClosingPaths.any fun p => p.steps.contains .send && p.steps.contains .tell) = true := by decide

/-- what the obligation excludes: the 400 sent with the flag still down - the connection lost during the first send, the
    application is handed a second disconnect after the first -/
example : (run (some 0) { hasApp := true } [.assumeClosed false, .send, .send, .wait, .setClosed true, .assumeApp true, .put true, .spawnTell]).discs = 2 ∧
    Path.holds true { root := "handle", first := false, steps := [.assumeClosed false, .send, .send, .wait, .setClosed true, .assumeApp true, .put true, .spawnTell] } = false ∧
    Path.holds true { root := "handle", first := false, steps := [.assumeClosed false, .setClosed true, .send, .send, .wait, .setClosed true, .assumeApp true, .put true, .spawnTell] } = true := by decide

end WsSequences

/-! ### the hypotheses are satisfiable; witnesses -/

def getOpen : List Op :=
  [.read, .head {}, .eom, .needData, .appRecv 0, .appSend 0 (.start false), .appSend 0 (.body false true), .appExit 0,
   .readEof, .connClosed, .handlerExit]

/-- a keep-alive GET, answered, client EOF: handler exits; one disconnect, one access record -/
example : (run (init {}) getOpen).map (fun s => ((s.inst 0).discPuts, (s.inst 0).access, (s.inst 0).handed, s.doneAt.isSome)) =
    some (1, 1, [.request false, .disconnect], true) := by decide

/-- client half-close during the request, application answers afterwards: still exactly one record (F07 fixed) -/
example : (run (init {}) [.read, .head {}, .body, .needData, .readEof, .protoError, .appRecv 0, .appRecv 0,
      .appSend 0 (.start false), .appSend 0 (.body false true), .appExit 0, .handlerExit]).map
    (fun s => ((s.inst 0).discPuts, (s.inst 0).access, s.doneAt.isSome)) = some (1, 1, true) := by decide

/-- the peer resets at the k-th write of a streamed response (head, chunk, terminator), on either worker: still exactly
    one access record and one disconnect - `self.state = CLOSED` comes after the sends, so the close that happens *during*
    the send of the response end still finds the request unlogged -/
def resetAtWrite (k : Nat) : List Op :=
  [.read, .head {}, .eom, .needData, .failAfter k, .appSend 0 (.start false), .appSend 0 (.body true true), .appSend 0 (.body false true)]
example : ([1, 2, 3].map fun k => (run (init {}) (resetAtWrite k)).map (fun s => ((s.inst 0).access, (s.inst 0).discPuts, (s.inst 0).closed))) =
    [some (1, 1, true), some (1, 1, true), some (1, 1, true)] := by decide
/-- HTTP/2, `Closed` reported twice with a stream opened in between: a write fails while the reader still runs (stream 0 is
    told), a request the client had sent before it left is read and given to a new application (stream 1, registered on a
    closed connection), the reader reaches EOF and reports `Closed` again: stream 1 is told then; each got exactly one
    disconnect and nothing stays registered -/
def closedTwice : List Op :=
  [.read, .head {}, .h2eom 0, .needData, .appRecv 0, .failWrites, .appSend 0 (.start false),
   .read, .head {}, .h2eom 1, .needData, .appRecv 1, .readEof, .needData]
example : (run (init { proto := .h2 }) closedTwice).map (fun s => ((s.inst 0).discPuts, (s.inst 1).discPuts, (s.inst 1).handed, s.live, s.pclosed && s.rpc == .finished)) =
    some (1, 1, [.request false, .disconnect], [], true) := by decide

/-- F08 (known): application gone without reading, queue full: the closer's `put(disconnect)` blocks for ever - the
    handler can never exit, although the disconnect has been handed over exactly once -/
def f08 : List Op := [.read, .head {}, .body, .body, .needData, .appExit 0, .readEof, .connClosed]
example : (run (init { cap := 2 }) f08).map (fun s => ((s.inst 0).discPuts, (s.cont (.app 0)).isSome, s.handlerReady,
      [Op.handlerExit, .timerFire, .readerSeesClose, .appRecv 0].map (fun o => (step s o).isSome))) =
    some (1, true, false, [false, false, false, false]) := by decide

/-- F41 (known): a WebSocket whose client leaves during the handshake is closed without an access record -/
example : (run (init {}) [.read, .head { kind := .ws }, .needData, .readEof, .needData, .appRecv 0, .appRecv 0, .appExit 0, .handlerExit]).map
    (fun s => ((s.inst 0).discPuts, (s.inst 0).access, s.doneAt.isSome)) = some (1, 0, true) := by decide

end HC.Props.C03
