import HC.Stream.Http
import HC.Stream.Ws
import HC.Extracted.AppExit
/-!
# C12 — invalid application messages are rejected without corrupting the wire

Models: `HC/Stream/Http.lean` (`HTTPStream.app_send`), `HC/Stream/Ws.lean` (`WSStream.app_send`).
All statements are for arbitrary states / arbitrary message lists; nothing is enumerated.
-/
namespace HC.Props.C12
open HC HC.Stream HC.Extracted

/-! ### header validation: no CR / LF / NUL ever leaves `build_and_validate_headers` -/

theorem validatePart_clean (b v : Bytes) (h : validatePartBytes b = .ok v) : hasCtl v = false := by
  unfold validatePartBytes at h
  split at h
  · cases h
  · rename_i hc; cases h; simpa using hc

theorem validateNameBytes_ok (b v : Bytes) (h : validateNameBytes b = .ok v) :
    validatePartBytes b = .ok v ∧ nameRefused v = false := by
  simp only [validateNameBytes] at h
  cases hp : validatePartBytes b with
  | error e => simp [hp] at h
  | ok m =>
    simp only [hp] at h
    split at h
    · cases h
    · rename_i hr; cases h; exact ⟨rfl, by simpa using hr⟩

theorem validateName_ok (n : HV) (v : Bytes) (h : validateName n = .ok v) :
    ∃ b, n = .bytes b ∧ validatePartBytes b = .ok v ∧ nameRefused v = false := by
  cases n with
  | bytes b => obtain ⟨h1, h2⟩ := validateNameBytes_ok b v h; exact ⟨b, rfl, h1, h2⟩
  | str s => cases h
  | int n => cases h
  | none => cases h

theorem validateName_clean (n : HV) (v : Bytes) (h : validateName n = .ok v) : hasCtl v = false := by
  obtain ⟨b, _, hp, _⟩ := validateName_ok n v h
  exact validatePart_clean _ _ hp

theorem validateValue_clean (x : HV) (v : Bytes) (h : validateValue x = .ok v) : hasCtl v = false := by
  cases x with
  | bytes b => exact validatePart_clean _ _ h
  | str s => cases h
  | int n =>
    simp only [validateValue] at h
    split at h
    · cases h
    · exact validatePart_clean _ _ h
  | none => cases h

def cleanHeaders (hs : Headers) : Prop := ∀ h ∈ hs, hasCtl h.1 = false ∧ hasCtl h.2 = false

/-- **no CR, LF or NUL in application-supplied header names or values survives validation**, and a
    pseudo-header name, a non-bytes name or a non-bytes value makes the whole list invalid -/
theorem no_ctl_in_headers : ∀ (hs : List (HV × HV)) (vh : Headers), validateHeaders hs = .ok vh → cleanHeaders vh := by
  intro hs
  induction hs with
  | nil => intro vh h; simp [validateHeaders] at h; cases h; intro x hx; cases hx
  | cons p rest ih =>
    intro vh h
    obtain ⟨n, v⟩ := p
    simp only [validateHeaders] at h
    cases hn : validateName n with
    | error e => simp [hn, bind, Except.bind] at h
    | ok n' =>
      cases hv : validateValue v with
      | error e => simp [hn, hv, bind, Except.bind] at h
      | ok v' =>
        cases hr : validateHeaders rest with
        | error e => simp [hn, hv, hr, bind, Except.bind] at h
        | ok r =>
          simp [hn, hv, hr, bind, Except.bind, pure, Except.pure] at h
          cases h
          intro x hx
          rcases List.mem_cons.mp hx with rfl | hx
          · exact ⟨validateName_clean _ _ hn, validateValue_clean _ _ hv⟩
          · exact ih r hr x hx

/-- a validated header list never contains an empty name or a pseudo header (a name starting with `:`): the test is
    made on the name as it is sent, i.e. after stripping -/
def noPseudo (hs : Headers) : Prop := ∀ h ∈ hs, nameRefused h.1 = false

theorem no_pseudo_in_headers : ∀ (hs : List (HV × HV)) (vh : Headers), validateHeaders hs = .ok vh → noPseudo vh := by
  intro hs
  induction hs with
  | nil => intro vh h; simp [validateHeaders] at h; cases h; intro x hx; cases hx
  | cons p rest ih =>
    intro vh h
    obtain ⟨n, v⟩ := p
    simp only [validateHeaders] at h
    cases hn : validateName n with
    | error e => simp [hn, bind, Except.bind] at h
    | ok n' =>
      cases hv : validateValue v with
      | error e => simp [hn, hv, bind, Except.bind] at h
      | ok v' =>
        cases hr : validateHeaders rest with
        | error e => simp [hn, hv, hr, bind, Except.bind] at h
        | ok r =>
          simp [hn, hv, hr, bind, Except.bind, pure, Except.pure] at h
          cases h
          intro x hx
          rcases List.mem_cons.mp hx with rfl | hx
          · obtain ⟨_, _, _, hr'⟩ := validateName_ok _ _ hn; exact hr'
          · exact ih r hr x hx

/-- whatever whitespace hides it: a name whose stripped form is empty, starts with `:` or is not a token makes the list invalid -/
theorem pseudo_header_rejected (b : Bytes) (v : HV) (rest : List (HV × HV)) (h : nameRefused (Bytes.strip b) = true) :
    ∃ e, validateHeaders ((.bytes b, v) :: rest) = .error e := by
  simp only [validateHeaders, validateName, validateNameBytes, validatePartBytes, bind, Except.bind]
  by_cases hc : hasCtl (Bytes.strip b) = true <;> simp [hc, h]

/-- every name that leaves validation is a token (so it can be framed on every protocol) -/
theorem validated_names_are_tokens (hs : List (HV × HV)) (vh : Headers) (h : validateHeaders hs = .ok vh) :
    ∀ x ∈ vh, x.1 ≠ [] ∧ x.1.all isTchar = true := by
  intro x hx
  have hp := no_pseudo_in_headers hs vh h x hx
  simp only [nameRefused, Bool.or_eq_false_iff, Bool.not_eq_false'] at hp
  refine ⟨?_, hp.2⟩
  intro he
  rw [he] at hp
  simp at hp

example : validateHeaders [(.bytes " :status".b, .bytes "200".b)] = .error .valueError := by rfl
example : validateHeaders [(.bytes "  ".b, .bytes "v".b)] = .error .valueError := by rfl
example : validateHeaders [(.bytes ":authority".b, .bytes "x".b)] = .error .valueError := by rfl
example : validateHeaders [(.bytes "bad name".b, .bytes "x".b)] = .error .valueError := by rfl
example : validateHeaders [(.bytes "x:y".b, .bytes "x".b)] = .error .valueError := by rfl
example : validateHeaders [(.bytes "X-Ok_1.2~".b, .bytes "x".b)] = .ok [("X-Ok_1.2~".b, "x".b)] := by rfl

theorem str_name_rejected (s : String) (v : HV) (rest : List (HV × HV)) :
    ∃ e, validateHeaders ((.str s, v) :: rest) = .error e := by
  simp [validateHeaders, validateName, bind, Except.bind]

theorem str_value_rejected (n : HV) (s : String) (rest : List (HV × HV)) :
    ∃ e, validateHeaders ((n, .str s) :: rest) = .error e := by
  cases hn : validateName n <;> simp [validateHeaders, validateValue, hn, bind, Except.bind]

example : validateHeaders [(.bytes "x".b, .bytes "a\r\nset-cookie: x".b)] = .error .valueError := by rfl
example : validateHeaders [(.bytes "n".b, .int 3)] = .error .valueError := by rfl
example : validateHeaders [(.bytes " X-A ".b, .bytes " 1 ".b)] = .ok [("X-A".b, "1".b)] := by rfl

/-! ### HTTP: the reference automaton, and rejection as a no-op -/

/-- reference automaton of the ASGI HTTP send side (what the specification allows in which state) -/
def httpAllowed (s : Http.S) : Http.Msg → Bool
  | .start .. => s.st == .request
  | .body .. => s.st == .response
  | .trailers .. => Http.inVersions s.version Consts.http_TRAILERS_VERSIONS && s.st == .trailers
  | .push .. => Http.inVersions s.version Consts.http_PUSH_VERSIONS && s.st != .closed
  | .earlyHint .. => Http.inVersions s.version Consts.http_EARLY_HINTS_VERSIONS && s.st == .request
  | .other => false

def isTrailersBeforeStart (s : Http.S) : Http.Msg → Bool
  | .trailers .. => Http.inVersions s.version Consts.http_TRAILERS_VERSIONS && s.st == .request
  | _ => false

/-- **a message the automaton forbids in the current state raises `UnexpectedMessageError` and changes nothing** —
    a body before the start, a second start, anything after completion, an unknown type, HTTP/2-only messages on HTTP/1 -/
theorem http_invalid_state_rejected (s : Http.S) (m : Http.Msg)
    (h : httpAllowed s m = false) (hx : isTrailersBeforeStart s m = false) :
    Http.appSend s (some m) = (s, [], some .unexpectedMessage) := by
  cases m <;> simp_all [httpAllowed, isTrailersBeforeStart, Http.appSend] <;> grind

/-- the one place where the code is more liberal than the reference automaton (a trailers-only response on HTTP/2+) -/
theorem http_trailers_before_start_accepted_as_is :
    ∃ s m, httpAllowed s m = false ∧ (Http.appSend s (some m)).2.2 = none :=
  ⟨{ method := "GET", version := "2", reqHeaders := [("te".b, "trailers".b)] }, .trailers (some []) true, by decide, by decide⟩

/-- in RESPONSE / TRAILERS a response start has been recorded -/
def HttpInv (s : Http.S) : Prop := (s.st = .response ∨ s.st = .trailers) → s.response.isSome = true

theorem http_inv_init (method version : String) (hs : Headers) :
    HttpInv { method := method, version := version, reqHeaders := hs } := by
  intro h; simp at h

theorem http_inv_step (s : Http.S) (m : Option Http.Msg) (hI : HttpInv s) : HttpInv (Http.appSend s m).1 := by
  unfold HttpInv at *
  cases m with
  | none => simp only [Http.appSend]; split <;> (try split) <;> simp_all
  | some m =>
    cases m <;> simp only [Http.appSend, Http.sendClosed] <;> (repeat' split) <;> simp_all

/-- **a rejected message is a no-op**: whenever `send()` raises, nothing was handed to the protocol and the ASGI state
    did not move (trailers-before-start excluded, see above) -/
theorem http_reject_is_noop (s : Http.S) (m : Http.Msg) (e : PyErr) (hI : HttpInv s)
    (hx : isTrailersBeforeStart s m = false) (he : (Http.appSend s (some m)).2.2 = some e) :
    (Http.appSend s (some m)).2.1 = [] ∧ (Http.appSend s (some m)).1.st = s.st ∧
    (Http.appSend s (some m)).1.closed = s.closed := by
  unfold HttpInv at hI
  cases m <;> simp only [Http.appSend, Http.sendClosed, isTrailersBeforeStart] at * <;> (repeat' split at he) <;>
    simp_all <;> (repeat' split) <;> simp_all

/-! ### HTTP: one final head, one end, nothing after the end — for arbitrary message sequences -/

def countFinalHeads : List Http.Ev → Nat
  | [] => 0
  | .response st _ :: r => (if st ≥ 200 then 1 else 0) + countFinalHeads r
  | _ :: r => countFinalHeads r

def countEnd : List Http.Ev → Nat
  | [] => 0
  | .endBody :: r => 1 + countEnd r
  | _ :: r => countEnd r

@[simp] theorem countEnd_append (a b : List Http.Ev) : countEnd (a ++ b) = countEnd a + countEnd b := by
  induction a with
  | nil => simp [countEnd]
  | cons x xs ih => cases x <;> simp [countEnd, ih] <;> omega

@[simp] theorem countFinalHeads_append (a b : List Http.Ev) :
    countFinalHeads (a ++ b) = countFinalHeads a + countFinalHeads b := by
  induction a with
  | nil => simp [countFinalHeads]
  | cons x xs ih => cases x <;> simp [countFinalHeads, ih] <;> omega

def budgetEnd (s : Http.S) : Nat := if s.st = .closed then 0 else 1
def budgetHead (s : Http.S) : Nat := if s.st = .request then 1 else 0

theorem step_end (s : Http.S) (m : Option Http.Msg) :
    countEnd (Http.appSend s m).2.1 + budgetEnd (Http.appSend s m).1 ≤ budgetEnd s := by
  cases m with
  | none => simp only [Http.appSend]; (repeat' split) <;> simp_all [budgetEnd, countEnd]
  | some m =>
    cases m <;> simp only [Http.appSend, Http.sendClosed, Http.bodyEv] <;> (repeat' split) <;>
      simp_all [budgetEnd, countEnd] <;> grind [countEnd]

theorem step_head (s : Http.S) (m : Option Http.Msg) :
    countFinalHeads (Http.appSend s m).2.1 + budgetHead (Http.appSend s m).1 ≤ budgetHead s := by
  cases m with
  | none => simp only [Http.appSend]; (repeat' split) <;> simp_all [budgetHead, countFinalHeads]
  | some m =>
    cases m <;> simp only [Http.appSend, Http.sendClosed, Http.bodyEv] <;> (repeat' split) <;>
      simp_all [budgetHead, countFinalHeads] <;> grind [countFinalHeads]

/-- **end-of-response is signalled at most once**, whatever the application sends -/
theorem end_once (ms : List (Option Http.Msg)) : ∀ s, countEnd (Http.feed s ms).2 + budgetEnd (Http.feed s ms).1 ≤ budgetEnd s := by
  induction ms with
  | nil => intro s; simp [Http.feed, countEnd]
  | cons m ms ih =>
    intro s
    simp only [Http.feed]
    have h1 := step_end s m
    have h2 := ih (Http.appSend s m).1
    simp only [countEnd_append]; omega

/-- **at most one final response head per request**, whatever the application sends -/
theorem one_final_head (ms : List (Option Http.Msg)) :
    ∀ s, countFinalHeads (Http.feed s ms).2 + budgetHead (Http.feed s ms).1 ≤ budgetHead s := by
  induction ms with
  | nil => intro s; simp [Http.feed, countFinalHeads]
  | cons m ms ih =>
    intro s
    simp only [Http.feed]
    have h1 := step_head s m
    have h2 := ih (Http.appSend s m).1
    simp only [countFinalHeads_append]; omega

/-! ### any accepted start is THE response start - interim statuses included -/

/-- **an accepted `http.response.start` moves the request from REQUEST to RESPONSE whatever its status** - 100, 102, 103,
    199 exactly as 200 or 404: the successor state does not depend on the status -/
theorem accepted_start_moves_on (s : Http.S) (status : Option Nat) (hs : Option (List (HV × HV))) (tr : Bool)
    (h : (Http.appSend s (some (.start status hs tr))).2.2 = none) :
    s.st = .request ∧ (Http.appSend s (some (.start status hs tr))).1.st = .response := by
  simp only [Http.appSend] at h ⊢
  (repeat' split at h) <;> simp_all

/-- the statement order of the source agrees: the `http.response.start` branch of `HTTPStream.app_send`, as the extractor
    reads it off the source on every run (a conditional statement in that branch is not a recognised shape), assigns
    RESPONSE after the head was handed over - unconditionally, there is no status in sight -/
theorem source_start_always_advances :
    AppExit.runBranch HC.Extracted.AppExit.httpStartBranch none {} = { st := .response, responseSent := true } := by decide

/-- REQUEST is never re-entered -/
theorem request_not_reentered (s : Http.S) (m : Option Http.Msg) (h : s.st ≠ .request) : (Http.appSend s m).1.st ≠ .request := by
  cases m with
  | none => simp only [Http.appSend]; (repeat' split) <;> simp_all
  | some m => cases m <;> simp only [Http.appSend, Http.sendClosed] <;> (repeat' split) <;> simp_all

theorem request_not_reentered_feed (ms : List (Option Http.Msg)) : ∀ s : Http.S, s.st ≠ .request → (Http.feed s ms).1.st ≠ .request := by
  induction ms with
  | nil => intro s h; simpa [Http.feed] using h
  | cons m ms ih => intro s h; simp only [Http.feed]; exact ih _ (request_not_reentered s m h)

/-- **a second response start raises and hands nothing to the protocol** - whatever the status of the first start (an
    interim one included) and whatever the application sent in between -/
theorem second_start_rejected (s : Http.S) (status : Option Nat) (hs : Option (List (HV × HV))) (tr : Bool)
    (hacc : (Http.appSend s (some (.start status hs tr))).2.2 = none) (ms : List (Option Http.Msg))
    (status' : Option Nat) (hs' : Option (List (HV × HV))) (tr' : Bool) :
    Http.appSend (Http.feed (Http.appSend s (some (.start status hs tr))).1 ms).1 (some (.start status' hs' tr')) =
      ((Http.feed (Http.appSend s (some (.start status hs tr))).1 ms).1, [], some .unexpectedMessage) := by
  have h1 : (Http.appSend s (some (.start status hs tr))).1.st ≠ .request := by
    rw [(accepted_start_moves_on s status hs tr hacc).2]; decide
  have h2 := request_not_reentered_feed ms _ h1
  generalize (Http.feed (Http.appSend s (some (.start status hs tr))).1 ms).1 = s' at h2 ⊢
  simp [Http.appSend, h2]

/-- response heads of ANY status (interim or final) handed to the protocol for the request -/
def countHeads : List Http.Ev → Nat
  | [] => 0
  | .response _ _ :: r => 1 + countHeads r
  | _ :: r => countHeads r

@[simp] theorem countHeads_append (a b : List Http.Ev) : countHeads (a ++ b) = countHeads a + countHeads b := by
  induction a with
  | nil => simp [countHeads]
  | cons x xs ih => cases x <;> simp [countHeads, ih] <;> omega

theorem step_heads (s : Http.S) (m : Option Http.Msg) :
    countHeads (Http.appSend s m).2.1 + budgetHead (Http.appSend s m).1 ≤ budgetHead s := by
  cases m with
  | none => simp only [Http.appSend]; (repeat' split) <;> simp_all [budgetHead, countHeads]
  | some m =>
    cases m <;> simp only [Http.appSend, Http.sendClosed, Http.bodyEv] <;> (repeat' split) <;>
      simp_all [budgetHead, countHeads] <;> grind [countHeads]

/-- **at most one `Response` event per request, counting interim statuses too**: a start with status 102 uses up the
    request's one response start just as a start with status 200 does (early hints are `InformationalResponse` events) -/
theorem one_response_start (ms : List (Option Http.Msg)) :
    ∀ s, countHeads (Http.feed s ms).2 + budgetHead (Http.feed s ms).1 ≤ budgetHead s := by
  induction ms with
  | nil => intro s; simp [Http.feed, countHeads]
  | cons m ms ih =>
    intro s
    simp only [Http.feed]
    have h1 := step_heads s m
    have h2 := ih (Http.appSend s m).1
    simp only [countHeads_append]; omega

example : (Http.feed { method := "GET", version := "2" }
    [some (.start (some 102) (some []) false), some (.start (some 200) (some []) false), some (.body none false)]).2 =
    [.response 102 [], .endBody, .access (some 102), .streamClosed] := by decide

/-- **nothing follows the end of the response** but the stream-closed notification of the exiting application -/
theorem nothing_after_end (ms : List (Option Http.Msg)) :
    ∀ s, s.st = .closed → (Http.feed s ms).1.st = .closed ∧ ∀ ev ∈ (Http.feed s ms).2, ev = .streamClosed := by
  induction ms with
  | nil => intro s h; simp [Http.feed, h]
  | cons m ms ih =>
    intro s h
    have hstep : (Http.appSend s m).1.st = .closed ∧ ∀ ev ∈ (Http.appSend s m).2.1, ev = .streamClosed := by
      cases m with
      | none => simp only [Http.appSend]; (repeat' split) <;> simp_all
      | some m => cases m <;> simp only [Http.appSend] <;> (repeat' split) <;> simp_all
    simp only [Http.feed]
    obtain ⟨h1, h2⟩ := ih _ hstep.1
    refine ⟨h1, ?_⟩
    intro ev hev
    rcases List.mem_append.mp hev with hev | hev
    · exact hstep.2 ev hev
    · exact h2 ev hev

/-- every header list handed to the protocol by `app_send` is free of CR / LF / NUL
    (the request's own `host` values copied into a push promise come from the client, not the application) -/
def evClean : Http.Ev → Prop
  | .response _ hs => cleanHeaders hs
  | .info _ hs => cleanHeaders hs
  | .trailers hs => cleanHeaders hs
  | _ => True

private theorem c500 : cleanHeaders [("content-length".b, "0".b), ("connection".b, "close".b)] := by
  intro h hh; simp at hh; rcases hh with rfl | rfl <;> decide

private theorem bodyEv_clean (b : Option HV) (evs : List Http.Ev) (h : Http.bodyEv b = .ok evs) : ∀ ev ∈ evs, evClean ev := by
  unfold Http.bodyEv at h
  (repeat' split at h) <;> cases h <;> intro ev hev <;> simp at hev <;> (try subst hev) <;> simp [evClean]

private theorem sendClosed_clean (s : Http.S) (pre : List Http.Ev) (hp : ∀ ev ∈ pre, evClean ev) :
    ∀ ev ∈ (Http.sendClosed s pre).2.1, evClean ev := by
  unfold Http.sendClosed
  split <;> intro ev hev <;> simp at hev
  · rcases hev with hev | rfl | rfl | rfl
    · exact hp ev hev
    all_goals simp [evClean]
  · rcases hev with hev | rfl
    · exact hp ev hev
    · simp [evClean]

private theorem validateLinks_clean : ∀ (l : List HV) (r : List Bytes), validateLinks l = .ok r → ∀ x ∈ r, hasCtl x = false := by
  intro l
  induction l with
  | nil => intro r hr x hx; simp [validateLinks] at hr; cases hr; cases hx
  | cons a t ih =>
    intro r hr x hx
    simp only [validateLinks, bind, Except.bind] at hr
    cases ha : validateValue a with
    | error e => simp [ha] at hr
    | ok a' =>
      cases ht : validateLinks t with
      | error e => simp [ha, ht] at hr
      | ok t' =>
        simp [ha, ht, pure, Except.pure] at hr
        subst hr
        rcases List.mem_cons.mp hx with rfl | hx
        · exact validateValue_clean _ _ ha
        · exact ih t' ht x hx

theorem http_events_clean (s : Http.S) (m : Option Http.Msg) : ∀ ev ∈ (Http.appSend s m).2.1, evClean ev := by
  cases m with
  | none =>
    simp only [Http.appSend]; (repeat' split) <;> intro ev hev <;> simp at hev
    · rcases hev with rfl | rfl | rfl | rfl <;> simp [evClean, c500]
    · subst hev; simp [evClean]
  | some m =>
    cases m with
    | start status headers trailers =>
      simp only [Http.appSend]
      split
      · cases hv : validateHeaders (headers.getD []) with
        | error e => simp
        | ok hs =>
          cases status with
          | none => simp
          | some st =>
            intro ev hev; simp at hev; subst hev
            exact no_ctl_in_headers _ _ hv
      · simp
    | body body more =>
      simp only [Http.appSend]
      split
      · split
        · simp
        · rename_i status wantTrailers _
          by_cases hsup : Guards.suppressBody s.method status = true
          · simp only [hsup, if_true]
            (repeat' split) <;> first
              | exact sendClosed_clean s [] (by simp)
              | (intro ev hev; simp at hev)
          · simp only [hsup]
            cases hb : Http.bodyEv body with
            | error e => simp
            | ok evs =>
              have hc := bodyEv_clean body evs hb
              simp only [Bool.false_eq_true, if_false]
              (repeat' split) <;> first
                | exact sendClosed_clean s evs hc
                | exact hc
      · simp
    | trailers headers more =>
      simp only [Http.appSend]
      (repeat' split) <;> first
        | (intro ev hev; simp at hev; done)
        | (apply sendClosed_clean; intro ev hev; simp at hev; subst hev; exact no_ctl_in_headers _ _ ‹_›)
        | (apply sendClosed_clean; intro ev hev; simp at hev)
        | (intro ev hev; simp at hev; subst hev; exact no_ctl_in_headers _ _ ‹_›)
    | push path headers =>
      simp only [Http.appSend]
      (repeat' split) <;> intro ev hev <;> simp at hev <;> (try subst hev) <;> simp [evClean]
    | earlyHint links =>
      simp only [Http.appSend]
      split
      · cases links with
        | none => simp
        | some ls =>
          cases hm : validateLinks ls with
          | error e => simp [hm]
          | ok vs =>
            intro ev hev; simp [hm] at hev; subst hev
            intro h hh
            simp only [List.mem_map] at hh
            obtain ⟨v, hv, rfl⟩ := hh
            exact ⟨by show hasCtl "link".b = false; decide, validateLinks_clean ls vs hm v hv⟩
      · simp
    | other => simp [Http.appSend]

/-! ### WebSocket -/

def wsAllowed (s : Ws.S) : Ws.Msg → Bool
  | .accept .. => s.st == .handshake
  | .respStart .. => s.st == .handshake
  | .respBody .. => s.st == .handshake || s.st == .response
  | .send .. => s.st == .connected
  | .close .. => s.st == .handshake || s.st == .connected
  | .other => false

/-- **websocket.send before accept, accept after accept, anything after completion, unknown types: rejected, no effect** -/
theorem ws_invalid_state_rejected (token : Bytes → Bytes) (ext : Option Bytes) (s : Ws.S) (m : Ws.Msg)
    (hc : s.closed = false) (h : wsAllowed s m = false) :
    Ws.appSend token ext s (some m) = (s, [], some .unexpectedMessage) := by
  cases m <;> simp_all [wsAllowed, Ws.appSend] <;> grind

/-- after completion (CLOSED / HTTPCLOSED) every message is rejected -/
theorem ws_after_completion_rejected (token : Bytes → Bytes) (ext : Option Bytes) (s : Ws.S) (m : Ws.Msg)
    (hc : s.closed = false) (h : s.st = .closed ∨ s.st = .httpClosed) :
    Ws.appSend token ext s (some m) = (s, [], some .unexpectedMessage) := by
  apply ws_invalid_state_rejected token ext s m hc
  rcases h with h | h <;> cases m <;> simp [wsAllowed, h]

/-- CONNECTED / CLOSED imply that a wsproto connection exists -/
def WsInv (s : Ws.S) : Prop := (s.st = .connected ∨ s.st = .closed) → s.conn.isSome = true

private theorem denialHead_st (s : Ws.S) (status : Nat) (headers : Option (List (HV × HV))) (s1 : Ws.S) (e1 : List Ws.Ev)
    (h : Ws.denialHead s status headers = .ok (s1, e1)) (hs : s.st = .handshake ∨ s.st = .response) :
    (s1.st = .response) ∧ s1.conn = s.conn := by
  unfold Ws.denialHead at h
  (repeat' split at h) <;> cases h <;> simp_all

private theorem sendRejection_shape (s : Ws.S) (body : Option HV) (more : Bool) (hs : s.st = .handshake ∨ s.st = .response) :
    (Ws.sendRejection s body more).1.conn = s.conn ∧
    ((Ws.sendRejection s body more).1.st = s.st ∨ (Ws.sendRejection s body more).1.st = .response ∨
     (Ws.sendRejection s body more).1.st = .httpClosed) := by
  unfold Ws.sendRejection
  cases hr : s.response with
  | none => simp
  | some p =>
    obtain ⟨st?, hdrs⟩ := p
    cases st? with
    | none => simp
    | some status =>
      simp only []
      cases hb : Ws.bodyBytes body with
      | error e => simp
      | ok b =>
        simp only []
        cases hd : Ws.denialHead s status hdrs with
        | error e => simp
        | ok q =>
          obtain ⟨s1, e1⟩ := q
          obtain ⟨h1, h2⟩ := denialHead_st s status hdrs s1 e1 hd hs
          simp only []
          split <;> simp [h1, h2]

private theorem sendRejection_err (s : Ws.S) (body : Option HV) (more : Bool) (e : PyErr)
    (he : (Ws.sendRejection s body more).2.2 = some e) :
    (Ws.sendRejection s body more).2.1 = [] ∧ (Ws.sendRejection s body more).1.st = s.st := by
  unfold Ws.sendRejection at *
  cases hr : s.response with
  | none => simp
  | some p =>
    obtain ⟨st?, hdrs⟩ := p
    cases st? with
    | none => simp
    | some status =>
      simp only [hr] at he ⊢
      cases hb : Ws.bodyBytes body with
      | error e => simp
      | ok b =>
        simp only [hb] at he ⊢
        cases hd : Ws.denialHead s status hdrs with
        | error e => simp
        | ok q =>
          obtain ⟨s1, e1⟩ := q
          simp only [hd] at he ⊢
          split at he <;> simp at he

theorem ws_inv_step (token : Bytes → Bytes) (ext : Option Bytes) (s : Ws.S) (m : Option Ws.Msg) (hI : WsInv s) :
    WsInv (Ws.appSend token ext s m).1 := by
  unfold WsInv at *
  by_cases hcl : s.closed = true
  · simp only [Ws.appSend, hcl, if_true]; exact hI
  · cases m with
    | none => simp only [Ws.appSend, Ws.sendWs, hcl]; (repeat' split) <;> simp_all
    | some m =>
      cases m with
      | respBody body more =>
        have hcl' : s.closed = false := by simpa using hcl
        simp only [Ws.appSend, hcl', Bool.false_eq_true, if_false]
        by_cases hst : s.st = .handshake ∨ s.st = .response
        · simp only [hst, if_true]
          obtain ⟨kc, ks⟩ := sendRejection_shape s body more hst
          intro hh
          rw [kc]; apply hI
          rcases ks with ks | ks | ks <;> simp_all
        · simp only [hst, if_false]; exact hI
      | accept sp extra => simp only [Ws.appSend, Ws.sendWs, hcl]; (repeat' split) <;> simp_all
      | respStart st hs => simp only [Ws.appSend, Ws.sendWs, hcl]; (repeat' split) <;> simp_all
      | send b t => simp only [Ws.appSend, Ws.sendWs, hcl]; (repeat' split) <;> simp_all
      | close c => simp only [Ws.appSend, Ws.sendWs, hcl]; (repeat' split) <;> simp_all
      | other => simp only [Ws.appSend, Ws.sendWs, hcl]; (repeat' split) <;> simp_all

/-- **a rejected WebSocket message is a no-op**: if `send()` raises, nothing was emitted and the state did not move -/
theorem ws_reject_is_noop (token : Bytes → Bytes) (ext : Option Bytes) (s : Ws.S) (m : Ws.Msg) (e : PyErr)
    (hI : WsInv s) (he : (Ws.appSend token ext s (some m)).2.2 = some e) :
    (Ws.appSend token ext s (some m)).2.1 = [] ∧ (Ws.appSend token ext s (some m)).1.st = s.st := by
  unfold WsInv at hI
  by_cases hcl : s.closed = true
  · simp [Ws.appSend, hcl] at he
  · cases m with
    | respBody body more =>
      have hcl' : s.closed = false := by simpa using hcl
      simp only [Ws.appSend, hcl', Bool.false_eq_true, if_false] at he ⊢
      by_cases hst : s.st = .handshake ∨ s.st = .response
      · simp only [hst, if_true] at he ⊢
        exact sendRejection_err s body more e he
      · simp only [hst, if_false]; simp
    | accept sp extra => simp only [Ws.appSend, Ws.sendWs, hcl] at he ⊢; (repeat' split at he) <;> simp_all
    | respStart st hs => simp only [Ws.appSend, Ws.sendWs, hcl] at he ⊢; (repeat' split at he) <;> simp_all
    | send b t =>
      simp only [Ws.appSend, Ws.sendWs, hcl] at he ⊢
      (repeat' split at he) <;> simp_all <;> (repeat' split) <;> simp_all
    | close c =>
      simp only [Ws.appSend, Ws.sendWs, hcl] at he ⊢
      (repeat' split at he) <;> simp_all <;> (repeat' split) <;> simp_all
    | other => simp only [Ws.appSend, Ws.sendWs, hcl] at he ⊢; (repeat' split at he) <;> simp_all

private theorem validateExtra_clean : ∀ (l r : Headers), Ws.validateExtra l = .ok r →
    r.length = l.length ∧ cleanHeaders r ∧ noPseudo r ∧ ∀ h ∈ r, h.1 ≠ "sec-websocket-protocol".b := by
  intro l
  induction l with
  | nil =>
    intro r hr; simp [Ws.validateExtra] at hr; cases hr
    refine ⟨rfl, ?_, ?_, ?_⟩ <;> (intro x hx; cases hx)
  | cons a t ih =>
    intro r hr
    simp only [Ws.validateExtra] at hr
    cases hn : validateNameBytes a.1 with
    | error e => simp [hn] at hr
    | ok n =>
      obtain ⟨hpart, hnr⟩ := validateNameBytes_ok _ _ hn
      simp only [hn] at hr
      split at hr
      · cases hr
      · rename_i hproto
        simp only [bind, Except.bind] at hr
        cases hv : validatePartBytes a.2 with
        | error e => simp [hv] at hr
        | ok v =>
          cases ht : Ws.validateExtra t with
          | error e => simp [hv, ht] at hr
          | ok t' =>
            simp [hv, ht, pure, Except.pure] at hr
            subst hr
            obtain ⟨hl, hc, hp, hs⟩ := ih t' ht
            refine ⟨by simp [hl], ?_, ?_, ?_⟩
            · intro x hx
              rcases List.mem_cons.mp hx with rfl | hx
              · exact ⟨validatePart_clean _ _ hpart, validatePart_clean _ _ hv⟩
              · exact hc x hx
            · intro x hx
              rcases List.mem_cons.mp hx with rfl | hx
              · exact hnr
              · exact hp x hx
            · intro x hx
              rcases List.mem_cons.mp hx with rfl | hx
              · simpa using hproto
              · exact hs x hx

/-- the extra headers an application passes to `websocket.accept` are rendered (after the server's own handshake
    headers) free of CR / LF / NUL, none of them is empty, a pseudo header or a second `sec-websocket-protocol` (judged on
    the name as it is sent, i.e. stripped) - or the accept is refused -/
theorem ws_accept_extra_clean (h : Ws.Handshake) (token : Bytes → Bytes) (ext : Option Bytes) (sp : Option Bytes)
    (extra : Headers) (st : Nat) (hs : Headers) (hok : h.accept token ext sp extra = .ok (st, hs)) :
    ∃ pre suf, hs = pre ++ suf ∧ suf.length = extra.length ∧ cleanHeaders suf ∧ noPseudo suf ∧
      ∀ x ∈ suf, x.1 ≠ "sec-websocket-protocol".b := by
  unfold Ws.Handshake.accept at hok
  simp only [bind, Except.bind] at hok
  cases hx : Ws.validateExtra extra with
  | error e => simp [hx] at hok; (repeat' split at hok) <;> simp_all
  | ok h5 =>
    obtain ⟨hl, hc, hp, hs'⟩ := validateExtra_clean extra h5 hx
    simp only [hx, pure, Except.pure] at hok
    (repeat' split at hok) <;> (try cases hok) <;> exact ⟨_, h5, rfl, hl, hc, hp, hs'⟩

/-! ### the subprotocol an application names in `websocket.accept`

It becomes the value of `sec-websocket-protocol` *without* passing `validate_header_part`; what keeps CR / LF / NUL (and any
name the client did not ask for) off the wire is the guard of `Handshake.accept` alone.  The guard is regenerated from the
source (`HC/Extracted/WsGuards.lean`, `subprotocolRefused`) and proved here to be the model's. -/

/-- **the source's guard refuses exactly what the client did not offer** — no `Sec-WebSocket-Protocol` header at all
    (`None`), or a list that does not contain the application's choice -/
theorem ws_subprotocol_guard (offered : Option (List Bytes)) (p : Bytes) :
    WsGuards.subprotocolRefused offered p = true ↔ ¬ ∃ l, offered = some l ∧ p ∈ l := by
  cases offered with
  | none => simp [WsGuards.subprotocolRefused]
  | some l => by_cases hm : p ∈ l <;> simp [WsGuards.subprotocolRefused, hm]

/-- the model's `Handshake.accept` takes the same decision as the source's guard, for every handshake (offering
    subprotocols or not) and every choice of the application -/
theorem ws_accept_guard_is_source (h : Ws.Handshake) (token : Bytes → Bytes) (ext : Option Bytes) (p : Bytes) :
    (∃ r, h.accept token ext (some p) [] = .ok r) ↔ WsGuards.subprotocolRefused h.subprotocols p = false := by
  have hg := ws_subprotocol_guard h.subprotocols p
  unfold Ws.Handshake.accept
  cases ho : h.subprotocols with
  | none => simp [WsGuards.subprotocolRefused, bind, Except.bind, throw, throwThe, MonadExceptOf.throw]
  | some l =>
    by_cases hm : p ∈ l
    · simp [WsGuards.subprotocolRefused, hm, bind, Except.bind, pure, Except.pure, Ws.validateExtra]
    · simp [WsGuards.subprotocolRefused, hm, bind, Except.bind, throw, throwThe, MonadExceptOf.throw]

/-- **an accepted `websocket.accept` names only a subprotocol the client offered**, and renders it first: a name the
    client did not offer — in particular any name when the handshake carried no `Sec-WebSocket-Protocol` header — is
    refused before anything is produced -/
theorem ws_accept_subprotocol_offered (h : Ws.Handshake) (token : Bytes → Bytes) (ext : Option Bytes) (p : Bytes)
    (extra : Headers) (st : Nat) (hs : Headers) (hok : h.accept token ext (some p) extra = .ok (st, hs)) :
    (∃ l, h.subprotocols = some l ∧ p ∈ l) ∧ ∃ rest, hs = ("sec-websocket-protocol".b, p) :: rest := by
  unfold Ws.Handshake.accept at hok
  simp only [bind, Except.bind] at hok
  cases ho : h.subprotocols with
  | none => simp [ho, throw, throwThe, MonadExceptOf.throw] at hok
  | some l =>
    by_cases hm : p ∈ l
    · refine ⟨⟨l, rfl, hm⟩, ?_⟩
      simp only [ho, List.contains_iff_mem, hm, if_true, pure, Except.pure] at hok
      cases hx : Ws.validateExtra extra with
      | error e => simp [hx] at hok
      | ok h5 =>
        simp only [hx] at hok
        (repeat' split at hok) <;> cases hok <;> exact ⟨_, rfl⟩
    · simp [ho, hm, throw, throwThe, MonadExceptOf.throw] at hok

/-- hence **no CR, LF or NUL of the application's subprotocol reaches the response head**: the value that is sent is one
    of the tokens of the client's own (already framed) `Sec-WebSocket-Protocol` header -/
theorem ws_accept_subprotocol_clean (h : Ws.Handshake) (token : Bytes → Bytes) (ext : Option Bytes) (p : Bytes)
    (extra : Headers) (st : Nat) (hs : Headers)
    (hreq : ∀ l, h.subprotocols = some l → ∀ t ∈ l, hasCtl t = false)
    (hok : h.accept token ext (some p) extra = .ok (st, hs)) : hasCtl p = false := by
  obtain ⟨⟨l, hl, hm⟩, _⟩ := ws_accept_subprotocol_offered h token ext p extra st hs hok
  exact hreq l hl p hm

example : (Ws.Handshake.accept { version := "2" } (fun _ => []) none (some "chat\r\nset-cookie: x".b) []) = .error .exception ∧
    (Ws.Handshake.accept { version := "2", subprotocols := some ["chat".b] } (fun _ => []) none (some "chat".b) []) =
      .ok (200, [("sec-websocket-protocol".b, "chat".b)]) := ⟨by rfl, by rfl⟩

/-! ### HTTP/1: early hints and pushes do not exist (round 6, coverage widening)

`H11Protocol.stream_send` has a branch `elif isinstance(event, InformationalResponse): pass  # Ignore for HTTP/1`.  No message of
an application can take an HTTP/1 stream there: the version sets read off the source (`Consts.http_EARLY_HINTS_VERSIONS`,
`Consts.http_PUSH_VERSIONS`) hold neither "1.0" nor "1.1", so the message is refused with nothing handed over.  (The harness
hands the event to the real protocol object directly to see that the branch writes nothing: C12.py, family `wire`.) -/

/-- the HTTP versions an HTTP/1 connection hands to its stream (`H11Protocol` passes h11's `http_version` on) -/
def Http1Version (v : String) : Prop := v = "1.0" ∨ v = "1.1"

theorem http1_not_in_h2_only_sets (v : String) (hv : Http1Version v) :
    Http.inVersions v Consts.http_EARLY_HINTS_VERSIONS = false ∧ Http.inVersions v Consts.http_PUSH_VERSIONS = false := by
  rcases hv with rfl | rfl <;> decide

theorem early_hint_http1_rejected (s : Http.S) (links : Option (List HV)) (hv : Http1Version s.version) :
    Http.appSend s (some (.earlyHint links)) = (s, [], some .unexpectedMessage) := by
  have h := (http1_not_in_h2_only_sets s.version hv).1
  simp [Http.appSend, h]

theorem push_http1_rejected (s : Http.S) (path : Option HV) (headers : Option (List (HV × HV))) (hv : Http1Version s.version) :
    Http.appSend s (some (.push path headers)) = (s, [], some .unexpectedMessage) := by
  have h := (http1_not_in_h2_only_sets s.version hv).2
  simp [Http.appSend, h]

def isInfoOrPush : Http.Ev → Bool
  | .info .. => true
  | .push .. => true
  | _ => false

def noInfoOrPush (l : List Http.Ev) : Bool := l.all (fun e => !isInfoOrPush e)

theorem bodyEv_no_info_or_push (b : Option HV) (evs : List Http.Ev) (h : Http.bodyEv b = .ok evs) : noInfoOrPush evs = true := by
  unfold Http.bodyEv at h
  (repeat' split at h) <;> simp_all [noInfoOrPush, isInfoOrPush] <;> (try (subst h; simp))

theorem bodyPart_no_info_or_push (c : Bool) (b : Option HV) (evs : List Http.Ev)
    (h : (if c = true then Except.ok [] else Http.bodyEv b) = Except.ok evs) : noInfoOrPush evs = true := by
  cases c
  · exact bodyEv_no_info_or_push b evs (by simpa using h)
  · simp at h; subst h; rfl

theorem http1_never_emits_info_or_push (s : Http.S) (m : Option Http.Msg) (hv : Http1Version s.version) :
    noInfoOrPush (Http.appSend s m).2.1 = true := by
  have h1 := (http1_not_in_h2_only_sets s.version hv).1
  have h2 := (http1_not_in_h2_only_sets s.version hv).2
  cases m with
  | none => simp only [Http.appSend]; (repeat' split) <;> simp [noInfoOrPush, isInfoOrPush]
  | some m =>
    cases m with
    | body body more =>
      simp only [Http.appSend, Http.sendClosed]
      (repeat' split) <;> (try simp [noInfoOrPush, isInfoOrPush]) <;>
        (have := bodyPart_no_info_or_push _ _ _ (by assumption); simpa [noInfoOrPush, isInfoOrPush] using this)
    | _ => simp only [Http.appSend, Http.sendClosed, h1, h2] <;> (repeat' split) <;> simp_all [noInfoOrPush, isInfoOrPush]
/-- non-vacuity of the HTTP/1 statements: HTTP/1.1, early hint and push before the response, then the response itself -/
example :
    let s : Http.S := { method := "GET", version := "1.1" }
    Http.appSend s (some (.earlyHint (some [.bytes "</s.css>".b]))) = (s, [], some .unexpectedMessage) ∧
    Http.appSend s (some (.push (some (.str "/p")) (some []))) = (s, [], some .unexpectedMessage) ∧
    (Http.appSend s (some (.start (some 200) (some []) false))).2 = ([.response 200 []], none) ∧
    (Http.appSend { s with version := "2" } (some (.earlyHint (some [.bytes "</s.css>".b])))).2 = ([.info 103 [("link".b, "</s.css>".b)]], none) := by decide

/-- non-vacuity: a concrete HTTP/2 state in which a late push, a second start and a body with a `str` payload are all
    rejected without effect, and a CR/LF header is refused before anything is emitted -/
example :
    let s : Http.S := { method := "GET", version := "2", st := .response, response := some (200, false) }
    Http.appSend s (some (.start (some 200) (some []) false)) = (s, [], some .unexpectedMessage) ∧
    (Http.appSend s (some (.body (some (.str "x")) false))).2 = ([], some .typeError) ∧
    (Http.appSend { s with st := .closed } (some (.push (some (.str "/p")) (some [])))).2 = ([], some .unexpectedMessage) ∧
    (Http.appSend { s with st := .request } (some (.start (some 200) (some [(.bytes "a".b, .bytes "x\r\ny".b)]) false))).2
      = ([], some .valueError) := by decide

end HC.Props.C12
