import HC.Proto.Wrapper
import HC.Props.C01
/-!
# C13 — protocol selection and upgrades lose no bytes and ignore segmentation
-/
namespace HC.Props.C13
open HC HC.Proto.H11 HC.Proto.Wrapper HC.Utils

/-- **ALPN**: HTTP/2 iff `h2` was negotiated -/
theorem select_alpn (alpn : Option String) : selectByAlpn alpn = .h2 ↔ alpn = some "h2" := by
  unfold selectByAlpn; split <;> simp_all

/-- **h2c upgrade iff `Upgrade: h2c` (last Upgrade header, any case) and no body headers; the cleartext preface iff
    the request line is `PRI * HTTP/2.0`; otherwise the connection stays HTTP/1.x** -/
theorem select_spec (r : ReqEv) :
    (checkProtocol r = .h2c ↔ (reqIsH2c r = true ∧ reqHasBody r = false)) ∧
    (checkProtocol r = .prior ↔ (¬ (reqIsH2c r = true ∧ reqHasBody r = false) ∧ reqIsPreface r = true)) ∧
    (checkProtocol r = .none ↔ (¬ (reqIsH2c r = true ∧ reqHasBody r = false) ∧ reqIsPreface r = false)) := by
  unfold checkProtocol
  cases reqIsH2c r <;> cases reqHasBody r <;> cases reqIsPreface r <;> simp

/-- what the three predicates read off the request -/
theorem select_predicates (r : ReqEv) :
    (reqIsH2c r = true ↔ ∃ v, hdr "upgrade".b r.headers = some v ∧ Bytes.lower v = "h2c".b) ∧
    (reqHasBody r = true ↔ ∃ h ∈ r.headers, Bytes.lower (Bytes.stripL1 h.1) = "content-length".b ∨ Bytes.lower (Bytes.stripL1 h.1) = "transfer-encoding".b) ∧
    (reqIsPreface r = true ↔ (r.method = "PRI".b ∧ r.target = "*".b ∧ r.version = "2.0".b)) := by
  refine ⟨?_, ?_, ?_⟩
  · simp [reqIsH2c]
  · simp [reqHasBody]
  · simp [reqIsPreface, and_assoc]

/-- **an h2c upgrade that carries a body is ignored** (served as HTTP/1.x) -/
theorem h2c_with_body_ignored (r : ReqEv) (hb : reqHasBody r = true) : checkProtocol r ≠ .h2c := by
  intro h
  have := (select_spec r).1.mp h
  simp [hb] at this

/-- **no byte is lost or duplicated across the switch**: if the client's stream is `head ++ rest ++ later` where the
    h11 parser consumed `head` (for prior knowledge that is the preface line itself) and `rest` was still buffered
    (`trailing_data`) when the switch happened, then the HTTP/2 machine is given exactly the client's bytes from the
    cut on, whatever reads they later arrive in -/
theorem no_byte_lost_prior (w : W) (hp : w.proto = .h11) (data rest : Bytes) (later : List Bytes)
    (hdata : w.h11Input ++ data = prefaceLine ++ rest) :
    (later.foldl (fun w d => w.read d none) (w.read data (some (.prior, rest)))).h2Input = w.h11Input ++ data ++ later.flatten := by
  have h0 : (w.read data (some (.prior, rest))).h2Input = prefaceLine ++ rest ∧ (w.read data (some (.prior, rest))).proto = .h2 := by
    simp [W.read, hp, firstH2Input]
  have key : ∀ (l : List Bytes) (x : W), x.proto = .h2 → (l.foldl (fun w d => w.read d none) x).h2Input = x.h2Input ++ l.flatten := by
    intro l
    induction l with
    | nil => intro x _; simp
    | cons a t ih =>
      intro x hx
      have h1 : (x.read a none).proto = .h2 ∧ (x.read a none).h2Input = x.h2Input ++ a := by simp [W.read, hx]
      simp only [List.foldl_cons, List.flatten_cons]
      rw [ih _ h1.1, h1.2]; simp
  rw [key later _ h0.2, h0.1, hdata]

theorem no_byte_lost_h2c (w : W) (hp : w.proto = .h11) (data rest : Bytes) (later : List Bytes) :
    (later.foldl (fun w d => w.read d none) (w.read data (some (.h2c, rest)))).h2Input = rest ++ later.flatten := by
  have h0 : (w.read data (some (.h2c, rest))).h2Input = rest ∧ (w.read data (some (.h2c, rest))).proto = .h2 := by
    simp [W.read, hp, firstH2Input]
  have key : ∀ (l : List Bytes) (x : W), x.proto = .h2 → (l.foldl (fun w d => w.read d none) x).h2Input = x.h2Input ++ l.flatten := by
    intro l
    induction l with
    | nil => intro x _; simp
    | cons a t ih =>
      intro x hx
      have h1 : (x.read a none).proto = .h2 ∧ (x.read a none).h2Input = x.h2Input ++ a := by simp [W.read, hx]
      simp only [List.foldl_cons, List.flatten_cons]
      rw [ih _ h1.1, h1.2]; simp
  rw [key later _ h0.2, h0.1]

/-- before a switch, every read goes to the HTTP/1 machine; after it, none does -/
theorem reads_routed (w : W) (data : Bytes) :
    (w.proto = .h11 → (w.read data none).h11Input = w.h11Input ++ data ∧ (w.read data none).h2Input = w.h2Input) ∧
    (w.proto = .h2 → (w.read data none).h11Input = w.h11Input ∧ (w.read data none).h2Input = w.h2Input ++ data) := by
  constructor <;> intro h <;> simp [W.read, h]

/-- **h2c: stream 1 is the upgrade request**: the synthesised header list carries the request's method and target as
    `:method` / `:path`, and after `filter_pseudo_headers` the scope's headers are `host` (the request's host) followed
    by the request's other headers in order -/
theorem h2c_stream1 (r : ReqEv) :
    (h2cHeaders r).take 2 = [(":method".b, r.method), (":path".b, r.target)] ∧
    (h2cHeaders r).drop 2 = r.headers.flatMap (fun h =>
      if Bytes.lower h.1 == "http2-settings".b then [h]
      else if Bytes.lower h.1 == "host".b then [(":authority".b, h.2), h] else [h]) := by
  simp [h2cHeaders]

/-- **h2c: every upgrade reserves stream 1, whatever the HTTP2-Settings payload** — present, empty or absent (the
    wrapper then passes the empty string): `initiate` takes h2's upgrade entry point with exactly that payload, the only
    path on which the upgrade request can be answered as stream 1 -/
theorem h2c_reserves_stream1 (r : ReqEv) :
    initiatePath (wrapperSettings .h2c r) = .upgrade (h2cSettings r) := by
  simp [initiatePath, wrapperSettings, HC.Extracted.H2Init.upgradePath]

/-- the prior-knowledge preface (and ALPN, where `initiate()` is called without arguments) starts a plain HTTP/2
    connection: no stream is made up -/
theorem preface_starts_plain (r : ReqEv) : initiatePath (wrapperSettings .prior r) = .plain ∧ initiatePath none = .plain := by
  simp [initiatePath, wrapperSettings, HC.Extracted.H2Init.upgradePath]

/-- an absent HTTP2-Settings header is the empty payload -/
theorem h2c_settings_absent (r : ReqEv) (h : ∀ x ∈ r.headers, (Bytes.lower x.1 == "http2-settings".b) = false) :
    h2cSettings r = [] ∧ HC.Extracted.H2Init.h2cSettingsDefaultEmpty = true := by
  refine ⟨?_, rfl⟩
  have : r.headers.reverse.find? (fun h => Bytes.lower h.1 == "http2-settings".b) = none := by
    rw [List.find?_eq_none]
    intro x hx
    have := h x (List.mem_reverse.mp hx)
    simp [this]
  simp [h2cSettings, this]

example : initiatePath (wrapperSettings .h2c { method := "GET".b, target := "/".b, headers := [("upgrade".b, "h2c".b)], version := "1.1".b })
    = .upgrade [] := by decide

example :
    let r : ReqEv := { method := "GET".b, target := "/up?x".b, headers := [("host".b, "h.example".b), ("upgrade".b, "h2c".b),
      ("http2-settings".b, "AAMAAABk".b), ("x-a".b, "1".b)], version := "1.1".b }
    checkProtocol r = .h2c ∧ h2cSettings r = "AAMAAABk".b ∧
    filterPseudo (h2cHeaders r) = [("host".b, "h.example".b), ("upgrade".b, "h2c".b), ("http2-settings".b, "AAMAAABk".b), ("x-a".b, "1".b)] := by
  decide

example : checkProtocol { method := "PRI".b, target := "*".b, headers := [], version := "2.0".b } = .prior := by decide
example : checkProtocol { method := "POST".b, target := "/".b, headers := [("upgrade".b, "h2c".b), ("content-length".b, "3".b)], version := "1.1".b } = .none := by
  decide

end HC.Props.C13
