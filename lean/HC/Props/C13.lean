import HC.Proto.Wrapper
import HC.Proto.WrapperRun
import HC.Lib.H2Settings
import HC.Extracted.Select
import HC.Props.C01
/-!
# C13 — protocol selection and upgrades lose no bytes and ignore segmentation
-/
namespace HC.Props.C13
open HC HC.Proto.H11 HC.Proto.Wrapper HC.Utils HC.Extracted

/-- **ALPN**: HTTP/2 iff `h2` was negotiated -/
theorem select_alpn (alpn : Option String) : selectByAlpn alpn = .h2 ↔ alpn = some "h2" := by
  unfold selectByAlpn; split <;> simp_all

/-- **h2c upgrade iff `Upgrade: h2c` (last Upgrade header, any case) and no body headers; the cleartext preface iff
    the request line is `PRI * HTTP/2.0`; otherwise the connection stays HTTP/1.x** -/
theorem select_spec (r : ReqEv) :
    (checkProtocol r = .h2c ↔ (reqIsH2c r = true ∧ reqHasBody r = false)) ∧
    (checkProtocol r = .prior ↔ (¬ (reqIsH2c r = true ∧ reqHasBody r = false) ∧ reqIsPreface r = true)) ∧
    (checkProtocol r = .none ↔ (¬ (reqIsH2c r = true ∧ reqHasBody r = false) ∧ reqIsPreface r = false)) := by
  unfold checkProtocol
  cases reqIsH2c r <;> cases reqHasBody r <;> cases reqIsPreface r <;> simp

/-- what the three predicates read off the request -/
theorem select_predicates (r : ReqEv) :
    (reqIsH2c r = true ↔ ∃ v, hdr "upgrade".b r.headers = some v ∧ Bytes.lower v = "h2c".b) ∧
    (reqHasBody r = true ↔ ∃ h ∈ r.headers, Bytes.lower (Bytes.stripL1 h.1) = "content-length".b ∨ Bytes.lower (Bytes.stripL1 h.1) = "transfer-encoding".b) ∧
    (reqIsPreface r = true ↔ (r.method = "PRI".b ∧ r.target = "*".b ∧ r.version = "2.0".b)) := by
  refine ⟨?_, ?_, ?_⟩
  · simp [reqIsH2c]
  · simp [reqHasBody]
  · simp [reqIsPreface, and_assoc]

/-- **an h2c upgrade that carries a body is ignored** (served as HTTP/1.x) -/
theorem h2c_with_body_ignored (r : ReqEv) (hb : reqHasBody r = true) : checkProtocol r ≠ .h2c := by
  intro h
  have := (select_spec r).1.mp h
  simp [hb] at this

/-- **no byte is lost or duplicated across the switch**: if the client's stream is `head ++ rest ++ later` where the
    h11 parser consumed `head` (for prior knowledge that is the preface line itself) and `rest` was still buffered
    (`trailing_data`) when the switch happened, then the HTTP/2 machine is given exactly the client's bytes from the
    cut on, whatever reads they later arrive in -/
theorem no_byte_lost_prior (w : W) (hp : w.proto = .h11) (data rest : Bytes) (later : List Bytes)
    (hdata : w.h11Input ++ data = prefaceLine ++ rest) :
    (later.foldl (fun w d => w.read d none) (w.read data (some (.prior, rest)))).h2Input = w.h11Input ++ data ++ later.flatten := by
  have h0 : (w.read data (some (.prior, rest))).h2Input = prefaceLine ++ rest ∧ (w.read data (some (.prior, rest))).proto = .h2 := by
    simp [W.read, hp, firstH2Input]
  have key : ∀ (l : List Bytes) (x : W), x.proto = .h2 → (l.foldl (fun w d => w.read d none) x).h2Input = x.h2Input ++ l.flatten := by
    intro l
    induction l with
    | nil => intro x _; simp
    | cons a t ih =>
      intro x hx
      have h1 : (x.read a none).proto = .h2 ∧ (x.read a none).h2Input = x.h2Input ++ a := by simp [W.read, hx]
      simp only [List.foldl_cons, List.flatten_cons]
      rw [ih _ h1.1, h1.2]; simp
  rw [key later _ h0.2, h0.1, hdata]

theorem no_byte_lost_h2c (w : W) (hp : w.proto = .h11) (data rest : Bytes) (later : List Bytes) :
    (later.foldl (fun w d => w.read d none) (w.read data (some (.h2c, rest)))).h2Input = rest ++ later.flatten := by
  have h0 : (w.read data (some (.h2c, rest))).h2Input = rest ∧ (w.read data (some (.h2c, rest))).proto = .h2 := by
    simp [W.read, hp, firstH2Input]
  have key : ∀ (l : List Bytes) (x : W), x.proto = .h2 → (l.foldl (fun w d => w.read d none) x).h2Input = x.h2Input ++ l.flatten := by
    intro l
    induction l with
    | nil => intro x _; simp
    | cons a t ih =>
      intro x hx
      have h1 : (x.read a none).proto = .h2 ∧ (x.read a none).h2Input = x.h2Input ++ a := by simp [W.read, hx]
      simp only [List.foldl_cons, List.flatten_cons]
      rw [ih _ h1.1, h1.2]; simp
  rw [key later _ h0.2, h0.1]

/-- before a switch, every read goes to the HTTP/1 machine; after it, none does -/
theorem reads_routed (w : W) (data : Bytes) :
    (w.proto = .h11 → (w.read data none).h11Input = w.h11Input ++ data ∧ (w.read data none).h2Input = w.h2Input) ∧
    (w.proto = .h2 → (w.read data none).h11Input = w.h11Input ∧ (w.read data none).h2Input = w.h2Input ++ data) := by
  constructor <;> intro h <;> simp [W.read, h]

/-- **h2c: stream 1 is the upgrade request**: the synthesised header list carries the request's method and target as
    `:method` / `:path`, and after `filter_pseudo_headers` the scope's headers are `host` (the request's host) followed
    by the request's other headers in order -/
theorem h2c_stream1 (r : ReqEv) :
    (h2cHeaders r).take 2 = [(":method".b, r.method), (":path".b, r.target)] ∧
    (h2cHeaders r).drop 2 = r.headers.flatMap (fun h =>
      if Bytes.lower h.1 == "http2-settings".b then [h]
      else if Bytes.lower h.1 == "host".b then [(":authority".b, h.2), h] else [h]) := by
  simp [h2cHeaders]

/-- **h2c: every upgrade reserves stream 1, whatever the HTTP2-Settings payload** — present, empty or absent (the
    wrapper then passes the empty string): `initiate` takes h2's upgrade entry point with exactly that payload, the only
    path on which the upgrade request can be answered as stream 1 -/
theorem h2c_reserves_stream1 (r : ReqEv) :
    initiatePath (wrapperSettings .h2c r) = .upgrade (h2cSettings r) := by
  simp [initiatePath, wrapperSettings, HC.Extracted.H2Init.upgradePath]

/-- the prior-knowledge preface (and ALPN, where `initiate()` is called without arguments) starts a plain HTTP/2
    connection: no stream is made up -/
theorem preface_starts_plain (r : ReqEv) : initiatePath (wrapperSettings .prior r) = .plain ∧ initiatePath none = .plain := by
  simp [initiatePath, wrapperSettings, HC.Extracted.H2Init.upgradePath]

/-- an absent HTTP2-Settings header is the empty payload -/
theorem h2c_settings_absent (r : ReqEv) (h : ∀ x ∈ r.headers, (Bytes.lower x.1 == "http2-settings".b) = false) :
    h2cSettings r = [] ∧ HC.Extracted.H2Init.h2cSettingsDefaultEmpty = true := by
  refine ⟨?_, rfl⟩
  have : r.headers.reverse.find? (fun h => Bytes.lower h.1 == "http2-settings".b) = none := by
    rw [List.find?_eq_none]
    intro x hx
    have := h x (List.mem_reverse.mp hx)
    simp [this]
  simp [h2cSettings, this]

example : initiatePath (wrapperSettings .h2c { method := "GET".b, target := "/".b, headers := [("upgrade".b, "h2c".b)], version := "1.1".b })
    = .upgrade [] := by decide

example :
    let r : ReqEv := { method := "GET".b, target := "/up?x".b, headers := [("host".b, "h.example".b), ("upgrade".b, "h2c".b),
      ("http2-settings".b, "AAMAAABk".b), ("x-a".b, "1".b)], version := "1.1".b }
    checkProtocol r = .h2c ∧ h2cSettings r = "AAMAAABk".b ∧
    filterPseudo (h2cHeaders r) = [("host".b, "h.example".b), ("upgrade".b, "h2c".b), ("http2-settings".b, "AAMAAABk".b), ("x-a".b, "1".b)] := by
  decide

example : checkProtocol { method := "PRI".b, target := "*".b, headers := [], version := "2.0".b } = .prior := by decide
example : checkProtocol { method := "POST".b, target := "/".b, headers := [("upgrade".b, "h2c".b), ("content-length".b, "3".b)], version := "1.1".b } = .none := by
  decide


/-! ## The selection tests are the source's own (regenerated by `tools/extract_select.py`) -/

def ofSw : Select.Sw → Switch
  | .none => .none
  | .h2c => .h2c
  | .prior => .prior

/-- **`checkProtocol` is `_check_protocol`'s if / elif chain** over its three atoms, with the source's constants: the loop's
    keys (`upgrade`; `content-length` / `transfer-encoding`), the token `h2c`, the request line `PRI * HTTP/2.0` and the line
    the wrapper puts back in front of the trailing data; the 101 (`connection: upgrade`, `upgrade: h2c` after the configured
    headers) is written before `H2CProtocolRequiredError(trailing_data[0], event)` is raised -/
theorem select_matches_source (r : ReqEv) :
    checkProtocol r = ofSw (Select.switchOf (reqIsH2c r) (reqHasBody r) (reqIsPreface r)) ∧
    Select.upgradeKey = "upgrade".b ∧ Select.h2cToken = "h2c".b ∧ Select.bodyKeys = ["content-length".b, "transfer-encoding".b] ∧
    Select.prefaceMethod = "PRI".b ∧ Select.prefaceTarget = "*".b ∧ Select.prefaceVersion = "2.0".b ∧ Select.prefaceReplay = prefaceLine ∧
    Select.h2c101Status = 101 ∧ Select.h2c101Extra = [("connection".b, "upgrade".b), ("upgrade".b, "h2c".b)] ∧
    Select.h2c101BeforeRaise = true ∧ Select.switchDataIsTrailing = true := by
  refine ⟨?_, by decide, by decide, by decide, by decide, by decide, by decide, by decide, by decide, by decide, by decide, by decide⟩
  unfold checkProtocol Select.switchOf
  cases reqIsH2c r <;> cases reqHasBody r <;> cases reqIsPreface r <;> rfl

/-- **the hand-over, source side**: in both handlers of `ProtocolWrapper.handle` the new `H2Protocol` is constructed, `initiate`d and
    then handed `error.data` (unless it is empty: handing over nothing and not handing over are the same byte string), which is what
    `W.read` does with the trailing data -/
theorem wrapper_replays_trailing (w : W) (hp : w.proto = .h11) (d rest : Bytes) :
    Select.wrapperReplaysData = true ∧
    (w.read d (some (.h2c, rest))).h2Input = rest ∧ (w.read d (some (.prior, rest))).h2Input = Select.prefaceReplay ++ rest ∧
    (w.read d (some (.h2c, rest))).proto = .h2 ∧ (w.read d (some (.prior, rest))).proto = .h2 := by
  have hpre : Select.prefaceReplay = prefaceLine := by decide
  rw [hpre]
  refine ⟨by decide, ?_, ?_, ?_, ?_⟩ <;> simp [W.read, hp, firstH2Input]

/-- **ALPN, source side**: `ProtocolWrapper.__init__` constructs `H2Protocol` iff `alpn_protocol == "h2"`; both workers
    pass `selected_alpn_protocol()` of the TLS object and `"http/1.1"` on a cleartext connection (which never selects h2) -/
theorem select_alpn_source (alpn : Option String) :
    (selectByAlpn alpn = .h2 ↔ Select.alpnSelectsH2 alpn = true) ∧ selectByAlpn (some Select.alpnCleartext) = .h11 := by
  refine ⟨?_, by decide⟩
  unfold selectByAlpn Select.alpnSelectsH2
  split <;> simp_all

/-! ## Segmentation: the outcome is a function of the concatenation of the reads

`Wrapper.run P limit alpn rs` is hypercorn's own read path (one `ProtocolWrapper.handle(RawData)` per read, h11's answer for
the bytes buffered so far, `_check_protocol`, the swap) over an *assumed* head parser `P : HeadParser` (prefix stability: the
structure's fields, sampled against the installed h11 by the harness).  `Wrapper.outcome P alpn total` never sees the reads. -/

/-- **for every list of reads - any number, any sizes - the protocol selected (with the request it was selected on: h11 /
    h11 + WebSocket / h2 by ALPN / h2 by preface / h2 by h2c, served or refused), the bytes the HTTP/1 parser consumed and
    the bytes handed to the HTTP/2 connection are those of `outcome … rs.flatten`**; with them the 101, the entry point of
    `initiate`, the synthesised stream-1 headers and the settings payload (functions of the selection).
    `WithinLimit`: no *incomplete* head among the prefixes outgrows `h11_max_incomplete_size` (otherwise h11 itself answers
    431 depending on where the read ended: `segmentation_dependent_beyond_limit`) -/
theorem segmentation_independent (P : HeadParser) (limit : Nat) (alpn : Option String) (rs : List Bytes)
    (hl : WithinLimit P limit rs.flatten) :
    (run P limit alpn rs).view = outcome P alpn rs.flatten ∧
    (run P limit alpn rs).sel.wrote101 = (outcome P alpn rs.flatten).sel.wrote101 ∧
    (run P limit alpn rs).sel.initPath = (outcome P alpn rs.flatten).sel.initPath ∧
    (run P limit alpn rs).sel.stream1 = (outcome P alpn rs.flatten).sel.stream1 ∧
    (run P limit alpn rs).sel.refused = (outcome P alpn rs.flatten).sel.refused := by
  have h := run_view P limit alpn rs hl
  have hs : (run P limit alpn rs).sel = (outcome P alpn rs.flatten).sel := congrArg View.sel h
  exact ⟨h, by rw [hs], by rw [hs], by rw [hs], by rw [hs]⟩

/-- any two segmentations of the same byte string end in the same state -/
theorem segmentations_agree (P : HeadParser) (limit : Nat) (alpn : Option String) (rs rs' : List Bytes)
    (he : rs.flatten = rs'.flatten) (hl : WithinLimit P limit rs.flatten) :
    (run P limit alpn rs).view = (run P limit alpn rs').view := by
  rw [run_view P limit alpn rs hl, run_view P limit alpn rs' (he ▸ hl), he]

/-- every two-way split equals the one-read run -/
theorem two_way_split_eq_one_read (P : HeadParser) (limit : Nat) (alpn : Option String) (a b : Bytes)
    (hl : WithinLimit P limit (a ++ b)) :
    (run P limit alpn [a, b]).view = (run P limit alpn [a ++ b]).view :=
  segmentations_agree P limit alpn [a, b] [a ++ b] (by simp) (by simpa using hl)

/-- the byte accounting of the specification: nothing lost, nothing duplicated, nothing reordered -/
theorem outcome_bytes (P : HeadParser) (alpn : Option String) (total : Bytes) :
    match (outcome P alpn total).sel with
    | .alpn => (outcome P alpn total).h11Consumed = [] ∧ (outcome P alpn total).h2Input = total
    | .h2c _ _ => (outcome P alpn total).h11Consumed ++ (outcome P alpn total).h2Input = total
    | .prior _ => ∃ rest, (outcome P alpn total).h11Consumed ++ rest = total ∧ (outcome P alpn total).h2Input = prefaceLine ++ rest
    | _ => (outcome P alpn total).h11Consumed = total ∧ (outcome P alpn total).h2Input = [] := by
  unfold outcome
  cases selectByAlpn alpn with
  | h2 => simp
  | h11 =>
    cases hp : P.parse total with
    | need => simp
    | bad => simp
    | head r n =>
      dsimp only
      cases hc : checkProtocol r with
      | none => simp
      | prior => exact ⟨total.drop n, by simp, by simp⟩
      | h2c => simp

/-- **no byte lost or duplicated, for every segmentation**: under ALPN every byte reaches the HTTP/2 connection and none an
    HTTP/1 parser; after an h2c upgrade the HTTP/1 head and the HTTP/2 input partition the client's bytes; after the
    preface the HTTP/2 input is the preface line followed by everything behind the head h11 consumed; otherwise every
    byte went to the HTTP/1 parser -/
theorem no_byte_lost_any_segmentation (P : HeadParser) (limit : Nat) (alpn : Option String) (rs : List Bytes)
    (hl : WithinLimit P limit rs.flatten) :
    match (run P limit alpn rs).view.sel with
    | .alpn => (run P limit alpn rs).view.h11Consumed = [] ∧ (run P limit alpn rs).view.h2Input = rs.flatten
    | .h2c _ _ => (run P limit alpn rs).view.h11Consumed ++ (run P limit alpn rs).view.h2Input = rs.flatten
    | .prior _ => ∃ rest, (run P limit alpn rs).view.h11Consumed ++ rest = rs.flatten ∧
                    (run P limit alpn rs).view.h2Input = prefaceLine ++ rest
    | _ => (run P limit alpn rs).view.h11Consumed = rs.flatten ∧ (run P limit alpn rs).view.h2Input = [] := by
  rw [run_view P limit alpn rs hl]
  exact outcome_bytes P alpn rs.flatten

/-- … and when the head h11 consumed *is* the preface line (what a client speaking HTTP/2 sends), the HTTP/2 connection is
    given the client's bytes verbatim -/
theorem prior_bytes_verbatim (P : HeadParser) (limit : Nat) (alpn : Option String) (rs : List Bytes) (r : ReqEv)
    (hl : WithinLimit P limit rs.flatten) (hs : (run P limit alpn rs).view.sel = .prior r)
    (hh : (run P limit alpn rs).view.h11Consumed = prefaceLine) :
    (run P limit alpn rs).view.h2Input = rs.flatten := by
  have h := no_byte_lost_any_segmentation P limit alpn rs hl
  rw [hs] at h
  obtain ⟨rest, h1, h2⟩ := h
  rw [h2, ← h1, hh]

/-- **ALPN h2: whatever the bytes and however they are cut, no `H11Protocol` is ever constructed and no byte reaches an
    HTTP/1 parser**; `initiate()` is entered without arguments (no stream is made up).  No assumption on the parser, no limit -/
theorem alpn_h2_never_h11 (P : HeadParser) (limit : Nat) (alpn : Option String) (rs : List Bytes) (ha : selectByAlpn alpn = .h2) :
    (run P limit alpn rs).sel = .alpn ∧ (run P limit alpn rs).sel.h11Constructed = false ∧ (run P limit alpn rs).w.proto = .h2 ∧
    (run P limit alpn rs).w.h11Input = [] ∧ (run P limit alpn rs).w.h2Input = rs.flatten ∧
    (run P limit alpn rs).sel.initPath = some .plain := by
  have hi : RS.init alpn = { sel := .alpn, w := { proto := .h2 } } := by simp [RS.init, ha]
  have hr : run P limit alpn rs = rs.foldl (RS.step P limit) { sel := .alpn, w := { proto := .h2 } } := by simp [run, hi]
  obtain ⟨h1, h2, h3, h4⟩ := alpn_foldl P limit rs { sel := .alpn, w := { proto := .h2 } } rfl rfl
  rw [hr]
  refine ⟨h1, by rw [h1]; rfl, h2, h3, by simpa using h4, ?_⟩
  rw [h1]; simp [Sel.initPath, initiatePath, HC.Extracted.H2Init.upgradePath]

/-- without ALPN h2 the connection starts on an `H11Protocol` (and a switch is only ever made from there) -/
theorem no_alpn_starts_h11 (alpn : Option String) (ha : alpn ≠ some "h2") :
    (RS.init alpn).sel = .h11wait ∧ (RS.init alpn).w.proto = .h11 := by
  have : selectByAlpn alpn = .h11 := by unfold selectByAlpn; simp [ha]
  simp [RS.init, this]

/-! ### beyond `h11_max_incomplete_size` the outcome *does* depend on the segmentation (h11's own 431 rule) -/

private def r0 : ReqEv := { method := "GET".b, target := "/".b, headers := [], version := "1.1".b }

/-- a toy parser: the head is complete once three bytes are there -/
def toyParser : HeadParser where
  parse := fun buf => if 3 ≤ buf.length then .head r0 3 else .need
  nil_need := by simp
  head_le := by
    intro buf r n h
    split at h
    · simp only [Parse.head.injEq] at h; omega
    · simp at h
  head_stable := by
    intro buf r n more h
    split at h
    · have : 3 ≤ (buf ++ more).length := by simp only [List.length_append]; omega
      simp only [this, if_true]; exact h
    · simp at h
  bad_stable := by
    intro buf more h
    split at h <;> simp at h

/-- the same three bytes, limit 1: in one read a request, in two reads (2 + 1) the incomplete head is over the limit after
    the first read → error.  `WithinLimit` fails for this input, as it must -/
theorem segmentation_dependent_beyond_limit :
    (run toyParser 1 none [[1, 2], [3]]).sel = .h11bad ∧ (run toyParser 1 none [[1, 2, 3]]).sel = .h11 r0 false ∧
    ¬ WithinLimit toyParser 1 [1, 2, 3] := by
  refine ⟨by decide, by decide, ?_⟩
  intro h
  have := h [1, 2] ⟨[3], rfl⟩ (by decide)
  simp at this

/-! ## WebSocket or HTTP: the stream class -/

/-- **HTTP/1: `_create_stream` makes a `WSStream` iff** the *last* `Connection` header has a token `upgrade` (comma list, any
    case, blanks ignored), the *last* `Upgrade` header (the loop keeps no earlier one) is `websocket` in any case, and the
    method is `GET` in any case - the source's own test and constants.  Everything else is an `HTTPStream` -/
theorem ws_iff_upgrade_get (r : ReqEv) :
    isWebsocketRequest r =
      Select.wsGuard ((Bytes.splitOnB 44 (Bytes.lower ((hdr Select.wsConnectionKey r.headers).getD []))).any (fun t => Bytes.stripL1 t == Select.wsConnToken))
        (Bytes.lower ((hdr Select.wsUpgradeKey r.headers).getD []) == Select.wsUpgradeToken) (Bytes.upper r.method == Select.wsMethod) ∧
    (isWebsocketRequest r = true ↔
      ((Bytes.splitOnB 44 (Bytes.lower ((hdr "connection".b r.headers).getD []))).any (fun t => Bytes.stripL1 t == "upgrade".b) = true ∧
       Bytes.lower ((hdr "upgrade".b r.headers).getD []) = "websocket".b ∧ Bytes.upper r.method = "GET".b)) := by
  refine ⟨?_, HC.Props.C01.websocket_iff r⟩
  simp [isWebsocketRequest, Select.wsGuard, Select.wsConnectionKey, Select.wsConnToken, Select.wsUpgradeKey, Select.wsUpgradeToken, Select.wsMethod]

/-- the last `Upgrade` header wins: whatever came before, the value looked at is the (stripped) value of the last header
    whose stripped, lower-cased name is `upgrade` -/
theorem ws_last_upgrade_wins (hs : Headers) (n v : Bytes) (hn : Bytes.lower (Bytes.stripL1 n) = "upgrade".b) :
    hdr "upgrade".b (hs ++ [(n, v)]) = some (Bytes.stripL1 v) := by
  simp [hdr, hn]

/-- a WebSocket request is never an h2c switch candidate and vice versa: both read the same last `Upgrade` value -/
theorem ws_not_h2c (r : ReqEv) (h : isWebsocketRequest r = true) : reqIsH2c r = false := by
  have hw := ((ws_iff_upgrade_get r).2.mp h).2.1
  unfold reqIsH2c
  cases hu : hdr "upgrade".b r.headers with
  | none => simp
  | some u =>
    rw [hu] at hw
    simp only [Option.getD_some] at hw
    simp only [Option.map_some]
    rw [hw]
    decide

/-- **HTTP/2: `_create_stream` makes a `WSStream` iff the (last) `:method`, upper-cased, is `CONNECT`** (that `:protocol` is
    `websocket` is the handshake's business: C11 `validSpec "2"`); the model's `isConnect` is that test -/
theorem h2_ws_iff_connect (sid : Nat) (hs : Headers) :
    (HC.Proto.H2Deliver.reqOf sid hs).isConnect = (Bytes.upper ((HC.Proto.H2Deliver.lastVal hs ":method".b).getD []) == Select.h2WsMethod) := by
  simp [HC.Proto.H2Deliver.reqOf, Select.h2WsMethod]

/-! ## The h2c upgrade and its HTTP2-Settings payload (F43, repaired in 38e2214) -/

/-- **an h2c upgrade is served as stream 1 iff h2 accepts the HTTP2-Settings payload**; otherwise the connection is ended
    right after the 101 (GOAWAY, `Closed`) and no stream exists.  In both cases the 101 has been written and `initiate` was
    entered on the upgrade path with exactly the request's payload.  Holds for every segmentation (the selection is a
    function of the bytes: `segmentation_independent`) -/
theorem h2c_served_iff_settings_accepted (P : HeadParser) (alpn : Option String) (total : Bytes) (r : ReqEv) (served : Bool)
    (h : (outcome P alpn total).sel = .h2c r served) :
    served = HC.Lib.H2Settings.accepts (h2cSettings r) ∧
    ((outcome P alpn total).sel.stream1 = some (h2cHeaders r) ↔ HC.Lib.H2Settings.accepts (h2cSettings r) = true) ∧
    ((outcome P alpn total).sel.refused = true ↔ HC.Lib.H2Settings.accepts (h2cSettings r) = false) ∧
    (outcome P alpn total).sel.wrote101 = true ∧
    (outcome P alpn total).sel.initPath = some (.upgrade (h2cSettings r)) ∧
    checkProtocol r = .h2c := by
  have key : served = HC.Lib.H2Settings.accepts (h2cSettings r) ∧ checkProtocol r = .h2c := by
    unfold outcome at h
    cases ha : selectByAlpn alpn with
    | h2 => simp [ha] at h
    | h11 =>
      simp only [ha] at h
      cases hp : P.parse total with
      | need => simp [hp] at h
      | bad => simp [hp] at h
      | head r' n =>
        simp only [hp] at h
        cases hc : checkProtocol r' with
        | none => simp [hc] at h
        | prior => simp [hc] at h
        | h2c =>
          simp only [hc, Sel.h2c.injEq] at h
          obtain ⟨h1, h2⟩ := h
          subst h1
          exact ⟨h2.symm, hc⟩
  rw [h]
  refine ⟨key.1, ?_, ?_, rfl, ?_, key.2⟩
  · rw [key.1]; cases HC.Lib.H2Settings.accepts (h2cSettings r) <;> simp [Sel.stream1]
  · rw [key.1]; cases HC.Lib.H2Settings.accepts (h2cSettings r) <;> simp [Sel.refused]
  · simp [Sel.initPath, h2c_reserves_stream1]

/-- an absent or empty HTTP2-Settings header is accepted (today's behaviour, kept): the upgrade request is served -/
theorem h2c_empty_settings_served (r : ReqEv) (h : h2cSettings r = []) : HC.Lib.H2Settings.accepts (h2cSettings r) = true := by
  rw [h]; rfl

/-- **the refusal, source side** (`H2Protocol.initiate`): exactly the classes h2's `initiate_upgrade_connection` raises for
    the value are caught - `ValueError` (a non-ASCII `str`; `binascii.Error` is a subclass), hyperframe's
    `InvalidFrameError` (length), h2's `InvalidSettingsValueError` (range) -, the handler sends GOAWAY(PROTOCOL_ERROR), flushes,
    sends `Closed` and **returns** (no send task, no `_create_stream`); the value is decoded as latin-1, which cannot fail -/
theorem h2c_refused_source :
    Select.h2cRefusedExcepts = ["ValueError", "hyperframe.exceptions.InvalidFrameError", "h2.exceptions.InvalidSettingsValueError"] ∧
    Select.h2cRefusedCalls = ["self.connection.close_connection", "self._flush", "self.send", "Closed"] ∧
    Select.h2cRefusedErrorCode = ["h2.errors.ErrorCodes.PROTOCOL_ERROR"] ∧
    Select.h2cRefusedReturns = true ∧ Select.h2cSettingsCodec = "latin1" := by decide

/-- what h2 accepts (model `HC.Lib.H2Settings`, tied to the installed h2 / hyperframe / binascii by the harness): the empty
    value; otherwise an ASCII string whose lenient base64 decoding (`-_` or `+/`, other characters skipped, a complete pad
    sequence ends the input) is a whole number of (u16, u32) entries whose final values are in range -/
theorem settings_accepted_iff (s : Bytes) (hs : s ≠ []) :
    HC.Lib.H2Settings.accepts s = true ↔
      HC.Lib.H2Settings.isAscii s = true ∧
      ∃ raw ps, HC.Lib.H2Settings.b64decode s = some raw ∧ HC.Lib.H2Settings.pairs raw = some ps ∧ raw.length = 6 * ps.length ∧
        HC.Lib.H2Settings.pairsOk ps = true := by
  rw [HC.Lib.H2Settings.accepts_iff s hs]
  constructor
  · rintro ⟨ha, raw, ps, h1, h2, h3⟩
    exact ⟨ha, raw, ps, h1, h2, HC.Lib.H2Settings.pairs_length raw ps h2, h3⟩
  · rintro ⟨ha, raw, ps, h1, h2, _, h3⟩
    exact ⟨ha, raw, ps, h1, h2, h3⟩

/-- the ranges: only ENABLE_PUSH (2), INITIAL_WINDOW_SIZE (4), MAX_FRAME_SIZE (5) and ENABLE_CONNECT_PROTOCOL (8) are checked;
    every other identifier - known or unknown - takes any value -/
theorem settings_value_ranges (ident value : Nat) :
    HC.Lib.H2Settings.valueOk ident value = true ↔
      ((ident = 2 → value ≤ 1) ∧ (ident = 4 → value ≤ 2147483647) ∧ (ident = 5 → 16384 ≤ value ∧ value ≤ 16777215) ∧ (ident = 8 → value ≤ 1)) := by
  unfold HC.Lib.H2Settings.valueOk
  by_cases h2 : ident = 2
  · subst h2; simp
  · by_cases h4 : ident = 4
    · subst h4; simp
    · by_cases h5 : ident = 5
      · subst h5; simp
      · by_cases h8 : ident = 8
        · subst h8; simp
        · simp [h2, h4, h5, h8]

-- the payloads of the harness: accepted …
example : HC.Lib.H2Settings.accepts "AAMAAABkAAQAAP__".b = true := by decide
example : HC.Lib.H2Settings.applied "AAMAAABkAAQAAP__".b = some [(3, 100), (4, 65535)] := by decide
example : HC.Lib.H2Settings.accepts "AAMAAABk".b = true := by decide
-- … and refused: three bytes (the value of the pinned test), bad padding, MAX_FRAME_SIZE = 0, not ASCII
example : HC.Lib.H2Settings.accepts "abcd".b = false := by decide
example : HC.Lib.H2Settings.accepts "AAMAAABkAAQAAP".b = false := by decide
example : HC.Lib.H2Settings.accepts "AAUAAAAA".b = false := by decide
example : HC.Lib.H2Settings.accepts [0xff, 0xfe] = false := by decide
-- a later value of the same identifier repairs an earlier one (a `dict` is validated): MAX_FRAME_SIZE 0, then 16384
example : HC.Lib.H2Settings.accepts "AAUAAAAAAAUAAEAA".b = true := by decide

/-! ### the hypotheses are satisfiable: the parser the driver runs, on a real opening -/

private def upReq : ReqEv :=
  { method := "GET".b, target := "/up".b, headers := [("host".b, "h".b), ("upgrade".b, "h2c".b), ("http2-settings".b, "AAMAAABk".b)], version := "1.1".b }
private def upHead : Bytes := "GET /up HTTP/1.1\r\nhost: h\r\nupgrade: h2c\r\nhttp2-settings: AAMAAABk\r\n\r\n".b

example : (run (oracle upHead upReq false) 16384 none [upHead.take 10, upHead.drop 10 ++ "XY".b, "Z".b]).view =
    { sel := .h2c upReq true, proto := .h2, h11Consumed := upHead, h2Input := "XYZ".b } := by decide
example : (run (oracle upHead upReq false) 16384 none [upHead ++ "XYZ".b]).view =
    { sel := .h2c upReq true, proto := .h2, h11Consumed := upHead, h2Input := "XYZ".b } := by decide
example : (run (oracle upHead upReq false) 16384 (some "h2") [upHead.take 10, upHead.drop 10]).view =
    { sel := .alpn, proto := .h2, h11Consumed := [], h2Input := upHead } := by decide

end HC.Props.C13
