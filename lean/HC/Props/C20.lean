import HC.Pure.Middleware
/-!
# C20 — Middleware semantics: proxy trust boundary, dispatch routing, HTTPS redirect

Property theorems only (model: `HC/Pure/Middleware.lean`).
-/
namespace HC.Props.C20
open HC HC.Middleware

/-! ### ProxyFix: the trust boundary -/

/-- the extracted comparator is `≥` (re-checked against the source on every run) -/
theorem enough_cmp (a b : Nat) : Extracted.Guards.proxyEnoughCmp.eval a b = decide (a ≥ b) := by
  simp [Extracted.Guards.proxyEnoughCmp, Extracted.Guards.Cmp.eval]

theorem values_append (name : Bytes) (pre hs : Headers) :
    values name (pre ++ hs) = values name pre ++ values name hs := by
  simp [values]

/-- a client that writes `a` in front of a comma-separated value contributes only leading values -/
theorem lineValues_prepend (a v : Bytes) : lineValues (a ++ 44 :: v) = lineValues a ++ lineValues v := by
  simp [lineValues, Bytes.splitOnB_append_sep]

private theorem pick_append (pre vs : List Bytes) (hops : Nat) (h0 : hops ≠ 0) (h : hops ≤ vs.length) :
    (if (pre ++ vs).length ≥ hops then (pre ++ vs)[(pre ++ vs).length - hops]? else none)
      = (if vs.length ≥ hops then vs[vs.length - hops]? else none) := by
  have h1 : (pre ++ vs).length ≥ hops := by simp; omega
  simp only [h1, h, if_true, ge_iff_le]
  rw [List.getElem?_append_right (by simp; omega)]
  congr 1; simp; omega

/-- **Anything a client puts in earlier header lines is never used** (the trusted proxies having appended
    at least `hops` values). -/
theorem trusted_value_ignores_prefix (name : Bytes) (pre hs : Headers) (hops : Nat)
    (h : hops ≤ (values name hs).length) :
    getTrusted name (pre ++ hs) hops = getTrusted name hs hops := by
  unfold getTrusted
  simp only [enough_cmp, decide_eq_true_eq]
  by_cases h0 : hops = 0
  · simp [h0]
  · simp only [h0, if_false, values_append]
    exact pick_append _ _ hops h0 h

/-- the same when the client's values are prepended *inside* the first matching header line -/
theorem trusted_value_ignores_inline_prefix (name n a v : Bytes) (hs : Headers) (hops : Nat)
    (hn : Bytes.lower n = name) (h : hops ≤ (values name ((n, v) :: hs)).length) :
    getTrusted name ((n, a ++ 44 :: v) :: hs) hops = getTrusted name ((n, v) :: hs) hops := by
  unfold getTrusted
  simp only [enough_cmp, decide_eq_true_eq]
  by_cases h0 : hops = 0
  · simp [h0]
  · simp only [h0, if_false]
    have e1 : values name ((n, a ++ 44 :: v) :: hs) = lineValues a ++ values name ((n, v) :: hs) := by
      simp [values, hn, lineValues_prepend]
    rw [e1]
    exact pick_append _ _ hops h0 h

/-- every forwarding header the mode reads carries at least `hops` trusted values -/
def Enough (modern : Bool) (hops : Nat) (hs : Headers) : Prop :=
  if modern then hops ≤ (values "forwarded".b hs).length
  else hops ≤ (values "x-forwarded-for".b hs).length ∧ hops ≤ (values "x-forwarded-proto".b hs).length ∧
       hops ≤ (values "x-forwarded-host".b hs).length

/-- client, scheme and host are chosen from the trusted values alone -/
theorem trusted_ignores_prefix (modern : Bool) (hops : Nat) (pre hs : Headers) (h : Enough modern hops hs) :
    trusted modern hops (pre ++ hs) = trusted modern hops hs := by
  unfold trusted
  cases modern with
  | true =>
    simp only [Enough, if_true] at h
    simp only [if_true, trusted_value_ignores_prefix _ pre hs hops h]
    cases hg : getTrusted "forwarded".b hs hops with
    | some v => rfl
    | none =>
      -- enough values and none ⇒ hops = 0 ⇒ every lookup is none
      have h0 : hops = 0 := by
        unfold getTrusted at hg
        simp only [enough_cmp, decide_eq_true_eq] at hg
        by_cases h0 : hops = 0
        · exact h0
        · simp only [h0, if_false, ge_iff_le, h, if_true] at hg
          have : (values "forwarded".b hs).length - hops < (values "forwarded".b hs).length := by omega
          simp [List.getElem?_eq_none_iff] at hg; omega
      simp [getTrusted, h0]
  | false =>
    simp only [Enough, Bool.false_eq_true, if_false] at h
    obtain ⟨h1, h2, h3⟩ := h
    simp only [Bool.false_eq_true, if_false, trusted_value_ignores_prefix _ pre hs hops h1,
      trusted_value_ignores_prefix _ pre hs hops h2, trusted_value_ignores_prefix _ pre hs hops h3]

/-- what the wrapped application sees as client / scheme is a function of the trusted triple only -/
theorem only_trusted_used (modern : Bool) (hops : Nat) (sc : Scope)
    (hk : sc.kind = "http" ∨ sc.kind = "websocket") :
    (proxyFix modern hops sc).client =
        (match (trusted modern hops sc.headers).client with | some c => some (c, 0) | none => sc.client) ∧
    (proxyFix modern hops sc).scheme =
        (match (trusted modern hops sc.headers).scheme with | some s => s | none => sc.scheme) ∧
    (proxyFix modern hops sc).headers =
        (match (trusted modern hops sc.headers).host with
          | some h => sc.headers.filter (fun x => Bytes.lower x.1 != "host".b) ++ [("host".b, utf8OfLatin1 h)]
          | none => sc.headers) := by
  simp only [proxyFix, hk, if_true, applyTrusted]
  cases (trusted modern hops sc.headers).client <;> cases (trusted modern hops sc.headers).scheme <;>
    cases (trusted modern hops sc.headers).host <;> simp

theorem zero_hops_untouched (modern : Bool) (sc : Scope) : proxyFix modern 0 sc = sc := by
  unfold proxyFix
  split
  · cases modern <;> simp [trusted, getTrusted, applyTrusted]
  · rfl

/-- fewer values than trusted hops in every header the mode reads: the scope is handed on unchanged -/
theorem too_few_untouched (modern : Bool) (hops : Nat) (sc : Scope)
    (hf : (values "forwarded".b sc.headers).length < hops)
    (h1 : (values "x-forwarded-for".b sc.headers).length < hops)
    (h2 : (values "x-forwarded-proto".b sc.headers).length < hops)
    (h3 : (values "x-forwarded-host".b sc.headers).length < hops) :
    proxyFix modern hops sc = sc := by
  have g : ∀ name, (values name sc.headers).length < hops → getTrusted name sc.headers hops = none := by
    intro name hlt
    unfold getTrusted
    simp only [enough_cmp, decide_eq_true_eq]
    split
    · rfl
    · simp only [ge_iff_le]; split
      · omega
      · rfl
  unfold proxyFix
  split
  · cases modern <;> simp [trusted, g _ hf, g _ h1, g _ h2, g _ h3, applyTrusted]
  · rfl

theorem other_scope_untouched (modern : Bool) (hops : Nat) (sc : Scope)
    (hk : ¬ (sc.kind = "http" ∨ sc.kind = "websocket")) : proxyFix modern hops sc = sc := by
  simp [proxyFix, hk]

-- the hypothesis of `trusted_value_ignores_prefix` is sharp: with too few trusted values a prepended one IS used
example : getTrusted "x-forwarded-for".b ([("x-forwarded-for".b, "evil".b)] ++ [("x-forwarded-for".b, "proxy".b)]) 2
            = some "evil".b ∧
          getTrusted "x-forwarded-for".b [("x-forwarded-for".b, "proxy".b)] 2 = none := by decide
-- non-vacuity: two trusted hops, attacker prefix of two values in an earlier line and inline
example : getTrusted "x-forwarded-for".b
    ([("X-Forwarded-For".b, "6.6.6.6, 7.7.7.7".b)] ++ [("x-forwarded-for".b, "1.2.3.4 , 10.0.0.1".b)]) 2
      = some "1.2.3.4".b := by decide
example : Enough false 1 [("x-forwarded-for".b, "a".b), ("x-forwarded-proto".b, "https".b), ("x-forwarded-host".b, "h".b)] := by
  simp only [Enough, Bool.false_eq_true, if_false]; decide

/-! ### Dispatcher -/

private theorem dispatchFrom_some (mounts : List (List Char)) (path : List Char) :
    ∀ (k i : Nat) (p : List Char), dispatchFrom k mounts path = some (i, p) →
      ∃ m, k ≤ i ∧ mounts[i - k]? = some m ∧ m <+: path ∧
        (∀ j, j < i - k → ∀ m', mounts[j]? = some m' → ¬ m' <+: path) ∧
        p = (if path.drop m.length = [] then ['/'] else path.drop m.length) := by
  induction mounts with
  | nil => intro k i p h; simp [dispatchFrom] at h
  | cons m ms ih =>
    intro k i p h
    simp only [dispatchFrom] at h
    split at h
    · rename_i hp
      simp only [Option.some.injEq, Prod.mk.injEq] at h
      obtain ⟨rfl, rfl⟩ := h
      refine ⟨m, Nat.le_refl _, by simp, List.isPrefixOf_iff_prefix.mp hp, by simp, rfl⟩
    · rename_i hp
      obtain ⟨m', hk, hget, hpre, hfirst, hp'⟩ := ih (k + 1) i p h
      refine ⟨m', by omega, ?_, hpre, ?_, hp'⟩
      · have : i - k = (i - (k + 1)) + 1 := by omega
        rw [this]; simpa using hget
      · intro j hj m'' hm''
        cases j with
        | zero =>
          simp only [List.getElem?_cons_zero, Option.some.injEq] at hm''
          subst hm''
          intro hc; exact hp (List.isPrefixOf_iff_prefix.mpr hc)
        | succ j =>
          simp only [List.getElem?_cons_succ] at hm''
          exact hfirst j (by omega) m'' hm''

/-- **first match wins, the prefix is stripped, and the path handed on is never empty** -/
theorem dispatch_first_match (mounts : List (List Char)) (path : List Char) (i : Nat) (p : List Char)
    (h : dispatch mounts path = some (i, p)) :
    ∃ m, mounts[i]? = some m ∧ m <+: path ∧
      (∀ j, j < i → ∀ m', mounts[j]? = some m' → ¬ m' <+: path) ∧
      p ≠ [] ∧ (m ++ p = path ∨ (p = ['/'] ∧ m = path)) := by
  obtain ⟨m, _, hget, hpre, hfirst, hp⟩ := dispatchFrom_some mounts path 0 i p h
  refine ⟨m, by simpa using hget, hpre, by simpa using hfirst, ?_, ?_⟩
  · subst hp; split <;> simp_all
  · obtain ⟨t, ht⟩ := hpre
    subst ht
    simp only [List.drop_left'] at hp
    by_cases hte : t = []
    · right; subst hte; simp_all
    · left; simp_all

private theorem dispatchFrom_none (mounts : List (List Char)) (path : List Char) :
    ∀ k, dispatchFrom k mounts path = none ↔ ∀ m ∈ mounts, ¬ m <+: path := by
  induction mounts with
  | nil => intro k; simp [dispatchFrom]
  | cons m ms ih =>
    intro k
    simp only [dispatchFrom, List.mem_cons, forall_eq_or_imp]
    split
    · rename_i hp; simp [List.isPrefixOf_iff_prefix.mp hp]
    · rename_i hp
      rw [ih (k + 1)]
      constructor
      · intro h; exact ⟨fun hc => hp (List.isPrefixOf_iff_prefix.mpr hc), h⟩
      · intro h; exact h.2

/-- 404 exactly when no mount prefix matches -/
theorem dispatch_404_iff (mounts : List (List Char)) (path : List Char) :
    dispatch mounts path = none ↔ ∀ m ∈ mounts, ¬ m <+: path := dispatchFrom_none mounts path 0

example : dispatch ["/api".toList, "/".toList, "/api/v2".toList] "/api/v2/x".toList = some (0, "/v2/x".toList) := by decide
example : dispatch ["/api".toList] "/api".toList = some (0, "/".toList) := by decide
example : dispatch ["/api".toList] "/other".toList = none := by decide

/-! ### Dispatcher lifespan fan-out -/

def FanOp.inRange (n : Nat) : FanOp → Prop
  | .startupComplete i => i < n
  | .shutdownComplete i => i < n
  | .other i => i < n

/-- `lifespan.startup.complete` / `shutdown.complete` go upstream only in a state in which every mount has reported -/
theorem fan_forward_only_when_all (f : Fan) (op : FanOp) (h : (f.step op).2 = true) :
    (∃ i, op = .startupComplete i ∧ (f.step op).1.startup.all id = true) ∨
    (∃ i, op = .shutdownComplete i ∧ (f.step op).1.shutdown.all id = true) := by
  cases op with
  | startupComplete i =>
    left; refine ⟨i, rfl, ?_⟩
    simp only [Fan.step] at h ⊢
    split at h <;> simp_all
  | shutdownComplete i =>
    right; refine ⟨i, rfl, ?_⟩
    simp only [Fan.step] at h ⊢
    split at h <;> simp_all
  | other i => simp [Fan.step] at h

private def startupIdx : FanOp → Option Nat
  | .startupComplete i => some i
  | _ => none

private def shutdownIdx : FanOp → Option Nat
  | .shutdownComplete i => some i
  | _ => none

private structure FanInv (n : Nat) (seenU seenD : List Nat) (f : Fan) : Prop where
  lenU : f.startup.length = n
  lenD : f.shutdown.length = n
  memU : ∀ j, j < n → (f.startup[j]? = some true ↔ j ∈ seenU)
  memD : ∀ j, j < n → (f.shutdown[j]? = some true ↔ j ∈ seenD)
  leU : f.fwdStartup ≤ 1
  leD : f.fwdShutdown ≤ 1
  allU : f.fwdStartup = 1 → ∀ j, j < n → j ∈ seenU
  allD : f.fwdShutdown = 1 → ∀ j, j < n → j ∈ seenD

private theorem all_id_iff (l : List Bool) : l.all id = true ↔ ∀ j, j < l.length → l[j]? = some true := by
  simp only [List.all_eq_true, id]
  constructor
  · intro h j hj
    rw [List.getElem?_eq_getElem hj]; simp [h _ (List.getElem_mem hj)]
  · intro h b hb
    obtain ⟨j, hj, rfl⟩ := List.getElem_of_mem hb
    have := h j hj
    rw [List.getElem?_eq_getElem hj] at this; simpa using this

private theorem fan_inv_step (n : Nat) (seenU seenD : List Nat) (f : Fan) (op : FanOp)
    (hI : FanInv n seenU seenD f) (hr : FanOp.inRange n op)
    (hU : ∀ i, startupIdx op = some i → i ∉ seenU) (hD : ∀ i, shutdownIdx op = some i → i ∉ seenD) :
    FanInv n ((startupIdx op).toList ++ seenU) ((shutdownIdx op).toList ++ seenD) (f.step op).1 := by
  obtain ⟨lenU, lenD, memU, memD, leU, leD, allU, allD⟩ := hI
  cases op with
  | other i => exact ⟨lenU, lenD, by simpa [Fan.step, startupIdx] using memU, by simpa [Fan.step, shutdownIdx] using memD,
      leU, leD, by simpa [Fan.step, startupIdx] using allU, by simpa [Fan.step, shutdownIdx] using allD⟩
  | startupComplete i =>
    have hi : i < n := hr
    have hnew : i ∉ seenU := hU i rfl
    have h0 : f.fwdStartup = 0 := by
      have := allU
      by_cases h1 : f.fwdStartup = 1
      · exact absurd (this h1 i hi) hnew
      · omega
    have hmem : ∀ j, j < n → ((f.startup.set i true)[j]? = some true ↔ j ∈ i :: seenU) := by
      intro j hj
      by_cases hji : j = i
      · subst hji; simp [List.getElem?_set, lenU, hj]
      · rw [List.getElem?_set_ne (Ne.symm hji)]
        simp [memU j hj, hji]
    simp only [Fan.step]
    split
    · rename_i hall
      refine ⟨by simp [lenU], lenD, by simpa [startupIdx] using hmem, by simpa [shutdownIdx] using memD,
        by simp [h0], leD, ?_, by simpa [shutdownIdx] using allD⟩
      intro _ j hj
      have := (all_id_iff _).mp hall j (by rw [List.length_set, lenU]; exact hj)
      simpa [startupIdx] using (hmem j hj).mp this
    · refine ⟨by simp [lenU], lenD, by simpa [startupIdx] using hmem, by simpa [shutdownIdx] using memD,
        leU, leD, ?_, by simpa [shutdownIdx] using allD⟩
      intro h1; have h1' : f.fwdStartup = 1 := h1; omega
  | shutdownComplete i =>
    have hi : i < n := hr
    have hnew : i ∉ seenD := hD i rfl
    have h0 : f.fwdShutdown = 0 := by
      by_cases h1 : f.fwdShutdown = 1
      · exact absurd (allD h1 i hi) hnew
      · omega
    have hmem : ∀ j, j < n → ((f.shutdown.set i true)[j]? = some true ↔ j ∈ i :: seenD) := by
      intro j hj
      by_cases hji : j = i
      · subst hji; simp [List.getElem?_set, lenD, hj]
      · rw [List.getElem?_set_ne (Ne.symm hji)]
        simp [memD j hj, hji]
    simp only [Fan.step]
    split
    · rename_i hall
      refine ⟨lenU, by simp [lenD], by simpa [startupIdx] using memU, by simpa [shutdownIdx] using hmem,
        leU, by simp [h0], by simpa [startupIdx] using allU, ?_⟩
      intro _ j hj
      have := (all_id_iff _).mp hall j (by rw [List.length_set, lenD]; exact hj)
      simpa [shutdownIdx] using (hmem j hj).mp this
    · refine ⟨lenU, by simp [lenD], by simpa [startupIdx] using memU, by simpa [shutdownIdx] using hmem,
        leU, leD, by simpa [startupIdx] using allU, ?_⟩
      intro h1; have h1' : f.fwdShutdown = 1 := h1; omega

private theorem fan_inv_run (n : Nat) : ∀ (ops : List FanOp) (seenU seenD : List Nat) (f : Fan),
    FanInv n seenU seenD f → (∀ o ∈ ops, FanOp.inRange n o) →
    (ops.filterMap startupIdx ++ seenU).Nodup → (ops.filterMap shutdownIdx ++ seenD).Nodup →
    ∃ sU sD, FanInv n sU sD (f.run ops) ∧ (∀ j, j ∈ sU ↔ j ∈ ops.filterMap startupIdx ++ seenU) ∧
      (∀ j, j ∈ sD ↔ j ∈ ops.filterMap shutdownIdx ++ seenD) := by
  intro ops
  induction ops with
  | nil => intro sU sD f hI _ _ _; exact ⟨sU, sD, by simpa [Fan.run] using hI, by simp, by simp⟩
  | cons op ops ih =>
    intro sU sD f hI hr hnU hnD
    have hstep := fan_inv_step n sU sD f op hI (hr op (by simp))
      (by
        intro i hi
        simp only [List.filterMap_cons, hi, List.cons_append] at hnU
        have := (List.nodup_cons.mp hnU).1
        intro hc; exact this (List.mem_append_right _ hc))
      (by
        intro i hi
        simp only [List.filterMap_cons, hi, List.cons_append] at hnD
        have := (List.nodup_cons.mp hnD).1
        intro hc; exact this (List.mem_append_right _ hc))
    have hnU' : (ops.filterMap startupIdx ++ ((startupIdx op).toList ++ sU)).Nodup := by
      cases hs : startupIdx op with
      | none => simpa [List.filterMap_cons, hs] using hnU
      | some i =>
        simp only [List.filterMap_cons, hs, List.cons_append] at hnU
        simp only [Option.toList_some, List.cons_append, List.nil_append]
        exact (List.perm_middle.nodup_iff).mpr hnU
    have hnD' : (ops.filterMap shutdownIdx ++ ((shutdownIdx op).toList ++ sD)).Nodup := by
      cases hs : shutdownIdx op with
      | none => simpa [List.filterMap_cons, hs] using hnD
      | some i =>
        simp only [List.filterMap_cons, hs, List.cons_append] at hnD
        simp only [Option.toList_some, List.cons_append, List.nil_append]
        exact (List.perm_middle.nodup_iff).mpr hnD
    obtain ⟨sU', sD', hI', hU', hD'⟩ := ih _ _ _ hstep (fun o ho => hr o (by simp [ho])) hnU' hnD'
    refine ⟨sU', sD', by simpa [Fan.run] using hI', ?_, ?_⟩
    · intro j; rw [hU' j]; cases hs : startupIdx op <;> simp [List.filterMap_cons, hs] <;> grind
    · intro j; rw [hD' j]; cases hs : shutdownIdx op <;> simp [List.filterMap_cons, hs] <;> grind

private theorem fan_inv_init (n : Nat) : FanInv n [] [] (Fan.init n) := by
  refine ⟨by simp [Fan.init], by simp [Fan.init], ?_, ?_, by simp [Fan.init], by simp [Fan.init],
    by simp [Fan.init], by simp [Fan.init]⟩ <;>
  · intro j hj; simp [Fan.init, List.getElem?_replicate, hj]

/-- **fan-out**: when every mount reports each completion at most once, `startup.complete`
    (resp. `shutdown.complete`) is forwarded at most once, and when it is, every mount has reported. -/
theorem lifespan_fanout (n : Nat) (ops : List FanOp) (hr : ∀ o ∈ ops, FanOp.inRange n o)
    (hU : (ops.filterMap startupIdx).Nodup) (hD : (ops.filterMap shutdownIdx).Nodup) :
    let f := (Fan.init n).run ops
    f.fwdStartup ≤ 1 ∧ f.fwdShutdown ≤ 1 ∧
    (f.fwdStartup = 1 → ∀ j, j < n → FanOp.startupComplete j ∈ ops) ∧
    (f.fwdShutdown = 1 → ∀ j, j < n → FanOp.shutdownComplete j ∈ ops) := by
  obtain ⟨sU, sD, hI, hsU, hsD⟩ := fan_inv_run n ops [] [] (Fan.init n) (fan_inv_init n) hr (by simpa using hU) (by simpa using hD)
  refine ⟨hI.leU, hI.leD, ?_, ?_⟩
  · intro h1 j hj
    have := (hsU j).mp (hI.allU h1 j hj)
    simp only [List.append_nil, List.mem_filterMap] at this
    obtain ⟨o, ho, hoj⟩ := this
    cases o <;> simp [startupIdx] at hoj
    subst hoj; exact ho
  · intro h1 j hj
    have := (hsD j).mp (hI.allD h1 j hj)
    simp only [List.append_nil, List.mem_filterMap] at this
    obtain ⟨o, ho, hoj⟩ := this
    cases o <;> simp [shutdownIdx] at hoj
    subst hoj; exact ho

/-- and it *is* forwarded as soon as the last mount reports -/
theorem fan_forwards_when_last (f : Fan) (i : Nat) (h : (f.startup.set i true).all id = true) :
    (f.step (.startupComplete i)).2 = true := by simp [Fan.step, h]

example : ((Fan.init 3).run [.startupComplete 2, .startupComplete 0, .other 1, .startupComplete 1]).fwdStartup = 1 := by decide
example : ((Fan.init 3).run [.startupComplete 2, .startupComplete 0]).fwdStartup = 0 := by decide

/-! ### HTTPS redirect -/

def absPath (p : List Char) : List Char := if p ≠ [] ∧ p.take 1 ≠ ['/'] then '/' :: p else p

theorem urlunsplit_netloc (scheme netloc path query : List Char) (hs : scheme ≠ []) (hn : netloc ≠ []) :
    urlunsplit scheme netloc path query =
      scheme ++ "://".toList ++ netloc ++ absPath path ++ (if query ≠ [] then '?' :: query else []) := by
  have e : "://".toList = [':', '/', '/'] := by decide
  simp only [urlunsplit, absPath, hn, hs, e, ne_eq, not_false_eq_true, true_or, if_true]
  by_cases hq : query = [] <;> simp [hq]

/-- the path of the Location is built from the request target as sent (`raw_path`), not from its percent-decoded form:
    this is where the *extracted* choice of scope key enters the proofs -/
theorem request_path_is_raw (sc : RScope) : requestPath sc = sc.rawPath := by
  simp [requestPath, Extracted.RedirectSites.redirectPathSource]

/-- **cleartext HTTP is redirected to the same host, path and query under https** -/
theorem redirect_http (cfgHost : Option (List Char)) (sc : RScope) (host : List Char)
    (hk : sc.kind = "http") (hsch : sc.scheme = "http")
    (hh : pickHost cfgHost sc = some host) (hne : host ≠ []) :
    redirect cfgHost sc = .httpRedirect
      ("https://".toList ++ host ++ absPath (sc.rootPath ++ sc.rawPath) ++ (if sc.query ≠ [] then '?' :: sc.query else [])) := by
  have hu : newUrl cfgHost "https".toList sc = some ("https://".toList ++ host ++ absPath (sc.rootPath ++ sc.rawPath) ++
      (if sc.query ≠ [] then '?' :: sc.query else [])) := by
    simp only [newUrl, hh, Option.map_some, urlunsplit_netloc _ _ _ _ (by decide : "https".toList ≠ []) hne, request_path_is_raw]
    rfl
  simp only [redirect, hk, hsch, and_self, if_true, hu]

/-- **cleartext WebSocket is redirected under wss (https on HTTP/2), or refused when the extension is missing** -/
theorem redirect_ws (cfgHost : Option (List Char)) (sc : RScope) (host : List Char)
    (hk : sc.kind = "websocket") (hsch : sc.scheme = "ws")
    (hh : pickHost cfgHost sc = some host) (hne : host ≠ []) :
    redirect cfgHost sc =
      if sc.hasWsResponseExt then
        .wsRedirect ((if sc.httpVersion = "2" then "https://".toList else "wss://".toList) ++ host ++
          absPath (sc.rootPath ++ sc.rawPath) ++ (if sc.query ≠ [] then '?' :: sc.query else []))
      else .wsClose := by
  have hk' : ¬ (sc.kind = "http" ∧ sc.scheme = "http") := by rw [hk]; exact fun h => absurd h.1 (by decide)
  have hu : ∀ s : List Char, s ≠ [] → newUrl cfgHost s sc = some (s ++ "://".toList ++ host ++ absPath (sc.rootPath ++ sc.rawPath) ++
      (if sc.query ≠ [] then '?' :: sc.query else [])) := by
    intro s hs
    simp only [newUrl, hh, Option.map_some, urlunsplit_netloc _ _ _ _ hs hne, request_path_is_raw]
  unfold redirect
  rw [if_neg hk', if_pos ⟨hk, hsch⟩]
  by_cases he : sc.hasWsResponseExt = true
  · rw [if_pos he, if_pos he]
    by_cases h2 : sc.httpVersion = "2"
    · rw [if_pos h2, if_pos h2, hu _ (by decide)]; rfl
    · rw [if_neg h2, if_neg h2, hu _ (by decide)]; rfl
  · rw [if_neg he, if_neg he]

/-- **secure (and non-www) scopes reach the wrapped application unchanged** -/
theorem secure_passthrough (cfgHost : Option (List Char)) (sc : RScope)
    (h1 : ¬ (sc.kind = "http" ∧ sc.scheme = "http")) (h2 : ¬ (sc.kind = "websocket" ∧ sc.scheme = "ws")) :
    redirect cfgHost sc = .passThrough := by
  unfold redirect; rw [if_neg h1, if_neg h2]

private def exScope : RScope :=
  { kind := "http", scheme := "http", httpVersion := "1.1", hasWsResponseExt := false,
    hostHeader := some "a.example".toList, rootPath := "/r".toList, rawPath := "/p%20q".toList, path := "/p q".toList,
    query := "x=1".toList }
example : redirect none exScope = .httpRedirect "https://a.example/r/p%20q?x=1".toList := by decide

/-- **the redirect names the same resource**: whatever the percent-decoded `path` of the scope is, it has no influence on
    the action — in particular an escaped `?`, `#`, `/`, `%`, space or CR LF in the target is handed back as it was sent -/
theorem redirect_ignores_decoded_path (cfgHost : Option (List Char)) (sc : RScope) (p : List Char) :
    redirect cfgHost { sc with path := p } = redirect cfgHost sc := by
  simp [redirect, newUrl, request_path_is_raw, pickHost]

example : redirect none { exScope with rawPath := "/report%3F2024.pdf".toList, path := "/report?2024.pdf".toList, query := [] } =
    .httpRedirect "https://a.example/r/report%3F2024.pdf".toList := by decide

end HC.Props.C20
