import HC.Proto.H2Recv
import HC.Proto.H11
import HC.Proto.H11Safe
/-!
# C04 — no client input causes an internal error; HTTP/2 faults stay on their stream

HTTP/2 part: theorems about `HC.Proto.H2Recv` (the `Except`-valued receive-side glue of `H2Protocol` over oracle
libraries, every `except` clause read from the source by the extractor).

* `total_h2`             — full statement; `total_h2_partial` is what holds of the code as it is, `total_h2_fails_as_is`
                           the negation witness (finding F44: `RecursionError` out of `next(self.priority)`).
* `h2_protocol_error`    — `receive_data` raising any h2 `ProtocolError` ⇒ flush (GOAWAY) then `Closed`, state untouched.
* `isolation`            — non-interference for the merely unusual events.

HTTP/1 and WebSocket (over `HC.Proto.H11` / `HC.Stream.Ws`, lemmas in `HC/Proto/H11Total|H11Inv|H11Run|H11Ev|H11Safe.lean`,
`HC/Stream/WsTotal.lean`, `HC/Lib/H11MSend.lean`):

* `h1_rejected_classified` — every `none` of the model's reader step (what the driver reports as "rejected") is either an op the
                           libraries / the scheduler cannot produce (`enabled` = LibWf false) or an exception leaving the handler
                           at one of the places `escapeEv` names;
* `total_h1` / `total_h1_from` — for every op sequence satisfying LibWf (any application behaviour, any interleaving, closes,
                           shutdown, the deferred `StreamClosed` of self-answering streams) no op lets an exception escape the
                           connection handler and the model accepts every op;
* `total_ws` / `total_ws_from` — `WSStream.handle` never raises for any sequence of wsproto events allowed by the library's
                           message-reassembly state, application messages (with or without a raising protocol) and closes.
-/
namespace HC.Props.C04
open HC.Proto.H2Recv HC.Extracted

/-! ### what the extracted `except` clauses catch -/

theorem catches_handle (e : Exn) (h : e.isH2 = true) : catches C04Sites.h2Handle e = true := by
  cases e <;> revert h <;> decide
theorem catches_terminated (e : Exn) (h : e.isH2 = true) : catches C04Sites.h2EventsTerminated e = true := by
  cases e <;> revert h <;> decide
theorem catches_errorResponse (e : Exn) (h : e.isH2 = true) : catches C04Sites.h2ErrorResponse e = true := by
  cases e <;> revert h <;> decide
theorem catches_refuse (e : Exn) (h : e.isH2 = true) : catches C04Sites.h2CreateRefuse e = true := by
  cases e <;> revert h <;> decide
theorem catches_abandonReset (e : Exn) (h : e.isH2 = true) : catches C04Sites.h2AbandonReset e = true := by
  cases e <;> revert h <;> decide
theorem catches_streamSend_h2 (e : Exn) (h : e.isH2 = true) : catches C04Sites.h2StreamSend e = true := by
  cases e <;> revert h <;> decide
theorem catches_sendData_h2 (e : Exn) (h : e.isH2 = true) : catches C04Sites.h2SendData e = true := by
  cases e <;> revert h <;> decide
theorem catches_prioOuter (e : Exn) (h : e.isPrio = true) : catches C04Sites.h2PrioOuter e = true := by
  cases e <;> revert h <;> decide
theorem catches_data_keyError : catches C04Sites.h2EventsData .keyError = true := by decide
theorem catches_ended_keyError : catches C04Sites.h2EventsEnded .keyError = true := by decide
theorem catches_decode : catches C04Sites.h2CreateDecode .unicodeDecodeError = true := by decide
theorem catches_insert_duplicate : catches C04Sites.h2CreateInsertPass .prioDuplicate = true := by decide
theorem catches_insert_tooMany_pass : catches C04Sites.h2CreateInsertPass .prioTooMany = false := by decide
theorem catches_insert_tooMany : catches C04Sites.h2CreateInsertRefuse .prioTooMany = true := by decide
theorem catches_reprio_missing : catches C04Sites.h2PrioReprioritize .prioMissing = true := by decide
theorem catches_reprio_only_missing (e : Exn) (h : e.isPrio = true) (hne : (e == Exn.prioMissing) = false) :
    catches C04Sites.h2PrioReprioritize e = false := by
  cases e <;> revert h hne <;> decide
theorem catches_next_deadlock : catches C04Sites.h2SendTaskNext .prioDeadlock = true := by decide
theorem catches_next_recursion : catches C04Sites.h2SendTaskNext .recursionError = false := by decide
theorem catches_streamSend_keyError : catches C04Sites.h2StreamSend .keyError = true := by decide
theorem catches_streamSend_missing : catches C04Sites.h2StreamSend .prioMissing = true := by decide
theorem catches_streamSend_bufferComplete : catches C04Sites.h2StreamSend .bufferComplete = true := by decide
theorem catches_sendData_keyError : catches C04Sites.h2SendData .keyError = true := by decide
theorem catches_sendData_missing : catches C04Sites.h2SendData .prioMissing = true := by decide
theorem catches_cleanup_missing : catches C04Sites.h2SendDataCleanup .prioMissing = true := by decide
theorem catches_abandonRemove_missing : catches C04Sites.h2AbandonRemove .prioMissing = true := by decide

/-! ### priority-tree membership under the tree operations -/

theorem pmem_prioSet (p : List (Nat × Bool)) (sid x : Nat) (a : Bool) : pmem (prioSet p sid a) x = pmem p x := by
  induction p with
  | nil => rfl
  | cons q t ih =>
    simp only [pmem, prioSet, List.map_cons, List.any_cons] at *
    rw [ih]
    by_cases h : q.1 = sid
    · subst h; simp
    · have : (q.1 == sid) = false := by simpa using h
      simp [this]

theorem pmem_append (p q : List (Nat × Bool)) (x : Nat) : pmem (p ++ q) x = (pmem p x || pmem q x) := by
  simp [pmem, List.any_append]

theorem pmem_prioInsert_self (p : List (Nat × Bool)) (sid dep : Nat) : pmem (prioInsert p sid dep) sid = true := by
  simp [prioInsert, pmem]

theorem pmem_prioInsert_mono (p : List (Nat × Bool)) (sid dep x : Nat) (h : pmem p x = true) : pmem (prioInsert p sid dep) x = true := by
  unfold prioInsert
  split <;> simp [pmem_append, h]

theorem pmem_prioParent_mono (p : List (Nat × Bool)) (dep x : Nat) (h : pmem p x = true) : pmem (prioParent p dep) x = true := by
  unfold prioParent
  split <;> simp [pmem_append, h]

theorem pmem_prioErase (p : List (Nat × Bool)) (sid x : Nat) (hne : x ≠ sid) : pmem (prioErase p sid) x = pmem p x := by
  induction p with
  | nil => rfl
  | cons q t ih =>
    simp only [pmem, prioErase, List.filter_cons, List.any_cons] at *
    by_cases h : q.1 = sid
    · have h1 : (q.1 != sid) = false := by simp [h]
      have h2 : (q.1 == x) = false := by simp [h]; exact fun hx => hne hx.symm
      simp [h1, h2, ih]
    · have h1 : (q.1 != sid) = true := by simpa using h
      simp [h1, ih]

theorem mem_keysDel (l : List Nat) (sid x : Nat) : x ∈ keysDel l sid ↔ x ∈ l ∧ x ≠ sid := by
  simp [keysDel]

theorem mem_keysAdd (l : List Nat) (sid x : Nat) : x ∈ keysAdd l sid ↔ x ∈ l ∨ x = sid := by
  unfold keysAdd
  split
  · rename_i h
    constructor
    · exact Or.inl
    · rintro (h1 | h1)
      · exact h1
      · subst h1; simpa using h
  · simp

/-! ### the pieces of the reader are total and keep the invariant -/

theorem prioBlock_ok (s : St) (sid : Nat) (a : Bool) (h : s.inPrio sid = true) :
    ∃ o, prioBlock s sid a = .ok ({ s with prio := prioSet s.prio sid a }, o) := by
  simp [prioBlock, h]

theorem inv_prioSet (s : St) (sid : Nat) (a : Bool) (hI : Inv s) : Inv { s with prio := prioSet s.prio sid a } := by
  intro x hx
  have := hI x hx
  simpa [St.inPrio, pmem_prioSet] using this

theorem unblockAll_ok : ∀ (l : List Nat) (s : St) (o : List Out), Inv s → (∀ x ∈ l, x ∈ s.buffers) →
    ∃ s1 o1, unblockAll s l o = .ok (s1, o1) ∧ Inv s1 ∧ s1.buffers = s.buffers ∧ s1.streams = s.streams ∧
      (∀ x, s1.inPrio x = s.inPrio x) := by
  intro l
  induction l with
  | nil => intro s o hI _; exact ⟨s, o, rfl, hI, rfl, rfl, fun _ => rfl⟩
  | cons sid rest ih =>
    intro s o hI hl
    have hp : s.inPrio sid = true := hI sid (hl sid (by simp))
    obtain ⟨o1, ho1⟩ := prioBlock_ok s sid true hp
    have hI1 := inv_prioSet s sid true hI
    obtain ⟨s2, o2, h2, hI2, hb2, hs2, hp2⟩ := ih { s with prio := prioSet s.prio sid true } (o ++ o1) hI1
      (fun x hx => hl x (by simp [hx]))
    refine ⟨s2, o2, ?_, hI2, hb2, hs2, ?_⟩
    · simp only [unblockAll, ho1]; exact h2
    · intro x; rw [hp2 x]; simp [St.inPrio, pmem_prioSet]

theorem windowUpdated_ok (s : St) (sid : Nat) (hI : Inv s) :
    ∃ s1 o1, windowUpdated s sid = .ok (s1, o1) ∧ Inv s1 ∧ s1.buffers = s.buffers ∧ s1.streams = s.streams := by
  unfold windowUpdated
  split
  · obtain ⟨s1, o1, h1, hI1, hb, hs, _⟩ := unblockAll_ok s.buffers s [] hI (fun _ h => h)
    exact ⟨s1, o1 ++ [.hasData], by simp [h1], hI1, hb, hs⟩
  · split
    · rename_i hc
      have hp : s.inPrio sid = true := hI sid (by simpa using hc)
      obtain ⟨o1, ho1⟩ := prioBlock_ok s sid true hp
      exact ⟨_, o1 ++ [.hasData], by simp [ho1], inv_prioSet s sid true hI, rfl, rfl⟩
    · exact ⟨s, [.hasData], rfl, hI, rfl, rfl⟩

theorem errorResponse_ok (s : St) (sid : Nat) (lib : Option Exn) (hl : optAll Exn.isH2 lib = true) :
    ∃ o, errorResponse s sid lib = .ok (s, o) := by
  cases lib with
  | none => exact ⟨_, rfl⟩
  | some e => exact ⟨[.h2call "send_headers" sid true], by simp [errorResponse, catches_errorResponse e (by simpa [optAll] using hl)]⟩

theorem errorResponse_same (s s1 : St) (sid : Nat) (lib : Option Exn) (o : List Out)
    (h : errorResponse s sid lib = .ok (s1, o)) : s1 = s ∧ ∀ x ∈ o, x.tag = some sid ∨ x.tag = none := by
  cases lib with
  | none =>
    simp only [errorResponse, Except.ok.injEq, Prod.mk.injEq] at h
    obtain ⟨h1, h2⟩ := h
    subst h1 h2
    exact ⟨rfl, by intro x hx; simp at hx; rcases hx with rfl | rfl <;> simp [Out.tag]⟩
  | some e =>
    simp only [errorResponse] at h
    split at h
    · simp only [Except.ok.injEq, Prod.mk.injEq] at h
      obtain ⟨h1, h2⟩ := h
      subst h1 h2
      exact ⟨rfl, by intro x hx; simp at hx; subst hx; simp [Out.tag]⟩
    · cases h

/-- a request without `:path`, or with a non-ASCII `:method` / `:path`, is answered by `_create_stream` itself -/
theorem createStream_rejected (s : St) (r : Req) (ins lib : Option Exn) (hm : r.hasMethod = true)
    (hbad : (!r.hasPath || !r.methodAscii || !r.pathAscii) = true) :
    createStream s r ins lib = errorResponse s r.sid lib := by
  unfold createStream
  cases h1 : r.hasPath <;> cases h2 : r.methodAscii <;> cases h3 : r.pathAscii <;>
    simp_all [decodeHeaders, catches_decode, C04Sites.h2CreateDecodeChecksPath, C04Sites.h2CreateDecodeReturns,
      C04Sites.h2CreatePathDefault, C04Sites.h2CreatePathGuard, C04Sites.h2CreatePathGuardAnswers, bind, Except.bind]

/-- `_create_stream` never lets an exception escape, and keeps the invariant -/
theorem createStream_ok (s : St) (r : Req) (ins lib : Option Exn) (hI : Inv s)
    (hw : (Ev.request r ins lib).wf s = true) :
    ∃ s1 o, createStream s r ins lib = .ok (s1, o) ∧ Inv s1 := by
  simp only [Ev.wf, Req.wf, Bool.and_eq_true] at hw
  obtain ⟨⟨⟨hm, hp⟩, hl⟩, hins⟩ := hw
  unfold createStream
  simp only [decodeHeaders, C04Sites.h2CreateDecodeChecksPath, C04Sites.h2CreateDecodeReturns, catches_decode, hm,
    C04Sites.h2CreatePathDefault, C04Sites.h2CreatePathGuard, C04Sites.h2CreatePathGuardAnswers, C04Sites.h2CreateInsertFirst,
    Bool.true_and, Bool.and_true, Bool.and_self, if_true, bind, Except.bind, Bool.not_true, Bool.false_eq_true, if_false]
  by_cases hbad : (!r.methodAscii || r.hasPath && !r.pathAscii) = true
  · simp only [hbad, if_true]
    obtain ⟨o, ho⟩ := errorResponse_ok s r.sid lib hl
    exact ⟨s, o, by simp [ho], hI⟩
  · have hbad' : (!r.methodAscii || r.hasPath && !r.pathAscii) = false := by simpa using hbad
    simp only [hbad', Bool.false_eq_true, if_false]
    by_cases hpath : r.hasPath = true
    · have hpa : r.pathAscii = true := by
        cases h1 : r.pathAscii with
        | true => rfl
        | false => simp [hpath, h1] at hbad'
      simp only [hpath, Bool.not_true, Bool.false_eq_true, if_false, streamRequest, hpa, if_true]
      cases ins with
      | none =>
        have hnp : s.inPrio r.sid = false := by simpa using hins
        simp only [hnp, Bool.false_eq_true, if_false]
        refine ⟨_, _, rfl, ?_⟩
        intro x hx
        simp only [mem_keysAdd] at hx
        simp only [St.inPrio, pmem_prioSet]
        rcases hx with hx | hx
        · exact pmem_prioInsert_mono _ _ _ _ (hI x hx)
        · subst hx; exact pmem_prioInsert_self _ _ _
      | some e =>
        simp only [Bool.or_eq_true, Bool.and_eq_true, beq_iff_eq] at hins
        rcases hins with ⟨he, hin⟩ | ⟨he, hin⟩
        · subst he
          simp only [catches_insert_duplicate, if_true]
          refine ⟨_, _, rfl, ?_⟩
          intro x hx
          simp only [mem_keysAdd] at hx
          rcases hx with hx | hx
          · exact hI x hx
          · subst hx; exact hin
        · subst he
          simp only [catches_insert_tooMany_pass, Bool.false_eq_true, if_false, catches_insert_tooMany, if_true]
          cases lib with
          | none => exact ⟨s, _, rfl, hI⟩
          | some e2 =>
            have := catches_refuse e2 (by simpa [optAll] using hl)
            exact ⟨s, [.prioCall "insert_stream" r.sid (some Exn.prioTooMany.cls), .h2call "reset_stream" r.sid true], by simp [this], hI⟩
    · have hpath' : r.hasPath = false := by simpa using hpath
      simp only [hpath', Bool.not_false, if_true]
      obtain ⟨o, ho⟩ := errorResponse_ok s r.sid lib hl
      exact ⟨s, o, by simp [ho], hI⟩

theorem closeStream_inv (s : St) (sid : Nat) (hI : Inv s) : Inv (closeStream s sid).1 ∧ (closeStream s sid).1.buffers = s.buffers := by
  unfold closeStream
  split
  · exact ⟨fun x hx => hI x hx, rfl⟩
  · exact ⟨hI, rfl⟩

theorem priorityUpdated_ok (s : St) (sid dep : Nat) (rep ins : Option Exn) (pe : Bool) (hI : Inv s)
    (hw : (Ev.priority sid dep rep ins pe).wf s = true) :
    ∃ s1 o, priorityUpdated s sid dep rep ins pe = .ok (s1, o) ∧ Inv s1 := by
  simp only [Ev.wf, Bool.and_eq_true] at hw
  obtain ⟨hrep, hins⟩ := hw
  have hmonoP : ∀ (s : St), Inv s → Inv { s with prio := prioParent s.prio dep } := by
    intro s hI x hx
    exact pmem_prioParent_mono _ _ _ (hI x hx)
  have hwp : ∀ (s : St), Inv s → Inv (if pe then { s with prio := prioParent s.prio dep } else s) := by
    intro s hI; split
    · exact hmonoP s hI
    · exact hI
  unfold priorityUpdated
  cases rep with
  | none =>
    have hin : s.inPrio sid = true := by simpa using hrep
    simp only [hin, if_true]
    exact ⟨_, _, rfl, hmonoP s hI⟩
  | some e =>
    simp only [Bool.and_eq_true] at hrep
    obtain ⟨hpr, hmiss⟩ := hrep
    by_cases hem : e = .prioMissing
    · subst hem
      simp only [catches_reprio_missing, if_true]
      cases ins with
      | none =>
        refine ⟨_, _, rfl, ?_⟩
        intro x hx
        simp only [St.inPrio, pmem_prioSet]
        exact pmem_prioInsert_mono _ _ _ _ (hI x hx)
      | some e2 =>
        have h2 : e2.isPrio = true := by
          simp only [optAll, Bool.and_eq_true] at hins; exact hins.1
        simp only [catches_prioOuter e2 h2, if_true]
        exact ⟨_, _, rfl, hwp s hI⟩
    · have hne : (e == Exn.prioMissing) = false := by simpa using hem
      simp only [catches_reprio_only_missing e hpr hne, Bool.false_eq_true, if_false, catches_prioOuter e hpr, if_true]
      exact ⟨_, _, rfl, hwp s hI⟩

/-- every event of a batch is handled without an exception escaping, and the invariant is kept -/
theorem onEvent_ok (kaMax : Nat) (s : St) (e : Ev) (hI : Inv s) (hw : e.wf s = true) :
    ∃ s1 o, onEvent kaMax s e = .ok (s1, o) ∧ Inv s1 := by
  cases e with
  | request r ins lib =>
    simp only [onEvent, bind, Except.bind, pure, Except.pure]
    by_cases ht : s.terminated = true
    · simp only [ht, if_true]
      have hl : optAll Exn.isH2 lib = true := by
        simp only [Ev.wf, Bool.and_eq_true] at hw; exact hw.1.2
      cases lib with
      | none => exact ⟨_, _, rfl, hI⟩
      | some e2 =>
        have := catches_terminated e2 (by simpa [optAll] using hl)
        simp only [this, if_true]
        exact ⟨_, _, rfl, hI⟩
    · have ht' : s.terminated = false := by simpa using ht
      simp only [ht', Bool.false_eq_true, if_false]
      obtain ⟨s1, o, h1, hI1⟩ := createStream_ok s r ins lib hI hw
      simp only [h1]
      exact ⟨_, _, rfl, hI1⟩
  | data sid =>
    simp only [onEvent, catches_data_keyError, if_true]
    split
    · exact ⟨_, _, rfl, hI⟩
    · exact ⟨_, _, rfl, hI⟩
  | ended sid =>
    simp only [onEvent, catches_ended_keyError, if_true]
    split
    · exact ⟨_, _, rfl, hI⟩
    · exact ⟨_, _, rfl, hI⟩
  | reset sid =>
    simp only [onEvent]
    obtain ⟨hI1, _⟩ := closeStream_inv s sid hI
    obtain ⟨s2, o2, h2, hI2, _, _⟩ := windowUpdated_ok (closeStream s sid).1 sid hI1
    simp only [h2]
    exact ⟨_, _, rfl, hI2⟩
  | window sid =>
    obtain ⟨s2, o2, h2, hI2, _, _⟩ := windowUpdated_ok s sid hI
    exact ⟨s2, o2, h2, hI2⟩
  | priority sid dep rep ins pe => exact priorityUpdated_ok s sid dep rep ins pe hI hw
  | settings iw =>
    simp only [onEvent]
    split
    · obtain ⟨s2, o2, h2, hI2, _, _⟩ := windowUpdated_ok s 0 hI
      exact ⟨s2, o2, h2, hI2⟩
    · exact ⟨_, _, rfl, hI⟩
  | terminated => exact ⟨_, _, rfl, hI⟩
  | other => exact ⟨_, _, rfl, hI⟩

/-! ### the send task and the applications' `stream_send` -/

theorem inv_keysDel_prioErase (s : St) (sid : Nat) (hI : Inv s) :
    Inv { s with buffers := keysDel s.buffers sid, prio := prioErase s.prio sid } := by
  intro x hx
  simp only [mem_keysDel] at hx
  simp only [St.inPrio, pmem_prioErase _ _ _ hx.2]
  exact hI x hx.1

theorem inv_keysDel (s : St) (sid : Nat) (hI : Inv s) : Inv { s with buffers := keysDel s.buffers sid } := by
  intro x hx
  simp only [mem_keysDel] at hx
  exact hI x hx.1

/-- the protected body of `_send_data` keeps the invariant whatever happens, and can only be ended by something the
    `except` clause catches -/
theorem sendBody_ok (s : St) (sid : Nat) (o : SendOracle) (hI : Inv s) (hw : o.wf = true) :
    Inv (sendBody s sid o).1 ∧ ∀ e, (sendBody s sid o).2.2 = some e → catches C04Sites.h2SendData e = true := by
  obtain ⟨window, dataEmpty, send, complete, endStream⟩ := o
  simp only [SendOracle.wf, Bool.and_eq_true] at hw
  obtain ⟨⟨hwin, hsend⟩, hend⟩ := hw
  unfold sendBody
  cases window with
  | some e1 =>
    exact ⟨hI, by intro e he; simp only [Option.some.injEq] at he; subst he; exact catches_sendData_h2 e1 (by simpa [optAll] using hwin)⟩
  | none =>
    simp only
    cases hb : s.buffers.contains sid with
    | false =>
      simp only [Bool.not_false, if_true]
      exact ⟨hI, by intro e he; simp only [Option.some.injEq] at he; subst he; exact catches_sendData_keyError⟩
    | true =>
      simp only [Bool.not_true, Bool.false_eq_true, if_false]
      -- whatever the first half leaves, the second half is fine
      have fin : ∀ (sa : St) (oa : List Out), Inv sa →
          Inv (if (complete && !s.closed) = true then
                match endStream with
                | some e => ((sa, oa ++ [Out.h2call "end_stream" sid true], some e) : Partial)
                | none =>
                  if ({ sa with buffers := keysDel sa.buffers sid } : St).inPrio sid = true then
                    ({ sa with buffers := keysDel sa.buffers sid, prio := prioErase sa.prio sid },
                      oa ++ [Out.h2call "end_stream" sid false, Out.flush, Out.prioCall "remove_stream" sid none], none)
                  else ({ sa with buffers := keysDel sa.buffers sid },
                      oa ++ [Out.h2call "end_stream" sid false, Out.flush, Out.prioCall "remove_stream" sid (some Exn.prioMissing.cls)], some .prioMissing)
              else (sa, oa, none)).1 ∧
          ∀ e, (if (complete && !s.closed) = true then
                match endStream with
                | some e => ((sa, oa ++ [Out.h2call "end_stream" sid true], some e) : Partial)
                | none =>
                  if ({ sa with buffers := keysDel sa.buffers sid } : St).inPrio sid = true then
                    ({ sa with buffers := keysDel sa.buffers sid, prio := prioErase sa.prio sid },
                      oa ++ [Out.h2call "end_stream" sid false, Out.flush, Out.prioCall "remove_stream" sid none], none)
                  else ({ sa with buffers := keysDel sa.buffers sid },
                      oa ++ [Out.h2call "end_stream" sid false, Out.flush, Out.prioCall "remove_stream" sid (some Exn.prioMissing.cls)], some .prioMissing)
              else (sa, oa, none)).2.2 = some e → catches C04Sites.h2SendData e = true := by
        intro sa oa hIa
        split
        · cases endStream with
          | some e1 =>
            exact ⟨hIa, by intro e he; simp only [Option.some.injEq] at he; subst he; exact catches_sendData_h2 e1 (by simpa [optAll] using hend)⟩
          | none =>
            simp only
            split
            · exact ⟨inv_keysDel_prioErase sa sid hIa, by intro e he; cases he⟩
            · exact ⟨inv_keysDel sa sid hIa, by intro e he; simp only [Option.some.injEq] at he; subst he; exact catches_sendData_missing⟩
        · exact ⟨hIa, by intro e he; cases he⟩
      cases dataEmpty with
      | true =>
        simp only [if_true]
        cases hp : s.inPrio sid with
        | true => simp only [if_true]; exact fin _ _ (inv_prioSet s sid false hI)
        | false =>
          simp only [Bool.false_eq_true, if_false]
          exact ⟨hI, by intro e he; simp only [Option.some.injEq] at he; subst he; exact catches_sendData_missing⟩
      | false =>
        simp only [Bool.false_eq_true, if_false]
        cases send with
        | some e1 =>
          exact ⟨hI, by intro e he; simp only [Option.some.injEq] at he; subst he; exact catches_sendData_h2 e1 (by simpa [optAll] using hsend)⟩
        | none => exact fin _ _ hI

theorem pmem_map_self (l : List Nat) (x : Nat) (h : x ∈ l) : pmem (l.map (fun b => (b, true))) x = true := by
  simp only [pmem, List.any_map, List.any_eq_true]
  exact ⟨x, h, by simp⟩

theorem sendCleanup_ok (s : St) (sid : Nat) (o0 : List Out) (hI : Inv s) : ∃ s1 o1, sendCleanup s sid o0 = .ok (s1, o1) ∧ Inv s1 := by
  unfold sendCleanup
  simp only
  split
  · exact ⟨_, _, rfl, inv_keysDel_prioErase s sid hI⟩
  · simp only [catches_cleanup_missing, if_true]
    exact ⟨_, _, rfl, fun x hx => pmem_map_self _ x hx⟩

theorem sendData_ok (s : St) (sid : Nat) (o : SendOracle) (hI : Inv s) (hw : o.wf = true) :
    ∃ s1 o1, sendData s sid o = .ok (s1, o1) ∧ Inv s1 := by
  obtain ⟨hI1, hc⟩ := sendBody_ok s sid o hI hw
  unfold sendData
  rcases hb : sendBody s sid o with ⟨s1, o1, err⟩
  rw [hb] at hI1 hc
  cases err with
  | none => exact ⟨s1, o1, rfl, hI1⟩
  | some e =>
    simp only [hc e rfl, if_true]
    exact sendCleanup_ok s1 sid o1 hI1

theorem sendTask_ok (s : St) (n : NextRes) (hI : Inv s) (hw : n.wf false s = true) :
    ∃ s1 o1, sendTask s n = .ok (s1, o1) ∧ Inv s1 := by
  cases n with
  | deadlock => exact ⟨s, [], by simp [sendTask, catches_next_deadlock], hI⟩
  | raised e => simp [NextRes.wf] at hw
  | stream sid o =>
    simp only [NextRes.wf, Bool.and_eq_true] at hw
    exact sendData_ok s sid o hI hw.2

theorem resetAbandoned_ok (s : St) (sid : Nat) (lib : Option Exn) (hI : Inv s) (hl : optAll Exn.isH2 lib = true) :
    Inv (resetAbandoned s sid lib).1 ∧ (resetAbandoned s sid lib).2.2 = none := by
  unfold resetAbandoned
  cases lib with
  | some e1 =>
    simp only [catches_abandonReset e1 (by simpa [optAll] using hl), if_true]
    exact ⟨hI, by first | rfl | trivial⟩
  | none =>
    simp only
    split
    · exact ⟨inv_keysDel_prioErase s sid hI, by first | rfl | trivial⟩
    · simp only [catches_abandonRemove_missing, if_true]; exact ⟨inv_keysDel s sid hI, by first | rfl | trivial⟩

theorem unblockP_ok (s : St) (sid : Nat) (hI : Inv s) :
    Inv (unblockP s sid).1 ∧ (unblockP s sid).1.buffers = s.buffers ∧ ∀ e, (unblockP s sid).2.2 = some e → e = .prioMissing := by
  unfold unblockP
  split
  · exact ⟨inv_prioSet s sid true hI, rfl, by intro e he; cases he⟩
  · exact ⟨hI, rfl, by intro e he; simp only [Option.some.injEq] at he; exact he.symm⟩

/-- the protected body of `stream_send` keeps the invariant whatever happens, and can only be ended by something the
    `except` clause catches -/
theorem streamBody_ok (s : St) (sid : Nat) (op : AppOp) (hI : Inv s) (hw : op.wf = true) :
    Inv (streamBody s sid op).1 ∧ ∀ e, (streamBody s sid op).2.2 = some e → catches C04Sites.h2StreamSend e = true := by
  cases op with
  | headers lib =>
    cases lib with
    | none => exact ⟨hI, by intro e he; cases he⟩
    | some e1 =>
      exact ⟨hI, by intro e he; simp only [streamBody, Option.some.injEq] at he; subst he
                    exact catches_streamSend_h2 e1 (by simpa [AppOp.wf, optAll] using hw)⟩
  | body push =>
    obtain ⟨hI1, _, he1⟩ := unblockP_ok s sid hI
    simp only [streamBody]
    rcases hu : unblockP s sid with ⟨s1, o1, err⟩
    rw [hu] at hI1 he1
    cases err with
    | some e1 =>
      exact ⟨hI1, by intro e he; simp only [Option.some.injEq] at he; subst he; rw [he1 e1 rfl]; exact catches_streamSend_missing⟩
    | none =>
      simp only
      split
      · exact ⟨hI1, by intro e he; simp only [Option.some.injEq] at he; subst he; exact catches_streamSend_keyError⟩
      · cases push with
        | some e1 =>
          refine ⟨hI1, ?_⟩
          intro e he; simp only [Option.some.injEq] at he; subst he
          have : e1 = .bufferComplete := by simpa [AppOp.wf, optAll] using hw
          subst this; exact catches_streamSend_bufferComplete
        | none => exact ⟨hI1, by intro e he; cases he⟩
  | endBody =>
    simp only [streamBody]
    split
    · exact ⟨hI, by intro e he; simp only [Option.some.injEq] at he; subst he; exact catches_streamSend_keyError⟩
    · obtain ⟨hI1, _, he1⟩ := unblockP_ok s sid hI
      rcases hu : unblockP s sid with ⟨s1, o1, err⟩
      rw [hu] at hI1 he1
      cases err with
      | some e1 =>
        exact ⟨hI1, by intro e he; simp only [Option.some.injEq] at he; subst he; rw [he1 e1 rfl]; exact catches_streamSend_missing⟩
      | none => exact ⟨hI1, by intro e he; cases he⟩
  | streamClosed abandon lib =>
    have hl : optAll Exn.isH2 lib = true := by simpa [AppOp.wf] using hw
    have hpre : Inv (if (abandon && s.buffers.contains sid && s.streams.contains sid) = true then resetAbandoned s sid lib else ((s, [], none) : Partial)).1 ∧
        (if (abandon && s.buffers.contains sid && s.streams.contains sid) = true then resetAbandoned s sid lib else ((s, [], none) : Partial)).2.2 = none := by
      split
      · exact resetAbandoned_ok s sid lib hI hl
      · exact ⟨hI, rfl⟩
    simp only [streamBody]
    split
    · exact ⟨hI, by intro e he; cases he⟩
    · rcases hp : (if (abandon && s.buffers.contains sid && s.streams.contains sid) = true then resetAbandoned s sid lib else ((s, [], none) : Partial)) with ⟨s1, o1, err⟩
      rw [hp] at hpre
      obtain ⟨hIa, hna⟩ := hpre
      simp only at hna
      subst hna
      exact ⟨(closeStream_inv s1 sid hIa).1, by intro e he; cases he⟩

theorem streamSend_ok (s : St) (sid : Nat) (op : AppOp) (hI : Inv s) (hw : op.wf = true) :
    ∃ s1 o1, streamSend s sid op = .ok (s1, o1) ∧ Inv s1 := by
  obtain ⟨hI1, hc⟩ := streamBody_ok s sid op hI hw
  unfold streamSend
  rcases hb : streamBody s sid op with ⟨s1, o1, err⟩
  rw [hb] at hI1 hc
  cases err with
  | none => exact ⟨s1, o1, rfl, hI1⟩
  | some e => simp only [hc e rfl, if_true]; exact ⟨s1, o1, rfl, hI1⟩

/-! ### one step, whole runs -/

theorem step_ok (kaMax : Nat) (s : St) (op : Op) (hI : Inv s) (hw : op.wf false s = true) :
    ∃ s1 o, step kaMax s op = .ok (s1, o) ∧ Inv s1 := by
  cases op with
  | ev e => exact onEvent_ok kaMax s e hI hw
  | batchEnd => exact ⟨s, _, rfl, hI⟩
  | recvRaised e => exact ⟨s, [.flush, .upClosed], by simp [step, catches_handle e hw], hI⟩
  | closed => exact ⟨_, _, rfl, fun x hx => hI x hx⟩
  | terminate => exact ⟨_, _, rfl, fun x hx => hI x hx⟩
  | app sid op => exact streamSend_ok s sid op hI hw
  | sendTask n => exact sendTask_ok s n hI hw

theorem run_ok (kaMax : Nat) : ∀ (ops : List Op) (s : St), Inv s → LibWf false kaMax s ops →
    ∃ s1 o, run kaMax s ops = .ok (s1, o) ∧ Inv s1 := by
  intro ops
  induction ops with
  | nil => intro s hI _; exact ⟨s, [], rfl, hI⟩
  | cons op rest ih =>
    intro s hI hw
    obtain ⟨hop, hrest⟩ := hw
    obtain ⟨s1, o1, h1, hI1⟩ := step_ok kaMax s op hI hop
    obtain ⟨s2, o2, h2, hI2⟩ := ih s1 hI1 (hrest s1 o1 h1)
    exact ⟨s2, o1 ++ o2, by simp [run, h1, h2], hI2⟩

/-- **C04 (HTTP/2), full statement**: whatever the libraries may answer (`allowRecursion`: including what the installed
    priority tree can really do), no sequence of events, application sends, send-task iterations, closes … makes an
    exception escape the glue. -/
def TotalH2 (allowRecursion : Bool) : Prop :=
  ∀ (kaMax : Nat) (ops : List Op), LibWf allowRecursion kaMax {} ops → ∃ r, run kaMax {} ops = .ok r

/-- what holds of the code as it is: total for every run in which `next(self.priority)` does not exhaust the
    interpreter's stack (every other library answer is covered) -/
theorem total_h2_partial : TotalH2 false := by
  intro kaMax ops hw
  obtain ⟨s1, o, h, _⟩ := run_ok kaMax ops {} (by intro x hx; cases hx) hw
  exact ⟨(s1, o), h⟩

/-- the same from any state that satisfies the invariant (every buffered stream is in the priority tree), which every
    reachable state does -/
theorem total_h2_from (kaMax : Nat) (s : St) (ops : List Op) (hI : Inv s) (hw : LibWf false kaMax s ops) :
    ∃ r, run kaMax s ops = .ok r := by
  obtain ⟨s1, o, h, _⟩ := run_ok kaMax ops s hI hw
  exact ⟨(s1, o), h⟩

/-- negation witness (finding F44): the send task does not survive a `RecursionError` from `next(self.priority)` -/
theorem total_h2_fails_as_is : ¬ TotalH2 true := by
  intro h
  have := h 1000 [.sendTask (.raised .recursionError)] (by
    refine ⟨by decide, ?_⟩
    intro s1 o1 _; trivial)
  obtain ⟨r, hr⟩ := this
  simp [run, step, sendTask, catches_next_recursion] at hr

/-- hypotheses of `total_h2_partial` are satisfiable by a run that exercises the unusual paths: PRIORITY before HEADERS,
    a refused PRIORITY (tree full), CONNECT without `:path`, a non-ASCII path, an ordinary request, late DATA, reset -/
example : LibWf false 1000 {}
    [.ev (.priority 1 0 (some .prioMissing) none false), .ev (.priority 3 1 (some .prioMissing) (some .prioTooMany) false),
     .ev (.request { sid := 1 } (some .prioDuplicate) none),
     .ev (.request { sid := 5, isConnect := true, hasPath := false } none none),
     .ev (.request { sid := 7, pathAscii := false } none (some .h2StreamClosed)),
     .batchEnd, .app 1 (.headers none), .app 1 (.body none), .app 1 .endBody,
     .sendTask (.stream 1 { complete := true }), .app 1 (.streamClosed false none),
     .ev (.data 1), .ev (.ended 1), .ev (.reset 1), .ev (.window 0), .batchEnd] :=
  libWfB_sound _ _ _ _ (by decide)

/-! ### `h2_protocol_error` -/

/-- `receive_data` raising any of h2's `ProtocolError`s: the pending bytes (h2 has queued the GOAWAY) are flushed, then
    `Closed` is sent; no stream, buffer or tree entry is touched and nothing else happens -/
theorem h2_protocol_error (kaMax : Nat) (s : St) (e : Exn) (he : e.isH2 = true) :
    step kaMax s (.recvRaised e) = .ok (s, [.flush, .upClosed]) := by
  simp [step, catches_handle e he]

/-- every `ProtocolError` subclass h2 defines is covered by that clause -/
theorem h2_protocol_error_classes :
    [Exn.h2Protocol, .h2StreamClosed, .h2NoSuchStream, .h2FlowControl, .h2TooManyStreams, .h2NoAvailableStreamID, .h2FrameTooLarge].all
      Exn.isH2 = true := by decide

/-! ### `isolation` -/

/-- an odd event changes nothing but what is addressed to its own stream (plus connection-level bookkeeping) -/
theorem odd_step (kaMax : Nat) (s s1 : St) (op : Op) (i : Nat) (o : List Out)
    (hodd : oddSid s op = some i) (hs : step kaMax s op = .ok (s1, o)) :
    s1 = s ∧ ∀ x ∈ o, x.tag = some i ∨ x.tag = none := by
  cases op with
  | ev e =>
    cases e with
    | data sid =>
      simp only [oddSid] at hodd
      split at hodd
      · cases hodd
      · rename_i hc
        simp only [Option.some.injEq] at hodd; subst hodd
        simp only [step, onEvent, hc, Bool.false_eq_true, if_false] at hs
        split at hs
        · simp only [Except.ok.injEq, Prod.mk.injEq] at hs
          obtain ⟨h1, h2⟩ := hs; subst h1 h2
          exact ⟨rfl, by intro x hx; simp at hx; subst hx; simp [Out.tag]⟩
        · cases hs
    | ended sid =>
      simp only [oddSid] at hodd
      split at hodd
      · cases hodd
      · rename_i hc
        simp only [Option.some.injEq] at hodd; subst hodd
        simp only [step, onEvent, hc, Bool.false_eq_true, if_false] at hs
        split at hs
        · simp only [Except.ok.injEq, Prod.mk.injEq] at hs
          obtain ⟨h1, h2⟩ := hs; subst h1 h2
          exact ⟨rfl, by intro x hx; cases hx⟩
        · cases hs
    | request r ins lib =>
      simp only [oddSid] at hodd
      split at hodd
      · rename_i hc
        simp only [Option.some.injEq] at hodd; subst hodd
        simp only [Bool.and_eq_true, Bool.not_eq_true', Bool.or_eq_true, Req.wf] at hc
        obtain ⟨⟨ht, hm, hpc⟩, hbad⟩ := hc
        -- `_create_stream` answers the request itself: the state is untouched
        have hcs : ∀ s' o', createStream s r ins lib = .ok (s', o') → s' = s ∧ ∀ x ∈ o', x.tag = some r.sid ∨ x.tag = none := by
          intro s' o' h'
          rw [createStream_rejected s r ins lib hm (by
            rcases hbad with (h1 | h1) | h1 <;> simp [h1])] at h'
          exact errorResponse_same s s' r.sid lib o' h'
        simp only [step, onEvent, ht, Bool.false_eq_true, if_false, bind, Except.bind, pure, Except.pure] at hs
        split at hs
        · cases hs
        · rename_i sp hsp
          obtain ⟨h1, h2⟩ := hcs sp.1 sp.2 hsp
          simp only [Except.ok.injEq, Prod.mk.injEq] at hs
          obtain ⟨hs1, hs2⟩ := hs
          subst hs1 hs2
          refine ⟨h1, ?_⟩
          intro x hx
          simp only [List.mem_append] at hx
          rcases hx with (hx | hx) | hx
          · exact h2 x hx
          · simp at hx; subst hx; simp [Out.tag]
          · split at hx
            · simp at hx; subst hx; simp [Out.tag]
            · cases hx
      · cases hodd
    | reset _ => simp [oddSid] at hodd
    | window _ => simp [oddSid] at hodd
    | priority _ _ _ _ _ => simp [oddSid] at hodd
    | settings _ => simp [oddSid] at hodd
    | terminated => simp [oddSid] at hodd
    | other => simp [oddSid] at hodd
  | batchEnd => simp [oddSid] at hodd
  | recvRaised _ => simp [oddSid] at hodd
  | closed => simp [oddSid] at hodd
  | terminate => simp [oddSid] at hodd
  | app _ _ => simp [oddSid] at hodd
  | sendTask _ => simp [oddSid] at hodd

theorem obs_append (j : Nat) (a b : List Out) : obs j (a ++ b) = obs j a ++ obs j b := by simp [obs]

theorem obs_foreign (i j : Nat) (hij : j ≠ i) (o : List Out) (h : ∀ x ∈ o, x.tag = some i ∨ x.tag = none) : obs j o = [] := by
  simp only [obs, List.filter_eq_nil_iff]
  intro x hx
  rcases h x hx with h1 | h1 <;> simp [h1]
  exact fun h2 => hij h2.symm

/-- **isolation** (non-interference): take any run and leave out the merely unusual events of stream `i` — DATA or
    END_STREAM arriving after its response completed, a CONNECT without `:path`, a non-ASCII `:method` / `:path`.
    The run still succeeds, ends in the *same* state (streams, buffers, priority tree, request counter), and every other
    stream `j` observes exactly the same calls and events, in the same order. -/
theorem isolation (kaMax : Nat) (i j : Nat) (hij : j ≠ i) : ∀ (ops : List Op) (s s1 : St) (o1 : List Out),
    run kaMax s ops = .ok (s1, o1) →
    ∃ o2, runDrop kaMax i s ops = .ok (s1, o2) ∧ obs j o1 = obs j o2 := by
  intro ops
  induction ops with
  | nil =>
    intro s s1 o1 h
    simp only [run, Except.ok.injEq, Prod.mk.injEq] at h
    obtain ⟨h1, h2⟩ := h; subst h1 h2
    exact ⟨[], rfl, rfl⟩
  | cons op rest ih =>
    intro s s1 o1 h
    simp only [run] at h
    split at h
    · cases h
    · rename_i sa oa hstep
      split at h
      · cases h
      · rename_i sb ob hrest
        simp only [Except.ok.injEq, Prod.mk.injEq] at h
        obtain ⟨h1, h2⟩ := h; subst h1 h2
        by_cases hodd : oddSid s op = some i
        · obtain ⟨hsame, htags⟩ := odd_step kaMax s sa op i oa hodd hstep
          subst hsame
          obtain ⟨o2, hd, hobs⟩ := ih sa sb ob hrest
          refine ⟨o2, by simp [runDrop, hodd, hd], ?_⟩
          rw [obs_append, obs_foreign i j hij oa htags, hobs]; rfl
        · obtain ⟨o2, hd, hobs⟩ := ih sa sb ob hrest
          refine ⟨oa ++ o2, by simp [runDrop, hodd, hstep, hd], ?_⟩
          rw [obs_append, obs_append, hobs]

/-- the unusual streams themselves are answered, not dropped: a CONNECT without `:path` and a request with a non-ASCII
    `:method` / `:path` get exactly one `send_headers` (the 400) on their own stream and nothing is created for them -/
theorem unusual_request_answered (s : St) (r : Req) (ins : Option Exn) (hw : r.wf = true)
    (hodd : (!r.hasPath || !r.methodAscii || !r.pathAscii) = true) :
    createStream s r ins none = .ok (s, [.h2call "send_headers" r.sid false, .flush]) := by
  simp only [Req.wf, Bool.and_eq_true] at hw
  rw [createStream_rejected s r ins none hw.1 hodd]; rfl

/-! ### HTTP/1: the malformed-request path of `H11Protocol._handle_events` (model `HC.Proto.H11` over `H11M`) -/

section H1
open HC HC.Proto HC.Lib

/-- the headers of the protocol-level error response, before the server's own headers -/
def errorHeaders (cfg : H11.Cfg) : Headers := [("content-length".b, "0".b), ("connection".b, "close".b)] ++ cfg.serverHeaders

/-- what the model's error path hard-codes is what the source says now: the states in which the hinted response is sent,
    its fixed headers, the EndOfMessage after it, and the class the `except` around `next_event()` names -/
theorem h1_error_guard : C04Sites.h11ErrorStates = ["IDLE", "SEND_RESPONSE"] ∧
    C04Sites.h11ErrorHeaders = [("content-length", "0"), ("connection", "close")] ∧ C04Sites.h11ErrorSendsEom = true ∧
    C04Sites.h11NextEvent = ["h11.RemoteProtocolError"] ∧ C04Sites.h11SendEvent = ["h11.LocalProtocolError"] := by decide

/-- the guard under which `_handle_events` ignores a RemoteProtocolError, extracted as a function of its atoms, is
    `stream is not None and request_complete` and nothing else (in particular it does not look at h11's writer) -/
theorem h1_error_ignore_guard (streamLive requestComplete : Bool) (our their : Nat) :
    Guards.h11ErrorIgnored streamLive requestComplete our their = (streamLive && requestComplete) := by
  rfl

/-- **h1_malformed**: `next_event()` raised RemoteProtocolError with hint `h` while no complete request is being answered
    and h11's writer is IDLE or SEND_RESPONSE: the protocol does exactly two things with h11 — `send(Response h
    [content-length: 0, connection: close, <server headers>])` and `send(EndOfMessage)` — then sends `Closed`, and the
    reader leaves the loop.  Nothing else is emitted. -/
theorem h1_malformed (cfg : H11.Cfg) (st : H11.St) (o0 : List H11.Out) (hint : Nat)
    (hlive : (st.cur.isSome && st.requestComplete) = false)
    (hstate : (H11M.recvError st.lib).server = .idle ∨ (H11M.recvError st.lib).server = .sendResponse) :
    H11.onLibEvBody cfg st o0 (H11.LibEv.protoError hint) =
      some ({ (H11.libSend (H11.libSend { st with lib := H11M.recvError st.lib } (H11.LibSend.response hint (errorHeaders cfg))).1 H11.LibSend.eom).1 with pc := .idle },
            o0 ++ ((H11.libSend { st with lib := H11M.recvError st.lib } (H11.LibSend.response hint (errorHeaders cfg))).2.1 ++
                   (H11.libSend (H11.libSend { st with lib := H11M.recvError st.lib } (H11.LibSend.response hint (errorHeaders cfg))).1 H11.LibSend.eom).2.1) ++ [H11.Out.upClosed]) := by
  have hign : H11.errIgnored { st with lib := H11M.recvError st.lib } = false := by
    rw [H11.errIgnored_eq h1_error_ignore_guard]; exact hlive
  simp only [H11.onLibEvBody, hign, errorHeaders]
  rcases hstate with h | h <;> simp [h]

/-- a call into h11 starts no application and creates no stream -/
theorem libSend_keeps (st : H11.St) (e : H11.LibSend) :
    (H11.libSend st e).1.spawns = st.spawns ∧ (H11.libSend st e).1.objs = st.objs ∧ (H11.libSend st e).1.cur = st.cur := by
  cases e <;> simp only [H11.libSend] <;> split <;> exact ⟨rfl, rfl, rfl⟩

/-- … so the malformed input starts no application: the spawn counter and the stream objects are what they were -/
theorem h1_malformed_no_app (cfg : H11.Cfg) (st st' : H11.St) (o0 o : List H11.Out) (hint : Nat)
    (hlive : (st.cur.isSome && st.requestComplete) = false)
    (hstate : (H11M.recvError st.lib).server = .idle ∨ (H11M.recvError st.lib).server = .sendResponse)
    (h : H11.onLibEvBody cfg st o0 (H11.LibEv.protoError hint) = some (st', o)) : st'.spawns = st.spawns ∧ st'.objs = st.objs := by
  rw [h1_malformed cfg st o0 hint hlive hstate] at h
  simp only [Option.some.injEq, Prod.mk.injEq] at h
  obtain ⟨h1, _⟩ := h
  subst h1
  have a := libSend_keeps { st with lib := H11M.recvError st.lib } (H11.LibSend.response hint (errorHeaders cfg))
  have b := libSend_keeps (H11.libSend { st with lib := H11M.recvError st.lib } (H11.LibSend.response hint (errorHeaders cfg))).1 .eom
  exact ⟨by simp [b.1, a.1], by simp [b.2.1, a.2.1]⟩

/-- in any other writer state nothing is sent, only `Closed` -/
theorem h1_malformed_other_state (cfg : H11.Cfg) (st : H11.St) (o0 : List H11.Out) (hint : Nat)
    (hlive : (st.cur.isSome && st.requestComplete) = false)
    (hstate : (H11M.recvError st.lib).server ≠ .idle ∧ (H11M.recvError st.lib).server ≠ .sendResponse) :
    H11.onLibEvBody cfg st o0 (H11.LibEv.protoError hint) = some ({ st with lib := H11M.recvError st.lib, pc := .idle }, o0 ++ [H11.Out.upClosed]) := by
  have hign : H11.errIgnored { st with lib := H11M.recvError st.lib } = false := by
    rw [H11.errIgnored_eq h1_error_ignore_guard]; exact hlive
  simp [H11.onLibEvBody, hign, hstate.1, hstate.2]

/-- the RemoteProtocolError path never fails (it is the one event the reader handles in every state) -/
theorem h1_protocol_error_total (cfg : H11.Cfg) (st : H11.St) (o0 : List H11.Out) (hint : Nat) :
    (H11.onLibEvBody cfg st o0 (H11.LibEv.protoError hint)).isSome = true := by
  simp only [H11.onLibEvBody]
  split <;> simp

end H1

/-! ### HTTP/1: whole-flow totality (`total_h1`) -/

section H1Total
open HC HC.Stream HC.Proto HC.Proto.H11

/-- **h1_rejected_classified**: the two meanings of the model's `none` are separated.  In any state satisfying the invariant,
    when the reader step of `HC.Proto.H11` answers `none` (the driver's "rejected") then either the op was not enabled — the
    reader is not in its loop, the protocol object was replaced, or h11 / wsproto cannot produce this result in this state —
    or an exception leaves `_handle_events` at one of the sites `escapeEv` names. -/
theorem h1_rejected_classified (cfg : H11.Cfg) (st : H11.St) (g : Ws.Frag) (e : H11.LibEv) (hI : H11.Inv st g)
    (h : H11.onLibEv cfg st e = none) :
    st.pc ≠ .inLoop ∨ st.switched = true ∨ H11.libPossible cfg st g e = false ∨ (H11.escapeEv cfg st e).isSome = true :=
  H11.none_classified cfg st g e (fun i s hi => (hI.wsObj i s hi).1) h

/-- **h1_decode_sites_total**: every place where the reader's own glue (`_handle_events`, `_check_protocol`, `_create_stream`,
    `H2CProtocolRequiredError.__init__`; extracted on every run with codec, operand and enclosing `except` clauses) turns
    client-controlled bytes into text is total: the codec is latin-1 (defined on every byte), or the exception is caught at the
    site, or the bytes are a request-line field / header name that h11's grammar restricts to ASCII.  In particular the VALUES of
    the headers hypercorn reads itself (`Connection`, `Upgrade`, `HTTP2-Settings`) may hold any byte 0x80–0xff.  A source change
    that decodes one of them with a partial codec outside a `try` makes this `decide` fail, and with it `total_h1`. -/
theorem h1_decode_sites_total : H11.decodeSitesTotal = true := by decide

/-- **ws_handshake_names_lowercased**: `Handshake.__init__` lower-cases each header name before it matches it
    (`WsGuards.handshakeName`, the normalisation as it stands in the loop, regenerated by the extractor on every run).  With
    `h11_pass_raw_headers` the names reach the stream as the client wrote them while `_create_stream` recognises the upgrade
    case-insensitively; were the names matched as given, `GET … Upgrade: websocket / connection: upgrade / sec-websocket-key`
    would leave `self.upgrade` unset and `is_valid()` would raise `AttributeError` out of the reader (seeded change C04-10).
    `total_h1` and `total_ws` depend on this (`ws_onRequest_ok`, `scan_facts`). -/
theorem ws_handshake_names_lowercased : Ws.Handshake.NamesLowered := by intro n; rfl

/-- no request — whatever bytes its header values hold — makes a decode site of the reader's glue raise -/
theorem h1_no_decode_escape (fn : String) (r : H11.ReqEv) : H11.decodeRaises fn r = false :=
  H11.decodeRaises_false h1_decode_sites_total fn r

/-- the sites are not vacuous: the three interpreted header values are among them, decoded with a total codec, uncaught -/
theorem h1_decode_sites_cover :
    (["connection", "upgrade", "http2-settings"].all (fun h =>
      C04Sites.h11ReaderDecodes.any (fun (s : H11.DecodeSite) => s.cls == "headerValue" && s.header == h && H11.codecTotal s.codec))) = true := by
  decide

/-- what the obligation excludes, on the model: were `Connection` split with wsproto's ASCII `split_comma_header` outside a `try`
    (site list below), a request with `Connection: k\xe9ep-alive` would make that site raise -/
example : let site : H11.DecodeSite := ("H11Protocol._create_stream", "headerValue", "connection", "ascii", [])
    H11.siteTotal site = false ∧
    H11.valueBad site { method := "GET".b, target := "/".b, headers := [("connection".b, [107, 233, 101, 112])], version := "1.1".b } = true := by
  decide

/-- **total_h1** (from the initial state of a connection): for EVERY sequence of ops — results of `next_event()` /
    `H11WSConnection.next_event()` with the wsproto events they carry, `send` calls of ANY application on ANY stream object (valid
    or not, live or orphaned), `handle(Closed)`, shutdown, the deferred `StreamClosed` of a stream that answered by itself — such
    that each op is one the libraries and the scheduler can produce in the state reached (`LibWf`), no op lets an exception
    escape the connection handler (`escapeT = none`: not the LocalProtocolError `_send_h11_event` re-raises, not an exception out
    of `WSStream.handle`) and the model accepts every op (never "rejected"). -/
theorem total_h1 (cfg : H11.Cfg) (token : Bytes → Bytes) (ext : Option Bytes) (ops : List H11.OpT)
    (hwf : H11.LibWf cfg token ext {} none ops) : H11.NoEscape cfg token ext {} none ops :=
  H11.noEscape_of_inv cfg token ext h1_decode_sites_total ws_handshake_names_lowercased ops {} none H11.inv_init hwf

/-- … and from any state satisfying the invariant -/
theorem total_h1_from (cfg : H11.Cfg) (token : Bytes → Bytes) (ext : Option Bytes) (ops : List H11.OpT) (st : H11.St) (g : Ws.Frag)
    (hI : H11.Inv st g) (hwf : H11.LibWf cfg token ext st g ops) : H11.NoEscape cfg token ext st g ops :=
  H11.noEscape_of_inv cfg token ext h1_decode_sites_total ws_handshake_names_lowercased ops st g hI hwf

/-- one op: enabled ⇒ nothing escapes, the model accepts it, the invariant is kept -/
theorem total_h1_step (cfg : H11.Cfg) (token : Bytes → Bytes) (ext : Option Bytes) (st : H11.St) (g : Ws.Frag) (o : H11.OpT)
    (hI : H11.Inv st g) (hen : H11.enabled cfg st g o = true) :
    H11.escapeT cfg st o = none ∧ ∃ r, H11.stepT cfg token ext st o = some r ∧ H11.Inv r.1 (H11.ghostT g o) :=
  H11.step_ok cfg token ext st g o hI hen h1_decode_sites_total ws_handshake_names_lowercased

/-- in the driver's terms: a LibWf run is never "rejected" -/
theorem total_h1_never_rejected (cfg : H11.Cfg) (token : Bytes → Bytes) (ext : Option Bytes) (ops : List H11.OpT)
    (hwf : H11.LibWf cfg token ext {} none ops) : (H11.runT cfg token ext {} ops).isSome = true :=
  H11.runT_some_of_noEscape cfg token ext ops {} none (total_h1 cfg token ext ops hwf)

/-- the executable form of LibWf (evaluated by the driver on every tapped session) implies the hypothesis of `total_h1` -/
theorem total_h1_of_libWfB (cfg : H11.Cfg) (token : Bytes → Bytes) (ext : Option Bytes) (ops : List H11.OpT)
    (h : H11.libWfB cfg token ext {} none ops = true) : H11.NoEscape cfg token ext {} none ops :=
  total_h1 cfg token ext ops (H11.libWfB_sound cfg token ext ops {} none h)

-- the hypothesis is satisfiable: a request with `Expect: 100-continue` and a body, its response, then (keep-alive) a WebSocket
-- handshake, a fragmented text message with a ping in between, the client's close and `handle(Closed)`
example :
    let req : H11.ReqEv := {
      method := "POST".b, target := "/a".b, version := "1.1".b,
      headers := [("host".b, "x".b), ("expect".b, "100-continue".b), ("content-length".b, "1".b)],
      rawHeaders := [("Host".b, "x".b), ("Expect".b, "100-continue".b), ("Content-Length".b, "1".b)] }
    let wsreq : H11.ReqEv := {
      method := "GET".b, target := "/ws".b, version := "1.1".b,
      headers := [("host".b, "x".b), ("upgrade".b, "websocket".b), ("connection".b, "Upgrade".b), ("sec-websocket-key".b, "k".b), ("sec-websocket-version".b, "13".b)],
      rawHeaders := [("Host".b, "x".b), ("Upgrade".b, "websocket".b), ("Connection".b, "Upgrade".b), ("Sec-WebSocket-Key".b, "k".b), ("Sec-WebSocket-Version".b, "13".b)] }
    let ops : List H11.OpT := [.op .begin, .op (.ev (.request req)), .op (.ev (.data [1])), .op (.ev .eom), .op (.ev .paused),
      .op (.sendHttp 0 (some (.start (some 200) (some []) false))), .op (.sendHttp 0 (some (.body none false))),
      .op (.ev (.request wsreq)), .op (.ev .needData),
      .op (.sendWs 1 (some (.accept none []))), .op .begin,
      .op (.ev (.wsData [] [.message (.text ['a']) false, .ping [], .message (.text ['b']) true])), .op (.ev .needData),
      .op .begin, .op (.ev (.wsData [] [.close 1000])), .op (.ev .needData), .op .closed, .op (.sendWs 1 none), .deferredClose]
    H11.libWfB { keepAliveMax := 10 } (fun _ => []) none {} none ops = true := by
  decide

-- … and it excludes what the libraries cannot do: no second `Request` while the first is unanswered, no `h11.Data` on a
-- WebSocket connection, no BytesMessage fragment inside a text message
example :
    let req : H11.ReqEv := {
      method := "GET".b, target := "/a".b, version := "1.1".b, headers := [("host".b, "x".b)], rawHeaders := [("Host".b, "x".b)] }
    H11.libWfB { keepAliveMax := 10 } (fun _ => []) none {} none [.op .begin, .op (.ev (.request req)), .op (.ev (.request req))] = false := by
  decide

end H1Total

/-! ### WebSocket: `WSStream.handle` never raises (`total_ws`) -/

section WsTotal
open HC HC.Stream HC.Stream.Ws

/-- the ops of one WSStream: data from the protocol (with the events wsproto yields for it), `StreamClosed`, and an application
    message — `raisedAt` names the stream event at which the protocol-level send raised, if one did -/
inductive WsOp where
  | data (evs : List WsEv)
  | streamClosed
  | app (m : Option Msg) (raisedAt : Option Ws.Ev)
deriving Repr, DecidableEq

/-- new state and the exception (if any) that left `handle` -/
def wsStep (token : Bytes → Bytes) (ext : Option Bytes) (s : S) : WsOp → S × Option PyErr
  | .data evs => ((handle s (.data evs)).1, (handle s (.data evs)).2.2.2)
  | .streamClosed => ((handle s .streamClosed).1, (handle s .streamClosed).2.2.2)
  | .app m none => ((appSend token ext s m).1, none)
  | .app m (some e) => (stateAtRaise m s (appSend token ext s m).1 (some e), none)

/-- LibWf for wsproto: the events handed over with data are allowed by the library's reassembly state (none at all while the
    stream does not consult its wsproto connection) -/
def wsEnabled (g : Frag) (s : S) : WsOp → Bool
  | .data evs => dataOk g s evs
  | _ => true

def wsGhost (g : Frag) : WsOp → Frag
  | .data evs => evsNext g evs
  | _ => g

def WsLibWf (token : Bytes → Bytes) (ext : Option Bytes) : S → Frag → List WsOp → Prop
  | _, _, [] => True
  | s, g, o :: os => wsEnabled g s o = true ∧ WsLibWf token ext (wsStep token ext s o).1 (wsGhost g o) os

def WsNoError (token : Bytes → Bytes) (ext : Option Bytes) : S → Frag → List WsOp → Prop
  | _, _, [] => True
  | s, g, o :: os => (wsStep token ext s o).2 = none ∧ WsNoError token ext (wsStep token ext s o).1 (wsGhost g o) os

/-- **total_ws** (from any stream state with a connection object once accepted and a buffer in step with the library): for EVERY
    sequence of wsproto events (any kinds, fragmentation, control frames, closes, parse failures — as far as the library's
    reassembly state allows), application messages (valid or not, answered by a raising protocol or not) and `StreamClosed`,
    `WSStream.handle` never raises -/
theorem total_ws_from (token : Bytes → Bytes) (ext : Option Bytes) : ∀ (ops : List WsOp) (s : S) (g : Frag),
    Ok s → BufRel g s.buffer → WsLibWf token ext s g ops → WsNoError token ext s g ops := by
  intro ops
  induction ops with
  | nil => intro s g _ _ _; trivial
  | cons o os ih =>
    intro s g hok hrel hwf
    obtain ⟨hen, hrest⟩ := hwf
    cases o with
    | data evs =>
      have H := handle_data_total s g evs hok hrel hen
      exact ⟨H.1, ih _ _ H.2.1 H.2.2.1 hrest⟩
    | streamClosed =>
      have H := handle_closed_total s
      refine ⟨H.1, ih _ _ (fun h => ?_) (by simp only [wsStep, wsGhost]; rw [H.2.2.2.2.1]; exact hrel) hrest⟩
      simp only [wsStep] at h ⊢
      rw [H.2.2.2.1]; exact hok (by rw [← H.2.2.1]; exact h)
    | app m at' =>
      cases at' with
      | none =>
        have H := appSend_keeps token ext s m hok
        exact ⟨rfl, ih _ _ H.2.1 (by simp only [wsStep, wsGhost]; rw [H.1]; exact hrel) hrest⟩
      | some e =>
        have H := stateAtRaise_keeps token ext s m (some e) hok
        exact ⟨rfl, ih _ _ H.2.1 (by simp only [wsStep, wsGhost]; rw [H.1]; exact hrel) hrest⟩

/-- the stream `handle(Request)` builds satisfies the hypotheses of `total_ws_from` -/
theorem ws_onRequest_init (maxLen : Nat) (version : String) (hdrs : Headers) (ok ping : Bool) (s : S) (puts : List AppMsg) (evs : List Ws.Ev)
    (h : onRequest maxLen version hdrs ok ping = .ok (s, puts, evs)) : Ok s ∧ BufRel none s.buffer := by
  obtain ⟨h', he, ha, _, _⟩ := HC.Proto.H11.scan_facts HC.Props.C04.ws_handshake_names_lowercased hdrs { version := version }
  unfold onRequest Handshake.ofRequest at h
  simp only [he, bind, Except.bind, pure, Except.pure] at h
  have hacc : h'.accepted = false := ha
  split at h
  · simp only [Except.ok.injEq, Prod.mk.injEq] at h
    obtain ⟨rfl, _⟩ := h
    exact ⟨fun hx => by simp [hacc] at hx, bufRel_fresh _⟩
  · split at h
    · cases h
    · split at h
      · simp only [Except.ok.injEq, Prod.mk.injEq] at h
        obtain ⟨rfl, _⟩ := h
        exact ⟨fun hx => by simp [hacc] at hx, bufRel_fresh _⟩
      · simp only [Except.ok.injEq, Prod.mk.injEq] at h
        obtain ⟨rfl, _⟩ := h
        exact ⟨fun hx => by simp [hacc] at hx, bufRel_fresh _⟩

/-- **total_ws**: … for the stream of any request -/
theorem total_ws (token : Bytes → Bytes) (ext : Option Bytes) (maxLen : Nat) (version : String) (hdrs : Headers) (ok ping : Bool)
    (s : S) (puts : List AppMsg) (evs : List Ws.Ev) (h : onRequest maxLen version hdrs ok ping = .ok (s, puts, evs))
    (ops : List WsOp) (hwf : WsLibWf token ext s none ops) : WsNoError token ext s none ops :=
  total_ws_from token ext ops s none (ws_onRequest_init maxLen version hdrs ok ping s puts evs h).1
    (ws_onRequest_init maxLen version hdrs ok ping s puts evs h).2 hwf

/-- without the library restriction the statement is false: a BytesMessage fragment inside a text message (which wsproto never
    yields) makes `WebsocketBuffer.extend` raise TypeError — the hypothesis is needed, not decoration -/
theorem total_ws_needs_libWf :
    (handle { hs := { version := "1.1", accepted := true }, conn := some .open, buffer := { maxLength := 10 }, st := .connected }
      (.data [.message (.text ['a']) false, .message (.bytes [1]) true])).2.2.2 = some .typeError := by decide

end WsTotal

/-- `H2Protocol.initiate` (h2c upgrade): the send task is spawned before the upgrade request is handed to a stream, so a stream
    that answers by itself (404 / 400) and waits for its response to be written is not waiting for a task that does not exist
    yet (F82: the reader stayed inside `initiate` for ever); and the stream is not looked up with `[]` afterwards (it may have
    closed itself).  Liveness itself is judged by the `connection_stuck` monitor; this guard re-opens when the order changes. -/
theorem h2_initiate_guard : C04Sites.h2InitiateSpawnFirst = true ∧ C04Sites.h2InitiateStreamLookupGuarded = true := by decide

/-- every answer WSStream gives to a handshake changes the state before its first `await` — the 500 of a finished application
    (F98), the head of a rejection (F99), `websocket.close` → 403, `websocket.accept` → 101 — so that bytes arriving whilst the
    answer is being written are not answered with a second response (`handle` answers early data in HANDSHAKE only).  The one-op
    model cannot see these windows (they are inside one op); `Ws.appSend` (HTTPCLOSED with the 500) and `Ws.stateAtRaise` follow
    this order, which is read off the source on every run: moving an assignment behind its send re-opens this obligation. -/
theorem ws_answer_order_guard : C04Sites.wsExit500StateFirst = true ∧ C04Sites.wsRejectionStateBeforeHead = true ∧
    C04Sites.wsClose403StateFirst = true ∧ C04Sites.wsAcceptStateFirst = true := by decide

/-- the one place where WSStream answers early data is the state the source names (F40): the Ws model's branch is tied
    to it -/
theorem ws_early_data_guard : C04Sites.wsEarlyDataAnsweredIn = "HANDSHAKE" ∧ C04Sites.wsSendEvent = ["wsproto.LocalProtocolError"] ∧
    C04Sites.wsBufferExtend = ["FrameTooLargeError"] ∧ C04Sites.utilsHostDecode = ["UnicodeDecodeError"] ∧
    C04Sites.wsHandshakeSplit = ["UnicodeDecodeError"] := by decide

end HC.Props.C04
