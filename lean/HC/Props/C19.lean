import HC.Pure.Config
import HC.Pure.ConfigObjects
/-!
# C19 — Configuration sources agree; command-line flags wired one-to-one; binds parse; response headers

Property theorems only (model: `HC/Pure/Config.lean`; tables: `HC/Extracted/Cli.lean`, regenerated from
`src/hypercorn/__main__.py` on every run, so `cli_table_wired` is re-decided against the current source).
-/
namespace HC.Props.C19
open HC HC.Config HC.Extracted

/-! ### Command line -/

/-- hand-written specification: argparse destination ↦ the configuration attribute that flag is documented to set -/
def spec : List (String × String) := [
  ("log_level", "loglevel"), ("access_logformat", "access_log_format"), ("access_log", "accesslog"),
  ("access_logfile", "accesslog"), ("backlog", "backlog"), ("ca_certs", "ca_certs"), ("certfile", "certfile"),
  ("cert_reqs", "cert_reqs"), ("ciphers", "ciphers"), ("debug", "debug"), ("error_log", "errorlog"),
  ("error_logfile", "errorlog"), ("graceful_timeout", "graceful_timeout"), ("read_timeout", "read_timeout"),
  ("group", "group"), ("keep_alive", "keep_alive_timeout"), ("keyfile", "keyfile"),
  ("keyfile_password", "keyfile_password"), ("log_config", "logconfig"), ("max_requests", "max_requests"),
  ("max_requests_jitter", "max_requests_jitter"), ("pid", "pid_path"), ("root_path", "root_path"),
  ("reload", "use_reloader"), ("statsd_host", "statsd_host"), ("statsd_prefix", "statsd_prefix"),
  ("umask", "umask"), ("user", "user"), ("worker_class", "worker_class"), ("verify_mode", "verify_mode"),
  ("websocket_ping_interval", "websocket_ping_interval"), ("workers", "workers"),
  ("binds", "bind"), ("insecure_binds", "insecure_bind"), ("quic_binds", "quic_bind"), ("server_names", "server_names")]

/-- the first statement of the wiring is `config.application_path = args.application` -/
def headOK : Bool := match Cli.wires with
  | w :: _ => w.kind == "always" && w.attr == "application_path" && w.source == "application"
  | [] => false

/-- every other wire copies the argument it tests (`if args.X is not sentinel: config.Y = args.X`) -/
def tailOK : Bool := Cli.wires.tail.all (fun w =>
  w.kind != "always" && w.guard == w.source && w.guard != "application" && w.guard != "")

/-- … into the attribute the specification names -/
def specOK : Bool := Cli.wires.tail.all (fun w => spec.lookup w.guard == some w.attr)

/-- no flag is tested twice, and every flag of the specification is wired -/
def guardsNodup : Bool := decide ((Cli.wires.tail.map (·.guard)).Nodup)
def coverOK : Bool := spec.all (fun p => Cli.wires.tail.any (fun w => w.guard == p.1))

/-- an absent flag must be a no-op: the argument's default is the sentinel (or the empty list for `append` flags) -/
def defaultsOK : Bool := Cli.wires.tail.all (fun w =>
  Cli.args.any (fun a => a.dest == w.guard && a.default == (if w.kind == "nonempty" then "list" else "sentinel")))

/-- every optional argument except the config-file flag is wired to the configuration -/
def argsCovered : Bool := Cli.args.all (fun a =>
  a.dest == "application" || a.dest == "config" || Cli.wires.tail.any (fun w => w.guard == a.dest))

def destsNodup : Bool := decide ((Cli.args.map (·.dest)).Nodup)

/-- **the extracted command-line table is wired one-to-one, per specification** (decided on the current source) -/
theorem cli_table_wired :
    headOK = true ∧ tailOK = true ∧ specOK = true ∧ guardsNodup = true ∧ coverOK = true ∧
    defaultsOK = true ∧ argsCovered = true ∧ destsNodup = true := by decide

private theorem filter_unique {l : List Cli.Wire} {w : Cli.Wire} (hn : (l.map (·.guard)).Nodup) (hw : w ∈ l) :
    l.filter (fun x => x.guard == w.guard) = [w] := by
  induction l with
  | nil => cases hw
  | cons a t ih =>
    simp only [List.map_cons, List.nodup_cons] at hn
    rcases List.mem_cons.mp hw with rfl | hw'
    · have : t.filter (fun x => x.guard == w.guard) = [] := by
        rw [List.filter_eq_nil_iff]; intro x hx hc
        exact hn.1 (List.mem_map.mpr ⟨x, hx, by simpa using hc⟩)
      simp [this]
    · have hne : ¬ (a.guard == w.guard) = true := by
        intro hc; exact hn.1 (List.mem_map.mpr ⟨w, hw', (by simpa using hc : a.guard = w.guard).symm⟩)
      simp [hne, ih hn.2 hw']

private theorem lookup1 (k k' v : String) : List.lookup k [(k', v)] = if k = k' then some v else none := by
  by_cases h : k = k'
  · subst h; simp [List.lookup]
  · have : (k == k') = false := by simpa using h
    simp [List.lookup, this, h]

private theorem lookup2 (k k1 v1 k2 v2 : String) :
    List.lookup k [(k1, v1), (k2, v2)] = if k = k1 then some v1 else if k = k2 then some v2 else none := by
  by_cases h : k = k1
  · subst h; simp [List.lookup]
  · have : (k == k1) = false := by simpa using h
    simp only [List.lookup, this, h, if_false]
    exact lookup1 k k2 v2

private theorem tail_facts : ∀ w ∈ Cli.wires.tail,
    w.kind ≠ "always" ∧ w.guard = w.source ∧ w.guard ≠ "application" := by
  have ht := cli_table_wired.2.1
  intro w hw
  have := List.all_eq_true.mp ht w hw
  simp only [Bool.and_eq_true, bne_iff_ne, ne_eq, beq_iff_eq] at this
  exact ⟨this.1.1.1, this.1.1.2, this.1.2⟩

/-- semantics of the wiring for an arbitrary set of given flags: after the application path, exactly the wires
    whose flag was given fire, in table order, each copying *its own* argument -/
theorem cli_semantics (app : String) (ds : List (String × String))
    (h1 : ds.lookup "application" = none) :
    assignments Cli.wires (givenOf app ds) =
      ("application_path", some app) ::
        (Cli.wires.tail.filter (fun w => (ds.lookup w.guard).isSome)).map (fun w => (w.attr, ds.lookup w.guard)) := by
  have hh := cli_table_wired.1
  have ht' := tail_facts
  unfold headOK at hh
  cases hws : Cli.wires with
  | nil => rw [hws] at hh; simp at hh
  | cons w0 rest =>
    rw [hws] at hh ht'
    simp only [Bool.and_eq_true, beq_iff_eq] at hh
    obtain ⟨⟨hk, ha⟩, hs⟩ := hh
    simp only [List.tail_cons] at ht'
    simp only [assignments, List.tail_cons]
    have hf0 : fires (givenOf app ds) w0 = true := by simp [fires, hk]
    rw [List.filter_cons_of_pos hf0]
    simp only [List.map_cons, ha, hs, givenOf, if_true]
    congr 1
    have hfil : rest.filter (fires (givenOf app ds)) = rest.filter (fun w => (ds.lookup w.guard).isSome) := by
      apply List.filter_congr
      intro w hw
      obtain ⟨hk', _, hg⟩ := ht' w hw
      simp [fires, hk', givenOf, hg]
    rw [hfil]
    apply List.map_congr_left
    intro w hw
    have hw' := (List.mem_filter.mp hw).1
    obtain ⟨_, hgs, hg⟩ := ht' w hw'
    simp [← hgs, hg]

/-- **a flag sets exactly its own setting to exactly the given value and nothing else** -/
theorem cli_sets_exactly (app v : String) (w : Cli.Wire) (hw : w ∈ Cli.wires.tail) :
    assignments Cli.wires (givenOf app [(w.guard, v)]) = [("application_path", some app), (w.attr, some v)] ∧
    spec.lookup w.guard = some w.attr := by
  obtain ⟨_, _, hsp, hn, -⟩ := cli_table_wired
  have happ : w.guard ≠ "application" := (tail_facts w hw).2.2
  refine ⟨?_, by simpa using List.all_eq_true.mp hsp w hw⟩
  rw [cli_semantics app [(w.guard, v)] (by rw [lookup1]; simp [happ.symm])]
  have hfil : Cli.wires.tail.filter (fun x => (List.lookup x.guard [(w.guard, v)]).isSome) = [w] := by
    rw [← filter_unique (by simpa [guardsNodup] using hn) hw]
    apply List.filter_congr
    intro x _
    rw [lookup1]
    by_cases hx : x.guard = w.guard <;> simp [hx]
  rw [hfil]
  simp [lookup1]

/-- **flags that are not given change nothing** -/
theorem cli_absent_flag_is_noop (app : String) :
    assignments Cli.wires (givenOf app []) = [("application_path", some app)] := by
  rw [cli_semantics app [] rfl]; simp [List.lookup]

/-- two different flags: both their settings, nothing else (no cross-talk) -/
theorem cli_pair (app v1 v2 : String) (w1 w2 : Cli.Wire) (h1 : w1 ∈ Cli.wires.tail) (h2 : w2 ∈ Cli.wires.tail)
    (hne : w1.guard ≠ w2.guard) :
    ∀ a ∈ assignments Cli.wires (givenOf app [(w1.guard, v1), (w2.guard, v2)]),
      a = ("application_path", some app) ∨ a = (w1.attr, some v1) ∨ a = (w2.attr, some v2) := by
  obtain ⟨_, _, _, hn, -⟩ := cli_table_wired
  have hg := fun w hw => (tail_facts w hw).2.2
  rw [cli_semantics app _ (by rw [lookup2]; simp [(hg w1 h1).symm, (hg w2 h2).symm])]
  intro a ha
  rcases List.mem_cons.mp ha with rfl | ha
  · left; rfl
  · right
    obtain ⟨x, hx, rfl⟩ := List.mem_map.mp ha
    obtain ⟨hxt, hxs⟩ := List.mem_filter.mp hx
    have hnd : (Cli.wires.tail.map (·.guard)).Nodup := by simpa [guardsNodup] using hn
    have inj : ∀ a b : Cli.Wire, a ∈ Cli.wires.tail → b ∈ Cli.wires.tail → a.guard = b.guard → a = b := by
      intro a b ha hb hab
      have := filter_unique hnd hb
      have ha' : a ∈ Cli.wires.tail.filter (fun y => y.guard == b.guard) := List.mem_filter.mpr ⟨ha, by simp [hab]⟩
      rw [this] at ha'; simpa using ha'
    rw [lookup2] at hxs ⊢
    by_cases e1 : x.guard = w1.guard
    · left; rw [inj x w1 hxt h1 e1]; simp
    · by_cases e2 : x.guard = w2.guard
      · right; rw [inj x w2 hxt h2 e2]; simp [hne.symm]
      · simp [e1, e2] at hxs

example : ∃ w ∈ Cli.wires.tail, w.guard = "keep_alive" ∧ w.attr = "keep_alive_timeout" := by decide

/-! ### Setters and loaders -/

private theorem dropWhile_head {α} (p : α → Bool) (l : List α) : ∀ x, (l.dropWhile p).head? = some x → p x = false := by
  induction l with
  | nil => intro x h; simp at h
  | cons a t ih =>
    intro x h
    simp only [List.dropWhile_cons] at h
    split at h
    · exact ih x h
    · simp only [List.head?_cons, Option.some.injEq] at h; subst h; simp_all

/-- **root_path is normalised without a trailing slash** and is otherwise the given value -/
theorem root_path_normalised (s : List Char) :
    (rstripSlash s).getLast? ≠ some '/' ∧ ∃ k, s = rstripSlash s ++ List.replicate k '/' := by
  constructor
  · unfold rstripSlash
    rw [List.getLast?_reverse]
    intro h
    have := dropWhile_head (· == '/') s.reverse '/' h
    simp at this
  · unfold rstripSlash
    have key : ∀ l : List Char, ∃ k, l = List.replicate k '/' ++ l.dropWhile (· == '/') := by
      intro l
      induction l with
      | nil => exact ⟨0, rfl⟩
      | cons a t ih =>
        by_cases ha : a = '/'
        · obtain ⟨k, hk⟩ := ih
          refine ⟨k + 1, ?_⟩
          subst ha
          simp only [List.dropWhile_cons, beq_self_eq_true, if_true, List.replicate_succ, List.cons_append]
          rw [← hk]
        · refine ⟨0, ?_⟩
          simp [List.dropWhile_cons, ha]
    obtain ⟨k, hk⟩ := key s.reverse
    refine ⟨k, ?_⟩
    have := congrArg List.reverse hk
    simpa using this

/-- **`from_mapping` hands every key to `setattr`** (re-decided against the current source through the extracted guards of
    its loop): no statement in front of `try: setattr(config, key, value) / except AttributeError: pass` skips a key - in
    particular not a key whose attribute cannot be *read* on a fresh `Config` (`cert_reqs`, `application_path`) -/
theorem from_mapping_guard_spec : ConfigSites.fromMappingGuards = [] ∧ ∀ k : String, mapKeeps k = true := by
  refine ⟨by rfl, ?_⟩
  intro k
  simp [mapKeeps, ConfigSites.fromMappingGuards]

/-- so the loop is the plain fold over all keys -/
theorem from_mapping_all_keys (kvs : List (String × Val)) : fromMapping kvs = fromMappingU kvs :=
  fromMapping_eq from_mapping_guard_spec.2 kvs

/-- a bind given as one string is the one-element list -/
theorem bind_str_eq_list (key : String) (hk : key = "bind" ∨ key = "insecure_bind" ∨ key = "quic_bind") (s : List Char) :
    setattrNorm key (.str s) = setattrNorm key (.strs [s]) := by
  rcases hk with rfl | rfl | rfl <;> simp [setattrNorm, readOnly]

/-- **what `from_object` drops** (re-decided against the current source through the extracted filter clauses): exactly
    the dunder names and the module-valued attributes — a class (`logger_class`), a function or any other value is a setting
    like every other and is handed to `from_mapping` -/
theorem from_object_filter_spec (a : Attr) :
    objKeeps a = (!("__".isPrefixOf a.name) && a.kind != .module) := by
  cases hk : a.kind <;> cases hd : "__".isPrefixOf a.name <;>
    simp [objKeeps, ConfigSites.fromObjectFilter, clauseKeeps, Attr.callable, hk, hd]

/-- **all loaders funnel into `from_mapping`**: object / module / pyfile sources differ only by dropping dunder names and
    imported modules, whatever the values are (classes and functions included) -/
theorem loaders_agree (attrs : List Attr) (hnd : ∀ a ∈ attrs, ¬ "__".isPrefixOf a.name) (hnm : ∀ a ∈ attrs, a.kind ≠ .module) :
    fromObject attrs = fromMapping (attrs.map (fun a => (a.name, a.val))) := by
  unfold fromObject
  congr 2
  rw [List.filter_eq_self]
  intro a ha
  rw [from_object_filter_spec]
  simp [hnd a ha, hnm a ha]

/-- dunder names and modules imported into a configuration file never reach the configuration -/
theorem from_object_drops (pre post : List Attr) (a : Attr) (h : "__".isPrefixOf a.name = true ∨ a.kind = .module) :
    fromObject (pre ++ a :: post) = fromObject (pre ++ post) := by
  have : objKeeps a = false := by
    rw [from_object_filter_spec]
    rcases h with h | h <;> simp [h]
  simp [fromObject, List.filter_append, List.filter_cons, this]

/-- **a callable setting is honoured by the object loaders too**: a class- or function-valued attribute (the case of
    `logger_class`) supplied last through an object has the same effect as supplying it last through a mapping -/
theorem from_object_callable_setting (attrs : List Attr) (k : String) (kind : AttrKind) (v : Val)
    (hk : ¬ "__".isPrefixOf k) (hm : kind ≠ .module) :
    fromObject (attrs ++ [⟨k, kind, v⟩]) =
      fromMapping ((attrs.filter objKeeps).map (fun a => (a.name, a.val)) ++ [(k, v)]) := by
  have : objKeeps ⟨k, kind, v⟩ = true := by
    rw [from_object_filter_spec]
    simp [hk, hm]
  simp [fromObject, List.filter_append, List.filter_cons, this]

example : fromObject [⟨"logger_class", .cls, .other "QuietLogger"⟩, ⟨"os", .module, .other "os"⟩, ⟨"__name__", .plain, .str []⟩] =
    fromMapping [("logger_class", .other "QuietLogger")] := by decide +kernel

/-- the effect of one more key: its own (normalised) attribute gets the (normalised) value, every other attribute
    keeps what it had -/
theorem from_mapping_last (kvs : List (String × Val)) (k : String) (v : Val) (k' : String) (v' : Val)
    (hn : setattrNorm k v = some (k', v')) :
    (fromMapping (kvs ++ [(k, v)])).lookup k' = some v' ∧
    ∀ k'', k'' ≠ k' → (fromMapping (kvs ++ [(k, v)])).lookup k'' = (fromMapping kvs).lookup k'' := by
  rw [from_mapping_all_keys, from_mapping_all_keys]
  simp only [fromMappingU, List.foldl_append, List.foldl_cons, List.foldl_nil, hn, Store.set]
  constructor
  · simp [List.lookup]
  · intro k'' hne
    have hb : (k'' == k') = false := by simpa using hne
    simp only [List.lookup, hb]
    generalize (List.foldl _ _ kvs) = st
    induction st with
    | nil => simp [List.lookup]
    | cons a t ih =>
      simp only [List.filter_cons]
      by_cases ha : a.1 = k'
      · have : (a.1 != k') = false := by simp [ha]
        simp only [this]
        have hk : (k'' == a.1) = false := by simpa [ha] using hne
        obtain ⟨a1, a2⟩ := a
        simp only [List.lookup] at ih ⊢
        simp only at hk ha
        simp [hk, ih]
      · have : (a.1 != k') = true := by simp [ha]
        simp only [this, if_true]
        obtain ⟨a1, a2⟩ := a
        simp only [List.lookup]
        split <;> simp_all

/-- read-only properties are skipped silently -/
theorem from_mapping_readonly (kvs : List (String × Val)) (k : String) (v : Val) (hk : k ∈ readOnly) :
    fromMapping (kvs ++ [(k, v)]) = fromMapping kvs := by
  rw [from_mapping_all_keys, from_mapping_all_keys]
  simp [fromMappingU, setattrNorm, hk]

/-- **a setting that cannot be read back is loaded like any other**: `cert_reqs` (a property without a getter) supplied
    through any loader stores `VerifyMode(value)` under `verify_mode` - exactly what supplying `verify_mode` itself stores,
    and what the command line's `--cert-reqs` does (`config.cert_reqs = args.cert_reqs`, `cli_table_wired`) -/
theorem cert_reqs_loaded (kvs : List (String × Val)) (r : String) :
    fromMapping (kvs ++ [("cert_reqs", .other r)]) = fromMapping (kvs ++ [("verify_mode", .verifyMode r)]) ∧
    (fromMapping (kvs ++ [("cert_reqs", .other r)])).lookup "verify_mode" = some (.verifyMode r) := by
  refine ⟨?_, (from_mapping_last kvs "cert_reqs" (.other r) "verify_mode" (.verifyMode r) (by simp [setattrNorm, readOnly])).1⟩
  rw [from_mapping_all_keys, from_mapping_all_keys]
  simp [fromMappingU, setattrNorm, readOnly]

/-- … and `application_path` (annotated on `Config` without a value) is stored under its own name -/
theorem application_path_loaded (kvs : List (String × Val)) (v : Val) :
    (fromMapping (kvs ++ [("application_path", v)])).lookup "application_path" = some v :=
  (from_mapping_last kvs "application_path" v "application_path" v (by simp [setattrNorm, readOnly])).1

/-- every key that is not a read-only property reaches an attribute, whether or not that attribute can be read back -/
theorem from_mapping_stores (kvs : List (String × Val)) (k : String) (v : Val) (hk : k ∉ readOnly) :
    ∃ k' v', setattrNorm k v = some (k', v') ∧ (fromMapping (kvs ++ [(k, v)])).lookup k' = some v' := by
  have : ∃ k' v', setattrNorm k v = some (k', v') := by
    unfold setattrNorm
    simp only [hk, if_false]
    split
    · exact ⟨_, _, rfl⟩
    · split
      · exact ⟨_, _, rfl⟩
      · split <;> exact ⟨_, _, rfl⟩
  obtain ⟨k', v', h⟩ := this
  exact ⟨k', v', h, (from_mapping_last kvs k v k' v' h).1⟩

example : ConfigSites.unreadableKeys = ["application_path", "cert_reqs"] := by decide
example : fromMapping [("workers", .other "2"), ("cert_reqs", .other "2"), ("log", .other "1")] =
    [("verify_mode", .verifyMode "2"), ("workers", .other "2")] := by decide +kernel

/-! ### Bind strings -/

def plainHost (h : List Char) : Prop := ∀ c ∈ h, c ≠ ':' ∧ c ≠ '[' ∧ c ≠ ']'
def digits (p : List Char) : Prop := p ≠ [] ∧ ∀ c ∈ p, '0' ≤ c ∧ c ≤ '9'

private theorem rsplitColon_append (h p : List Char) (hp : ∀ c ∈ p, c ≠ ':') :
    rsplitColon (h ++ ':' :: p) = some (h, p) := by
  unfold rsplitColon
  have hr : (h ++ ':' :: p).reverse = p.reverse ++ ':' :: h.reverse := by simp
  simp only [hr]
  have htw : (p.reverse ++ ':' :: h.reverse).takeWhile (· != ':') = p.reverse := by
    rw [List.takeWhile_append_of_pos]
    · simp
    · intro c hc; simpa using hp c (List.mem_reverse.mp hc)
  simp only [htw, List.length_append, List.length_reverse, List.length_cons]
  have : ¬ (p.length = p.length + (h.length + 1)) := by omega
  simp only [this, if_false]
  simp [List.drop_append]

private theorem takeWhile_all (p : Char → Bool) (l : List Char) (h : ∀ c ∈ l, p c = true) : l.takeWhile p = l := by
  induction l with
  | nil => rfl
  | cons a t ih => simp [h a (by simp)]; exact ih (fun c hc => h c (by simp [hc]))

private theorem rsplitColon_none (s : List Char) (hs : ∀ c ∈ s, c ≠ ':') : rsplitColon s = none := by
  unfold rsplitColon
  have : s.reverse.takeWhile (· != ':') = s.reverse := by
    apply takeWhile_all; intro c hc; simpa using hs c (List.mem_reverse.mp hc)
  simp [this]

private theorem filter_plain (h : List Char) (hh : ∀ c ∈ h, c ≠ '[' ∧ c ≠ ']') :
    h.filter (fun c => c != '[' && c != ']') = h := by
  rw [List.filter_eq_self]; intro c hc; simpa using hh c hc

private theorem parseNat_some (p : List Char) (hp : digits p) : ∃ n, parseNat p = some n := by
  obtain ⟨hne, hd⟩ := hp
  unfold parseNat
  simp only [hne, if_false]
  have : ∀ (acc : Nat) (l : List Char), (∀ c ∈ l, '0' ≤ c ∧ c ≤ '9') →
      ∃ n, l.foldl (fun acc c => match acc, digitVal c with | some a, some d => some (10 * a + d) | _, _ => none) (some acc) = some n := by
    intro acc l
    induction l generalizing acc with
    | nil => intro _; exact ⟨acc, rfl⟩
    | cons c t ih =>
      intro hl
      have hc := hl c (by simp)
      simp only [List.foldl_cons, digitVal, hc, and_self, if_true]
      exact ih _ (fun c' hc' => hl c' (by simp [hc']))
  exact this 0 p hd

private theorem not_prefix_of_plain (pre h : List Char) (hc : ':' ∈ pre) (hh : plainHost h) : pre.isPrefixOf h = false := by
  cases hb : pre.isPrefixOf h with
  | false => rfl
  | true =>
    obtain ⟨t, rfl⟩ := List.isPrefixOf_iff_prefix.mp hb
    exact absurd rfl (hh ':' (by simp [hc])).1

private theorem contains_colon_false (h : List Char) (hh : plainHost h) : h.contains ':' = false := by
  cases hb : h.contains ':' with
  | false => rfl
  | true => exact absurd rfl (hh ':' (by simpa using hb)).1


/-- **the address family is decided by the parsed host** (re-decided against the current source: `inetIsV6` is the test of
    `socket.socket(socket.AF_INET6 if … else socket.AF_INET, type_)`): AF_INET6 exactly when the host contains a colon -
    however the bind string was written, with brackets or without -/
theorem bind_family_spec (bind0 bind host : List Char) : ConfigSites.inetIsV6 bind0 bind host = host.contains ':' := by rfl

/-- every inet bind: the family follows from the host that is bound, nothing else -/
theorem bind_family_of_host (s : List Char) : ∀ v6 h p, parseInet s = .inet v6 h p → v6 = h.contains ':' := by
  intro v6 h p hp
  simp only [parseInet, bind_family_spec] at hp
  injection hp with h1 h2 _
  rw [← h1, ← h2]

private theorem parseInet_of_split (s h p : List Char) (n : Nat)
    (hb : ∀ c ∈ s, c ≠ '[' ∧ c ≠ ']') (hs : rsplitColon s = some (h, p)) (hn : parseNat p = some n) :
    parseInet s = .inet (h.contains ':') h n := by
  have hhd : (s.head? == some '[') = false := by
    cases s with
    | nil => rfl
    | cons a t => simpa using (hb a (by simp)).1
  simp [parseInet, bind_family_spec, filter_plain s hb, hs, hn, hhd]

private theorem not_unix_prefix (h rest : List Char) (hh : plainHost h) (hne : h ≠ "unix".toList) :
    "unix:".toList.isPrefixOf (h ++ ':' :: rest) = false := by
  cases hb : "unix:".toList.isPrefixOf (h ++ ':' :: rest) with
  | false => rfl
  | true =>
    exfalso
    have e : "unix:".toList = ['u', 'n', 'i', 'x', ':'] := by decide
    have e4 : "unix".toList = ['u', 'n', 'i', 'x'] := by decide
    rw [e] at hb; rw [e4] at hne
    match h, hh, hne with
    | [], _, _ => simp [List.isPrefixOf] at hb
    | [a], _, _ => simp [List.isPrefixOf] at hb
    | [a, b], _, _ => simp [List.isPrefixOf] at hb
    | [a, b, c], _, _ => simp [List.isPrefixOf] at hb
    | [a, b, c, d], _, hne => simp [List.isPrefixOf] at hb; obtain ⟨rfl, rfl, rfl, rfl⟩ := hb; exact hne rfl
    | a :: b :: c :: d :: e' :: t, hh, _ =>
      simp [List.isPrefixOf] at hb
      exact (hh e' (by simp)).1 hb.2.2.2.2.symm

private theorem not_fd_prefix (h p : List Char) (hh : plainHost h) (hp : ∀ c ∈ p, c ≠ '/') :
    "fd://".toList.isPrefixOf (h ++ ':' :: p) = false := by
  cases hb : "fd://".toList.isPrefixOf (h ++ ':' :: p) with
  | false => rfl
  | true =>
    exfalso
    have e : "fd://".toList = ['f', 'd', ':', '/', '/'] := by decide
    rw [e] at hb
    match h, hh with
    | [], _ => simp [List.isPrefixOf] at hb
    | [a], _ => simp [List.isPrefixOf] at hb
    | [a, b], _ =>
      match p, hp with
      | [], _ => simp [List.isPrefixOf] at hb
      | c :: _, hp => simp [List.isPrefixOf] at hb; exact hp c (by simp) hb.2.2.1.symm
    | a :: b :: c :: t, hh =>
      simp [List.isPrefixOf] at hb
      exact (hh c (by simp)).1 hb.2.2.1.symm

private theorem digits_no (p : List Char) (hp : digits p) (x : Char) (hx : ¬ ('0' ≤ x ∧ x ≤ '9')) : ∀ c ∈ p, c ≠ x := by
  intro c hc hcx; subst hcx; exact hx (hp.2 c hc)

/-- **`host:port`**: a name / IPv4 host and a decimal port give an AF_INET bind on exactly that host and port
    (the one ambiguous spelling, host `unix`, is excluded: `unix:80` is a unix-socket path) -/
theorem bind_host_port (h p : List Char) (hh : plainHost h) (hp : digits p) (hne : h ≠ "unix".toList) :
    ∃ n, parseNat p = some n ∧ parseBind (h ++ ':' :: p) = .inet false h n := by
  obtain ⟨n, hn⟩ := parseNat_some p hp
  refine ⟨n, hn, ?_⟩
  have hall : ∀ c ∈ h ++ ':' :: p, c ≠ '[' ∧ c ≠ ']' := by
    intro c hc
    rcases List.mem_append.mp hc with hc | hc
    · exact (hh c hc).2
    · rcases List.mem_cons.mp hc with rfl | hc
      · decide
      · exact ⟨digits_no p hp '[' (by decide) c hc, digits_no p hp ']' (by decide) c hc⟩
  unfold parseBind
  rw [not_unix_prefix h p hh hne, not_fd_prefix h p hh (digits_no p hp '/' (by decide))]
  simp only [Bool.false_eq_true, if_false]
  rw [parseInet_of_split _ h p n hall (rsplitColon_append h p (digits_no p hp ':' (by decide))) hn,
    contains_colon_false h hh]

/-- **bare host**: port 8000 -/
theorem bind_bare_host (h : List Char) (hh : plainHost h) : parseBind h = .inet false h 8000 := by
  unfold parseBind
  rw [not_prefix_of_plain _ h (by decide) hh, not_prefix_of_plain _ h (by decide) hh]
  simp only [Bool.false_eq_true, if_false, parseInet]
  rw [filter_plain h (fun c hc => (hh c hc).2), rsplitColon_none h (fun c hc => (hh c hc).1)]
  have hnc : ':' ∉ h := fun hc => (hh ':' hc).1 rfl
  simp [hnc, bind_family_spec]

def v6chars (h : List Char) : Prop := ':' ∈ h ∧ ∀ c ∈ h, c ≠ '[' ∧ c ≠ ']'

/-- **`[IPv6]:port`**: an AF_INET6 bind on the bracketed address and the port -/
theorem bind_v6_port (h p : List Char) (hh : v6chars h) (hp : digits p) :
    ∃ n, parseNat p = some n ∧ parseBind ('[' :: h ++ ']' :: ':' :: p) = .inet true h n := by
  obtain ⟨n, hn⟩ := parseNat_some p hp
  refine ⟨n, hn, ?_⟩
  unfold parseBind
  have e1 : "unix:".toList.isPrefixOf ('[' :: h ++ ']' :: ':' :: p) = false := by
    have e : "unix:".toList = ['u', 'n', 'i', 'x', ':'] := by decide
    rw [e]; simp [List.isPrefixOf]
  have e2 : "fd://".toList.isPrefixOf ('[' :: h ++ ']' :: ':' :: p) = false := by
    have e : "fd://".toList = ['f', 'd', ':', '/', '/'] := by decide
    rw [e]; simp [List.isPrefixOf]
  rw [e1, e2]
  simp only [Bool.false_eq_true, if_false, parseInet]
  have hf : ('[' :: h ++ ']' :: ':' :: p).filter (fun c => c != '[' && c != ']') = h ++ ':' :: p := by
    have hpf : p.filter (fun c => c != '[' && c != ']') = p :=
      filter_plain p (fun c hc => ⟨digits_no p hp '[' (by decide) c hc, digits_no p hp ']' (by decide) c hc⟩)
    simp [List.filter_cons, List.filter_append, filter_plain h hh.2, hpf]
  have hl : (('[' :: h ++ ']' :: ':' :: p).getLast? == some ']') = false := by
    have hpne := hp.1
    have : ('[' :: h ++ ']' :: ':' :: p).getLast? = p.getLast? := by
      have e : '[' :: h ++ ']' :: ':' :: p = ('[' :: h ++ [']', ':']) ++ p := by simp
      rw [e, List.getLast?_append]
      cases hpl : p.getLast? with
      | none => simp [List.getLast?_eq_none_iff] at hpl; exact absurd hpl hpne
      | some c => simp
    rw [this]
    cases hpl : p.getLast? with
    | none => rfl
    | some c =>
      have hc : c ∈ p := List.mem_of_getLast? hpl
      have := digits_no p hp ']' (by decide) c hc
      simpa using this
  rw [hf, rsplitColon_append h p (digits_no p hp ':' (by decide))]
  have hl' : ('[' :: (h ++ ']' :: ':' :: p)).getLast? ≠ some ']' := by simpa using hl
  simp [hn, hh.1, hl', bind_family_spec]

/-- **bare `[IPv6]`**: the bracketed address on the default port 8000 -/
theorem bind_bare_v6 (h : List Char) (hh : v6chars h) : parseBind ('[' :: h ++ [']']) = .inet true h 8000 := by
  unfold parseBind
  have e1 : "unix:".toList.isPrefixOf ('[' :: h ++ [']']) = false := by
    have e : "unix:".toList = ['u', 'n', 'i', 'x', ':'] := by decide
    rw [e]; simp [List.isPrefixOf]
  have e2 : "fd://".toList.isPrefixOf ('[' :: h ++ [']']) = false := by
    have e : "fd://".toList = ['f', 'd', ':', '/', '/'] := by decide
    rw [e]; simp [List.isPrefixOf]
  rw [e1, e2]
  simp only [Bool.false_eq_true, if_false, parseInet]
  have hf : ('[' :: h ++ [']']).filter (fun c => c != '[' && c != ']') = h := by
    simp [List.filter_append, filter_plain h hh.2]
  have hl : ('[' :: h ++ [']']).getLast? = some ']' := by
    have e : '[' :: h ++ [']'] = ('[' :: h) ++ [']'] := by simp
    rw [e, List.getLast?_append]; simp
  have hl' : ('[' :: (h ++ [']'])).getLast? = some ']' := by simpa using hl
  simp [hl', filter_plain h hh.2, hh.1, bind_family_spec]

/-- **a bare IPv6 host written without brackets** (`::`, `fe80::a`, `2001:db8::beef`, `::ffff:192.0.2.1`): what stands behind
    the last colon is no decimal number, so the whole string is the host, on the default port - and the family is AF_INET6
    exactly as for the bracketed spelling (`bind_bare_v6`) -/
theorem bind_bare_v6_unbracketed (h : List Char) (hh : v6chars h)
    (hnu : "unix:".toList.isPrefixOf h = false) (hnf : "fd://".toList.isPrefixOf h = false)
    (htail : ∀ a p, rsplitColon h = some (a, p) → parseNat p = none) :
    parseBind h = .inet true h 8000 := by
  unfold parseBind
  rw [hnu, hnf]
  simp only [Bool.false_eq_true, if_false, parseInet, bind_family_spec]
  have hhd : (h.head? == some '[') = false := by
    cases h with
    | nil => rfl
    | cons a t => simpa using (hh.2 a (by simp)).1
  rw [filter_plain h hh.2]
  cases hs : rsplitColon h with
  | none => simp [hhd, hh.1]
  | some ap =>
    obtain ⟨a, p⟩ := ap
    simp [hhd, htail a p hs, hh.1]

/-- the one ambiguous spelling (like the host `unix`): an unbracketed literal whose last group is a decimal number (`::1`,
    `2001:db8::8a2e:370:7334`) is of the shape `host:port` and is read so; the family still follows the host that is bound -/
theorem bind_unbracketed_decimal_tail (s a p : List Char) (n : Nat) (hb : ∀ c ∈ s, c ≠ '[' ∧ c ≠ ']')
    (hnu : "unix:".toList.isPrefixOf s = false) (hnf : "fd://".toList.isPrefixOf s = false)
    (hs : rsplitColon s = some (a, p)) (hn : parseNat p = some n) :
    parseBind s = .inet (a.contains ':') a n := by
  unfold parseBind
  rw [hnu, hnf]
  simp only [Bool.false_eq_true, if_false]
  exact parseInet_of_split s a p n hb hs hn

theorem bind_unix (path : List Char) : parseBind ("unix:".toList ++ path) = .unix path := by
  have e : "unix:".toList = ['u', 'n', 'i', 'x', ':'] := by decide
  simp [parseBind, e, List.isPrefixOf]

theorem bind_fd (p : List Char) : parseBind ("fd://".toList ++ p) = .fd (parseNat p) := by
  have e : "fd://".toList = ['f', 'd', ':', '/', '/'] := by decide
  have e1 : "unix:".toList = ['u', 'n', 'i', 'x', ':'] := by decide
  simp [parseBind, e, e1, List.isPrefixOf]

example : parseBind "127.0.0.1:5000".toList = .inet false "127.0.0.1".toList 5000 := by decide
example : parseBind "[::]:5000".toList = .inet true "::".toList 5000 := by decide
example : parseBind "[::]".toList = .inet true "::".toList 8000 := by decide
example : parseBind "[::1]".toList = .inet true "::1".toList 8000 := by decide
example : parseBind "localhost".toList = .inet false "localhost".toList 8000 := by decide
example : parseBind "::".toList = .inet true "::".toList 8000 := by decide
example : parseBind "fe80::a".toList = .inet true "fe80::a".toList 8000 := by decide
example : parseBind "::ffff:192.0.2.1".toList = .inet true "::ffff:192.0.2.1".toList 8000 := by decide
example : parseBind "::1".toList = .inet true ":".toList 1 := by decide      -- `host:port` wins: write `[::1]`
example : v6chars "fe80::a".toList ∧ (∀ a p, rsplitColon "fe80::a".toList = some (a, p) → parseNat p = none) := by
  refine ⟨⟨by decide, by intro c hc; simp at hc; rcases hc with rfl | rfl | rfl | rfl | rfl | rfl | rfl <;> decide⟩, ?_⟩
  intro a p h
  have : rsplitColon "fe80::a".toList = some ("fe80:".toList, "a".toList) := by decide
  rw [this] at h
  injection h with h; injection h with _ h2; subst h2; decide

/-! ### A list of bind strings: every entry produces its socket by itself

`bind`, `insecure_bind` and `quic_bind` are lists (several `-b` flags, a list in a configuration file); `_create_sockets` parses
them in one loop.  What an entry is bound to must not depend on the entries in front of it. -/

/-- **no local of `_create_sockets` outlives an iteration of `for bind in binds`** (re-decided against the current source:
    `createSocketsCarried` is the result of a definite-assignment analysis of the loop body - a default that is set once in
    front of the loop and only overwritten when a bind names a port shows up here as `"port"`) -/
theorem create_sockets_loop_spec : ConfigSites.createSocketsCarried = [] := by decide

private theorem bindStep_fst (last : Nat) (s : List Char) : (bindStep last s).1 = parseBind s := by
  have h : portCarried = false := by simp [portCarried, create_sockets_loop_spec]
  unfold bindStep
  cases parseBind s <;> simp [h]

private theorem createSocketsFrom_eq (binds : List (List Char)) : ∀ last, createSocketsFrom last binds = binds.map parseBind := by
  induction binds with
  | nil => intro _; rfl
  | cons s rest ih => intro last; simp [createSocketsFrom, bindStep_fst, ih]

/-- **each bind string of a list is parsed as if it were given alone**, whatever stands in front of it -/
theorem create_sockets_pointwise (binds : List (List Char)) : createSockets binds = binds.map parseBind :=
  createSocketsFrom_eq binds 8000

theorem create_sockets_entry (binds : List (List Char)) (i : Nat) : (createSockets binds)[i]? = (binds[i]?).map parseBind := by
  simp [create_sockets_pointwise]

theorem create_sockets_append (a b : List (List Char)) : createSockets (a ++ b) = createSockets a ++ createSockets b := by
  simp [create_sockets_pointwise]

/-- a bare host is bound to port 8000 wherever it stands in the list (in particular behind a `host:port` entry) -/
theorem bind_bare_host_in_list (pre post : List (List Char)) (h : List Char) (hh : plainHost h) :
    (createSockets (pre ++ h :: post))[pre.length]? = some (.inet false h 8000) := by
  simp [create_sockets_pointwise, bind_bare_host h hh]

/-- ... and so is a bracketed IPv6 literal without a port -/
theorem bind_bare_v6_in_list (pre post : List (List Char)) (h : List Char) (hh : v6chars h) :
    (createSockets (pre ++ ('[' :: h ++ [']']) :: post))[pre.length]? = some (.inet true h 8000) := by
  have e := bind_bare_v6 h hh
  simp only [List.cons_append] at e
  simp [create_sockets_pointwise, e]

example : createSockets ["127.0.0.1:5000".toList, "127.0.0.2".toList, "unix:/x".toList, "[::1]".toList, "[::]:443".toList, "h".toList] =
    [.inet false "127.0.0.1".toList 5000, .inet false "127.0.0.2".toList 8000, .unix "/x".toList, .inet true "::1".toList 8000,
     .inet true "::".toList 443, .inet false "h".toList 8000] := by decide

/-! ### RFC 7231 date and the server's own response headers -/

theorem date_fields_in_range (t : Nat) (ht : t ≤ 253402300799) :
    (fields t).wd < 7 ∧ 1 ≤ (fields t).day ∧ (fields t).day ≤ 31 ∧ 1 ≤ (fields t).mon ∧ (fields t).mon ≤ 12 ∧
    (fields t).year ≤ 9999 ∧ (fields t).hh < 24 ∧ (fields t).mm < 60 ∧ (fields t).ss < 60 := by
  simp only [fields, civil]
  refine ⟨by omega, ?_⟩
  split <;> split <;> omega

private theorem render_length (f : Fields) (hw : (weekdays[f.wd]?.getD []).length = 3)
    (hm : (months[f.mon - 1]?.getD []).length = 3) : (render f).length = 29 := by
  simp only [render, List.length_append, List.length_cons, List.length_nil, pad2, pad4, hw, hm]

/-- **the date header is a well-formed IMF-fixdate**: 29 characters `Day, DD Mon YYYY HH:MM:SS GMT`,
    every field in range, for every second up to 9999-12-31T23:59:59Z -/
theorem date_wellformed (t : Nat) (ht : t ≤ 253402300799) :
    (formatDate t).length = 29 ∧
    ∃ f : Fields, formatDate t = render f ∧ f.wd < 7 ∧ 1 ≤ f.day ∧ f.day ≤ 31 ∧ 1 ≤ f.mon ∧ f.mon ≤ 12 ∧
      f.year ≤ 9999 ∧ f.hh < 24 ∧ f.mm < 60 ∧ f.ss < 60 := by
  have hr := date_fields_in_range t ht
  refine ⟨?_, fields t, by unfold formatDate; rfl, hr⟩
  obtain ⟨hwd, _, _, hm1, hm12, -⟩ := hr
  unfold formatDate
  generalize fields t = f at hwd hm1 hm12 ⊢
  have hw : (weekdays[f.wd]?.getD []).length = 3 := by
    generalize f.wd = w at hwd
    have : w = 0 ∨ w = 1 ∨ w = 2 ∨ w = 3 ∨ w = 4 ∨ w = 5 ∨ w = 6 := by omega
    rcases this with rfl | rfl | rfl | rfl | rfl | rfl | rfl <;> decide
  have hm : (months[f.mon - 1]?.getD []).length = 3 := by
    generalize f.mon = m at hm1 hm12
    have : m = 1 ∨ m = 2 ∨ m = 3 ∨ m = 4 ∨ m = 5 ∨ m = 6 ∨ m = 7 ∨ m = 8 ∨ m = 9 ∨ m = 10 ∨ m = 11 ∨ m = 12 := by omega
    rcases this with rfl | rfl | rfl | rfl | rfl | rfl | rfl | rfl | rfl | rfl | rfl | rfl <;> decide
  exact render_length f hw hm

example : formatDate 5000 = "Thu, 01 Jan 1970 01:23:20 GMT".toList := by decide
example : formatDate 1790736000 = "Wed, 30 Sep 2026 02:40:00 GMT".toList := by decide

/-- **response headers**: only date / server / alt-svc, exactly as the switches ask, in that order -/
theorem response_headers_spec (c : HeaderCfg) (date protocol : Bytes) :
    (∀ h ∈ responseHeaders c date protocol, h.1 = "date".b ∨ h.1 = "server".b ∨ h.1 = "alt-svc".b) ∧
    ((("date".b, date) ∈ responseHeaders c date protocol) ↔ c.includeDate = true) ∧
    ((("server".b, "hypercorn-".b ++ protocol) ∈ responseHeaders c date protocol) ↔ c.includeServer = true) ∧
    (responseHeaders c date protocol).filterMap (fun h => if h.1 = "alt-svc".b then some h.2 else none) = c.altSvc := by
  have d1 : "date".b ≠ "server".b := by decide
  have d2 : "date".b ≠ "alt-svc".b := by decide
  have d3 : "server".b ≠ "alt-svc".b := by decide
  have hfm : ∀ l : List Bytes, (l.map (fun a => (("alt-svc".b, a) : Header))).filterMap
      (fun h => if h.1 = "alt-svc".b then some h.2 else none) = l := by
    intro l; induction l with
    | nil => rfl
    | cons a t ih => simp [List.filterMap_cons, ih]
  refine ⟨?_, ?_, ?_, ?_⟩
  · intro h hh
    simp only [responseHeaders, List.mem_append, List.mem_map] at hh
    rcases hh with (hh | hh) | ⟨a, _, rfl⟩
    · split at hh <;> simp_all
    · split at hh <;> simp_all
    · right; right; rfl
  · cases hd : c.includeDate <;> cases hs : c.includeServer <;>
      simp [responseHeaders, hd, hs, d1, d2, d1.symm, d2.symm]
  · cases hd : c.includeDate <;> cases hs : c.includeServer <;>
      simp [responseHeaders, hd, hs, d1, d3, d1.symm, d3.symm]
  · cases hd : c.includeDate <;> cases hs : c.includeServer <;>
      simp [responseHeaders, hd, hs, List.filterMap_append, List.filterMap_cons, d2, d3, hfm]

/-! ### Several `Config` objects: derived state stays with the object that derived it

Model: `HC/Pure/ConfigObjects.lean` (a class-level list, objects, histories of `Config()` / attribute assignments /
`create_sockets()`); facts about the source: `HC/Extracted/ConfigState.lean`. -/

/-- **`_set_quic_addresses` starts from a fresh empty list bound on the instance** (re-decided against the current source; the
    obligation a method that appends to whatever list the attribute lookup finds - the class's - does not meet) -/
theorem quic_addresses_reset_spec : ConfigState.quicAddressesReset = true := by decide

/-- **no state of `config.py` is shared between `Config` objects behind their back**: no in-place change of a mutable class-level
    default (or of a mutable module-level name) that is not preceded by a rebinding on the same object, no attribute kept on the
    class, no memoised function (re-decided against the current source) -/
theorem config_shared_state_spec :
    ConfigState.configSharedMutations = [] ∧ ConfigState.configClassAccess = [] ∧ ConfigState.configMemoised = [] := by decide

private theorem quicReset_true : quicReset = true := quic_addresses_reset_spec

/-- `create_sockets()` records the QUIC addresses of the call it is whether or not TLS is on (F117: before /repo c5ea7af the
    call sat in the TLS branch only and the addresses of an earlier call under TLS stayed) - re-decided against the source -/
theorem quic_set_always_spec : HC.Extracted.Guards.configQuicSetAlways = true := by decide

private theorem step_shared (w : World) (op : Op) : (step w op).shared = w.shared := by
  unfold step
  rw [quicReset_true]
  cases op <;> simp only [stepWith, setQuic, quic_set_always_spec, if_true] <;> (try rfl) <;> split <;> (try split) <;> (try simp) <;> (try simp_all)

private theorem step_obj (w : World) (op : Op) (i : Nat) (o : Obj) (h : w.objs[i]? = some o) :
    (step w op).objs[i]? = some (if op.target = some i then objStep o op else o) := by
  have hi : i < w.objs.length := by
    rcases Nat.lt_or_ge i w.objs.length with h' | h'
    · exact h'
    · simp [List.getElem?_eq_none h'] at h
  unfold step
  rw [quicReset_true]
  cases op with
  | new => simp [stepWith, Op.target, List.getElem?_append_left hi, h]
  | setDate j b | setServer j b | setAltSvc j b | setSsl j b =>
    simp only [stepWith, Op.target, objStep]
    cases hj : w.objs[j]? with
    | none => by_cases e : j = i <;> simp_all
    | some oj => by_cases e : j = i <;> simp_all
  | createSockets j q =>
    simp only [stepWith, Op.target, objStep, setQuic, quic_set_always_spec, if_true]
    cases hj : w.objs[j]? with
    | none => by_cases e : j = i <;> simp_all
    | some oj => by_cases e : j = i <;> cases hs : oj.ssl <;> simp_all

private theorem run_cons (w : World) (op : Op) (ops : List Op) : run w (op :: ops) = run (step w op) ops := rfl

/-- **no interference between `Config` objects, no accumulation**: after ANY history of operations on any number of objects, the
    list the class body binds to `_quic_addresses` is as it was, and an object is exactly what the operations applied to IT make of
    it (`ownRun`: its own settings, and the QUIC ports of its own last `create_sockets()` under TLS) -/
theorem history_own (w : World) (ops : List Op) (i : Nat) (o : Obj) (h : w.objs[i]? = some o) :
    (run w ops).shared = w.shared ∧ (run w ops).objs[i]? = some (ownRun i o ops) := by
  induction ops generalizing w o with
  | nil => exact ⟨rfl, h⟩
  | cons op ops ih =>
    have h' := step_obj w op i o h
    obtain ⟨a, b⟩ := ih (step w op) _ h'
    rw [run_cons]
    refine ⟨by rw [a, step_shared], ?_⟩
    rw [b]
    simp [ownRun, List.foldl_cons]

theorem history_shared (ops : List Op) : (run World.init ops).shared = [] := by
  suffices h : ∀ w : World, (run w ops).shared = w.shared from h World.init
  induction ops with
  | nil => intro w; rfl
  | cons op ops ih => intro w; rw [run_cons, ih, step_shared]

private theorem run_append (w : World) (a b : List Op) : run w (a ++ b) = run (run w a) b := by
  simp [run, runWith, List.foldl_append]

/-- the object made by `Config()` after an arbitrary history `pre` (other objects with TLS and QUIC sockets included), followed by
    an arbitrary history `post`: the class defaults and the operations of `post` applied to it - nothing of `pre`, nothing that
    `post` does to other objects -/
theorem history_object (pre post : List Op) :
    (run World.init (pre ++ .new :: post)).objs[(run World.init pre).objs.length]? =
      some (ownRun (run World.init pre).objs.length Obj.fresh post) := by
  rw [run_append, run_cons]
  refine (history_own _ post _ Obj.fresh ?_).2
  unfold step
  simp [stepWith]

/-- **the response headers of an object are a function of the object alone**: its switches, its alt-svc values, else the QUIC
    ports it recorded itself -/
theorem response_headers_own (ops : List Op) (o : Obj) (alpn : List Bytes) (date protocol : Bytes) :
    objHeaders (run World.init ops) o alpn date protocol = ownHeaders o alpn date protocol := by
  simp [objHeaders, ownHeaders, quicOf, history_shared]

/-- a `Config()` made after any history answers with date and server only: it advertises no HTTP/3 endpoint it has not bound -/
theorem fresh_config_headers (pre : List Op) (alpn : List Bytes) (date protocol : Bytes) :
    (run World.init (pre ++ [.new])).objs[(run World.init pre).objs.length]? = some Obj.fresh ∧
    objHeaders (run World.init (pre ++ [.new])) Obj.fresh alpn date protocol =
      [("date".b, date), ("server".b, "hypercorn-".b ++ protocol)] := by
  refine ⟨by simpa [ownRun] using history_object pre [], ?_⟩
  rw [response_headers_own]
  simp [ownHeaders, Obj.fresh, altSvcOf, altSvcAuto, responseHeaders, Consts.cfg_include_date_header, Consts.cfg_include_server_header]

/-- `create_sockets()` twice (restart, second `serve()`): the ports of the second call, not both -/
theorem create_sockets_again (o : Obj) (i : Nat) (q1 q2 : List Nat) (hs : o.ssl = true) :
    (objStep (objStep o (.createSockets i q1)) (.createSockets i q2)).quicOwn = some q2 := by
  simp [objStep, hs]

/-- what an object advertises by itself after its `create_sockets()` under TLS, whatever else happened in the process: its own
    alt-svc values if it has any, else one value per HTTP/3 version and QUIC port of THAT call -/
theorem alt_svc_of_own_sockets (ops : List Op) (o : Obj) (i : Nat) (q : List Nat) (alpn : List Bytes) (date protocol : Bytes)
    (hs : o.ssl = true) :
    (objHeaders (run World.init ops) (objStep o (.createSockets i q)) alpn date protocol).filterMap
        (fun h => if h.1 = "alt-svc".b then some h.2 else none) =
      if o.altSvc.isEmpty then altSvcAuto alpn q else o.altSvc := by
  rw [response_headers_own]
  let c : HeaderCfg := ⟨o.includeDate, o.includeServer, if o.altSvc.isEmpty then altSvcAuto alpn q else o.altSvc⟩
  have h := (response_headers_spec c date protocol).2.2.2
  simpa [ownHeaders, objStep, hs, altSvcOf, c] using h

example : ((run World.init [.new, .setSsl 0 true, .createSockets 0 [4433], .new, .createSockets 1 [9], .createSockets 0 [4434], .new]).objs.map
    (quicOf (run World.init [.new, .setSsl 0 true, .createSockets 0 [4433], .new, .createSockets 1 [9], .createSockets 0 [4434], .new]))) =
    [[4434], [], []] := by decide

end HC.Props.C19
