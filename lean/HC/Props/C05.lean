import HC.Proto.H11
import HC.Props.C06
import HC.Extracted.AppExit
import HC.Proto.H2Credit
import HC.Stream.WsExit
import HC.Proto.H2Abandon
/-!
# C05 — application failures are contained and never yield a falsely complete response

`Http.appSend s none` / `Ws.appSend … none` is what `TaskGroup._handle` always does when the application returns,
raises or is cancelled (`finally: await send(None)`): the first section proves exactly that about the `try` statement
the extractor reads off both workers' `_handle`.  The second section proves that a message the stream refuses (the
exception is raised into the application, which then dies with it) starts nothing: the stream stays in the state that
makes the completion signal answer 500 — both for the model (`Http.appSend`) and for the statement order of the
REQUEST-state branches as they stand in the source.
-/
namespace HC.Props.C05
open HC HC.Stream HC.Lib HC.Proto.H11 HC.Extracted.H11Tables
open HC.Stream.AppExit HC.Extracted.AppExit

/-! ### `_handle`: every way the application can end signals completion -/

/-- **completion is signalled however the application ends** — return, exception, cancellation (a `CancelledError` /
    `Cancelled` leaving the application), exception groups of either kind; on both workers -/
theorem completion_always_signalled (e : Exit) :
    0 < signals (run asyncioHandle e) ∧ 0 < signals (run trioHandle e) := by
  cases e <;> decide

/-- **a raising application is logged exactly once, before completion is signalled, and the exception goes no further**
    (so the connection's task group, i.e. its other streams, never sees it) -/
theorem failure_logged_once_and_contained (e : Exit) (h : e = .exception ∨ e = .groupErrors) :
    logs (run asyncioHandle e) = 1 ∧ (run asyncioHandle e).2 = false ∧ (run asyncioHandle e).1.head? = some .log ∧
    logs (run trioHandle e) = 1 ∧ (run trioHandle e).2 = false ∧ (run trioHandle e).1.head? = some .log := by
  rcases h with h | h <;> subst h <;> decide

/-- an application that returns or is cancelled is not an error: nothing is logged -/
theorem quiet_exits_not_logged (e : Exit) (h : e = .returned ∨ e = .cancelled ∨ e = .groupCancelled) :
    logs (run asyncioHandle e) = 0 ∧ logs (run trioHandle e) = 0 := by
  rcases h with h | h | h <;> subst h <;> decide

/-- a cancellation is passed on (after completion was signalled), never swallowed -/
theorem cancellation_passed_on :
    (run asyncioHandle .cancelled) = ([.sendNone], true) ∧ (run trioHandle .cancelled) = ([.sendNone], true) := by decide

/-! ### a refused message starts nothing -/

/-- reading `commitsAfterSend` -/
theorem commitsAfterSend_spec (prog : List BStep) (h : commitsAfterSend prog = true) (k : Nat) (hk : k < prog.length)
    (hs : (runBranch prog (some k) {}).responseSent = false) : (runBranch prog (some k) {}).st = .request := by
  simp only [commitsAfterSend, List.all_eq_true, List.mem_range] at h
  have := h k hk
  simp [hs] at this
  exact this

/-- **the source's REQUEST-state branches move `self.state` only after the `Response` event was handed over**: wherever
    `http.response.start` (or trailers-before-start, or an early hint) is left by an exception — header validation,
    `int(status)`, the protocol's own refusal — the stream is still in REQUEST unless the response head went out -/
theorem request_branches_commit_after_send :
    commitsAfterSend httpStartBranch = true ∧ commitsAfterSend httpTrailersStartBranch = true ∧
    commitsAfterSend httpEarlyHintBranch = true := by decide

/-- and when nothing raises, `http.response.start` hands over the head and leaves the stream in RESPONSE -/
theorem start_branch_completes : runBranch httpStartBranch none {} = { st := .response, responseSent := true } := by decide

/-- **model: a message refused in REQUEST hands nothing to the protocol and leaves the stream in REQUEST; when the
    application then ends (it dies with the exception) the client is answered 500** -/
theorem refused_before_start_then_exit_500 (s : Http.S) (m : Http.Msg) (e : PyErr) (hst : s.st = .request) (hc : s.closed = false)
    (hm : ∀ h mo, m ≠ .trailers h mo) (herr : (Http.appSend s (some m)).2.2 = some e) :
    (Http.appSend s (some m)).2.1 = [] ∧ (Http.appSend s (some m)).1.st = .request ∧
    (Http.appSend (Http.appSend s (some m)).1 none).2.1 =
      [.response 500 [("content-length".b, "0".b), ("connection".b, "close".b)], .endBody, .access (some 500), .streamClosed] := by
  have key : (Http.appSend s (some m)).2.1 = [] ∧ (Http.appSend s (some m)).1.st = .request ∧ (Http.appSend s (some m)).1.closed = false := by
    cases m with
    | trailers h mo => exact absurd rfl (hm h mo)
    | start st hs tr =>
      simp only [Http.appSend, hst, if_true] at herr ⊢
      repeat' split
      all_goals simp_all
    | body b mo => simp [Http.appSend, hst, hc]
    | other => simp [Http.appSend, hst, hc]
    | push p hs =>
      simp only [Http.appSend] at herr ⊢
      repeat' split
      all_goals simp_all
    | earlyHint ls =>
      simp only [Http.appSend] at herr ⊢
      repeat' split
      all_goals simp_all
  obtain ⟨k1, k2, k3⟩ := key
  refine ⟨k1, k2, ?_⟩
  generalize (Http.appSend s (some m)).1 = s' at k2 k3 ⊢
  simp [Http.appSend, k2, k3]

/-- **model: a message refused after the response start changes nothing; the application's end then only closes the
    stream (no end-of-body)** -/
theorem refused_after_start_then_exit_aborts (s : Http.S) (m : Http.Msg) (e : PyErr) (hst : s.st = .response) (hc : s.closed = false)
    (herr : (Http.appSend s (some m)).2.2 = some e) :
    (Http.appSend s (some m)).2.1 = [] ∧ (Http.appSend s (some m)).1 = s ∧
    Http.appSend (Http.appSend s (some m)).1 none = (s, [.streamClosed], none) := by
  have key : (Http.appSend s (some m)).2.1 = [] ∧ (Http.appSend s (some m)).1 = s := by
    cases m with
    | body b mo =>
      simp only [Http.appSend, Http.sendClosed] at herr ⊢
      repeat' split
      all_goals simp_all
    | start st hs tr => simp [Http.appSend, hst]
    | other => simp [Http.appSend]
    | trailers h mo => simp [Http.appSend, hst]
    | push p hs =>
      simp only [Http.appSend] at herr ⊢
      repeat' split
      all_goals simp_all
    | earlyHint ls => simp [Http.appSend, hst]
  refine ⟨key.1, key.2, ?_⟩
  rw [key.2]
  simp [Http.appSend, hst, hc]

example : (Http.appSend { method := "GET", version := "1.1" } (some (.start (some 200) (some [(.str "x-a", .str "1")]) false))).2.2 = some .typeError ∧
    (Http.appSend { method := "GET", version := "1.1" } (some (.start (some 200) (some [(.str "x-a", .str "1")]) false))).1.st = .request := by decide

/-- **no response started ⇒ exactly a complete 500**: head with `content-length: 0` and `connection: close`,
    end-of-body, one access record, stream-closed -/
theorem crash_before_start (s : Http.S) (hst : s.st = .request) (hc : s.closed = false) :
    Http.appSend s none =
      ({ s with st := .closed },
       [.response 500 [("content-length".b, "0".b), ("connection".b, "close".b)], .endBody, .access (some 500), .streamClosed], none) := by
  simp [Http.appSend, hst, hc]

/-- **response started but not finished ⇒ stream-closed and nothing else**: in particular no end-of-body is ever
    signalled for the aborted response -/
theorem crash_after_start (s : Http.S) (hst : s.st = .response ∨ s.st = .trailers) (hc : s.closed = false) :
    Http.appSend s none = (s, [.streamClosed], none) := by
  rcases hst with h | h <;> simp [Http.appSend, h, hc]

/-- finishing after the response completed (or after the stream was closed) does nothing -/
theorem exit_after_completion (s : Http.S) (hc : s.closed = true) : Http.appSend s none = (s, [], none) := by
  simp [Http.appSend, hc]

/-! ### the completion branch (`message is None`) as it stands in the source -/

/-- **the model's completion step is the source's**: in every state of the response (REQUEST, RESPONSE, TRAILERS, CLOSED)
    what `Http.appSend s none` hands to the protocol is what the `message is None` branch of `HTTPStream.app_send` - read
    off the source on every run, evaluated state by state (`httpExitActs`) - sends in that state -/
theorem exit_branch_is_source (s : Http.S) (hc : s.closed = false) :
    (Http.appSend s none).2.1 = (httpExitActs s.st).flatMap XAct.events := by
  cases hst : s.st <;> simp [Http.appSend, hc, hst, httpExitActs, XAct.events]

/-- **an application that ends after the response start and before its end - mid-body, or with the whole body sent and
    the announced trailers still outstanding (TRAILERS) - gets nothing but stream-closed from the source**: no statement
    that would complete or continue the response (no end-of-body, no 500, no trailers) -/
theorem source_exit_never_completes (st : Http.St) (h : st = .response ∨ st = .trailers) :
    ∀ a ∈ httpExitActs st, a.completes = false := by
  rcases h with h | h <;> subst h <;> decide

/-- and before the start the source answers with the complete 500, then stream-closed -/
theorem source_exit_before_start_500 : httpExitActs .request = [.errorResponse 500, .streamClosed] := by decide

/-! ### HTTP/1: a message h11 refused, then the application's failure -/

/-- `fire` (h11's state-triggered transitions) never takes our side out of ERROR -/
theorem fire_keeps_server_error (x : H11M.St) (h : x.server = .error) : (H11M.fire x).server = .error := by
  have one : ∀ y : H11M.St, y.server = .error → (H11M.fireOnce y).server = .error := by
    intro y hy
    simp only [H11M.fireOnce]
    have : ∀ (p ka : Bool) (c : HSt), (H11M.firePair p ka c .error).2 = .error := by
      intro p ka c; cases p <;> cases ka <;> cases c <;> decide
    rw [hy]; exact this _ _ _
  simp only [H11M.fire]
  exact one _ (one _ (one _ (one _ (one _ (one _ h)))))

/-- the library call of `_send_h11_event` -/
def libCall (st : St) : LibSend → Option H11M.St
  | .info s _ => H11M.sendInfo st.lib s
  | .response s hs => H11M.sendResponse st.lib (respInfo s hs)
  | .data _ => H11M.sendData st.lib
  | .eom => H11M.sendEom st.lib

theorem libSend_refused (st : St) (e : LibSend) (h : libCall st e = none) :
    libSend st e = ({ st with lib := H11M.sendFailed st.lib }, [.libSend e false],
      (H11M.sendFailed st.lib).client != .error && st.lib.server != .error) := by
  cases e <;> simp only [libCall] at h <;> simp [libSend, h]

theorem libSend_accepted (st : St) (e : LibSend) (lib' : H11M.St) (h : libCall st e = some lib') :
    Out.libSend e false ∉ (libSend st e).2.1 := by
  cases e <;> simp only [libCall] at h <;> simp [libSend, h] <;> (try split) <;> simp

theorem sendFailed_server (l : H11M.St) : (H11M.sendFailed l).server = .error := by
  simp only [H11M.sendFailed, H11M.processError]
  apply fire_keeps_server_error
  simp [H11M.St.set]

/-- **a send h11 refuses leaves our side in ERROR** (`send_with_data_passthrough`: `_process_error(our_role)`) -/
theorem refused_send_poisons (st : St) (e : LibSend) (h : Out.libSend e false ∈ (libSend st e).2.1) :
    (libSend st e).1.lib.server = .error := by
  cases hc : libCall st e with
  | some lib' => exact absurd h (libSend_accepted st e lib' hc)
  | none => rw [libSend_refused st e hc]; exact sendFailed_server _

/-- **once our side is in ERROR no `_send_h11_event` raises any more** - whatever the event: the body and the end an
    application goes on sending, its retried start, and the 500 that `app_send(None)` attempts when the application has
    died are all dropped (`errored = our_state is ERROR` before the call: the raise flag is false); nothing is written;
    our side stays in ERROR, so `_maybe_recycle` closes the connection (`h1_crash_mid_response_closes`' argument) -/
theorem errored_send_never_raises (st : St) (e : LibSend) (h : st.lib.server = .error) :
    (libSend st e).2.2 = false ∧ (libSend st e).2.1 = [.libSend e false] ∧ (libSend st e).1.lib.server = .error := by
  have hr : libCall st e = none := by
    cases e <;> simp [libCall, H11M.sendInfo, H11M.sendResponse, H11M.sendData, H11M.sendEom, h]
  rw [libSend_refused st e hr]
  exact ⟨by simp [h], rfl, sendFailed_server _⟩

/-- **a message h11 refused, then anything**: after the refusal (which alone is raised into the application) every later
    send of the connection is dropped without an exception - in particular the failure of the application that follows
    (its 500) cannot end the connection handler with an error -/
theorem refused_then_nothing_raises (st : St) (e e' : LibSend) (h : Out.libSend e false ∈ (libSend st e).2.1) :
    (libSend (libSend st e).1 e').2.2 = false :=
  (errored_send_never_raises _ e' (refused_send_poisons st e h)).1

/-- non-vacuous: a 101 on a request that proposed no upgrade is refused (h11's writer in SEND_RESPONSE, nothing pending) -/
example : libCall { lib := { client := .done, server := .sendResponse } } (.info 101 []) = none := by decide

/-- h11's writer reaches DONE only through `EndOfMessage` -/
theorem server_done_only_by_eom (s s' : H11M.St) (k : EvKey) (h : H11M.stepServer s k = some s') (hk : k ≠ .eom)
    (hs : s.server ≠ .done) (hka : s.keepAlive = true ∨ True) : s'.server = .done → False := by
  intro hd
  unfold H11M.stepServer at h
  split at h
  · cases h
  · split at h
    · cases h
    · rename_i sv hsv
      simp only [Option.some.injEq] at h
      -- the table target of a non-eom server event is never DONE, and the state-triggered pass never produces DONE
      have hsv' : sv ≠ .done := by
        intro e; subst e
        have key : ∀ st, H11M.lookupEvent .server st k = some .done → k = .eom := by
          intro st; cases st <;> cases k <;> decide
        exact hk (key _ hsv)
      subst h
      have hf : ∀ x : H11M.St, x.server ≠ .done → (H11M.fire x).server ≠ .done := by
        intro x hx
        have one : ∀ y : H11M.St, y.server ≠ .done → (H11M.fireOnce y).server ≠ .done := by
          intro y hy
          simp only [H11M.fireOnce]
          have : ∀ (p ka : Bool) (c sv : HSt), sv ≠ .done → (H11M.firePair p ka c sv).2 ≠ .done := by
            intro p ka c sv; cases p <;> cases ka <;> cases c <;> cases sv <;> decide
          exact this _ _ _ _ hy
        simp only [H11M.fire]
        exact one _ (one _ (one _ (one _ (one _ (one _ hx)))))
      exact hf _ (by simpa using hsv') hd

/-- **HTTP/1: an application that ends after the response start but before its end closes the connection**:
    h11's writer is in SEND_BODY (not DONE), so `_maybe_recycle` emits `Closed` and never restarts the cycle —
    the client sees the response cut short of its declared length / final chunk -/
theorem h1_crash_mid_response_closes (st : St) (hs : st.lib.server = .sendBody) :
    Out.upClosed ∈ (maybeRecycle st).2 ∧ Out.startNextCycle true ∉ (maybeRecycle st).2 := by
  have h := HC.Props.C06.reuse_iff st
  have hn : ¬ (st.closed = false ∧ st.terminated = false ∧ st.lib.server = .done ∧ st.lib.client = .done ∧ st.wsMode = false) := by
    intro ⟨_, _, h2, _⟩; rw [hs] at h2; cases h2
  exact ⟨h.2.mpr hn, fun hc => hn (h.1.mp hc)⟩

/-- the whole step at the protocol level: current HTTP stream in RESPONSE, application ends ⇒ `Closed`, no reuse,
    and no `EndOfMessage` is handed to h11 -/
theorem h1_crash_step (cfg : Cfg) (st : St) (i : Nat) (s : Http.S)
    (hobj : st.objs[i]? = some (.http s)) (hst : s.st = .response) (hc : s.closed = false) (hsrv : st.lib.server = .sendBody) :
    let r := appSendHttp cfg st i none
    Out.upClosed ∈ r.2.1 ∧ (∀ ok, Out.libSend .eom ok ∉ r.2.1) ∧ r.2.2 = none := by
  have happ : Http.appSend s none = (s, [.streamClosed], none) := crash_after_start s (Or.inl hst) hc
  simp only [appSendHttp, hobj, happ, runHttpEvs, httpStreamSend]
  have hlib : (st.setObj i (.http s)).lib.server = .sendBody := by simpa [St.setObj] using hsrv
  obtain ⟨h1, h2⟩ := h1_crash_mid_response_closes (st.setObj i (.http s)) hlib
  refine ⟨by simpa using h1, ?_, by simp⟩
  intro ok hmem
  simp only [List.append_nil] at hmem
  exact HC.Props.C06.maybeRecycle_no_libSend _ _ _ hmem

/-- **WebSocket**: ending in the handshake answers 500; ending while connected sends close 1011; both then close the stream -/
theorem ws_crash_handshake (token : Bytes → Bytes) (ext : Option Bytes) (s : Ws.S) (hst : s.st = .handshake) (hc : s.closed = false) :
    Ws.appSend token ext s none = ({ s with st := .httpClosed }, Ws.errorResponse 500 ++ [.streamClosed], none) := by      -- one access record (inside errorResponse); HTTPCLOSED before the 500 is sent (F98)
  simp [Ws.appSend, hst, hc]

theorem ws_crash_connected (token : Bytes → Bytes) (ext : Option Bytes) (s : Ws.S) (hst : s.st = .connected) (hc : s.closed = false)
    (hconn : s.conn = some .open) :
    Ws.appSend token ext s none = ({ s with conn := some .localClosing }, [.data (.close 1011), .streamClosed], none) := by
  simp [Ws.appSend, hst, hc, Ws.sendWs, hconn, Ws.connSend]

/-! ### WebSocket: a refused `websocket.close` leaves the connection open (F63) -/

/-- reading `closesAfterFrame` -/
theorem closesAfterFrame_spec (prog : List WStep) (h : closesAfterFrame prog = true) (k : Nat) (hk : k < prog.length)
    (hs : (runWBranch prog (some k) {}).frameBuilt = false) : (runWBranch prog (some k) {}).st = .connected := by
  simp only [closesAfterFrame, List.all_eq_true, List.mem_range] at h
  have := h k hk
  simp [hs] at this
  exact this

/-- **the source's CONNECTED-state `websocket.close` branch moves `self.state` only once the close frame has been produced,
    and has moved it to CLOSED before the first await after that**: wherever the branch is left by an exception — `int(code)`,
    wsproto's serialisation of the code or of the reason — the stream is still CONNECTED unless the frame exists; and the
    reader task never runs between "wsproto is closing" and "`self.state` is CLOSED" -/
theorem ws_close_branch_commits_after_frame :
    closesAfterFrame wsCloseBranch = true ∧ closedBeforeYield wsCloseBranch = true := by decide

/-- and when nothing raises, the branch builds the frame and leaves the stream CLOSED -/
theorem ws_close_branch_completes :
    runWBranch wsCloseBranch none {} = { st := .closed, frameBuilt := true, yieldedOpen := false } := by decide

/-- the order the branch had before the repair (state first, then `_send_wsproto_event`) does not have the first property, and
    "send first, then the state" does not have the second: the clauses tell the three orders apart -/
example : closesAfterFrame [.setState .closed, .sendEvent, .sendEndData] = false ∧
    closedBeforeYield [.sendEvent, .setState .closed, .sendEndData] = false := by decide

/-- wsproto's serialisation of a close frame refuses exactly: a code outside 0..65535 (`struct.error`), else a reason that is
    neither `None` nor a str (`AttributeError`) -/
theorem closeFrame_refusals (n : Int) (reason : Option HV) (e : PyErr) (h : Ws.closeFrame n reason = .error e) :
    ((n < 0 ∨ 65535 < n) ∧ e = .structError) ∨
    (0 ≤ n ∧ n ≤ 65535 ∧ e = .attributeError ∧ (∃ v, reason = some v ∧ v ≠ .none ∧ ∀ t, v ≠ .str t)) := by
  unfold Ws.closeFrame at h
  by_cases hr : n < 0 ∨ 65535 < n
  · rw [if_pos hr] at h
    exact Or.inl ⟨hr, by cases h; rfl⟩
  · rw [if_neg hr] at h
    have hr' : 0 ≤ n ∧ n ≤ 65535 := by omega
    right
    refine ⟨hr'.1, hr'.2, ?_⟩
    cases reason with
    | none => cases h
    | some v => cases v <;> simp at h <;> simp [h]

/-- **every way the frame of a `websocket.close` message cannot be built, by cases**: `int(code)` raised (`e` is what it
    raised), or there is no connection object, or the connection would take a close frame and wsproto's serialisation refuses
    the code (outside 0..65535: `struct.error`) or the reason (neither `None` nor a str: `AttributeError`) -/
theorem ws_close_refusals (s : Ws.S) (code : Ws.CloseCode) (reason : Option HV) (e : PyErr)
    (h : Ws.closeArgs s code reason = .error e) :
    code = .refused e ∨ (s.conn = none ∧ e = .attributeError) ∨
    (∃ n, code.value = .ok n ∧ (s.conn = some .open ∨ s.conn = some .remoteClosing) ∧
      (((n < 0 ∨ 65535 < n) ∧ e = .structError) ∨
       (0 ≤ n ∧ n ≤ 65535 ∧ e = .attributeError ∧ (∃ v, reason = some v ∧ v ≠ .none ∧ ∀ t, v ≠ .str t)))) := by
  unfold Ws.closeArgs at h
  cases hv : code.value with
  | error x =>
    left
    cases code <;> simp [Ws.CloseCode.value] at hv
    simp [Ws.CloseCode.value] at h
    rw [h]
  | ok n =>
    right
    rw [hv] at h
    cases hcn : s.conn with
    | none => rw [hcn] at h; exact Or.inl ⟨rfl, by cases h; rfl⟩
    | some c =>
      right
      rw [hcn] at h
      refine ⟨n, rfl, ?_⟩
      cases c with
      | «open» => exact ⟨Or.inl rfl, closeFrame_refusals n reason e (by simpa [Ws.connSend] using h)⟩
      | remoteClosing => exact ⟨Or.inr rfl, closeFrame_refusals n reason e (by simpa [Ws.connSend] using h)⟩
      | localClosing => simp [Ws.connSend] at h
      | closed => simp [Ws.connSend] at h

/-- **model: a `websocket.close` message refused while CONNECTED hands nothing to the protocol and leaves the stream exactly
    as it was — for every code and every reason, whichever layer refuses (cases: `ws_close_refusals`); when the application
    then ends (it dies with the exception) the client is sent the 1011 close frame** -/
theorem ws_refused_close_then_exit_1011 (token : Bytes → Bytes) (ext : Option Bytes) (s : Ws.S) (code : Ws.CloseCode)
    (reason : Option HV) (e : PyErr) (hst : s.st = .connected) (hc : s.closed = false)
    (herr : (Ws.appSend token ext s (some (.close code reason))).2.2 = some e) :
    Ws.closeArgs s code reason = .error e ∧
    (Ws.appSend token ext s (some (.close code reason))).2.1 = [] ∧
    (Ws.appSend token ext s (some (.close code reason))).1 = s ∧
    (s.conn = some .open →
      Ws.appSend token ext (Ws.appSend token ext s (some (.close code reason))).1 none =
        ({ s with conn := some .localClosing }, [.data (.close 1011), .streamClosed], none)) := by
  have key : Ws.closeArgs s code reason = .error e ∧ (Ws.appSend token ext s (some (.close code reason))).2.1 = [] ∧
      (Ws.appSend token ext s (some (.close code reason))).1 = s := by
    cases hk : Ws.closeArgs s code reason with
    | error x =>
      simp [Ws.appSend, hst, hc, hk] at herr ⊢
      exact herr
    | ok k =>
      -- a frame could be built: then there is a connection object and nothing is raised at all
      exfalso
      have hconn : s.conn ≠ none := by
        intro hn
        unfold Ws.closeArgs at hk
        cases hv : code.value <;> simp [hv, hn] at hk
      cases hcn : s.conn with
      | none => exact hconn hcn
      | some c =>
        simp only [Ws.appSend, hst, hc, hk, Ws.sendWs, hcn] at herr
        cases hcs : Ws.connSend c (.close k) <;> simp [hcs] at herr
  refine ⟨key.1, key.2.1, key.2.2, ?_⟩
  intro hopen
  rw [key.2.2]
  exact ws_crash_connected token ext s hst hc hopen

/-- a code that is no number, a code that does not fit a close frame, a reason that is not a str: all refused, the stream untouched -/
example : (Ws.appSend (fun _ => []) none { st := .connected, hs := { version := "1.1" }, conn := some .open, buffer := { maxLength := 10 } }
      (some (.close (.refused .valueError) none))).2.2 = some .valueError ∧
    (Ws.appSend (fun _ => []) none { st := .connected, hs := { version := "1.1" }, conn := some .open, buffer := { maxLength := 10 } }
      (some (.close (.int 70000) none))).2.2 = some .structError ∧
    (Ws.appSend (fun _ => []) none { st := .connected, hs := { version := "1.1" }, conn := some .open, buffer := { maxLength := 10 } }
      (some (.close (.int 1000) (some (.int 5))))).2.2 = some .attributeError ∧
    (Ws.appSend (fun _ => []) none { st := .connected, hs := { version := "1.1" }, conn := some .open, buffer := { maxLength := 10 } }
      (some (.close (.int 1000) (some (.int 5))))).1.st = .connected := by decide

/-! ### WebSocket: every message sequence, then the application's death (both carriers: the stream hands either protocol the
    same events) -/
open HC.Stream.WsExit in
/-- **a refused WebSocket message — of any type, with any payload, in any state — hands nothing to the protocol and leaves
    the stream exactly where it was** (so dying with the exception is answered as the state demands: next theorems) -/
theorem ws_refused_message_is_noop (token : Bytes → Bytes) (ext : Option Bytes) (s : Ws.S) (w : List Ws.Ev) (m : Ws.Msg) (e : PyErr)
    (hI : Inv s w) (herr : (Ws.appSend token ext s (some m)).2.2 = some e) :
    (Ws.appSend token ext s (some m)).2.1 = [] ∧ (Ws.appSend token ext s (some m)).1.st = s.st ∧
    (Ws.appSend token ext s (some m)).1.conn = s.conn ∧ (Ws.appSend token ext s (some m)).1.closed = s.closed := by
  by_cases hcl : s.closed = true
  · simp [Ws.appSend, hcl] at herr
  · have hcl' : s.closed = false := by simpa using hcl
    have hL := hI.2.2.2 hcl'
    cases m with
    | other => simp [Ws.appSend, hcl']
    | accept sp extra =>
      by_cases hst : s.st = .handshake
      · cases ha : s.hs.accept token ext sp extra with
        | error x => simp [Ws.appSend, hcl', hst, ha]
        | ok r => simp [Ws.appSend, hcl', hst, ha] at herr
      · simp [Ws.appSend, hcl', hst]
    | respStart status headers =>
      by_cases hst : s.st = .handshake
      · simp [Ws.appSend, hcl', hst] at herr
      · simp [Ws.appSend, hcl', hst]
    | respBody body more =>
      by_cases hst : s.st = .handshake ∨ s.st = .response
      · have hx : Ws.appSend token ext s (some (.respBody body more)) = Ws.sendRejection s body more := by
          simp [Ws.appSend, hcl', hst]
        rw [hx] at herr ⊢
        obtain ⟨kc, kcl, _, kcase⟩ := sendRejection_counts s body more hst
        -- an error leaves `sendRejection` before anything was sent
        have hnil : (Ws.sendRejection s body more).2.1 = [] ∧ (Ws.sendRejection s body more).1.st = s.st := by
          unfold Ws.sendRejection at herr ⊢
          cases hr : s.response with
          | none => simp
          | some p =>
            obtain ⟨st?, hdrs⟩ := p
            cases st? with
            | none => simp
            | some status =>
              simp only [hr] at herr ⊢
              cases hb : Ws.bodyBytes body with
              | error x => simp
              | ok b =>
                simp only [hb] at herr ⊢
                cases hd : Ws.denialHead s status hdrs with
                | error x => simp
                | ok q =>
                  obtain ⟨s1, e1⟩ := q
                  simp only [hd] at herr ⊢
                  split at herr <;> simp at herr
        exact ⟨hnil.1, hnil.2, kc, kcl⟩
      · simp [Ws.appSend, hcl', hst]
    | send bytes text =>
      by_cases hst : s.st = .connected
      · simp only [Live, hst] at hL
        obtain ⟨_, _, c, hc, _, _⟩ := hL
        have hshape : (∃ e', Ws.appSend token ext s (some (.send bytes text)) = (s, [], some e')) ∨
            (∃ p, Ws.appSend token ext s (some (.send bytes text)) = Ws.sendWs s (.message p)) := by
          simp only [Ws.appSend, hcl', hst, Bool.false_eq_true, ↓reduceIte]
          split
          · rename_i e' _; exact Or.inl ⟨e', rfl⟩
          · rename_i p _; exact Or.inr ⟨p, rfl⟩
        rcases hshape with ⟨e', hx⟩ | ⟨p, hx⟩
        · rw [hx]; exact ⟨rfl, rfl, rfl, rfl⟩
        · rw [hx] at herr
          obtain ⟨hn, _⟩ := sendWs_spec s (.message p) c hc
          rw [hn] at herr; cases herr
      · simp [Ws.appSend, hcl', hst]
    | close code reason =>
      cases hst : s.st
      · simp [Ws.appSend, hcl', hst] at herr
      · obtain ⟨_, h2, h3, _⟩ := ws_refused_close_then_exit_1011 token ext s code reason e hst hcl' herr
        rw [h3]; exact ⟨h2, hst, rfl, rfl⟩
      · simp [Ws.appSend, hcl', hst]
      · simp [Ws.appSend, hcl', hst]
      · simp [Ws.appSend, hcl', hst]

open HC.Stream.WsExit in
/-- **any interleaving of application messages (accepted or refused; a refusal caught by the application or not) and client
    input, then the application's death: the stream hands the protocol at most one response head, at most one end of a
    response body and at most one close frame over its whole life** — never a second final response, never a close frame
    after a close frame (the 1011 of a dying application included) -/
theorem ws_life_at_most_one_answer (token : Bytes → Bytes) (ext : Option Bytes) (s0 : Ws.S) (hst : s0.st = .handshake)
    (hconn : s0.conn = none) (ops : List WsExit.Op) :
    heads (life token ext s0 ops) ≤ 1 ∧ ends (life token ext s0 ops) ≤ 1 ∧ closes (life token ext s0 ops) ≤ 1 := by
  have h1 := inv_run token ext ops s0 [] (inv_init s0 hst hconn)
  have h2 := inv_appSend token ext _ none _ h1
  simp only [List.nil_append] at h2
  exact ⟨h2.1, h2.2.1, h2.2.2.1⟩

open HC.Stream.WsExit in
/-- **what the application's death adds, by the state it dies in** (after any interleaving `ops`; `w` = what went out before):
    handshake unanswered ⇒ exactly the 500 (the only response head of the stream); a rejection started or complete, or the
    stream closed by the application's own `websocket.close` ⇒ nothing more (in particular no end-of-body for an unfinished
    rejection, no second close frame); connected and no close frame sent yet ⇒ exactly the 1011 close frame; connected
    with a close frame already out (1009 for an oversized message, the echo of the client's close) ⇒ nothing more;
    the stream already closed by the protocol (client gone, 400 answered) ⇒ nothing at all -/
theorem ws_death_by_state (token : Bytes → Bytes) (ext : Option Bytes) (s0 : Ws.S) (hst : s0.st = .handshake)
    (hconn : s0.conn = none) (ops : List WsExit.Op) :
    let s := (run token ext s0 ops).1
    let w := (run token ext s0 ops).2
    let x := (Ws.appSend token ext s none).2.1
    (s.closed = true → x = []) ∧
    (s.closed = false →
      (s.st = .handshake → heads w = 0 ∧ closes w = 0 ∧ x = Ws.errorResponse 500 ++ [.streamClosed]) ∧
      (s.st = .response → heads w = 1 ∧ ends w = 0 ∧ closes w = 0 ∧ x = [.streamClosed]) ∧
      (s.st = .httpClosed → heads w = 1 ∧ ends w = 1 ∧ closes w = 0 ∧ x = [.streamClosed]) ∧
      (s.st = .closed → heads w = 1 ∧ closes w = 1 ∧ x = [.streamClosed]) ∧
      (s.st = .connected → heads w = 1 ∧
        ((s.conn = some .open ∧ closes w = 0 ∧ x = [.data (.close 1011), .streamClosed]) ∨
         (s.conn ≠ some .open ∧ closes w = 1 ∧ x = [.streamClosed])))) := by
  have h1 := inv_run token ext ops s0 [] (inv_init s0 hst hconn)
  simp only [List.nil_append] at h1
  intro s w x
  refine ⟨fun hc => by simp [x, Ws.appSend, hc], fun hc => ?_⟩
  have hL : Live s w := h1.2.2.2 hc
  refine ⟨fun h => ?_, fun h => ?_, fun h => ?_, fun h => ?_, fun h => ?_⟩
  · simp only [Live, h] at hL
    exact ⟨hL.1, hL.2.2.1, by simp [x, Ws.appSend, hc, h]⟩
  · simp only [Live, h] at hL
    exact ⟨hL.1, hL.2.1, hL.2.2.1, by simp [x, Ws.appSend, hc, h]⟩
  · simp only [Live, h] at hL
    exact ⟨hL.1, hL.2.1, hL.2.2.1, by simp [x, Ws.appSend, hc, h]⟩
  · simp only [Live, h] at hL
    obtain ⟨a1, _, c, _, _, _, a2⟩ := hL
    exact ⟨a1, a2, by simp [x, Ws.appSend, hc, h]⟩
  · simp only [Live, h] at hL
    obtain ⟨a1, _, c, hcn, hnr, a2⟩ := hL
    refine ⟨a1, ?_⟩
    cases c with
    | «open» => exact Or.inl ⟨hcn, by simpa using a2, by simp [x, Ws.appSend, hc, h, Ws.sendWs, hcn, Ws.connSend]⟩
    | remoteClosing => exact absurd rfl hnr
    | localClosing => exact Or.inr ⟨by simp [hcn], by simpa using a2, by simp [x, Ws.appSend, hc, h, Ws.sendWs, hcn, Ws.connSend]⟩
    | closed => exact Or.inr ⟨by simp [hcn], by simpa using a2, by simp [x, Ws.appSend, hc, h, Ws.sendWs, hcn, Ws.connSend]⟩

open HC.Stream.WsExit in
/-- **the application's messages alone (any list: accepted, refused, in any order), then its death: the wire carries exactly
    one of** {the 500 (handshake unanswered) | nothing more (rejection started / complete, close already sent) | the 1011
    close frame (connected)} — by induction over the list, from a stream fresh from a valid handshake -/
theorem ws_messages_then_death (token : Bytes → Bytes) (ext : Option Bytes) (s0 : Ws.S) (hst : s0.st = .handshake)
    (hconn : s0.conn = none) (hcl : s0.closed = false) (ms : List Ws.Msg) :
    let s := (feed token ext s0 ms).1
    let w := (feed token ext s0 ms).2
    let x := (Ws.appSend token ext s none).2.1
    (s.st = .handshake ∧ heads w = 0 ∧ closes w = 0 ∧ x = Ws.errorResponse 500 ++ [.streamClosed]) ∨
    ((s.st = .response ∨ s.st = .httpClosed) ∧ heads w = 1 ∧ closes w = 0 ∧ x = [.streamClosed]) ∨
    (s.st = .closed ∧ heads w = 1 ∧ closes w = 1 ∧ x = [.streamClosed]) ∨
    (s.st = .connected ∧ heads w = 1 ∧ closes w = 0 ∧ x = [.data (.close 1011), .streamClosed]) := by
  intro s w x
  have hA : AppInv s := appInv_feed token ext ms s0 ⟨hcl, fun h => by rw [hst] at h; cases h⟩
  obtain ⟨_, hd⟩ := ws_death_by_state token ext s0 hst hconn (ms.map WsExit.Op.app)
  obtain ⟨d1, d2, d3, d4, d5⟩ := hd hA.1
  cases h : s.st
  · exact Or.inl ⟨rfl, d1 h⟩
  · right; right; right
    obtain ⟨a1, a2⟩ := d5 h
    rcases a2 with ⟨_, a3, a4⟩ | ⟨a3, _⟩
    · exact ⟨rfl, a1, a3, a4⟩
    · exact absurd (hA.2 h) a3
  · obtain ⟨a1, _, a3, a4⟩ := d2 h
    exact Or.inr (Or.inl ⟨Or.inl rfl, a1, a3, a4⟩)
  · exact Or.inr (Or.inr (Or.inl ⟨rfl, d4 h⟩))
  · obtain ⟨a1, _, a3, a4⟩ := d3 h
    exact Or.inr (Or.inl ⟨Or.inr rfl, a1, a3, a4⟩)

open HC.Stream.WsExit in
/-- the hypotheses are satisfiable and every branch occurs: accept, a refused close, a refused send, then death ⇒ 1011;
    a rejection head then death ⇒ nothing more, no end-of-body; a refused accept then death ⇒ 500 -/
example :
    let s0 : Ws.S := { hs := { version := "1.1", key := some [1] }, buffer := { maxLength := 10 } }
    life (fun _ => []) none s0 [.app (.accept none []), .app (.close (.int 70000) none), .app (.send none (some (.int 5)))] =
      [.response 101 [("sec-websocket-accept".b, []), ("upgrade".b, "WebSocket".b), ("connection".b, "Upgrade".b)], .access 101,
       .data (.close 1011), .streamClosed] ∧
    life (fun _ => []) none s0 [.app (.respStart (some 403) (some [])), .app (.respBody none true), .app (.close .absent none)] =
      [.response 403 [], .body [], .streamClosed] ∧
    life (fun _ => []) none s0 [.app (.accept (some "nope".b) [])] = Ws.errorResponse 500 ++ [.streamClosed] := by decide

/-- **HTTP/2 reset rule** (`H2Protocol._reset_abandoned_response`): a closing HTTP stream whose send buffer exists and was
    never completed is reset; a completed one (END_STREAM sent, buffer gone) is not -/
def h2ResetOnClose (bufferExists bufferComplete isHttpStream : Bool) : Bool :=
  bufferExists && !bufferComplete && isHttpStream

theorem h2_abandoned_reset (c : Bool) : h2ResetOnClose true c true = !c := by cases c <;> rfl
theorem h2_completed_not_reset (h : Bool) : h2ResetOnClose false false h = false := by cases h <;> rfl

/-! ### HTTP/2: a failed stream does not take the connection's receive window with it -/
open HC.Proto.H2Credit in
/-- **the connection's other streams keep their window**: request-body DATA that is still arriving for a stream whose
    application has already ended (answered 500 / completed, the stream forgotten: `live = false`) is acknowledged in
    full, exactly like DATA of live streams — the acknowledgement counts of both paths of `_handle_events` are read off
    the source (`ReqGlue.dataAcksDelivered`, `dataAcksMissing`).  So after any upload to failed streams, of any length
    and interleaved with anything, the client has the whole connection window `w0` again for its other streams. -/
theorem failed_stream_upload_credited (es : List DataEv) (w0 : Nat) : (run {} es).available w0 = w0 := by
  have hack : ∀ e : DataEv, acked e = e.len := by
    intro e
    cases e with
    | mk len live => cases live <;> simp [acked, HC.Extracted.ReqGlue.dataAcksDelivered, HC.Extracted.ReqGlue.dataAcksMissing]
  have key : ∀ (l : List DataEv) (w : Win), w.returned = w.consumed → (run w l).returned = (run w l).consumed := by
    intro l
    induction l with
    | nil => intro w hw; exact hw
    | cons e t ih =>
      intro w hw
      apply ih
      simp [HC.Proto.H2Credit.step, hack, hw]
  have := key es {} rfl
  simp [Win.available, this]

/-- in particular a whole connection window uploaded to a stream that failed before reading leaves it untouched -/
example : (HC.Proto.H2Credit.run {} [⟨1000, true⟩, ⟨16384, false⟩, ⟨16384, false⟩, ⟨16384, false⟩, ⟨15383, false⟩]).available 65535 = 65535 := by
  decide

example : (Http.appSend { method := "GET", version := "1.1", st := .response, response := some (200, false) } none).2.1 = [.streamClosed] := by decide

end HC.Props.C05

/- (a namespace section of its own: the names `run` / `step` / `guard` of the stream models opened above are not in scope here) -/
namespace HC.Props.C05
/-! ### HTTP/2: the reset of an abandoned response does not wait for the peer's flow-control credit

"Promptly terminated": the RST_STREAM may not depend on what the client does about the stream's window.  The guard and the
statements of `H2Protocol._reset_abandoned_response` are read off the source on every run (`AppExit.h2AbandonGuard`,
`h2AbandonSteps`); `HC.Proto.H2Abandon` interprets them on a stream of the send-path model `HC.Proto.H2Send`. -/
open HC.Proto.H2Send HC.Proto.H2Abandon HC.Stream.AppExit HC.Extracted

/-- **nothing on the path waits for credit**: no statement of the source's `_reset_abandoned_response` is a
    `buffer.drain()` (which returns only once the peer has granted the window for everything still buffered) or an
    await this model does not know; what remains suspends for the transport write alone -/
theorem h2_abandon_path_waits_only_for_transport : waitsOnlyForTransport AppExit.h2AbandonSteps = true := by decide

/-- hence the function returns from EVERY state of the stream: whatever is buffered, whatever the windows are, whatever
    the buffer's events say -/
theorem h2_abandon_path_returns (x : Str) : ∃ y, runFn AppExit.h2AbandonGuard AppExit.h2AbandonSteps x = .done y := by
  unfold runFn
  split
  · exact runSteps_done _ h2_abandon_path_waits_only_for_transport x
  · exact ⟨x, rfl⟩

/-- the source's guard, evaluated on the model's stream -/
theorem h2_abandon_guard_eq (x : Str) : guardHolds AppExit.h2AbandonGuard x = (x.hasBuf && !x.complete && x.live) := by
  simp [guardHolds, atom, AppExit.h2AbandonGuard, Bool.and_assoc]

/-- **the send-path model's two ops ARE the source's statements**: wherever `abandon i` is taken from, the test it makes
    is the source's guard (plus h2's own refusal to reset a stream twice); when a reset is due that very op hands the
    RST_STREAM to h2, `abandonFin i` is enabled right after it and the two together leave the stream exactly as the
    source's statement list followed by `_close_stream` does (were one of the statements able to wait, the right-hand
    side would be `none` in the states where it does); when no reset is due the function returns at once and the stream
    is only forgotten -/
theorem h2_abandon_model_is_source (s s1 : St) (i : Nat) (h : step s (.abandon i) = some s1) :
    (((guardHolds AppExit.h2AbandonGuard (s.str i) && !(s.str i).libClosed) = true) →
      (s1.str i).libClosed = true ∧
      (step s1 (.abandonFin i)).map (fun s2 => s2.str i) =
        (runFn AppExit.h2AbandonGuard AppExit.h2AbandonSteps (s.str i)).result.map Str.gone) ∧
    (((guardHolds AppExit.h2AbandonGuard (s.str i) && !(s.str i).libClosed) = false) →
      s1.str i = (s.str i).gone ∧
      runFn AppExit.h2AbandonGuard AppExit.h2AbandonSteps (s.str i) = .done (s.str i)) := by
  generalize hx : s.str i = x at h ⊢
  simp only [step, hx] at h
  by_cases hp : x.pusher = .idle
  · simp only [hp, bne_self_eq_false, Bool.false_eq_true, if_false] at h
    constructor
    · intro hg
      rw [h2_abandon_guard_eq] at hg
      have hc : (x.hasBuf && !x.complete && x.live && !x.libClosed) = true := hg
      simp only [hc, if_true, Option.some.injEq] at h
      subst h
      simp only [Bool.and_eq_true, Bool.not_eq_true'] at hg
      obtain ⟨⟨⟨h1, h2⟩, h3⟩, h4⟩ := hg
      refine ⟨by simp, ?_⟩
      simp [step, runFn, Out.result, h2_abandon_guard_eq, h1, h2, h3, h4, AppExit.h2AbandonSteps, runSteps, Str.gone, Str.closeBuf, hp]
    · intro hg
      rw [h2_abandon_guard_eq] at hg
      have hc : (x.hasBuf && !x.complete && x.live && !x.libClosed) = false := hg
      simp only [hc, Bool.false_eq_true, if_false, Option.some.injEq] at h
      subst h
      refine ⟨by simp, ?_⟩
      simp only [runFn]
      split
      · rename_i hgd
        rw [h2_abandon_guard_eq] at hgd
        have : x.libClosed = true := by simp [hgd] at hg; exact hg
        simp [AppExit.h2AbandonSteps, runSteps, this]
      · rfl
  · have : (x.pusher != PPc.idle) = true := by simp [hp]
    simp [this] at h

/-- **the reset step is enabled in every state** of `HC.Proto.H2Send` (which has the buffer, both windows and the send
    task): when the application is finished with stream `i` (its sender is not inside another call), `abandon i` can be
    taken whatever the buffer holds and whatever the stream's window, the connection's window, the frame size and the
    send task's position are; if the response is unfinished (buffer not complete, stream registered, not yet reset) that
    very step hands the RST_STREAM to h2, and from ANY later state in which the sender is still inside the function
    `abandonFin i` is enabled and leaves the stream unregistered, without buffer, the sender free -/
theorem h2_abandoned_reset_needs_no_credit (s : St) (i : Nat) (hidle : (s.str i).pusher = .idle) :
    ∃ s1, step s (.abandon i) = some s1 ∧
      (((s.str i).hasBuf && !(s.str i).complete && (s.str i).live && !(s.str i).libClosed) = true →
          (s1.str i).libClosed = true ∧ (s1.str i).pusher = .inAbandon) ∧
      (((s.str i).hasBuf && !(s.str i).complete && (s.str i).live && !(s.str i).libClosed) = false →
          (s1.str i).live = false ∧ (s1.str i).pusher = .idle) ∧
      ∀ s' : St, (s'.str i).pusher = .inAbandon →
        ∃ s2, step s' (.abandonFin i) = some s2 ∧ (s2.str i).live = false ∧ (s2.str i).hasBuf = false ∧ (s2.str i).pusher = .idle := by
  have hfin : ∀ s' : St, (s'.str i).pusher = .inAbandon →
      ∃ s2, step s' (.abandonFin i) = some s2 ∧ (s2.str i).live = false ∧ (s2.str i).hasBuf = false ∧ (s2.str i).pusher = .idle := by
    intro s' hs'
    simp only [step, hs', bne_self_eq_false, Bool.false_eq_true, if_false]
    exact ⟨_, rfl, by simp [Str.gone], by simp, by simp⟩
  simp only [step, hidle, bne_self_eq_false, Bool.false_eq_true, if_false]
  by_cases hc : ((s.str i).hasBuf && !(s.str i).complete && (s.str i).live && !(s.str i).libClosed) = true
  · simp only [hc, if_true]
    exact ⟨_, rfl, fun _ => by simp, fun h => by simp at h, hfin⟩
  · have hc' : ((s.str i).hasBuf && !(s.str i).complete && (s.str i).live && !(s.str i).libClosed) = false := by simpa using hc
    simp only [hc', Bool.false_eq_true, if_false]
    exact ⟨_, rfl, fun h => by simp at h, fun _ => by simp [Str.gone, hidle], hfin⟩

/-- the first theorem is needed: with a `drain()` in front of the reset the function is left waiting - no RST_STREAM -
    whenever the buffer holds bytes (here 3, window 0) the send task has not been able to take -/
example : runFn AppExit.h2AbandonGuard (.drain :: AppExit.h2AbandonSteps) { hasBuf := true, live := true, buf := 3, window := 0 } =
    .waits { hasBuf := true, live := true, buf := 3, window := 0 } (.drain :: AppExit.h2AbandonSteps) := by decide

end HC.Props.C05
