import HC.Proto.H11
import HC.Props.C06
/-!
# C05 — application failures are contained and never yield a falsely complete response

`Http.appSend s none` / `Ws.appSend … none` is what `TaskGroup._handle` always does when the application returns or
raises (`finally: await send(None)`).
-/
namespace HC.Props.C05
open HC HC.Stream HC.Lib HC.Proto.H11 HC.Extracted.H11Tables

/-- **no response started ⇒ exactly a complete 500**: head with `content-length: 0` and `connection: close`,
    end-of-body, one access record, stream-closed -/
theorem crash_before_start (s : Http.S) (hst : s.st = .request) (hc : s.closed = false) :
    Http.appSend s none =
      ({ s with st := .closed },
       [.response 500 [("content-length".b, "0".b), ("connection".b, "close".b)], .endBody, .access (some 500), .streamClosed], none) := by
  simp [Http.appSend, hst, hc]

/-- **response started but not finished ⇒ stream-closed and nothing else**: in particular no end-of-body is ever
    signalled for the aborted response -/
theorem crash_after_start (s : Http.S) (hst : s.st = .response ∨ s.st = .trailers) (hc : s.closed = false) :
    Http.appSend s none = (s, [.streamClosed], none) := by
  rcases hst with h | h <;> simp [Http.appSend, h, hc]

/-- finishing after the response completed (or after the stream was closed) does nothing -/
theorem exit_after_completion (s : Http.S) (hc : s.closed = true) : Http.appSend s none = (s, [], none) := by
  simp [Http.appSend, hc]

/-- h11's writer reaches DONE only through `EndOfMessage` -/
theorem server_done_only_by_eom (s s' : H11M.St) (k : EvKey) (h : H11M.stepServer s k = some s') (hk : k ≠ .eom)
    (hs : s.server ≠ .done) (hka : s.keepAlive = true ∨ True) : s'.server = .done → False := by
  intro hd
  unfold H11M.stepServer at h
  split at h
  · cases h
  · split at h
    · cases h
    · rename_i sv hsv
      simp only [Option.some.injEq] at h
      -- the table target of a non-eom server event is never DONE, and the state-triggered pass never produces DONE
      have hsv' : sv ≠ .done := by
        intro e; subst e
        have key : ∀ st, H11M.lookupEvent .server st k = some .done → k = .eom := by
          intro st; cases st <;> cases k <;> decide
        exact hk (key _ hsv)
      subst h
      have hf : ∀ x : H11M.St, x.server ≠ .done → (H11M.fire x).server ≠ .done := by
        intro x hx
        have one : ∀ y : H11M.St, y.server ≠ .done → (H11M.fireOnce y).server ≠ .done := by
          intro y hy
          simp only [H11M.fireOnce]
          have : ∀ (p ka : Bool) (c sv : HSt), sv ≠ .done → (H11M.firePair p ka c sv).2 ≠ .done := by
            intro p ka c sv; cases p <;> cases ka <;> cases c <;> cases sv <;> decide
          exact this _ _ _ _ hy
        simp only [H11M.fire]
        exact one _ (one _ (one _ (one _ (one _ (one _ hx)))))
      exact hf _ (by simpa using hsv') hd

/-- **HTTP/1: an application that ends after the response start but before its end closes the connection**:
    h11's writer is in SEND_BODY (not DONE), so `_maybe_recycle` emits `Closed` and never restarts the cycle —
    the client sees the response cut short of its declared length / final chunk -/
theorem h1_crash_mid_response_closes (st : St) (hs : st.lib.server = .sendBody) :
    Out.upClosed ∈ (maybeRecycle st).2 ∧ Out.startNextCycle true ∉ (maybeRecycle st).2 := by
  have h := HC.Props.C06.reuse_iff st
  have hn : ¬ (st.terminated = false ∧ st.lib.server = .done ∧ st.lib.client = .done ∧ st.wsMode = false) := by
    intro ⟨_, h2, _⟩; rw [hs] at h2; cases h2
  exact ⟨h.2.mpr hn, fun hc => hn (h.1.mp hc)⟩

/-- the whole step at the protocol level: current HTTP stream in RESPONSE, application ends ⇒ `Closed`, no reuse,
    and no `EndOfMessage` is handed to h11 -/
theorem h1_crash_step (cfg : Cfg) (st : St) (i : Nat) (s : Http.S)
    (hobj : st.objs[i]? = some (.http s)) (hst : s.st = .response) (hc : s.closed = false) (hsrv : st.lib.server = .sendBody) :
    let r := appSendHttp cfg st i none
    Out.upClosed ∈ r.2.1 ∧ (∀ ok, Out.libSend .eom ok ∉ r.2.1) ∧ r.2.2 = none := by
  have happ : Http.appSend s none = (s, [.streamClosed], none) := crash_after_start s (Or.inl hst) hc
  simp only [appSendHttp, hobj, happ, runHttpEvs, httpStreamSend]
  have hlib : (st.setObj i (.http s)).lib.server = .sendBody := by simpa [St.setObj] using hsrv
  obtain ⟨h1, h2⟩ := h1_crash_mid_response_closes (st.setObj i (.http s)) hlib
  refine ⟨by simpa using h1, ?_, by simp⟩
  intro ok hmem
  simp only [List.append_nil] at hmem
  exact HC.Props.C06.maybeRecycle_no_libSend _ _ _ hmem

/-- **WebSocket**: ending in the handshake answers 500; ending while connected sends close 1011; both then close the stream -/
theorem ws_crash_handshake (token : Bytes → Bytes) (ext : Option Bytes) (s : Ws.S) (hst : s.st = .handshake) (hc : s.closed = false) :
    Ws.appSend token ext s none = (s, Ws.errorResponse 500 ++ [.access 500, .streamClosed], none) := by
  simp [Ws.appSend, hst, hc]

theorem ws_crash_connected (token : Bytes → Bytes) (ext : Option Bytes) (s : Ws.S) (hst : s.st = .connected) (hc : s.closed = false)
    (hconn : s.conn = some .open) :
    Ws.appSend token ext s none = ({ s with conn := some .localClosing }, [.data (.close 1011), .streamClosed], none) := by
  simp [Ws.appSend, hst, hc, Ws.sendWs, hconn, Ws.connSend]

/-- **HTTP/2 reset rule** (`H2Protocol._reset_abandoned_response`): a closing HTTP stream whose send buffer exists and was
    never completed is reset; a completed one (END_STREAM sent, buffer gone) is not -/
def h2ResetOnClose (bufferExists bufferComplete isHttpStream : Bool) : Bool :=
  bufferExists && !bufferComplete && isHttpStream

theorem h2_abandoned_reset (c : Bool) : h2ResetOnClose true c true = !c := by cases c <;> rfl
theorem h2_completed_not_reset (h : Bool) : h2ResetOnClose false false h = false := by cases h <;> rfl

example : (Http.appSend { method := "GET", version := "1.1", st := .response, response := some (200, false) } none).2.1 = [.streamClosed] := by decide

end HC.Props.C05
