import HC.Proto.H11
namespace HC.Props.C05
theorem placeholder : (1 : Nat) = 1 := rfl
end HC.Props.C05
