import HC.Proto.H11
import HC.Props.C06
import HC.Extracted.AppExit
import HC.Proto.H2Credit
/-!
# C05 — application failures are contained and never yield a falsely complete response

`Http.appSend s none` / `Ws.appSend … none` is what `TaskGroup._handle` always does when the application returns,
raises or is cancelled (`finally: await send(None)`): the first section proves exactly that about the `try` statement
the extractor reads off both workers' `_handle`.  The second section proves that a message the stream refuses (the
exception is raised into the application, which then dies with it) starts nothing: the stream stays in the state that
makes the completion signal answer 500 — both for the model (`Http.appSend`) and for the statement order of the
REQUEST-state branches as they stand in the source.
-/
namespace HC.Props.C05
open HC HC.Stream HC.Lib HC.Proto.H11 HC.Extracted.H11Tables
open HC.Stream.AppExit HC.Extracted.AppExit

/-! ### `_handle`: every way the application can end signals completion -/

/-- **completion is signalled however the application ends** — return, exception, cancellation (a `CancelledError` /
    `Cancelled` leaving the application), exception groups of either kind; on both workers -/
theorem completion_always_signalled (e : Exit) :
    0 < signals (run asyncioHandle e) ∧ 0 < signals (run trioHandle e) := by
  cases e <;> decide

/-- **a raising application is logged exactly once, before completion is signalled, and the exception goes no further**
    (so the connection's task group, i.e. its other streams, never sees it) -/
theorem failure_logged_once_and_contained (e : Exit) (h : e = .exception ∨ e = .groupErrors) :
    logs (run asyncioHandle e) = 1 ∧ (run asyncioHandle e).2 = false ∧ (run asyncioHandle e).1.head? = some .log ∧
    logs (run trioHandle e) = 1 ∧ (run trioHandle e).2 = false ∧ (run trioHandle e).1.head? = some .log := by
  rcases h with h | h <;> subst h <;> decide

/-- an application that returns or is cancelled is not an error: nothing is logged -/
theorem quiet_exits_not_logged (e : Exit) (h : e = .returned ∨ e = .cancelled ∨ e = .groupCancelled) :
    logs (run asyncioHandle e) = 0 ∧ logs (run trioHandle e) = 0 := by
  rcases h with h | h | h <;> subst h <;> decide

/-- a cancellation is passed on (after completion was signalled), never swallowed -/
theorem cancellation_passed_on :
    (run asyncioHandle .cancelled) = ([.sendNone], true) ∧ (run trioHandle .cancelled) = ([.sendNone], true) := by decide

/-! ### a refused message starts nothing -/

/-- reading `commitsAfterSend` -/
theorem commitsAfterSend_spec (prog : List BStep) (h : commitsAfterSend prog = true) (k : Nat) (hk : k < prog.length)
    (hs : (runBranch prog (some k) {}).responseSent = false) : (runBranch prog (some k) {}).st = .request := by
  simp only [commitsAfterSend, List.all_eq_true, List.mem_range] at h
  have := h k hk
  simp [hs] at this
  exact this

/-- **the source's REQUEST-state branches move `self.state` only after the `Response` event was handed over**: wherever
    `http.response.start` (or trailers-before-start, or an early hint) is left by an exception — header validation,
    `int(status)`, the protocol's own refusal — the stream is still in REQUEST unless the response head went out -/
theorem request_branches_commit_after_send :
    commitsAfterSend httpStartBranch = true ∧ commitsAfterSend httpTrailersStartBranch = true ∧
    commitsAfterSend httpEarlyHintBranch = true := by decide

/-- and when nothing raises, `http.response.start` hands over the head and leaves the stream in RESPONSE -/
theorem start_branch_completes : runBranch httpStartBranch none {} = { st := .response, responseSent := true } := by decide

/-- **model: a message refused in REQUEST hands nothing to the protocol and leaves the stream in REQUEST; when the
    application then ends (it dies with the exception) the client is answered 500** -/
theorem refused_before_start_then_exit_500 (s : Http.S) (m : Http.Msg) (e : PyErr) (hst : s.st = .request) (hc : s.closed = false)
    (hm : ∀ h mo, m ≠ .trailers h mo) (herr : (Http.appSend s (some m)).2.2 = some e) :
    (Http.appSend s (some m)).2.1 = [] ∧ (Http.appSend s (some m)).1.st = .request ∧
    (Http.appSend (Http.appSend s (some m)).1 none).2.1 =
      [.response 500 [("content-length".b, "0".b), ("connection".b, "close".b)], .endBody, .access (some 500), .streamClosed] := by
  have key : (Http.appSend s (some m)).2.1 = [] ∧ (Http.appSend s (some m)).1.st = .request ∧ (Http.appSend s (some m)).1.closed = false := by
    cases m with
    | trailers h mo => exact absurd rfl (hm h mo)
    | start st hs tr =>
      simp only [Http.appSend, hst, if_true] at herr ⊢
      repeat' split
      all_goals simp_all
    | body b mo => simp [Http.appSend, hst, hc]
    | other => simp [Http.appSend, hst, hc]
    | push p hs =>
      simp only [Http.appSend] at herr ⊢
      repeat' split
      all_goals simp_all
    | earlyHint ls =>
      simp only [Http.appSend] at herr ⊢
      repeat' split
      all_goals simp_all
  obtain ⟨k1, k2, k3⟩ := key
  refine ⟨k1, k2, ?_⟩
  generalize (Http.appSend s (some m)).1 = s' at k2 k3 ⊢
  simp [Http.appSend, k2, k3]

/-- **model: a message refused after the response start changes nothing; the application's end then only closes the
    stream (no end-of-body)** -/
theorem refused_after_start_then_exit_aborts (s : Http.S) (m : Http.Msg) (e : PyErr) (hst : s.st = .response) (hc : s.closed = false)
    (herr : (Http.appSend s (some m)).2.2 = some e) :
    (Http.appSend s (some m)).2.1 = [] ∧ (Http.appSend s (some m)).1 = s ∧
    Http.appSend (Http.appSend s (some m)).1 none = (s, [.streamClosed], none) := by
  have key : (Http.appSend s (some m)).2.1 = [] ∧ (Http.appSend s (some m)).1 = s := by
    cases m with
    | body b mo =>
      simp only [Http.appSend, Http.sendClosed] at herr ⊢
      repeat' split
      all_goals simp_all
    | start st hs tr => simp [Http.appSend, hst]
    | other => simp [Http.appSend]
    | trailers h mo => simp [Http.appSend, hst]
    | push p hs =>
      simp only [Http.appSend] at herr ⊢
      repeat' split
      all_goals simp_all
    | earlyHint ls => simp [Http.appSend, hst]
  refine ⟨key.1, key.2, ?_⟩
  rw [key.2]
  simp [Http.appSend, hst, hc]

example : (Http.appSend { method := "GET", version := "1.1" } (some (.start (some 200) (some [(.str "x-a", .str "1")]) false))).2.2 = some .typeError ∧
    (Http.appSend { method := "GET", version := "1.1" } (some (.start (some 200) (some [(.str "x-a", .str "1")]) false))).1.st = .request := by decide

/-- **no response started ⇒ exactly a complete 500**: head with `content-length: 0` and `connection: close`,
    end-of-body, one access record, stream-closed -/
theorem crash_before_start (s : Http.S) (hst : s.st = .request) (hc : s.closed = false) :
    Http.appSend s none =
      ({ s with st := .closed },
       [.response 500 [("content-length".b, "0".b), ("connection".b, "close".b)], .endBody, .access (some 500), .streamClosed], none) := by
  simp [Http.appSend, hst, hc]

/-- **response started but not finished ⇒ stream-closed and nothing else**: in particular no end-of-body is ever
    signalled for the aborted response -/
theorem crash_after_start (s : Http.S) (hst : s.st = .response ∨ s.st = .trailers) (hc : s.closed = false) :
    Http.appSend s none = (s, [.streamClosed], none) := by
  rcases hst with h | h <;> simp [Http.appSend, h, hc]

/-- finishing after the response completed (or after the stream was closed) does nothing -/
theorem exit_after_completion (s : Http.S) (hc : s.closed = true) : Http.appSend s none = (s, [], none) := by
  simp [Http.appSend, hc]

/-- h11's writer reaches DONE only through `EndOfMessage` -/
theorem server_done_only_by_eom (s s' : H11M.St) (k : EvKey) (h : H11M.stepServer s k = some s') (hk : k ≠ .eom)
    (hs : s.server ≠ .done) (hka : s.keepAlive = true ∨ True) : s'.server = .done → False := by
  intro hd
  unfold H11M.stepServer at h
  split at h
  · cases h
  · split at h
    · cases h
    · rename_i sv hsv
      simp only [Option.some.injEq] at h
      -- the table target of a non-eom server event is never DONE, and the state-triggered pass never produces DONE
      have hsv' : sv ≠ .done := by
        intro e; subst e
        have key : ∀ st, H11M.lookupEvent .server st k = some .done → k = .eom := by
          intro st; cases st <;> cases k <;> decide
        exact hk (key _ hsv)
      subst h
      have hf : ∀ x : H11M.St, x.server ≠ .done → (H11M.fire x).server ≠ .done := by
        intro x hx
        have one : ∀ y : H11M.St, y.server ≠ .done → (H11M.fireOnce y).server ≠ .done := by
          intro y hy
          simp only [H11M.fireOnce]
          have : ∀ (p ka : Bool) (c sv : HSt), sv ≠ .done → (H11M.firePair p ka c sv).2 ≠ .done := by
            intro p ka c sv; cases p <;> cases ka <;> cases c <;> cases sv <;> decide
          exact this _ _ _ _ hy
        simp only [H11M.fire]
        exact one _ (one _ (one _ (one _ (one _ (one _ hx)))))
      exact hf _ (by simpa using hsv') hd

/-- **HTTP/1: an application that ends after the response start but before its end closes the connection**:
    h11's writer is in SEND_BODY (not DONE), so `_maybe_recycle` emits `Closed` and never restarts the cycle —
    the client sees the response cut short of its declared length / final chunk -/
theorem h1_crash_mid_response_closes (st : St) (hs : st.lib.server = .sendBody) :
    Out.upClosed ∈ (maybeRecycle st).2 ∧ Out.startNextCycle true ∉ (maybeRecycle st).2 := by
  have h := HC.Props.C06.reuse_iff st
  have hn : ¬ (st.closed = false ∧ st.terminated = false ∧ st.lib.server = .done ∧ st.lib.client = .done ∧ st.wsMode = false) := by
    intro ⟨_, _, h2, _⟩; rw [hs] at h2; cases h2
  exact ⟨h.2.mpr hn, fun hc => hn (h.1.mp hc)⟩

/-- the whole step at the protocol level: current HTTP stream in RESPONSE, application ends ⇒ `Closed`, no reuse,
    and no `EndOfMessage` is handed to h11 -/
theorem h1_crash_step (cfg : Cfg) (st : St) (i : Nat) (s : Http.S)
    (hobj : st.objs[i]? = some (.http s)) (hst : s.st = .response) (hc : s.closed = false) (hsrv : st.lib.server = .sendBody) :
    let r := appSendHttp cfg st i none
    Out.upClosed ∈ r.2.1 ∧ (∀ ok, Out.libSend .eom ok ∉ r.2.1) ∧ r.2.2 = none := by
  have happ : Http.appSend s none = (s, [.streamClosed], none) := crash_after_start s (Or.inl hst) hc
  simp only [appSendHttp, hobj, happ, runHttpEvs, httpStreamSend]
  have hlib : (st.setObj i (.http s)).lib.server = .sendBody := by simpa [St.setObj] using hsrv
  obtain ⟨h1, h2⟩ := h1_crash_mid_response_closes (st.setObj i (.http s)) hlib
  refine ⟨by simpa using h1, ?_, by simp⟩
  intro ok hmem
  simp only [List.append_nil] at hmem
  exact HC.Props.C06.maybeRecycle_no_libSend _ _ _ hmem

/-- **WebSocket**: ending in the handshake answers 500; ending while connected sends close 1011; both then close the stream -/
theorem ws_crash_handshake (token : Bytes → Bytes) (ext : Option Bytes) (s : Ws.S) (hst : s.st = .handshake) (hc : s.closed = false) :
    Ws.appSend token ext s none = ({ s with st := .httpClosed }, Ws.errorResponse 500 ++ [.streamClosed], none) := by      -- one access record (inside errorResponse); HTTPCLOSED before the 500 is sent (F98)
  simp [Ws.appSend, hst, hc]

theorem ws_crash_connected (token : Bytes → Bytes) (ext : Option Bytes) (s : Ws.S) (hst : s.st = .connected) (hc : s.closed = false)
    (hconn : s.conn = some .open) :
    Ws.appSend token ext s none = ({ s with conn := some .localClosing }, [.data (.close 1011), .streamClosed], none) := by
  simp [Ws.appSend, hst, hc, Ws.sendWs, hconn, Ws.connSend]

/-- **HTTP/2 reset rule** (`H2Protocol._reset_abandoned_response`): a closing HTTP stream whose send buffer exists and was
    never completed is reset; a completed one (END_STREAM sent, buffer gone) is not -/
def h2ResetOnClose (bufferExists bufferComplete isHttpStream : Bool) : Bool :=
  bufferExists && !bufferComplete && isHttpStream

theorem h2_abandoned_reset (c : Bool) : h2ResetOnClose true c true = !c := by cases c <;> rfl
theorem h2_completed_not_reset (h : Bool) : h2ResetOnClose false false h = false := by cases h <;> rfl

/-! ### HTTP/2: a failed stream does not take the connection's receive window with it -/
open HC.Proto.H2Credit in
/-- **the connection's other streams keep their window**: request-body DATA that is still arriving for a stream whose
    application has already ended (answered 500 / completed, the stream forgotten: `live = false`) is acknowledged in
    full, exactly like DATA of live streams — the acknowledgement counts of both paths of `_handle_events` are read off
    the source (`ReqGlue.dataAcksDelivered`, `dataAcksMissing`).  So after any upload to failed streams, of any length
    and interleaved with anything, the client has the whole connection window `w0` again for its other streams. -/
theorem failed_stream_upload_credited (es : List DataEv) (w0 : Nat) : (run {} es).available w0 = w0 := by
  have hack : ∀ e : DataEv, acked e = e.len := by
    intro e
    cases e with
    | mk len live => cases live <;> simp [acked, HC.Extracted.ReqGlue.dataAcksDelivered, HC.Extracted.ReqGlue.dataAcksMissing]
  have key : ∀ (l : List DataEv) (w : Win), w.returned = w.consumed → (run w l).returned = (run w l).consumed := by
    intro l
    induction l with
    | nil => intro w hw; exact hw
    | cons e t ih =>
      intro w hw
      apply ih
      simp [HC.Proto.H2Credit.step, hack, hw]
  have := key es {} rfl
  simp [Win.available, this]

/-- in particular a whole connection window uploaded to a stream that failed before reading leaves it untouched -/
example : (HC.Proto.H2Credit.run {} [⟨1000, true⟩, ⟨16384, false⟩, ⟨16384, false⟩, ⟨16384, false⟩, ⟨15383, false⟩]).available 65535 = 65535 := by
  decide

example : (Http.appSend { method := "GET", version := "1.1", st := .response, response := some (200, false) } none).2.1 = [.streamClosed] := by decide

end HC.Props.C05
