import HC.Props.C09
import HC.Proto.EventRace
/-!
# C08 — send backpressure is applied, bounded, and always released (HTTP/2 send path)

Over the same model as C09 (`HC/Proto/H2Send.lean`), for every operation sequence:

* **bounded** — the bytes held for a stream stay below `HIGH + 2·c` where `c` bounds a single application write,
  whatever the number of writes (`buffer_bounded`); the release rule used is the one *extracted* from
  `StreamBuffer.pop` (`Guards.bufferPopRelease`) and the wait rule the one extracted from `push`
  (`Guards.bufferPushCmp`), so a change to either re-opens these proofs;
* **applied** — a write that takes the buffer to the high-water mark does not return before the send task has popped
  (`push_waits`), and a pop at an exhausted window does not release it (`zero_window_no_release`);
* **released** — at quiescence a sender is still waiting only if its stream has bytes left and no credit
  (`waiting_means_no_credit`, `credit_releases`); a reset (by the client, or by the server abandoning the response)
  releases the stream's sender at once (`reset_releases`); after `handle(Closed)` every waiting sender's wake-up is
  enabled and no new wait can last (`close_releases`);
* **isolated** — whether an op on another stream is enabled does not depend on a stream's waiting sender
  (`waiting_sender_isolated`).
-/
namespace HC.Props.C08
open HC HC.Proto.H2Send HC.Extracted HC.Props.C09

/-- every application write is at most `c` bytes -/
def sizeOk (c : Nat) : Op → Prop
  | .push _ n => n ≤ c
  | _ => True

theorem HIGH_pos : 0 < HIGH := by decide
theorem LOW_pos : 0 < Consts.h2_BUFFER_LOW_WATER := by decide

/-- as `upd_finish`, with the extracted wait / release rules unfolded -/
macro "upd_finish8" : tactic =>
  `(tactic| (simp only [upd, Str.closeBuf, Str.discard, Str.gone, unblockAll, Guards.bufferPushCmp, Guards.bufferPopRelease, Guards.Cmp.eval,
                        Guards.sendDataEnds, Guards.bufferComplete, Guards.bufferPopEmpty, Guards.bufferDrainClears, HIGH] at * <;>
      (repeat' split) <;> (try subst_vars) <;> (try simp_all) <;> (first | done | omega | grind)))

/-- the bound on a stream's buffer, by where its sender is -/
def Buf (c : Nat) (s : St) : Prop := ∀ i,
  ((s.str i).pausedEv = true → (s.str i).pusher ≠ .inPush → (s.str i).buf < HIGH) ∧
  ((s.str i).pusher ≠ .inPush → (s.str i).buf < HIGH + c) ∧
  ((s.str i).pusher = .inPush → (s.str i).buf < HIGH + 2 * c) ∧
  ((s.str i).pusher = .inPush → (s.str i).pausedEv = true → (s.str i).buf < HIGH + c)

theorem buf_step (c : Nat) (s s' : St) (o : Op) (h : Buf c s) (hp : sizeOk c o) (hs : step s o = some s') : Buf c s' := by
  intro j
  have hj := h j
  have hH := HIGH_pos
  cases o <;> step_cases hs <;>
    first
      | exact hj
      | (have hall := h; unfold Buf at hall; simp only [sizeOk] at hp; upd_finish8)

/-- a waiting sender whose event is clear still has a buffer the send task will come back to; a completed buffer never
    has a sender parked in `push` with a clear event -/
def Wait (s : St) : Prop := ∀ i,
  ((s.str i).pusher = .inPush → (s.str i).pausedEv = false →
      (s.str i).hasBuf = true ∧ (s.str i).complete = false ∧ ((s.str i).buf > 0 ∨ (s.str i).blocked = false)) ∧
  ((s.str i).pusher = .inDrain → (s.str i).emptyEv = false →
      (s.str i).hasBuf = true ∧ ((s.str i).buf > 0 ∨ (s.str i).blocked = false ∨ s.task = .ending i))

theorem wait_step (s s' : St) (o : Op) (h : Wait s) (ht : Tree s) (he : Ending s) (hf : C09.Fin s)
    (hs : step s o = some s') : Wait s' := by
  obtain ⟨ht1, ht2⟩ := ht
  intro j
  have hj := h j
  have hej := he j
  have hfj := hf j
  have hH := HIGH_pos
  have hL := LOW_pos
  cases o <;> step_cases hs <;>
    first
      | exact hj
      | (have hall := h; have halle := he; have hallf := hf
         unfold Wait at hall; unfold Ending at halle; unfold C09.Fin at hallf; upd_finish8)

/-- after `handle(Closed)`: every buffer is complete with both events' waiters released, and stays so -/
def Closed (s : St) : Prop := s.closed = true → ∀ i,
  ((s.str i).hasBuf = true → (s.str i).complete = true ∧ (s.str i).emptyEv = true ∧ (s.str i).bufClosed = true) ∧
  ((s.str i).pusher = .inPush → (s.str i).pausedEv = true) ∧
  ((s.str i).pusher = .inDrain → (s.str i).emptyEv = true)

theorem closed_step (s s' : St) (o : Op) (h : Closed s) (hw : Wait s) (hs : step s o = some s') : Closed s' := by
  unfold Closed at *
  cases o <;> step_cases hs <;>
    first
      | exact h
      | (intro hc j; first | (have hj := h hc j; have hall := h hc; upd_finish) | (have hwj := hw j; unfold Wait at hw; upd_finish))

/-- a reset stream's buffer (unless its application is inside the reset itself) is closed: complete, `_is_empty` set -/
def RstC (s : St) : Prop := ∀ i, (s.str i).libClosed = true → (s.str i).hasBuf = true → (s.str i).pusher ≠ .inAbandon →
  (s.str i).complete = true ∧ (s.str i).emptyEv = true ∧ (s.str i).bufClosed = true

theorem rstC_step (s s' : St) (o : Op) (h : RstC s) (hs : step s o = some s') : RstC s' := by
  intro j
  have hj := h j
  cases o <;> step_cases hs <;>
    first
      | exact hj
      | (have hall := h; unfold RstC at hall; upd_finish)

/-- a sender waiting on a reset stream has its event set -/
def Rel (s : St) : Prop := ∀ i, (s.str i).libClosed = true →
  ((s.str i).pusher = .inPush → (s.str i).pausedEv = true) ∧ ((s.str i).pusher = .inDrain → (s.str i).emptyEv = true)

theorem rel_step (s s' : St) (o : Op) (h : Rel s) (hw : Wait s) (hrc : RstC s) (hs : step s o = some s') : Rel s' := by
  intro j
  have hj := h j
  have hwj := hw j
  have hrj := hrc j
  cases o <;> step_cases hs <;>
    first
      | exact hj
      | (have hall := h; have hallw := hw; have hallr := hrc; unfold Rel at hall; unfold Wait at hallw; unfold RstC at hallr; upd_finish8)

structure Inv (c : Nat) (s : St) : Prop where
  base : C09.Inv s
  buf : Buf c s
  wait : Wait s
  closed : Closed s
  rstc : RstC s
  rel : Rel s

def opOk8 (c : Nat) (s : St) (o : Op) : Prop := opOk s o ∧ sizeOk c o

theorem inv_init (c : Nat) (cw : Int) (mf : Nat) (h : 0 < mf) : Inv c (init cw mf) := by
  refine ⟨C09.inv_init cw mf h, ?_, ?_, ?_, ?_, ?_⟩ <;>
    simp [init, Buf, Wait, Closed, RstC, Rel, HIGH_pos] <;> (have := HIGH_pos; omega)

theorem inv_step (c : Nat) (s s' : St) (o : Op) (h : Inv c s) (hp : opOk8 c s o) (hs : step s o = some s') : Inv c s' :=
  ⟨C09.inv_step s s' o h.base hp.1 hs, buf_step c s s' o h.buf hp.2 hs,
   wait_step s s' o h.wait h.base.tree h.base.ending h.base.fin hs, closed_step s s' o h.closed h.wait hs,
   rstC_step s s' o h.rstc hs, rel_step s s' o h.rel h.wait h.rstc hs⟩

theorem inv_run (c : Nat) (ops : List Op) : ∀ (s s' : St), Inv c s → allQ (opOk8 c) s ops → runOk s ops = some s' → Inv c s' :=
  run_invariant (Inv c) (opOk8 c) (inv_step c) ops

/-- the recovery from a priority tree that schedules a stream it does not know (`XOp.rebuild`, see `HC.Proto.H2Send`)
    keeps every invariant: the fresh tree holds every buffered stream *unblocked* (extracted loop body), so a waiting sender
    still has a buffer the send task will come back to -/
theorem inv_rebuild (c : Nat) (s s' : St) (i : Nat) (h : Inv c s) (hs : rebuild s i = some s') : Inv c s' := by
  have hb := C09.inv_rebuild s s' i h.base hs
  obtain ⟨ht, hc, _, _, he⟩ := rebuild_spec s s' i hs
  subst he
  obtain ⟨_, h2, h3, h4, h5, h6⟩ := h
  refine ⟨hb, ?_, ?_, ?_, ?_, ?_⟩
  · intro j; have := h2 j; simpa [rebuildStr] using this
  · intro j
    obtain ⟨w1, w2⟩ := h3 j
    refine ⟨fun hp he => ?_, fun hp he => ?_⟩
    · have := w1 (by simpa [rebuildStr] using hp) (by simpa [rebuildStr] using he)
      simp [rebuildStr, Atomic.h2RebuildBlocks, this.1, this.2.1]
    · have := w2 (by simpa [rebuildStr] using hp) (by simpa [rebuildStr] using he)
      simp [rebuildStr, Atomic.h2RebuildBlocks, this.1]
  · intro hcl; simp [hc] at hcl
  · intro j; have := h5 j; simpa [rebuildStr] using this
  · intro j; have := h6 j; simpa [rebuildStr] using this

def xopOk8 (c : Nat) (s : St) : XOp → Prop
  | .op o => opOk8 c s o
  | .rebuild _ => True

theorem inv_xstep (c : Nat) (s s' : St) (o : XOp) (h : Inv c s) (hp : xopOk8 c s o) (hs : xstep s o = some s') : Inv c s' := by
  cases o with
  | op o => exact inv_step c s s' o h hp hs
  | rebuild i => exact inv_rebuild c s s' i h hs

/-- the states of all runs in which no single application write exceeds `c` bytes - runs in which the priority library
    may at any time hand the send task a stream the tree does not know -/
def Reachable8 (c : Nat) (s : St) : Prop := ∃ cw mf ops, 0 < mf ∧ xallQ (xopOk8 c) (init cw mf) ops ∧ xrunOk (init cw mf) ops = some s

theorem reachable8_inv (c : Nat) (s : St) (h : Reachable8 c s) : Inv c s := by
  obtain ⟨cw, mf, ops, hmf, hok, hr⟩ := h
  exact xrun_invariant (Inv c) (xopOk8 c) (inv_xstep c) ops _ s (inv_init c cw mf hmf) hok hr

/-- in particular the states of the runs of the send path proper -/
theorem reachable8_of_run (c : Nat) (cw : Int) (mf : Nat) (ops : List Op) (s : St) (hmf : 0 < mf)
    (hok : allQ (opOk8 c) (init cw mf) ops) (hr : runOk (init cw mf) ops = some s) : Reachable8 c s :=
  ⟨cw, mf, ops.map .op, hmf, xallQ_lift (opOk8 c) (xopOk8 c) (fun _ _ h => h) ops _ hok, by rw [xrunOk_lift]; exact hr⟩

/-- **released after the recovery**: right after the tree was rebuilt, a stream with a waiting sender, buffered data and
    credit is a member of the tree and not blocked - the send task's next `pick` of it is enabled, it is not left behind -/
theorem rebuild_keeps_waiting_streams_schedulable (s s' : St) (i j : Nat) (hs : rebuild s i = some s')
    (hb : (s.str j).hasBuf = true) :
    (s'.str j).inTree = true ∧ (s'.str j).blocked = false ∧ (s'.str j).pusher = (s.str j).pusher ∧ (s'.str j).buf = (s.str j).buf ∧
    (step s' (.pick j)).isSome = true := by
  obtain ⟨ht, hc, _, _, he⟩ := rebuild_spec s s' i hs
  subst he
  have h1 : (rebuildStr (s.str j)).inTree = true := by simp [rebuildStr, hb]
  have h2 : (rebuildStr (s.str j)).blocked = false := by simp [rebuildStr, Atomic.h2RebuildBlocks]
  refine ⟨h1, h2, by simp [rebuildStr], by simp [rebuildStr], ?_⟩
  simp only [step, ht, hc, h1, h2]
  (repeat' split) <;> simp_all

/-- **bounded**: however many writes the application makes and however large the response, what the server holds for
    a stream is below `HIGH + 2·c` (`c` = the largest single write) — in every reachable state -/
theorem buffer_bounded (c : Nat) (s : St) (hr : Reachable8 c s) (i : Nat) : (s.str i).buf < HIGH + 2 * c := by
  have hI := (reachable8_inv c s hr).buf i
  cases hp : (s.str i).pusher
  · have := hI.2.1 (by simp [hp]); omega
  · exact hI.2.2.1 hp
  · have := hI.2.1 (by simp [hp]); omega
  · have := hI.2.1 (by simp [hp]); omega

/-- **applied**: a write that takes the buffer to the high-water mark or above does not return until the send task has
    popped (the extracted `push` comparison) -/
theorem push_waits (s s' : St) (i n : Nat) (hs : step s (.push i n) = some s')
    (hb : (s.str i).hasBuf = true) (ht : (s.str i).inTree = true) (hc : (s.str i).complete = false)
    (hh : HIGH ≤ (s.str i).buf + n) : (s'.str i).pusher = .inPush := by
  step_cases hs <;> simp_all [upd, Guards.bufferPushCmp, Guards.Cmp.eval] <;> omega

/-- **no release at an exhausted window**: a pop that takes nothing from a buffer still at or above the high-water mark
    (the window is zero) leaves `_paused` as it was — the sender keeps waiting (the extracted `pop` rule) -/
theorem zero_window_no_release (s s' : St) (i : Nat) (hs : step s (.pick i) = some s')
    (hb : (s.str i).hasBuf = true) (hl : (s.str i).libClosed = false) (hz : chunk s i = 0) (hh : HIGH ≤ (s.str i).buf) :
    (s'.str i).pausedEv = (s.str i).pausedEv ∧ (s'.str i).buf = (s.str i).buf ∧ (s'.str i).pusher = (s.str i).pusher := by
  have hH := HIGH_pos
  step_cases hs <;> simp_all [upd, Guards.bufferPopRelease, Guards.sendDataEnds, Guards.bufferComplete, HIGH, Str.discard] <;> omega

/-- **released when pressure abates / never forever**: with the send task quiescent on an open connection, a sender
    that is still waiting (its event clear) has bytes buffered on a stream that is not reset and has no credit -/
theorem waiting_means_no_credit (c : Nat) (s : St) (hr : Reachable8 c s) (hq : taskQuiescent s) (hc : s.closed = false) (i : Nat)
    (hw : ((s.str i).pusher = .inPush ∧ (s.str i).pausedEv = false) ∨ ((s.str i).pusher = .inDrain ∧ (s.str i).emptyEv = false)) :
    (s.str i).hasBuf = true ∧ (s.str i).buf > 0 ∧ (s.str i).libClosed = false ∧ ((s.str i).window ≤ 0 ∨ s.connWin ≤ 0) := by
  have hI := reachable8_inv c s hr
  have hW := hI.wait i
  have hbuf : (s.str i).hasBuf = true ∧ ((s.str i).buf > 0 ∨ (s.str i).blocked = false) := by
    rcases hw with ⟨h1, h2⟩ | ⟨h1, h2⟩
    · exact ⟨(hW.1 h1 h2).1, (hW.1 h1 h2).2.2⟩
    · refine ⟨(hW.2 h1 h2).1, ?_⟩
      rcases (hW.2 h1 h2).2 with h | h | h
      · exact Or.inl h
      · exact Or.inr h
      · simp [hq.1] at h
  have hbl : (s.str i).blocked = true := hI.base.sleep hq.1 hq.2 i (hI.base.tree.1 i hbuf.1)
  have hpos : (s.str i).buf > 0 := by
    rcases hbuf.2 with h | h
    · exact h
    · simp [hbl] at h
  have hlc : (s.str i).libClosed = false := by
    cases hl : (s.str i).libClosed
    · rfl
    · have := hI.rel i hl
      rcases hw with ⟨h1, h2⟩ | ⟨h1, h2⟩
      · simp [this.1 h1] at h2
      · simp [this.2 h1] at h2
  refine ⟨hbuf.1, hpos, hlc, ?_⟩
  rcases hI.base.stall i hbuf.1 hbl with h | h | h | h | h
  · omega
  · exact Or.inl h
  · exact Or.inr h
  · simp [hc] at h
  · have := (hI.base.fin i h).2.1; omega

/-- **released on credit**: once the send task is quiescent on an open connection, a stream that has credit has no sender
    left waiting with its event clear — the wake-up of a sender that is still parked is enabled -/
theorem credit_releases (c : Nat) (s : St) (hr : Reachable8 c s) (hq : taskQuiescent s) (hc : s.closed = false) (i : Nat)
    (hw : 0 < (s.str i).window) (hcw : 0 < s.connWin) :
    ((s.str i).pusher = .inPush → (step s (.pushWake i)).isSome = true) ∧
    ((s.str i).pusher = .inDrain → (step s (.drainWake i)).isSome = true) := by
  refine ⟨fun hp => ?_, fun hp => ?_⟩
  · cases he : (s.str i).pausedEv
    · have := (waiting_means_no_credit c s hr hq hc i (Or.inl ⟨hp, he⟩)).2.2.2; omega
    · simp [step, hp, he]
  · cases he : (s.str i).emptyEv
    · have := (waiting_means_no_credit c s hr hq hc i (Or.inr ⟨hp, he⟩)).2.2.2; omega
    · simp [step, hp, he]

/-- **released on reset**: in every state in which the stream is reset — by the client's RST_STREAM or by the server
    abandoning the response — a sender waiting on it can return: its wake-up is enabled -/
theorem reset_releases (c : Nat) (s : St) (hr : Reachable8 c s) (i : Nat) (hl : (s.str i).libClosed = true) :
    ((s.str i).pusher = .inPush → (step s (.pushWake i)).isSome = true) ∧
    ((s.str i).pusher = .inDrain → (step s (.drainWake i)).isSome = true) := by
  have hI := (reachable8_inv c s hr).rel i hl
  exact ⟨fun hp => by simp [step, hp, hI.1 hp], fun hp => by simp [step, hp, hI.2 hp]⟩

/-- … and the reset itself is what releases it: right after `rst i` the stream's waiting sender has its event set -/
theorem rst_sets_events (s s' : St) (i : Nat) (hs : step s (.rst i) = some s') (hb : (s.str i).hasBuf = true) :
    (s'.str i).pausedEv = true ∧ (s'.str i).emptyEv = true ∧ (s'.str i).buf = 0 ∧ (s'.str i).blocked = false := by
  simp only [step, Option.some.injEq] at hs
  subst hs
  simp [upd, Str.closeBuf, hb]

/-- **released on close**: in every state after `handle(Closed)` every waiting sender's event is set (its wake-up is
    enabled), and a further write or end-of-body does not wait for long: its wake-up is enabled at once -/
theorem close_releases (c : Nat) (s : St) (hr : Reachable8 c s) (hc : s.closed = true) (i : Nat) :
    ((s.str i).pusher = .inPush → (step s (.pushWake i)).isSome = true) ∧
    ((s.str i).pusher = .inDrain → (step s (.drainWake i)).isSome = true) ∧
    (∀ n s', step s (.push i n) = some s' → (s'.str i).pusher = .idle) ∧
    (∀ s', step s (.end_ i) = some s' → (s'.str i).pusher = .inDrain → (s'.str i).emptyEv = true) := by
  have hI := (reachable8_inv c s hr).closed hc i
  refine ⟨fun hp => ?_, fun hp => ?_, fun n s' hs => ?_, fun s' hs => ?_⟩
  · simp [step, hp, hI.2.1 hp]
  · simp [step, hp, hI.2.2 hp]
  · step_cases hs <;> simp_all [upd]
  · step_cases hs <;> simp_all [upd, Guards.bufferDrainClears]

/-- the same state with stream `i`'s sender made to wait (or not) -/
def setPusher (s : St) (i : Nat) (p : PPc) : St := { s with str := upd s.str i { (s.str i) with pusher := p } }

/-- **a waiting send blocks no other stream**: whether any op concerning another stream, the send task or the reader is
    enabled does not depend on whether stream `i`'s sender is waiting -/
theorem waiting_sender_isolated (s : St) (i j k : Nat) (w : Int) (p : PPc) (hij : j ≠ i) (hik : k ≠ i) :
    ∀ o ∈ [Op.open_ j w, .push j k, .pushWake j, .end_ j, .drainWake j, .pick j, .pickRaise j, .sent j, .endSent j, .park, .wake, .exit,
           .winStream j k, .winConn k, .settings w, .maxFrame k, .rst j, .prio j k, .abandon j, .abandonFin j, .closed],
      (step (setPusher s i p) o).isSome = (step s o).isSome := by
  have hc : chunk (setPusher s i p) j = chunk s j := by simp [chunk, setPusher, upd, hij]
  have hj : (setPusher s i p).str j = s.str j := by simp [setPusher, upd, hij]
  have hk : (setPusher s i p).str k = s.str k := by simp [setPusher, upd, hik]
  have h1 : (setPusher s i p).task = s.task := rfl
  have h2 : (setPusher s i p).closed = s.closed := rfl
  have h3 : (setPusher s i p).hasData = s.hasData := rfl
  intro o ho
  simp only [List.mem_cons, List.mem_nil_iff, or_false] at ho
  rcases ho with h | h | h | h | h | h | h | h | h | h | h | h | h | h | h | h | h | h | h | h | h <;> subst h <;>
    simp only [step, hc, hj, hk, h1, h2, h3] <;> (repeat' split) <;> first | rfl | simp_all

-- non-vacuity: zero stream window, two 20000-byte writes: the second waits; a window update, two picks and it returns
example :
    (runOk (init 65535 16384) [.open_ 1 0, .push 1 20000, .push 1 20000, .pick 1, .park]).map
      (fun s => ((s.str 1).buf, (s.str 1).pusher, (s.str 1).pausedEv, s.task)) = some (40000, .inPush, false, .parked) := by decide
example :
    (runOk (init 65535 16384) [.open_ 1 0, .push 1 20000, .push 1 20000, .pick 1, .park, .winStream 1 30000, .wake,
        .pick 1, .sent 1, .pick 1, .sent 1, .pushWake 1]).map
      (fun s => ((s.str 1).buf, (s.str 1).pusher, (s.str 1).sent)) = some (10000, .idle, 30000) := by decide

/-! ## Several senders waiting on one stream buffer (WebSocket over HTTP/2): nobody is left behind (F114) -/

section several_waiters
open HC.Proto

/-- **no waiting sender is orphaned, as the code is now**: for every interleaving of any number of tasks calling
    `wait()` / `set()` / `clear()` on one `EventWrapper` of the trio worker (the tail of `StreamBuffer.push` is
    `wait(); clear()`, `pop` and `close` call `set()`), whoever is blocked is blocked on the event object in use - so the
    next `set()` (the buffer has drained, the connection has closed) wakes every one of them -/
theorem waiting_senders_never_orphaned (ops : List EventRace.Op) :
    (∀ w ∈ (EventRace.run EventRace.current {} ops).waiting, w.2 = (EventRace.run EventRace.current {} ops).gen) ∧
    (EventRace.step EventRace.current (EventRace.run EventRace.current {} ops) .set).waiting = [] := by
  have hc : EventRace.current = true := rfl
  rw [hc]
  have h := EventRace.inv_run ops {} EventRace.inv_init
  refine ⟨h.onCurrent, ?_⟩
  simp only [EventRace.step]
  apply List.filter_eq_nil_iff.mpr
  intro w hw
  simp [h.onCurrent w hw]

/-- **before the repair (/repo b3e2f6b) it was false**: `clear()` replaced the event whatever its state.  Two senders
    blocked on one buffer, the buffer drains (`set`), the first to run clears and - the buffer full again - waits on the
    new object, the second to run clears too: the first is now blocked on an object that is not in use, and no number of
    later `set()`s (or `clear()`s) wakes it -/
theorem unguarded_clear_orphaned_a_sender :
    let e := EventRace.run false {} [.wait 1, .wait 2, .set, .clear, .wait 2, .clear]
    e.waiting = [(2, 1)] ∧ e.gen = 2 ∧
    (EventRace.run false e [.set, .clear, .set, .set, .clear, .set]).waiting = [(2, 1)] := by decide

-- non-vacuity: the same interleaving on the code as it is: the second clear() finds the event unset and leaves it alone,
-- the next set() wakes task 2
example : let e := EventRace.run true {} [.wait 1, .wait 2, .set, .clear, .wait 2, .clear]
    e.waiting = [(2, 1)] ∧ e.gen = 1 ∧ (EventRace.run true e [.set]).waiting = [] := by decide

end several_waiters

end HC.Props.C08
