import HC.Props.C09
/-!
# C08 — send backpressure is applied, bounded, and always released (HTTP/2 send path)

Over the same model as C09 (`HC/Proto/H2Send.lean`), for every operation sequence:

* **bounded** — the bytes held for a stream stay below `HIGH + 2·c` where `c` bounds a single application write,
  whatever the number of writes (`buffer_bounded`); the release rule used is the one *extracted* from
  `StreamBuffer.pop` (`Guards.bufferPopRelease`) and the wait rule the one extracted from `push`
  (`Guards.bufferPushCmp`), so a change to either re-opens these proofs;
* **applied** — a sender parked in `push` whose event is clear sits on a buffer at or above nothing less than what the
  send task will still come back for (`Wait`);
* **released** — at quiescence a sender is still waiting only if its stream has bytes left and no credit
  (`waiting_means_no_credit`); a reset stream's buffer is discarded by the send task's next pick and its sender's event
  set (`reset_released`); after `handle(Closed)` every waiting sender's event is set and no new wait can begin
  (`close_releases`);
* **isolated** — whether an op on another stream is enabled does not depend on a stream's waiting sender
  (`waiting_sender_isolated`).
-/
namespace HC.Props.C08
open HC HC.Proto.H2Send HC.Extracted HC.Props.C09

/-- every application write is at most `c` bytes -/
def sizeOk (c : Nat) : Op → Prop
  | .push _ n => n ≤ c
  | _ => True

/-- the four-state bound on a stream's buffer -/
def Buf (c : Nat) (s : St) : Prop := ∀ i,
  ((s.str i).pausedEv = true → (s.str i).buf < HIGH) ∧
  ((s.str i).pusher = .idle → (s.str i).buf < HIGH + c) ∧
  ((s.str i).pusher = .inDrain → (s.str i).buf < HIGH + c) ∧
  ((s.str i).pusher = .inPush → (s.str i).buf < HIGH + 2 * c)

theorem HIGH_pos : 0 < HIGH := by decide

/-- as `upd_finish`, but the number of bytes `_send_data` takes stays an opaque `min buf (chunk …)` and the extracted
    wait / release rules are unfolded -/
macro "upd_finish8" : tactic =>
  `(tactic| (simp only [upd, Str.closeBuf, unblockAll, Guards.bufferPushCmp, Guards.bufferPopRelease, Guards.Cmp.eval, HIGH] at * <;>
      (repeat' split) <;> (try subst_vars) <;> (try simp_all) <;> (first | done | omega | grind)))

theorem buf_step (c : Nat) (s s' : St) (o : Op) (h : Buf c s) (hp : sizeOk c o) (hs : step s o = some s') : Buf c s' := by
  intro j
  have hj := h j
  have hH := HIGH_pos
  cases o <;> step_cases hs <;>
    first
      | exact hj
      | (have hall := h; unfold Buf at hall; simp only [sizeOk] at hp; upd_finish8)

/-- a waiting sender whose event is clear still has a buffer the send task will come back to; a completed buffer never
    has a sender parked in `push` with a clear event -/
def Wait (s : St) : Prop := ∀ i,
  ((s.str i).pusher = .inPush → (s.str i).pausedEv = false →
      (s.str i).hasBuf = true ∧ (s.str i).complete = false ∧ ((s.str i).buf > 0 ∨ (s.str i).blocked = false)) ∧
  ((s.str i).pusher = .inDrain → (s.str i).emptyEv = false →
      (s.str i).hasBuf = true ∧ ((s.str i).buf > 0 ∨ (s.str i).blocked = false))

theorem wait_step (s s' : St) (o : Op) (h : Wait s) (ht : Tree s) (hs : step s o = some s') : Wait s' := by
  obtain ⟨ht1, ht2⟩ := ht
  intro j
  have hj := h j
  have hH := HIGH_pos
  have hL : 0 < Consts.h2_BUFFER_LOW_WATER := by decide
  cases o <;> step_cases hs <;>
    first
      | exact hj
      | (have hall := h; unfold Wait at hall; upd_finish8)

/-- after `handle(Closed)`: every buffer is complete with both events' waiters released, and stays so -/
def Closed (s : St) : Prop := s.closed = true → ∀ i,
  ((s.str i).hasBuf = true → (s.str i).complete = true ∧ (s.str i).emptyEv = true) ∧
  ((s.str i).pusher = .inPush → (s.str i).pausedEv = true) ∧
  ((s.str i).pusher = .inDrain → (s.str i).emptyEv = true)

theorem closed_step (s s' : St) (o : Op) (h : Closed s) (hw : Wait s) (hs : step s o = some s') : Closed s' := by
  unfold Closed at *
  cases o <;> step_cases hs <;>
    first
      | exact h
      | (intro hc j; first | (have hj := h hc j; have hall := h hc; upd_finish) | (have hwj := hw j; unfold Wait at hw; upd_finish))

structure Inv (c : Nat) (s : St) : Prop where
  base : C09.Inv s
  buf : Buf c s
  wait : Wait s
  closed : Closed s

def opOk8 (c : Nat) (s : St) (o : Op) : Prop := opOk s o ∧ sizeOk c o

theorem inv_init (c : Nat) (cw : Int) (mf : Nat) (h : 0 < mf) : Inv c (init cw mf) := by
  refine ⟨C09.inv_init cw mf h, ?_, ?_, ?_⟩ <;> simp [init, Buf, Wait, Closed, HIGH_pos] <;> (have := HIGH_pos; omega)

theorem inv_step (c : Nat) (s s' : St) (o : Op) (h : Inv c s) (hp : opOk8 c s o) (hs : step s o = some s') : Inv c s' :=
  ⟨C09.inv_step s s' o h.base hp.1 hs, buf_step c s s' o h.buf hp.2 hs, wait_step s s' o h.wait h.base.tree hs,
   closed_step s s' o h.closed h.wait hs⟩

theorem inv_run (c : Nat) (ops : List Op) : ∀ (s s' : St), Inv c s → allQ (opOk8 c) s ops → runOk s ops = some s' → Inv c s' :=
  run_invariant (Inv c) (opOk8 c) (inv_step c) ops

/-- **bounded**: however many writes the application makes and however large the response, what the server holds for
    a stream is below `HIGH + 2·c` (`c` = the largest single write) — in every reachable state -/
theorem buffer_bounded (c : Nat) (cw : Int) (mf : Nat) (hmf : 0 < mf) (ops : List Op) (s : St)
    (hok : allQ (opOk8 c) (init cw mf) ops) (hr : runOk (init cw mf) ops = some s) (i : Nat) :
    (s.str i).buf < HIGH + 2 * c := by
  have hI := (inv_run c ops _ s (inv_init c cw mf hmf) hok hr).buf i
  cases hp : (s.str i).pusher
  · have := hI.2.1 hp; omega
  · exact hI.2.2.2 hp
  · have := hI.2.2.1 hp; omega

/-- **applied**: a write that takes the buffer to the high-water mark or above does not return until the send task has
    popped (the extracted `push` comparison, with the event clear) -/
theorem push_waits (s s' : St) (i n : Nat) (hs : step s (.push i n) = some s')
    (hb : (s.str i).hasBuf = true) (ht : (s.str i).inTree = true) (hc : (s.str i).complete = false)
    (hp : (s.str i).pausedEv = false) (hh : HIGH ≤ (s.str i).buf + n) : (s'.str i).pusher = .inPush := by
  step_cases hs <;> simp_all [upd, Guards.bufferPushCmp, Guards.Cmp.eval] <;> omega

/-- **released when pressure abates / never forever**: with the send task quiescent on an open connection, a sender
    that is still waiting (its event clear) has bytes buffered on a stream that is not reset and has no credit -/
theorem waiting_means_no_credit (c : Nat) (cw : Int) (mf : Nat) (hmf : 0 < mf) (ops : List Op) (s : St)
    (hok : allQ (opOk8 c) (init cw mf) ops) (hr : runOk (init cw mf) ops = some s)
    (hq : s.task = .parked ∧ s.hasData = false) (hc : s.closed = false) (i : Nat)
    (hw : ((s.str i).pusher = .inPush ∧ (s.str i).pausedEv = false) ∨ ((s.str i).pusher = .inDrain ∧ (s.str i).emptyEv = false)) :
    (s.str i).hasBuf = true ∧ (s.str i).buf > 0 ∧ (s.str i).libClosed = false ∧ ((s.str i).window ≤ 0 ∨ s.connWin ≤ 0) := by
  have hI := inv_run c ops _ s (inv_init c cw mf hmf) hok hr
  have hW := hI.wait i
  have hbuf : (s.str i).hasBuf = true ∧ ((s.str i).buf > 0 ∨ (s.str i).blocked = false) := by
    rcases hw with ⟨h1, h2⟩ | ⟨h1, h2⟩
    · exact ⟨(hW.1 h1 h2).1, (hW.1 h1 h2).2.2⟩
    · exact hW.2 h1 h2
  have hbl : (s.str i).blocked = true := hI.base.sleep hq.1 hq.2 i (hI.base.tree.1 i hbuf.1)
  have hpos : (s.str i).buf > 0 := by
    rcases hbuf.2 with h | h
    · exact h
    · simp [hbl] at h
  have hlc : (s.str i).libClosed = false := by
    cases hl : (s.str i).libClosed
    · rfl
    · rcases hI.base.rstU i hbuf.1 hl with h | h
      · simp [hbl] at h
      · simp [hc] at h
  refine ⟨hbuf.1, hpos, hlc, ?_⟩
  rcases hI.base.stall i hbuf.1 hbl with h | h | h | h
  · omega
  · exact Or.inl h
  · exact Or.inr h
  · simp [hc] at h

/-- **released on reset**: once the send task is quiescent again after a reset, the stream's buffer is gone and any
    sender that was waiting on it can return (its event is set) -/
theorem reset_released (c : Nat) (cw : Int) (mf : Nat) (hmf : 0 < mf) (ops : List Op) (s : St)
    (hok : allQ (opOk8 c) (init cw mf) ops) (hr : runOk (init cw mf) ops = some s)
    (hq : s.task = .parked ∧ s.hasData = false) (hc : s.closed = false) (i : Nat) (hl : (s.str i).libClosed = true) :
    (s.str i).hasBuf = false ∧ ((s.str i).pusher = .inPush → (s.str i).pausedEv = true) ∧
    ((s.str i).pusher = .inDrain → (s.str i).emptyEv = true) := by
  have hI := inv_run c ops _ s (inv_init c cw mf hmf) hok hr
  have hnb : (s.str i).hasBuf = false := by
    cases hb : (s.str i).hasBuf
    · rfl
    · have hbl : (s.str i).blocked = true := hI.base.sleep hq.1 hq.2 i (hI.base.tree.1 i hb)
      rcases hI.base.rstU i hb hl with h | h
      · simp [hbl] at h
      · simp [hc] at h
  have hW := hI.wait i
  refine ⟨hnb, fun hp => ?_, fun hp => ?_⟩
  · cases he : (s.str i).pausedEv
    · have := (hW.1 hp he).1; simp [hnb] at this
    · rfl
  · cases he : (s.str i).emptyEv
    · have := (hW.2 hp he).1; simp [hnb] at this
    · rfl

/-- **released on close**: in every state after `handle(Closed)` every waiting sender's event is set (its wake-up is
    enabled), and a further write or end-of-body does not wait -/
theorem close_releases (c : Nat) (cw : Int) (mf : Nat) (hmf : 0 < mf) (ops : List Op) (s : St)
    (hok : allQ (opOk8 c) (init cw mf) ops) (hr : runOk (init cw mf) ops = some s) (hc : s.closed = true) (i : Nat) :
    ((s.str i).pusher = .inPush → (step s (.pushWake i)).isSome = true) ∧
    ((s.str i).pusher = .inDrain → (step s (.drainWake i)).isSome = true) ∧
    (∀ n s', step s (.push i n) = some s' → (s'.str i).pusher = .idle) ∧
    (∀ s', step s (.end_ i) = some s' → (s'.str i).pusher = .idle) := by
  have hI := (inv_run c ops _ s (inv_init c cw mf hmf) hok hr).closed hc i
  refine ⟨fun hp => ?_, fun hp => ?_, fun n s' hs => ?_, fun s' hs => ?_⟩
  · simp [step, hp, hI.2.1 hp]
  · simp [step, hp, hI.2.2 hp]
  · step_cases hs <;> simp_all [upd]
  · step_cases hs <;> simp_all [upd]
    all_goals (split <;> simp_all)

/-- the same state with stream `i`'s sender made to wait (or not) -/
def setPusher (s : St) (i : Nat) (p : PPc) : St := { s with str := upd s.str i { (s.str i) with pusher := p } }

/-- **a waiting send blocks no other stream**: whether any op concerning another stream, the send task or the reader is
    enabled does not depend on whether stream `i`'s sender is waiting -/
theorem waiting_sender_isolated (s : St) (i j k : Nat) (w : Int) (p : PPc) (hij : j ≠ i) :
    ∀ o ∈ [Op.open_ j w, .push j k, .pushWake j, .end_ j, .drainWake j, .pick j, .consume, .park, .wake, .exit,
           .winStream j k, .winConn k, .settings w, .rst j, .prio j, .abandon j, .closed],
      (step (setPusher s i p) o).isSome = (step s o).isSome := by
  intro o ho
  simp only [List.mem_cons, List.mem_nil_iff, or_false] at ho
  rcases ho with h | h | h | h | h | h | h | h | h | h | h | h | h | h | h | h | h <;> subst h <;>
    simp only [step, setPusher, upd, hij, if_false, chunk] <;> (repeat' split) <;> simp_all

-- non-vacuity: zero stream window, two 20000-byte writes: the second waits; a window update, two picks and it returns
example :
    (runOk (init 65535 16384) [.open_ 1 0, .push 1 20000, .push 1 20000, .pick 1, .consume, .park]).map
      (fun s => ((s.str 1).buf, (s.str 1).pusher, (s.str 1).pausedEv, s.task)) = some (40000, .inPush, false, .parked) := by decide
example :
    (runOk (init 65535 16384) [.open_ 1 0, .push 1 20000, .push 1 20000, .pick 1, .consume, .park, .winStream 1 30000, .wake,
        .pick 1, .pick 1, .pushWake 1]).map
      (fun s => ((s.str 1).buf, (s.str 1).pusher, (s.str 1).sent)) = some (10000, .idle, 30000) := by decide

end HC.Props.C08
