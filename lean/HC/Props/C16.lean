import HC.Conn.Shell
import HC.Extracted.Runtime
import HC.Proto.H11
import HC.Proto.H2SendEvents
import HC.Extracted.AppExit
/-!
# C16 — protocol behaviour does not depend on the worker class

The workers share every line of protocol code; they differ in the connection shell (`tcp_server.py`) and in three
primitives of `worker_context.py`.  The theorems:

* `shell_worker_indep` — for every sequence of boundary operations, two shells whose runtimes are `Compatible` make the
  same `protocol.handle` calls while the transport is open, write the same bytes, close the transport during the same
  operation and have the idle timer in the same state while it can still matter; `worker_indep` instantiates it with the
  two records EXTRACTED from the source (`Compatible` is decided on them, so a one-sided change to a read loop, a write
  error path or the timer path re-opens the proof).
* what the runtimes may differ in is unobservable because of properties of the shared protocol code, proved on its models:
  - the extra `handle(Closed())` of trio's `protocol_send(Closed)` and of a timer that `_close()` did not stop:
    `h11_closed_idempotent`, `h2_closed_idempotent`, `http_stream_closed_idempotent`, `ws_stream_closed_idempotent`
    (a second Closed changes nothing and emits nothing);
  - trio's replace-on-`clear`: an event is only ever cleared while no *other* task waits on it
    (`h2_clear_discipline` over every op of the HTTP/2 send model; h11's `can_read` is cleared by its only waiter);
    `event_replace_eq_clear` shows that under this discipline a replaced event and a cleared one wake the same waiters.
* the two task groups (`task_group.py::_handle`, shapes EXTRACTED from both files) treat every way an application can end
  that exists in both runtimes alike: `task_groups_agree`; trio's second `send(None)` for an exception group is silent:
  `http_second_signal_silent`, `ws_second_signal_silent`.
-/
namespace HC.Props.C16
open HC HC.Conn.Shell

/-! ## the shell -/

theorem handledOpen_tell (s : St) (e : PEv) :
    (s.tell e).handledOpen = s.handledOpen ++ (if s.transportClosed then [] else [e]) := by
  unfold St.tell St.handledOpen
  cases h : s.transportClosed <;> simp [List.filter_append, h]

/-- the simulation relation between the two shells -/
def Rel (a b : St) : Prop :=
  a.readerDone = b.readerDone ∧ a.eofSeen = b.eofSeen ∧ a.transportClosed = b.transportClosed ∧ a.writeBroken = b.writeBroken ∧
  a.handledOpen = b.handledOpen ∧ a.written = b.written ∧ a.closeStep = b.closeStep ∧ a.steps = b.steps ∧
  (a.transportClosed = false → a.timerArmed = b.timerArmed)

theorem rel_obs (a b : St) (h : Rel a b) : a.obs = b.obs := by
  obtain ⟨h1, _, h2, _, h4, h5, h6, _, h8⟩ := h
  unfold St.obs
  cases hc : a.transportClosed
  · have := h8 hc
    simp_all
  · simp_all

theorem rel_refl (s : St) : Rel s s := by simp [Rel]

theorem step_rel (ra rb : Runtime) (hc : Compatible ra rb = true) (a b a' : St) (o : Op) (h : Rel a b) (ha : step ra a o = some a') :
    ∃ b', step rb b o = some b' ∧ Rel a' b' := by
  simp only [Compatible, Bool.and_eq_true, beq_iff_eq] at hc
  obtain ⟨⟨⟨c1, c2⟩, c3⟩, c4⟩ := hc
  obtain ⟨ar, ae, ac, aw, atm, ah, awr, acs, ast⟩ := a
  obtain ⟨br, be, bc, bw, btm, bh, bwr, bcs, bst⟩ := b
  simp only [Rel, St.handledOpen] at h
  obtain ⟨rfl, rfl, rfl, rfl, h4, rfl, rfl, rfl, h8⟩ := h
  cases o with
  | timerFire =>
    -- with the transport already closed the two timers may differ: whatever they do then is invisible
    simp only [step, St.tell] at ha ⊢
    cases ac <;> cases atm <;> cases btm <;> cases hra : ra.timerTellsProtocolFirst <;> cases hrb : rb.timerTellsProtocolFirst <;>
      simp_all [Rel, St.handledOpen, List.filter_append] <;> (try (subst ha)) <;> simp_all [List.filter_append]
  | _ =>
    simp only [step, St.tell, St.close] at ha ⊢ <;> (try (split at ha)) <;> (try (split at ha)) <;> (try (split at ha)) <;>
    (try cases ha) <;> simp_all [Rel, St.handledOpen, List.filter_append] <;> (first | done | grind)

/-- **Shell independence**: two compatible runtimes are indistinguishable on every operation sequence. -/
theorem shell_worker_indep (ra rb : Runtime) (hc : Compatible ra rb = true) (ops : List Op) :
    ∀ (a b a' : St), Rel a b → run ra a ops = some a' → ∃ b', run rb b ops = some b' ∧ a'.obs = b'.obs := by
  induction ops with
  | nil => intro a b a' h hr; simp only [run] at hr ⊢; cases hr; exact ⟨b, rfl, rel_obs _ _ h⟩
  | cons o os ih =>
    intro a b a' h hr
    simp only [run] at hr ⊢
    split at hr
    · cases hr
    · rename_i a1 ha1
      obtain ⟨b1, hb1, hrel⟩ := step_rel ra rb hc a b a1 o h ha1
      rw [hb1]
      exact ih a1 b1 a' hrel hr

theorem extracted_compatible : Compatible Extracted.Runtime.asyncioRt Extracted.Runtime.trioRt = true := by decide

/-- both shells hand every connection its own copy of the worker's lifespan state (`ConnectionState(self.state.copy())` in both
    `run()`s, read off the source): what an application writes to `scope["state"]` stays on its connection in both workers -/
theorem both_copy_state : Extracted.Runtime.asyncioRt.copiesState = true ∧ Extracted.Runtime.trioRt.copiesState = true := by decide

/-- **C16 for the shells as the source has them now.** -/
theorem worker_indep (ops : List Op) (a' : St) (h : run Extracted.Runtime.asyncioRt {} ops = some a') :
    ∃ t', run Extracted.Runtime.trioRt {} ops = some t' ∧ a'.obs = t'.obs :=
  shell_worker_indep _ _ extracted_compatible ops {} {} a' (rel_refl _) h

/-- and the other way round -/
theorem worker_indep_conv (ops : List Op) (t' : St) (h : run Extracted.Runtime.trioRt {} ops = some t') :
    ∃ a', run Extracted.Runtime.asyncioRt {} ops = some a' ∧ t'.obs = a'.obs :=
  shell_worker_indep _ _ (by decide) ops {} {} t' (rel_refl _) h

/-- the hypotheses are satisfiable and the relation is not trivial: a keep-alive exchange ended by the idle timer -/
example : (run Extracted.Runtime.asyncioRt {} [.read [71], .pUpdated false, .pRaw [72], .pUpdated true, .timerFire, .readEmpty true true, .readEnd, .groupDone]).map St.obs
        = (run Extracted.Runtime.trioRt {} [.read [71], .pUpdated false, .pRaw [72], .pUpdated true, .timerFire, .readEmpty true true, .readEnd, .groupDone]).map St.obs
        ∧ ((run Extracted.Runtime.trioRt {} [.read [71], .pUpdated false, .pRaw [72], .pUpdated true, .timerFire]).map (·.obs.closeStep)) = some (some 5) := by
  decide

/-- sharpness: a runtime that does not pass the end of the stream on when it comes with the last data (asyncio before the
    F50 repair) is distinguishable -/
example : ∃ ops, (run { Extracted.Runtime.asyncioRt with eofAlwaysPassedOn := false } {} ops).map St.obs ≠ (run Extracted.Runtime.trioRt {} ops).map St.obs :=
  ⟨[.read [71], .readEmpty true false, .readEnd], by decide⟩

/-! ## a second `Closed` is silent (what makes `closedReenters` and an unstopped timer unobservable) -/

open HC.Proto in
/-- `H11Protocol.handle(Closed)` twice = once: the second call finds `self.stream is None` -/
theorem h11_closed_idempotent (st : H11.St) :
    H11.closeStream (H11.closeStream st).1 = ((H11.closeStream st).1, []) := by
  unfold H11.closeStream
  cases h : st.cur with
  | none => simp [h]
  | some i =>
    simp only
    cases h2 : st.objs[i]? with
    | none => simp
    | some o => cases o <;> simp [H11.St.setObj]

open HC.Stream in
/-- `HTTPStream.handle(StreamClosed)` on a closed stream: returns at once (`if self.closed: return`) -/
theorem http_stream_closed_idempotent (s : Http.S) :
    Http.handle (Http.handle s .streamClosed).1 .streamClosed = ((Http.handle s .streamClosed).1, [], []) := by
  unfold Http.handle
  by_cases h : s.closed <;> simp [h]

open HC.Stream in
theorem ws_stream_closed_idempotent (s : Ws.S) :
    let s1 := (Ws.handle s .streamClosed).1
    (Ws.handle s1 .streamClosed).1 = s1 ∧ (Ws.handle s1 .streamClosed).2.1 = [] := by
  unfold Ws.handle
  by_cases h : s.closed <;> simp [h]

/-- `H2Protocol.handle(Closed)` twice = once: streams are already popped, buffers already closed, `has_data` already set
    (proved over the HTTP/2 send model in `HC/Proto/H2SendEvents.lean`; restated here because it is what makes trio's re-entrant
    `protocol.handle(Closed())` unobservable on HTTP/2) -/
theorem h2_closed_idempotent (s s1 s2 : HC.Proto.H2Send.St)
    (h1 : HC.Proto.H2Send.step s .closed = some s1) (h2 : HC.Proto.H2Send.step s1 .closed = some s2) :
    s2.closed = s1.closed ∧ s2.hasData = s1.hasData ∧ s2.connWin = s1.connWin ∧ s2.task = s1.task ∧ ∀ i, s2.str i = s1.str i :=
  HC.Proto.H2SendEvents.closed_idempotent s s1 s2 h1 h2

/-! ## replace-on-clear is unobservable -/

/-- An event with generations: `clear` either resets the flag (asyncio) or replaces the object (trio: a new generation
    that is not set; the old object keeps its state).  A waiter remembers the generation it waits on. -/
structure Ev where
  gen : Nat := 0
  setGens : List Nat := []          -- generations (objects) that are set
  waiters : List (Nat × Nat) := []  -- (task, generation waited on)
deriving DecidableEq, Repr

inductive EvOp where
  | wait (task : Nat)               -- parks unless the current object is set
  | set
  | clear
deriving DecidableEq, Repr

def Ev.isSet (e : Ev) : Bool := e.setGens.contains e.gen

def Ev.step (replace : Bool) (e : Ev) : EvOp → Ev
  | .wait t => if e.isSet then e else { e with waiters := e.waiters ++ [(t, e.gen)] }
  | .set => { e with setGens := e.gen :: e.setGens, waiters := e.waiters.filter (fun w => w.2 != e.gen) }   -- wakes the waiters of this object
  | .clear => if replace then { e with gen := e.gen + 1 } else { e with setGens := e.setGens.filter (· != e.gen) }

/-- the discipline the glue follows: nobody is parked on the event when it is cleared -/
def Disciplined (replace : Bool) : Ev → List EvOp → Prop
  | _, [] => True
  | e, o :: os => (o = .clear → e.waiters = []) ∧ Disciplined replace (e.step replace o) os

def Ev.runOps (replace : Bool) : Ev → List EvOp → Ev
  | e, [] => e
  | e, o :: os => Ev.runOps replace (e.step replace o) os

/-- what the tasks can observe of an event: whether it is set and who is parked -/
def Ev.view (e : Ev) : Bool × List Nat := (e.isSet, e.waiters.map (·.1))

/-- invariant of a disciplined run: every parked waiter waits on the current object, and no future object is set -/
def EvInv (e : Ev) : Prop := (∀ w ∈ e.waiters, w.2 = e.gen) ∧ (∀ g ∈ e.setGens, g ≤ e.gen)

theorem evinv_step (replace : Bool) (e : Ev) (o : EvOp) (h : EvInv e) (hd : o = .clear → e.waiters = []) : EvInv (e.step replace o) := by
  obtain ⟨h1, h2⟩ := h
  cases o with
  | wait t =>
    simp only [Ev.step]
    split
    · exact ⟨h1, h2⟩
    · refine ⟨?_, h2⟩
      intro w hw
      simp only [List.mem_append, List.mem_singleton] at hw
      rcases hw with hw | hw
      · exact h1 w hw
      · subst hw; rfl
  | set =>
    simp only [Ev.step]
    refine ⟨?_, ?_⟩
    · intro w hw
      exact h1 w (List.mem_filter.mp hw).1
    · intro g hg
      simp only [List.mem_cons] at hg
      rcases hg with hg | hg
      · subst hg; exact Nat.le_refl _
      · exact h2 g hg
  | clear =>
    have hw := hd rfl
    simp only [Ev.step]
    split
    · refine ⟨by simp [hw], ?_⟩
      intro g hg
      have := h2 g hg
      simp only
      omega
    · refine ⟨h1, ?_⟩
      intro g hg
      exact h2 g (List.mem_filter.mp hg).1

/-- the two event semantics relate as: same waiters (as tasks), same "is set" -/
def EvRel (a b : Ev) : Prop := a.view = b.view ∧ EvInv a ∧ EvInv b

theorem isSet_after_replace (e : Ev) (h : EvInv e) : ({ e with gen := e.gen + 1 } : Ev).isSet = false := by
  simp only [Ev.isSet]
  rw [Bool.eq_false_iff]
  intro hc
  have hmem : e.gen + 1 ∈ e.setGens := by simpa using hc
  have := h.2 _ hmem
  omega

theorem isSet_after_clear (e : Ev) : ({ e with setGens := e.setGens.filter (· != e.gen) } : Ev).isSet = false := by
  simp [Ev.isSet]

/-- **replace = clear under the discipline**: the asyncio event and the trio event stay in the same view -/
theorem event_replace_eq_clear (ops : List EvOp) :
    ∀ (a b : Ev), EvRel a b → Disciplined false a ops → Disciplined true b ops →
      (Ev.runOps false a ops).view = (Ev.runOps true b ops).view := by
  induction ops with
  | nil => intro a b h _ _; exact h.1
  | cons o os ih =>
    intro a b h da db
    simp only [Ev.runOps]
    simp only [Disciplined] at da db
    apply ih _ _ _ da.2 db.2
    obtain ⟨hv, ia, ib⟩ := h
    refine ⟨?_, evinv_step false a o ia da.1, evinv_step true b o ib db.1⟩
    simp only [Ev.view, Prod.mk.injEq] at hv
    obtain ⟨hs, hw⟩ := hv
    cases o with
    | wait t =>
      simp only [Ev.step, Ev.view, hs]
      cases hb : b.isSet <;> simp [Ev.isSet, hw] <;> simp_all [Ev.isSet]
    | set =>
      simp only [Ev.step, Ev.view, Ev.isSet, Prod.mk.injEq]
      refine ⟨by simp, ?_⟩
      -- all waiters wait on the current object on both sides, so `set` wakes them all
      have fa : a.waiters.filter (fun w => w.2 != a.gen) = [] := by
        apply List.filter_eq_nil_iff.mpr
        intro w hw'
        simp [ia.1 w hw']
      have fb : b.waiters.filter (fun w => w.2 != b.gen) = [] := by
        apply List.filter_eq_nil_iff.mpr
        intro w hw'
        simp [ib.1 w hw']
      simp [fa, fb]
    | clear =>
      have wa := da.1 rfl
      have wb := db.1 rfl
      simp only [Ev.step, Ev.view, Prod.mk.injEq, if_true, Bool.false_eq_true, if_false]
      refine ⟨?_, by simp [wa, wb]⟩
      rw [isSet_after_clear a, isSet_after_replace b ib]

example : EvRel {} {} := ⟨rfl, ⟨by simp, by simp⟩, ⟨by simp, by simp⟩⟩

/-- sharpness: without the discipline the two semantics differ (a waiter parked on the replaced object is never woken) -/
example : (Ev.runOps false {} [.wait 1, .clear, .set]).view ≠ (Ev.runOps true {} [.wait 1, .clear, .set]).view := by decide

/-! ### the glue follows the discipline (HTTP/2 send path: `has_data`, `StreamBuffer._paused`, `_is_empty`) -/

/-- Every op of the HTTP/2 send model that clears an event is taken by the event's only possible waiter while it is not
    waiting (`HC.Proto.H2SendEvents.clear_has_no_foreign_waiter`): `_is_empty.clear()` in `push` / in `drain` of a completed buffer by the
    stream's single sender; `_paused.clear()` by the sender after its own `wait()`; `has_data.clear()` by the send task after its
    own `wait()`.  With `event_replace_eq_clear` this is why trio's replace-on-clear wrapper is indistinguishable there.
    (h11's `can_read` is cleared and awaited by the reader alone: `await self.can_read.clear(); await self.can_read.wait()`.) -/
theorem h2_clear_discipline (s s' : HC.Proto.H2Send.St) (o : HC.Proto.H2Send.Op) (h : HC.Proto.H2Send.step s o = some s') :
    (∀ i n, o = .push i n → (s.str i).pusher = .idle) ∧
    (∀ i, o = .end_ i → (s.str i).pusher = .idle) ∧
    (∀ i, o = .pushWake i → (s.str i).pusher = .inPush ∧ (s'.str i).pusher = .idle) ∧
    (o = .wake → s.task = .parked ∧ s'.task = .running) :=
  HC.Proto.H2SendEvents.clear_has_no_foreign_waiter s s' o h

/-! ## the task groups -/

open HC.Stream.AppExit HC.Extracted.AppExit in
/-- the ways an application can end that are the same event in both runtimes (a group holding a cancellation is how a trio
    nursery inside the application reports being cancelled; asyncio delivers a bare `CancelledError` there) -/
def commonExit : HC.Stream.AppExit.Exit → Bool
  | .returned | .exception | .cancelled | .groupErrors => true
  | _ => false

open HC.Stream.AppExit HC.Extracted.AppExit in
/-- **The two `_handle` wrappers (extracted from `asyncio/task_group.py` and `trio/task_group.py`) agree** on every common exit:
    the failure is logged the same number of times, the log comes before completion is signalled, completion IS signalled,
    and the same exits leave `_handle` by an exception.  (They differ in how often `send(None)` is called - trio signals in
    its `except BaseExceptionGroup` clause and again in `finally` - which the next two theorems show to be invisible.) -/
theorem task_groups_agree (e : Exit) (h : commonExit e = true) :
    logs (run asyncioHandle e) = logs (run trioHandle e) ∧
    (run asyncioHandle e).2 = (run trioHandle e).2 ∧
    0 < signals (run asyncioHandle e) ∧ 0 < signals (run trioHandle e) ∧
    (run asyncioHandle e).1.takeWhile (· != .sendNone) = (run trioHandle e).1.takeWhile (· != .sendNone) := by
  cases e <;> first | decide | (simp [commonExit] at h)

open HC.Stream.AppExit HC.Extracted.AppExit in
/-- sharpness: on the exits that are NOT common the extracted wrappers do differ (a mixed group is logged by trio only), so
    the hypothesis of `task_groups_agree` is what the claim rests on -/
example : logs (run asyncioHandle .groupMixed) ≠ logs (run trioHandle .groupMixed) := by decide

open HC.Stream in
/-- `HTTPStream.app_send(None)`: the first completion signal always hands `StreamClosed` to the protocol, the protocol answers
    with `stream.handle(StreamClosed)`, and from then on a further `app_send(None)` does nothing at all -/
theorem http_second_signal_silent (s : Http.S) (hc : s.closed = false) :
    Http.Ev.streamClosed ∈ (Http.appSend s none).2.1 ∧
    (let s2 := (Http.handle (Http.appSend s none).1 .streamClosed).1
     Http.appSend s2 none = (s2, [], none)) := by
  have hcl : (Http.handle (Http.appSend s none).1 .streamClosed).1.closed = true := by
    unfold Http.handle
    by_cases h : (Http.appSend s none).1.closed <;> simp [h]
  constructor
  · simp only [Http.appSend, hc]
    by_cases h : s.st = .request <;> simp [h]
  · simp only
    generalize (Http.handle (Http.appSend s none).1 .streamClosed).1 = s2 at hcl
    simp [Http.appSend, hcl]

open HC.Stream in
/-- the same for `WSStream.app_send(None)`: unless the 1011 close frame could not be produced (the exception then leaves
    `send(None)`), the first signal emits `StreamClosed`; once the protocol has answered it a second signal is silent -/
theorem ws_second_signal_silent (token : Bytes → Bytes) (ext : Option Bytes) (s : Ws.S) (hc : s.closed = false)
    (hok : (Ws.appSend token ext s none).2.2 = none) :
    Ws.Ev.streamClosed ∈ (Ws.appSend token ext s none).2.1 ∧
    (let s2 := (Ws.handle (Ws.appSend token ext s none).1 .streamClosed).1
     Ws.appSend token ext s2 none = (s2, [], none)) := by
  have hcl : (Ws.handle (Ws.appSend token ext s none).1 .streamClosed).1.closed = true := by
    unfold Ws.handle
    by_cases h : (Ws.appSend token ext s none).1.closed <;> simp [h]
  constructor
  · revert hok
    simp only [Ws.appSend, hc]
    by_cases h1 : s.st = .handshake
    · simp [h1, Ws.errorResponse]
    · by_cases h2 : s.st = .connected
      · simp only [h2]
        generalize Ws.sendWs s (.close 1011) = r
        obtain ⟨s1, e, err⟩ := r
        cases err <;> simp
      · simp [h1, h2]
  · simp only
    generalize (Ws.handle (Ws.appSend token ext s none).1 .streamClosed).1 = s2 at hcl
    simp [Ws.appSend, hcl]

end HC.Props.C16
