import HC.Stream.Http
import HC.Proto.Heads
import HC.Props.C12
import HC.Props.C19
import HC.Proto.H2Window
/-!
# C02 — HTTP response delivery fidelity and legal framing (the hypercorn side of it)

What the application sends is what the protocol layer is given: one response head with the application's headers in
order, the non-empty chunks in order (none when the body must be suppressed), end-of-response exactly once.
The framing of those events on the wire is h11's / h2's (library), sampled end-to-end by the correspondence run.
-/
namespace HC.Props.C02
open HC HC.Stream HC.Stream.Http HC.Extracted

/-- body messages of a well-behaved application: every chunk but the last with `more_body=True` -/
def bodyMsgs : List Bytes → List (Option Msg)
  | [] => [some (.body none false)]
  | [c] => [some (.body (some (.bytes c)) false)]
  | c :: rest => some (.body (some (.bytes c)) true) :: bodyMsgs rest

def wfApp (status : Nat) (hs : List (HV × HV)) (chunks : List Bytes) : List (Option Msg) :=
  some (.start (some status) (some hs) false) :: bodyMsgs chunks

def nonEmpty (c : Bytes) : Bool := !c.isEmpty

/-- specification of the events the protocol layer must be given -/
def specEvents (method : String) (status : Nat) (vh : Headers) (chunks : List Bytes) : List Ev :=
  [.response status vh] ++
  (if Guards.suppressBody method status then [] else (chunks.filter nonEmpty).map Ev.body) ++
  [.endBody, .access (some status), .streamClosed]

private theorem feed_bodies (s : S) (status : Nat) (hst : s.st = .response) (hr : s.response = some (status, false)) :
    ∀ chunks : List Bytes,
      (feed s (bodyMsgs chunks)).2 =
        (if Guards.suppressBody s.method status then [] else (chunks.filter nonEmpty).map Ev.body) ++
          [.endBody, .access (some status), .streamClosed] ∧
      (feed s (bodyMsgs chunks)).1.st = .closed := by
  intro chunks
  induction chunks with
  | nil =>
    by_cases hs : Guards.suppressBody s.method status = true <;>
      simp [bodyMsgs, feed, appSend, hst, hr, bodyEv, sendClosed, hs]
  | cons c rest ih =>
    cases rest with
    | nil =>
      simp only [bodyMsgs, feed, appSend, hst, hr, sendClosed]
      by_cases hs : Guards.suppressBody s.method status = true
      · simp [hs]
      · cases c with
        | nil => simp [hs, bodyEv, nonEmpty]
        | cons x xs => simp [hs, bodyEv, nonEmpty]
    | cons c2 rest2 =>
      have step : appSend s (some (.body (some (.bytes c)) true)) =
          (s, (if Guards.suppressBody s.method status then [] else if c = [] then [] else [Ev.body c]), none) := by
        simp only [appSend, hst, hr]
        by_cases hs : Guards.suppressBody s.method status = true
        · simp [hs]
        · cases c <;> simp [hs, bodyEv]
      have hb : bodyMsgs (c :: c2 :: rest2) = some (.body (some (.bytes c)) true) :: bodyMsgs (c2 :: rest2) := rfl
      rw [hb]
      simp only [feed, step]
      obtain ⟨ih1, ih2⟩ := ih
      refine ⟨?_, ih2⟩
      rw [ih1]
      by_cases hs : Guards.suppressBody s.method status = true
      · simp [hs]
      · cases c <;> simp [hs, List.filter_cons, nonEmpty]

/-- **response events = specification of the application's messages**: for every status, header list that validates,
    and chunking (any number of chunks, empty ones included) -/
theorem events_of_wf_app (s : S) (status : Nat) (hs : List (HV × HV)) (vh : Headers) (chunks : List Bytes)
    (h0 : s.st = .request) (hv : validateHeaders hs = .ok vh) :
    (feed s (wfApp status hs chunks)).2 = specEvents s.method status vh chunks ∧
    (feed s (wfApp status hs chunks)).1.st = .closed := by
  have hstart : appSend s (some (.start (some status) (some hs) false)) =
      ({ s with response := some (status, false), st := .response }, [.response status vh], none) := by
    simp [appSend, h0, hv]
  simp only [wfApp, feed, hstart, specEvents]
  obtain ⟨h1, h2⟩ := feed_bodies { s with response := some (status, false), st := .response } status rfl rfl chunks
  exact ⟨by rw [h1]; simp, h2⟩

def bodiesOf : List Ev → List Bytes
  | [] => []
  | .body d :: r => d :: bodiesOf r
  | _ :: r => bodiesOf r

@[simp] theorem bodiesOf_append (a b : List Ev) : bodiesOf (a ++ b) = bodiesOf a ++ bodiesOf b := by
  induction a with
  | nil => rfl
  | cons x xs ih => cases x <;> simp [bodiesOf, ih]

private theorem bodiesOf_map (l : List Bytes) : bodiesOf (l.map Ev.body) = l := by
  induction l with
  | nil => rfl
  | cons a t ih => simp [bodiesOf, ih]

private theorem flatten_filter_ne (l : List Bytes) : (l.filter nonEmpty).flatten = l.flatten := by
  induction l with
  | nil => rfl
  | cons a t ih => cases a <;> simp [List.filter_cons, nonEmpty, ih]

/-- the body bytes the protocol is given concatenate to the application's chunks, or to nothing when suppressed -/
theorem body_concat (method : String) (status : Nat) (vh : Headers) (chunks : List Bytes) :
    (bodiesOf (specEvents method status vh chunks)).flatten =
      if Guards.suppressBody method status then [] else chunks.flatten := by
  simp only [specEvents, bodiesOf_append]
  by_cases hs : Guards.suppressBody method status = true
  · simp [hs, bodiesOf]
  · simp [hs, bodiesOf, bodiesOf_map, flatten_filter_ne]

/-- **bodies are omitted exactly for HEAD requests and 1xx / 204 / 304 statuses** (the extracted `suppress_body`) -/
theorem suppress_iff (method : String) (status : Nat) :
    Guards.suppressBody method status = true ↔
      (method = "HEAD" ∨ (100 ≤ status ∧ status < 200) ∨ status = 204 ∨ status = 304) := by
  simp [Guards.suppressBody, or_assoc]

private theorem bodyEv_no_trailers (b : Option HV) (evs : List Ev) (h : bodyEv b = .ok evs) (hs : Headers) : Ev.trailers hs ∉ evs := by
  unfold bodyEv at h
  (repeat' split at h) <;> cases h <;> simp

private theorem sendClosed_mem (s : S) (pre : List Ev) (hs : Headers) (h : Ev.trailers hs ∈ (sendClosed s pre).2.1) : Ev.trailers hs ∈ pre := by
  unfold sendClosed at h
  split at h <;> simp at h <;> exact h

/-- **trailers are emitted only on HTTP/2+ and only to clients that sent `te: trailers`** -/
theorem trailers_gate (s : S) (m : Option Msg) (hs : Headers) (h : Ev.trailers hs ∈ (appSend s m).2.1) :
    (s.version = "2" ∨ s.version = "3") ∧ teTrailers s = true := by
  have hv : ∀ v, inVersions v Consts.http_TRAILERS_VERSIONS = true → (v = "2" ∨ v = "3") := by
    intro v hv; simpa [inVersions, Consts.http_TRAILERS_VERSIONS] using hv
  cases m with
  | none => simp only [appSend] at h; (repeat' split at h) <;> simp at h
  | some m =>
    cases m with
    | trailers headers more =>
      simp only [appSend] at h
      split at h
      · rename_i hc
        split at h
        · rename_i hte
          refine ⟨hv _ hc.1, hte⟩
        · (repeat' split at h) <;> first
            | (simp at h; done)
            | (have := sendClosed_mem _ _ _ h; simp at this)
      · split at h
        · rename_i hc
          split at h
          · rename_i hte
            exact ⟨hv _ hc.1, hte⟩
          · (repeat' split at h) <;> first
              | (simp at h; done)
              | (have := sendClosed_mem _ _ _ h; simp at this)
        · simp at h
    | start status headers tr => simp only [appSend] at h; (repeat' split at h) <;> simp at h
    | body b more =>
      simp only [appSend] at h
      split at h
      · split at h
        · simp at h
        · rename_i status wt _
          by_cases hsup : Guards.suppressBody s.method status = true
          · simp only [hsup, if_true] at h
            (repeat' split at h) <;> first
              | (simp at h; done)
              | (have := sendClosed_mem _ _ _ h; simp at this)
          · simp only [hsup] at h
            cases hb : bodyEv b with
            | error e => simp [hb] at h
            | ok evs =>
              have hn := bodyEv_no_trailers b evs hb hs
              simp only [hb, Bool.false_eq_true, if_false] at h
              (repeat' split at h) <;> first
                | exact absurd h hn
                | exact absurd (sendClosed_mem _ _ _ h) hn
      · simp at h
    | push p hdrs => simp only [appSend] at h; (repeat' split at h) <;> simp at h
    | earlyHint l => simp only [appSend] at h; (repeat' split at h) <;> simp at h
    | other => simp [appSend] at h

/-! ### HTTP/2 flow control: a window update reaches every stream it concerns -/
open HC.Proto.H2Window in
/-- **every buffered stream whose window a WINDOW_UPDATE / SETTINGS change can have raised is unblocked**: a
    connection-level update (h2: stream id 0) and an INITIAL_WINDOW_SIZE change (`None`) unblock every stream with a
    buffer, a stream-level update its own stream.  (The tests are extracted from `H2Protocol._window_updated`.)
    Without this a response that ran into the connection window would never resume. -/
theorem window_update_unblocks (buffers : List Nat) (sid : Option Nat) (j : Nat) (hj : j ∈ buffers) (hb : benefits sid j = true) :
    j ∈ unblocked buffers sid := by
  cases sid with
  | none => simp [unblocked, ReqGlue.windowUpdateAll, hj]
  | some i =>
    by_cases h0 : i = 0
    · subst h0; simp [unblocked, ReqGlue.windowUpdateAll, hj]
    · have hij : i = j := by simpa [benefits, h0] using hb
      subst hij
      simp [unblocked, ReqGlue.windowUpdateAll, ReqGlue.windowUpdateOne, h0, hj]

open HC.Proto.H2Window in
/-- only streams that have a buffer are touched (so `priority.unblock` is never asked about a stream it has lost) -/
theorem window_update_only_buffered (buffers : List Nat) (sid : Option Nat) (j : Nat) (h : j ∈ unblocked buffers sid) : j ∈ buffers := by
  cases sid with
  | none =>
    simp only [unblocked] at h
    split at h
    · exact h
    · split at h <;> simp at h
  | some i =>
    simp only [unblocked] at h
    split at h
    · exact h
    · split at h
      · rename_i h1
        simp only [Option.toList_some, List.mem_singleton] at h
        subst h
        simpa [ReqGlue.windowUpdateOne] using h1
      · simp at h

open HC.Proto.H2Window in
example : unblocked [1, 3, 5] (some 0) = [1, 3, 5] ∧ unblocked [1, 3, 5] (some 3) = [3] ∧ unblocked [1, 3, 5] (some 7) = [] := by decide

/-! ### HTTP/2 trailers: kept until the body has gone out, then sent as the one frame that ends the stream -/
open HC.Proto.H2Window in
/-- `stream_send(Trailers)` sends nothing by itself: it appends the fields to the stream buffer's `trailers`
    (h2 accepts trailers only as the frame that ends the stream) -/
theorem trailers_deferred :
    ReqGlue.trailersBranchCalls = ["self.stream_buffers[event.stream_id].trailers.extend(event.headers)"] := by decide

open HC.Proto.H2Window in
/-- **end-of-response exactly once, with or without trailers**: `_end_stream` makes exactly one h2 call and that call
    ends the stream — the HEADERS frame with the pending trailers and END_STREAM when there are any, the empty DATA
    frame with END_STREAM otherwise -/
theorem one_end_of_stream (n : Nat) :
    (endCalls n).length = 1 ∧
    (0 < n → endCalls n = ["send_headers(stream_id, trailers, end_stream=True)"]) ∧
    (n = 0 → endCalls n = ["end_stream(stream_id)"]) := by
  by_cases h : 0 < n
  · simp [endCalls, ReqGlue.endStreamTest, ReqGlue.endWithTrailers, h]; omega
  · have h0 : n = 0 := by omega
    subst h0
    simp [endCalls, ReqGlue.endStreamTest, ReqGlue.endWithoutTrailers]

/-- the trailer fields the protocol has been handed for a stream, in order (several `http.response.trailers`
    messages form the one trailing block HTTP/2 allows) -/
def pendingTrailers (evs : List Ev) : Headers :=
  (evs.filterMap (fun e => match e with | .trailers h => some h | _ => none)).flatten

/-- **trailers are emitted to an HTTP/2 client that sent `te: trailers`** (the converse of `trailers_gate`): in the
    TRAILERS state every `http.response.trailers` message whose headers validate hands exactly those fields to the
    protocol, and the last one (`more_trailers = False`) is followed by the end of the response -/
theorem trailers_emitted (s : S) (hs : List (HV × HV)) (vh : Headers) (more : Bool)
    (hv : s.version = "2") (hst : s.st = .trailers) (hte : teTrailers s = true) (hval : validateHeaders hs = .ok vh) :
    (appSend s (some (.trailers (some hs) more))).2.1 = (if more then [.trailers vh] else (sendClosed s [.trailers vh]).2.1) ∧
    pendingTrailers (appSend s (some (.trailers (some hs) more))).2.1 = vh := by
  have hin : inVersions s.version Consts.http_TRAILERS_VERSIONS = true := by
    rw [hv]; decide
  have hne : ¬ (s.st = .request) := by rw [hst]; decide
  cases more with
  | true => simp [appSend, hin, hst, hte, hval, pendingTrailers]
  | false =>
    have e : appSend s (some (.trailers (some hs) false)) = sendClosed s [.trailers vh] := by
      simp [appSend, hin, hst, hte, hval]
    rw [e]
    refine ⟨by simp, ?_⟩
    simp only [sendClosed]
    split <;> simp [pendingTrailers]

/-! ### what the libraries are handed -/
open HC.Proto.Heads

/-- **HTTP/1 head**: the application's headers in order, followed only by the server's own
    (`response_headers("h11")`), then `connection: close` iff the per-connection request maximum is reached -/
theorem h1_head (status : Nat) (app srv : Headers) (n mx : Nat) (hs : 200 ≤ status) :
    h11Response status app srv n mx =
      .final status (app ++ srv ++ (if n ≥ mx then [("connection".b, "close".b)] else [])) := by
  have : Guards.h11FinalStatusCmp.eval status 200 = true := by
    simp [Guards.h11FinalStatusCmp, Guards.Cmp.eval, hs]
  unfold h11Response
  rw [if_pos this]
  simp [Guards.h11KeepAliveCmp, Guards.Cmp.eval]

theorem h1_informational (status : Nat) (app srv : Headers) (n mx : Nat) (hs : status < 200) :
    h11Response status app srv n mx = .informational status (app ++ srv) := by
  have : ¬ Guards.h11FinalStatusCmp.eval status 200 = true := by
    simp [Guards.h11FinalStatusCmp, Guards.Cmp.eval]; omega
  unfold h11Response
  rw [if_neg this]

/-- **HTTP/2 head**: `:status`, the application's headers in order, then only the server's own -/
theorem h2_head (status : Nat) (app srv : Headers) :
    h2Headers status app srv = (":status".b, natBytes status) :: (app ++ srv) := rfl

/-- the server's own headers are date / server / alt-svc only (C19 `response_headers_spec`), so the application's
    headers are followed *only* by date / server / alt-svc / connection -/
theorem head_tail_names (c : Config.HeaderCfg) (date proto : Bytes) (status : Nat) (app : Headers) (n mx : Nat) (hs : 200 ≤ status) :
    ∃ tail, h11Response status app (Config.responseHeaders c date proto) n mx = .final status (app ++ tail) ∧
      ∀ h ∈ tail, h.1 = "date".b ∨ h.1 = "server".b ∨ h.1 = "alt-svc".b ∨ h.1 = "connection".b := by
  refine ⟨Config.responseHeaders c date proto ++ (if n ≥ mx then [("connection".b, "close".b)] else []), ?_, ?_⟩
  · rw [h1_head status app _ n mx hs]; simp
  · intro h hh
    rcases List.mem_append.mp hh with hh | hh
    · have := (HC.Props.C19.response_headers_spec c date proto).1 h hh
      rcases this with h1 | h1 | h1 <;> simp [h1]
    · split at hh <;> simp at hh; subst hh; simp

example : (feed { method := "GET", version := "1.1" } (wfApp 200 [(.bytes "x-a".b, .bytes "1".b)] ["ab".b, [], "c".b])).2 =
    [.response 200 [("x-a".b, "1".b)], .body "ab".b, .body "c".b, .endBody, .access (some 200), .streamClosed] := by decide
example : (feed { method := "HEAD", version := "1.1" } (wfApp 200 [] ["ab".b])).2 =
    [.response 200 [], .endBody, .access (some 200), .streamClosed] := by decide

end HC.Props.C02
