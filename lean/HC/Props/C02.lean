import HC.Stream.Http
import HC.Proto.Heads
import HC.Props.C12
import HC.Props.C19
import HC.Proto.H2Window
import HC.Proto.H2WireInv
import HC.Extracted.H2Init
import HC.Props.C07
/-!
# C02 — HTTP response delivery fidelity and legal framing (the hypercorn side of it)

What the application sends is what the protocol layer is given: one response head with the application's headers in
order, the non-empty chunks in order (none when the body must be suppressed), end-of-response exactly once.
The framing of those events on the wire is h11's / h2's (library), sampled end-to-end by the correspondence run.
-/
namespace HC.Props.C02
open HC HC.Stream HC.Stream.Http HC.Extracted

/-- body messages of a well-behaved application: every chunk but the last with `more_body=True` -/
def bodyMsgs : List Bytes → List (Option Msg)
  | [] => [some (.body none false)]
  | [c] => [some (.body (some (.bytes c)) false)]
  | c :: rest => some (.body (some (.bytes c)) true) :: bodyMsgs rest

def wfApp (status : Nat) (hs : List (HV × HV)) (chunks : List Bytes) : List (Option Msg) :=
  some (.start (some status) (some hs) false) :: bodyMsgs chunks

def nonEmpty (c : Bytes) : Bool := !c.isEmpty

/-- specification of the events the protocol layer must be given -/
def specEvents (method : String) (status : Nat) (vh : Headers) (chunks : List Bytes) : List Ev :=
  [.response status vh] ++
  (if Guards.suppressBody method status then [] else (chunks.filter nonEmpty).map Ev.body) ++
  [.endBody, .access (some status), .streamClosed]

private theorem feed_bodies (s : S) (status : Nat) (hst : s.st = .response) (hr : s.response = some (status, false)) :
    ∀ chunks : List Bytes,
      (feed s (bodyMsgs chunks)).2 =
        (if Guards.suppressBody s.method status then [] else (chunks.filter nonEmpty).map Ev.body) ++
          [.endBody, .access (some status), .streamClosed] ∧
      (feed s (bodyMsgs chunks)).1.st = .closed := by
  intro chunks
  induction chunks with
  | nil =>
    by_cases hs : Guards.suppressBody s.method status = true <;>
      simp [bodyMsgs, feed, appSend, hst, hr, bodyEv, sendClosed, hs]
  | cons c rest ih =>
    cases rest with
    | nil =>
      simp only [bodyMsgs, feed, appSend, hst, hr, sendClosed]
      by_cases hs : Guards.suppressBody s.method status = true
      · simp [hs]
      · cases c with
        | nil => simp [hs, bodyEv, nonEmpty]
        | cons x xs => simp [hs, bodyEv, nonEmpty]
    | cons c2 rest2 =>
      have step : appSend s (some (.body (some (.bytes c)) true)) =
          (s, (if Guards.suppressBody s.method status then [] else if c = [] then [] else [Ev.body c]), none) := by
        simp only [appSend, hst, hr]
        by_cases hs : Guards.suppressBody s.method status = true
        · simp [hs]
        · cases c <;> simp [hs, bodyEv]
      have hb : bodyMsgs (c :: c2 :: rest2) = some (.body (some (.bytes c)) true) :: bodyMsgs (c2 :: rest2) := rfl
      rw [hb]
      simp only [feed, step]
      obtain ⟨ih1, ih2⟩ := ih
      refine ⟨?_, ih2⟩
      rw [ih1]
      by_cases hs : Guards.suppressBody s.method status = true
      · simp [hs]
      · cases c <;> simp [hs, List.filter_cons, nonEmpty]

/-- **response events = specification of the application's messages**: for every status, header list that validates,
    and chunking (any number of chunks, empty ones included) -/
theorem events_of_wf_app (s : S) (status : Nat) (hs : List (HV × HV)) (vh : Headers) (chunks : List Bytes)
    (h0 : s.st = .request) (hv : validateHeaders hs = .ok vh) :
    (feed s (wfApp status hs chunks)).2 = specEvents s.method status vh chunks ∧
    (feed s (wfApp status hs chunks)).1.st = .closed := by
  have hstart : appSend s (some (.start (some status) (some hs) false)) =
      ({ s with response := some (status, false), st := .response }, [.response status vh], none) := by
    simp [appSend, h0, hv]
  simp only [wfApp, feed, hstart, specEvents]
  obtain ⟨h1, h2⟩ := feed_bodies { s with response := some (status, false), st := .response } status rfl rfl chunks
  exact ⟨by rw [h1]; simp, h2⟩

def bodiesOf : List Ev → List Bytes
  | [] => []
  | .body d :: r => d :: bodiesOf r
  | _ :: r => bodiesOf r

@[simp] theorem bodiesOf_append (a b : List Ev) : bodiesOf (a ++ b) = bodiesOf a ++ bodiesOf b := by
  induction a with
  | nil => rfl
  | cons x xs ih => cases x <;> simp [bodiesOf, ih]

private theorem bodiesOf_map (l : List Bytes) : bodiesOf (l.map Ev.body) = l := by
  induction l with
  | nil => rfl
  | cons a t ih => simp [bodiesOf, ih]

private theorem flatten_filter_ne (l : List Bytes) : (l.filter nonEmpty).flatten = l.flatten := by
  induction l with
  | nil => rfl
  | cons a t ih => cases a <;> simp [List.filter_cons, nonEmpty, ih]

/-- the body bytes the protocol is given concatenate to the application's chunks, or to nothing when suppressed -/
theorem body_concat (method : String) (status : Nat) (vh : Headers) (chunks : List Bytes) :
    (bodiesOf (specEvents method status vh chunks)).flatten =
      if Guards.suppressBody method status then [] else chunks.flatten := by
  simp only [specEvents, bodiesOf_append]
  by_cases hs : Guards.suppressBody method status = true
  · simp [hs, bodiesOf]
  · simp [hs, bodiesOf, bodiesOf_map, flatten_filter_ne]

/-- **bodies are omitted exactly for HEAD requests and 1xx / 204 / 304 statuses** (the extracted `suppress_body`) -/
theorem suppress_iff (method : String) (status : Nat) :
    Guards.suppressBody method status = true ↔
      (method = "HEAD" ∨ (100 ≤ status ∧ status < 200) ∨ status = 204 ∨ status = 304) := by
  simp [Guards.suppressBody, or_assoc]

private theorem bodyEv_no_trailers (b : Option HV) (evs : List Ev) (h : bodyEv b = .ok evs) (hs : Headers) : Ev.trailers hs ∉ evs := by
  unfold bodyEv at h
  (repeat' split at h) <;> cases h <;> simp

private theorem sendClosed_mem (s : S) (pre : List Ev) (hs : Headers) (h : Ev.trailers hs ∈ (sendClosed s pre).2.1) : Ev.trailers hs ∈ pre := by
  unfold sendClosed at h
  split at h <;> simp at h <;> exact h

/-- **trailers are emitted only on HTTP/2+ and only to clients that sent `te: trailers`** -/
theorem trailers_gate (s : S) (m : Option Msg) (hs : Headers) (h : Ev.trailers hs ∈ (appSend s m).2.1) :
    (s.version = "2" ∨ s.version = "3") ∧ teTrailers s = true := by
  have hv : ∀ v, inVersions v Consts.http_TRAILERS_VERSIONS = true → (v = "2" ∨ v = "3") := by
    intro v hv; simpa [inVersions, Consts.http_TRAILERS_VERSIONS] using hv
  cases m with
  | none => simp only [appSend] at h; (repeat' split at h) <;> simp at h
  | some m =>
    cases m with
    | trailers headers more =>
      simp only [appSend] at h
      split at h
      · rename_i hc
        split at h
        · rename_i hte
          refine ⟨hv _ hc.1, hte⟩
        · (repeat' split at h) <;> first
            | (simp at h; done)
            | (have := sendClosed_mem _ _ _ h; simp at this)
      · split at h
        · rename_i hc
          split at h
          · rename_i hte
            exact ⟨hv _ hc.1, hte⟩
          · (repeat' split at h) <;> first
              | (simp at h; done)
              | (have := sendClosed_mem _ _ _ h; simp at this)
        · simp at h
    | start status headers tr => simp only [appSend] at h; (repeat' split at h) <;> simp at h
    | body b more =>
      simp only [appSend] at h
      split at h
      · split at h
        · simp at h
        · rename_i status wt _
          by_cases hsup : Guards.suppressBody s.method status = true
          · simp only [hsup, if_true] at h
            (repeat' split at h) <;> first
              | (simp at h; done)
              | (have := sendClosed_mem _ _ _ h; simp at this)
          · simp only [hsup] at h
            cases hb : bodyEv b with
            | error e => simp [hb] at h
            | ok evs =>
              have hn := bodyEv_no_trailers b evs hb hs
              simp only [hb, Bool.false_eq_true, if_false] at h
              (repeat' split at h) <;> first
                | exact absurd h hn
                | exact absurd (sendClosed_mem _ _ _ h) hn
      · simp at h
    | push p hdrs => simp only [appSend] at h; (repeat' split at h) <;> simp at h
    | earlyHint l => simp only [appSend] at h; (repeat' split at h) <;> simp at h
    | other => simp [appSend] at h

/-! ### HTTP/2 flow control: a window update reaches every stream it concerns -/
open HC.Proto.H2Window in
/-- **every buffered stream whose window a WINDOW_UPDATE / SETTINGS change can have raised is unblocked**: a
    connection-level update (h2: stream id 0) and an INITIAL_WINDOW_SIZE change (`None`) unblock every stream with a
    buffer, a stream-level update its own stream.  (The tests are extracted from `H2Protocol._window_updated`.)
    Without this a response that ran into the connection window would never resume. -/
theorem window_update_unblocks (buffers : List Nat) (sid : Option Nat) (j : Nat) (hj : j ∈ buffers) (hb : benefits sid j = true) :
    j ∈ unblocked buffers sid := by
  cases sid with
  | none => simp [unblocked, ReqGlue.windowUpdateAll, hj]
  | some i =>
    by_cases h0 : i = 0
    · subst h0; simp [unblocked, ReqGlue.windowUpdateAll, hj]
    · have hij : i = j := by simpa [benefits, h0] using hb
      subst hij
      simp [unblocked, ReqGlue.windowUpdateAll, ReqGlue.windowUpdateOne, h0, hj]

open HC.Proto.H2Window in
/-- only streams that have a buffer are touched (so `priority.unblock` is never asked about a stream it has lost) -/
theorem window_update_only_buffered (buffers : List Nat) (sid : Option Nat) (j : Nat) (h : j ∈ unblocked buffers sid) : j ∈ buffers := by
  cases sid with
  | none =>
    simp only [unblocked] at h
    split at h
    · exact h
    · split at h <;> simp at h
  | some i =>
    simp only [unblocked] at h
    split at h
    · exact h
    · split at h
      · rename_i h1
        simp only [Option.toList_some, List.mem_singleton] at h
        subst h
        simpa [ReqGlue.windowUpdateOne] using h1
      · simp at h

open HC.Proto.H2Window in
example : unblocked [1, 3, 5] (some 0) = [1, 3, 5] ∧ unblocked [1, 3, 5] (some 3) = [3] ∧ unblocked [1, 3, 5] (some 7) = [] := by decide

/-! ### HTTP/2 trailers: kept until the body has gone out, then sent as the one frame that ends the stream -/
open HC.Proto.H2Window in
/-- `stream_send(Trailers)` sends nothing by itself: it appends the fields to the stream buffer's `trailers`
    (h2 accepts trailers only as the frame that ends the stream) -/
theorem trailers_deferred :
    ReqGlue.trailersBranchCalls = ["self.stream_buffers[event.stream_id].trailers.extend(event.headers)"] := by decide

open HC.Proto.H2Window in
/-- **end-of-response exactly once, with or without trailers**: `_end_stream` makes exactly one h2 call and that call
    ends the stream — the HEADERS frame with the pending trailers and END_STREAM when there are any, the empty DATA
    frame with END_STREAM otherwise -/
theorem one_end_of_stream (n : Nat) :
    (endCalls n).length = 1 ∧
    (0 < n → endCalls n = ["send_headers(stream_id, trailers, end_stream=True)"]) ∧
    (n = 0 → endCalls n = ["end_stream(stream_id)"]) := by
  by_cases h : 0 < n
  · simp [endCalls, ReqGlue.endStreamTest, ReqGlue.endWithTrailers, h]; omega
  · have h0 : n = 0 := by omega
    subst h0
    simp [endCalls, ReqGlue.endStreamTest, ReqGlue.endWithoutTrailers]

/-- the trailer fields the protocol has been handed for a stream, in order (several `http.response.trailers`
    messages form the one trailing block HTTP/2 allows) -/
def pendingTrailers (evs : List Ev) : Headers :=
  (evs.filterMap (fun e => match e with | .trailers h => some h | _ => none)).flatten

/-- **trailers are emitted to an HTTP/2 client that sent `te: trailers`** (the converse of `trailers_gate`): in the
    TRAILERS state every `http.response.trailers` message whose headers validate hands exactly those fields to the
    protocol, and the last one (`more_trailers = False`) is followed by the end of the response -/
theorem trailers_emitted (s : S) (hs : List (HV × HV)) (vh : Headers) (more : Bool)
    (hv : s.version = "2") (hst : s.st = .trailers) (hte : teTrailers s = true) (hval : validateHeaders hs = .ok vh) :
    (appSend s (some (.trailers (some hs) more))).2.1 = (if more then [.trailers vh] else (sendClosed s [.trailers vh]).2.1) ∧
    pendingTrailers (appSend s (some (.trailers (some hs) more))).2.1 = vh := by
  have hin : inVersions s.version Consts.http_TRAILERS_VERSIONS = true := by
    rw [hv]; decide
  have hne : ¬ (s.st = .request) := by rw [hst]; decide
  cases more with
  | true => simp [appSend, hin, hst, hte, hval, pendingTrailers]
  | false =>
    have e : appSend s (some (.trailers (some hs) false)) = sendClosed s [.trailers vh] := by
      simp [appSend, hin, hst, hte, hval]
    rw [e]
    refine ⟨by simp, ?_⟩
    simp only [sendClosed]
    split <;> simp [pendingTrailers]

/-! ### what the libraries are handed -/
open HC.Proto.Heads

/-- **HTTP/1 head**: the application's headers in order, followed only by the server's own
    (`response_headers("h11")`), then `connection: close` iff the per-connection request maximum is reached -/
theorem h1_head (status : Nat) (app srv : Headers) (n mx : Nat) (hs : 200 ≤ status) :
    h11Response status app srv n mx =
      .final status (app ++ srv ++ (if n ≥ mx then [("connection".b, "close".b)] else [])) := by
  have : Guards.h11FinalStatusCmp.eval status 200 = true := by
    simp [Guards.h11FinalStatusCmp, Guards.Cmp.eval, hs]
  unfold h11Response
  rw [if_pos this]
  simp [Guards.h11KeepAliveCmp, Guards.Cmp.eval]

theorem h1_informational (status : Nat) (app srv : Headers) (n mx : Nat) (hs : status < 200) :
    h11Response status app srv n mx = .informational status (app ++ srv) := by
  have : ¬ Guards.h11FinalStatusCmp.eval status 200 = true := by
    simp [Guards.h11FinalStatusCmp, Guards.Cmp.eval]; omega
  unfold h11Response
  rw [if_neg this]

/-- **HTTP/2 head**: `:status`, the application's headers in order, then only the server's own -/
theorem h2_head (status : Nat) (app srv : Headers) :
    h2Headers status app srv = (":status".b, natBytes status) :: (app ++ srv) := rfl

/-- the server's own headers are date / server / alt-svc only (C19 `response_headers_spec`), so the application's
    headers are followed *only* by date / server / alt-svc / connection -/
theorem head_tail_names (c : Config.HeaderCfg) (date proto : Bytes) (status : Nat) (app : Headers) (n mx : Nat) (hs : 200 ≤ status) :
    ∃ tail, h11Response status app (Config.responseHeaders c date proto) n mx = .final status (app ++ tail) ∧
      ∀ h ∈ tail, h.1 = "date".b ∨ h.1 = "server".b ∨ h.1 = "alt-svc".b ∨ h.1 = "connection".b := by
  refine ⟨Config.responseHeaders c date proto ++ (if n ≥ mx then [("connection".b, "close".b)] else []), ?_, ?_⟩
  · rw [h1_head status app _ n mx hs]; simp
  · intro h hh
    rcases List.mem_append.mp hh with hh | hh
    · have := (HC.Props.C19.response_headers_spec c date proto).1 h hh
      rcases this with h1 | h1 | h1 <;> simp [h1]
    · split at hh <;> simp at hh; subst hh; simp

example : (feed { method := "GET", version := "1.1" } (wfApp 200 [(.bytes "x-a".b, .bytes "1".b)] ["ab".b, [], "c".b])).2 =
    [.response 200 [("x-a".b, "1".b)], .body "ab".b, .body "c".b, .endBody, .access (some 200), .streamClosed] := by decide
example : (feed { method := "HEAD", version := "1.1" } (wfApp 200 [] ["ab".b])).2 =
    [.response 200 [], .endBody, .access (some 200), .streamClosed] := by decide

/-! ### HTTP/2 end to end: application messages → stream events → send path → frames on the wire -/
section H2
open HC.Proto.H2Wire HC.Proto.H2Send HC.Proto.Heads

/-- the source facts the contents wrapper rests on (read off `h2.py` by `tools/extract_req.py`): the response head is
    `send_headers(stream_id, [(":status", …)] + event.headers + response_headers("h2"))`; what `_send_data` pops is what it hands
    to `send_data`; `StreamBuffer.push` extends the buffer at the back, `pop` takes `buffer[:length]` from the front -/
theorem h2_contents_assumed :
    ReqGlue.h2HeadArgs = ["event.stream_id", "[(b':status', b'%d' % event.status_code)] + event.headers + self.config.response_headers('h2')"] ∧
    ReqGlue.sendDataArgs = ["data", "stream_id", "data"] ∧
    ReqGlue.bufferFifo = ["self.buffer.extend(data)", "length = min(len(self.buffer), max_length)", "data = bytes(self.buffer[:length])",
                          "del self.buffer[:length]"] := by decide

/-- the frame that ends a stream is the trailers HEADERS frame exactly when trailers are pending -/
theorem end_frame_spec (t : Headers) : endFrame t = (if t = [] then Frame.endStream else Frame.trailersEnd t) := by
  cases t <;> simp [endFrame, ReqGlue.endStreamTest]

/-- **the send path with contents refines the send path of C08/C09**: the `H2Send` component of every wrapped run is an
    `H2Send` run from `init` that meets `opOk` — so it is `Reachable`, and every theorem of C08/C09 applies to it -/
theorem wire_refines (srv : Headers) (cw : Int) (mf : Nat) (hmf : 0 < mf) (ops : List GOp) (g : G)
    (hok : gAllOk srv (ginit cw mf) ops) (hr : grun srv (ginit cw mf) ops = some g) :
    runOk (init cw mf) (ops.flatMap proj) = some g.s ∧ HC.Props.C09.allOk (init cw mf) (ops.flatMap proj) ∧ HC.Props.C09.Reachable g.s :=
  ⟨(run_proj srv ops _ _ hok hr).1, (run_proj srv ops _ _ hok hr).2, run_reachable srv cw mf hmf ops g hok hr⟩

/-- the contents model never disagrees with the byte counters: what `bufB` holds for a stream is as long as `H2Send` says its
    buffer is, and — while the connection is open and the stream not reset — DATA written ++ bytes buffered = bytes handed
    over (FIFO: nothing reordered, nothing lost, nothing invented) -/
theorem fifo (srv : Headers) (cw : Int) (mf : Nat) (hmf : 0 < mf) (ops : List GOp) (g : G)
    (hok : gAllOk srv (ginit cw mf) ops) (hr : grun srv (ginit cw mf) ops = some g) (i : Nat) :
    (g.bufB i).length = (g.s.str i).buf ∧
    (g.s.closed = false → (g.s.str i).libClosed = false → ph (g.hist i) ≠ 9 →
      dataOf (wireOf i g.out) ++ g.bufB i = bodyOf (g.hist i)) := by
  have hp := p_run srv ops _ g (p_init srv cw mf hmf) hok hr
  exact ⟨hp.len i, fun h1 h2 h3 => (hp.str i ⟨h1, h2, h3⟩).jd⟩

/-- **HTTP/2 response delivery, for every schedule.**  Take any schedule `ops` of the send path — any interleaving of
    the stream events of any number of streams with WINDOW_UPDATE / SETTINGS / PRIORITY frames, the send task's picks
    (whatever unblocked stream the priority tree hands out), its suspensions inside `_send_data`, and the wake-ups of waiting
    senders — in which the stream events of stream `i` are those of one response: head `(status, vh)`, body chunks `ds` (any
    number, any sizes: beyond the frame size, beyond the windows), trailers `ts`, end of body (and stream closed).  If the
    schedule ends with the send task quiescent, the connection open, the stream not reset and credit available on the
    stream and the connection, then the client has been sent on stream `i` **exactly**:
    one HEADERS frame `:status ++ vh ++ server headers`, then DATA frames whose payloads concatenate to `ds.flatten`,
    then exactly one frame that ends the stream — the empty DATA frame with END_STREAM, or, when there are trailers, the
    HEADERS frame carrying all of them and END_STREAM — and nothing else. -/
theorem h2_response_delivered (srv : Headers) (cw : Int) (mf : Nat) (hmf : 0 < mf) (ops : List GOp) (g : G)
    (hok : gAllOk srv (ginit cw mf) ops) (hr : grun srv (ginit cw mf) ops = some g)
    (i status : Nat) (vh : Headers) (ds : List Bytes) (ts : List Headers) (closed : Bool)
    (happ : appOps i ops = script status vh ds ts closed)
    (hq : HC.Props.C09.taskQuiescent g.s) (hc : g.s.closed = false) (hl : (g.s.str i).libClosed = false)
    (hw : 0 < (g.s.str i).window) (hcw : 0 < g.s.connWin) :
    ∃ frames : List Bytes,
      wireOf i g.out = [.headers (h2Headers status vh srv)] ++ frames.map Frame.data ++ [endFrame ts.flatten] ∧
      frames.flatten = ds.flatten := by
  have hp := p_run srv ops _ g (p_init srv cw mf hmf) hok hr
  have hreach := run_reachable srv cw mf hmf ops g hok hr
  have hh : g.hist i = (script status vh ds ts closed).reverse := by
    have := run_hist srv i ops _ g hr
    simpa [happ, ginit] using this
  obtain ⟨r1, r2, r3, r4, r5⟩ := script_read srv status vh ds ts closed
  rw [← hh] at r1 r2 r3 r4 r5
  have jj := hp.str i ⟨hc, hl, r2⟩
  have hne : g.hist i ≠ [] := by intro h0; rw [h0] at r1; simp [ph] at r1
  have ho : (g.s.str i).opened = true := by
    cases h : (g.s.str i).opened
    · exact absurd (jj.jopen h) hne
    · rfl
  obtain ⟨d1, d2, d3⟩ := HC.Props.C09.delivered_when_quiescent g.s hreach hq hc i ho hl hw hcw
  have hcpl : (g.s.str i).complete = true := jj.jc.mpr r1
  have hend : (g.s.str i).ended = true := d3.mpr hcpl
  have hb : g.bufB i = [] := by
    have := hp.len i
    rw [d1] at this
    exact List.eq_nil_of_length_eq_zero this
  have hd := jj.jd
  rw [hb, List.append_nil, r3] at hd
  have he := jj.je
  rw [hend, r4] at he
  simp only [if_true] at he
  have hhd := jj.jh
  rw [r5] at hhd
  obtain ⟨f1, f2⟩ := filter_isData (wireOf i g.out)
  refine ⟨payloads (wireOf i g.out), ?_, by rw [f2, hd]⟩
  have hs := jj.js
  unfold Sorted at hs
  rw [hhd, f1, he] at hs
  exact hs

theorem evOps_append (a b : List Ev) : evOps (a ++ b) = evOps a ++ evOps b := by
  induction a with
  | nil => rfl
  | cons x xs ih => cases x <;> simp [evOps, ih]

theorem evOps_bodies (l : List Bytes) : evOps (l.map Ev.body) = l.map AOp.body := by
  induction l with
  | nil => rfl
  | cons x xs ih => simp [evOps, ih]

/-- the events of a well-behaved application (C02 `events_of_wf_app`) are, for `stream_send`, the script of one response -/
theorem wf_app_script (method : String) (status : Nat) (vh : Headers) (chunks : List Bytes) :
    evOps (specEvents method status vh chunks) =
      script status vh (if Guards.suppressBody method status then [] else chunks.filter nonEmpty) [] true := by
  simp only [specEvents, evOps_append, script]
  by_cases hs : Guards.suppressBody method status = true <;> simp [hs, evOps, evOps_bodies]

/-- **C02 over HTTP/2, end to end in the model**: for every final status, every header list that validates, every
    chunking of the body (any number of chunks, empty ones included, any sizes) and every schedule of the send path in
    which the application of stream `i` sends `http.response.start` + its body messages through its `HTTPStream`
    (`Http.feed`, the model of `app_send`), a schedule that ends quiescent with credit, the stream not reset and the
    connection open: the client is sent one HEADERS frame `:status ++ validated app headers ++ server headers`, then DATA
    whose concatenation is exactly the concatenation of the chunks (nothing when the body must be suppressed), then
    exactly one empty DATA frame with END_STREAM — and nothing else on that stream. -/
theorem h2_response_end_to_end (s0 : S) (status : Nat) (hs : List (HV × HV)) (vh : Headers) (chunks : List Bytes)
    (h0 : s0.st = .request) (hv : validateHeaders hs = .ok vh)
    (srv : Headers) (cw : Int) (mf : Nat) (hmf : 0 < mf) (ops : List GOp) (g : G)
    (hok : gAllOk srv (ginit cw mf) ops) (hr : grun srv (ginit cw mf) ops = some g) (i : Nat)
    (happ : appOps i ops = evOps (feed s0 (wfApp status hs chunks)).2)
    (hq : HC.Props.C09.taskQuiescent g.s) (hc : g.s.closed = false) (hl : (g.s.str i).libClosed = false)
    (hw : 0 < (g.s.str i).window) (hcw : 0 < g.s.connWin) :
    ∃ frames : List Bytes,
      wireOf i g.out = [.headers ((":status".b, natBytes status) :: (vh ++ srv))] ++ frames.map Frame.data ++ [.endStream] ∧
      frames.flatten = (if Guards.suppressBody s0.method status then [] else chunks.flatten) := by
  rw [(events_of_wf_app s0 status hs vh chunks h0 hv).1, wf_app_script] at happ
  obtain ⟨frames, h1, h2⟩ := h2_response_delivered srv cw mf hmf ops g hok hr i status vh _ [] true happ hq hc hl hw hcw
  refine ⟨frames, ?_, ?_⟩
  · simpa [endFrame, ReqGlue.endStreamTest, h2Headers] using h1
  · rw [h2]
    by_cases hsup : Guards.suppressBody s0.method status = true
    · simp [hsup]
    · simp only [hsup]
      exact flatten_filter_ne chunks

/-- the `http.response.trailers` messages of a well-behaved application: every one but the last with `more_trailers=True` -/
def trailerMsgs : List (List (HV × HV)) → List (Option Msg)
  | [] => []
  | [t] => [some (.trailers (some t) false)]
  | t :: rest => some (.trailers (some t) true) :: trailerMsgs rest

/-- an application that announces trailers (`"trailers": True` in `http.response.start`), sends its body, then its trailers -/
def wfAppT (status : Nat) (hs : List (HV × HV)) (chunks : List Bytes) (trs : List (List (HV × HV))) : List (Option Msg) :=
  some (.start (some status) (some hs) true) :: (bodyMsgs chunks ++ trailerMsgs trs)

/-- every trailer list validates (`build_and_validate_headers` per message) -/
def validateAll : List (List (HV × HV)) → Except PyErr (List Headers)
  | [] => .ok []
  | t :: rest => do
    let v ← validateHeaders t
    let r ← validateAll rest
    pure (v :: r)

theorem feed_append (s : S) (a b : List (Option Msg)) :
    feed s (a ++ b) = ((feed (feed s a).1 b).1, (feed s a).2 ++ (feed (feed s a).1 b).2) := by
  induction a generalizing s with
  | nil => simp [feed]
  | cons m ms ih => simp only [List.cons_append, feed, ih, List.append_assoc]

private theorem feed_bodies_t (s : S) (status : Nat) (hst : s.st = .response) (hr : s.response = some (status, true)) :
    ∀ chunks : List Bytes,
      (feed s (bodyMsgs chunks)).2 = (if Guards.suppressBody s.method status then [] else (chunks.filter nonEmpty).map Ev.body) ∧
      (feed s (bodyMsgs chunks)).1 = { s with st := .trailers } := by
  intro chunks
  induction chunks with
  | nil =>
    by_cases hs : Guards.suppressBody s.method status = true <;>
      simp [bodyMsgs, feed, appSend, hst, hr, bodyEv, hs]
  | cons c rest ih =>
    cases rest with
    | nil =>
      simp only [bodyMsgs, feed, appSend, hst, hr]
      by_cases hs : Guards.suppressBody s.method status = true
      · simp [hs]
      · cases c with
        | nil => simp [hs, bodyEv, nonEmpty]
        | cons x xs => simp [hs, bodyEv, nonEmpty]
    | cons c2 rest2 =>
      have step : appSend s (some (.body (some (.bytes c)) true)) =
          (s, (if Guards.suppressBody s.method status then [] else if c = [] then [] else [Ev.body c]), none) := by
        simp only [appSend, hst, hr]
        by_cases hs : Guards.suppressBody s.method status = true
        · simp [hs]
        · cases c <;> simp [hs, bodyEv]
      have hb : bodyMsgs (c :: c2 :: rest2) = some (.body (some (.bytes c)) true) :: bodyMsgs (c2 :: rest2) := rfl
      rw [hb]
      simp only [feed, step]
      obtain ⟨ih1, ih2⟩ := ih
      refine ⟨?_, ih2⟩
      rw [ih1]
      by_cases hs : Guards.suppressBody s.method status = true
      · simp [hs]
      · cases c <;> simp [hs, List.filter_cons, nonEmpty]

private theorem feed_trailers (s : S) (status : Nat) (b : Bool) (hst : s.st = .trailers) (hv : s.version = "2") (hr : s.response = some (status, b)) :
    ∀ (trs : List (List (HV × HV))) (tvs : List Headers), validateAll trs = .ok tvs → trs ≠ [] →
      (feed s (trailerMsgs trs)).2 = (if teTrailers s then tvs.map Ev.trailers else []) ++ [.endBody, .access (some status), .streamClosed] := by
  have hin : inVersions s.version Consts.http_TRAILERS_VERSIONS = true := by rw [hv]; decide
  have hne : ¬ (s.st = .request) := by rw [hst]; decide
  intro trs
  induction trs with
  | nil => intro _ _ h; exact absurd rfl h
  | cons t ts ih =>
    intro tvs hf _
    simp only [validateAll, bind, Except.bind, pure, Except.pure] at hf
    cases htv : validateHeaders t with
    | error e => simp [htv] at hf
    | ok v =>
      cases hrest : validateAll ts with
      | error e => simp [htv, hrest] at hf
      | ok vs =>
        simp only [htv, hrest, Except.ok.injEq] at hf
        subst hf
        cases ts with
        | nil =>
          simp only [validateAll, Except.ok.injEq] at hrest
          subst hrest
          by_cases hte : teTrailers s = true
          · simp [trailerMsgs, feed, appSend, hin, hst, hte, htv, sendClosed, hr]
          · simp [trailerMsgs, feed, appSend, hin, hst, hte, sendClosed, hr]
        | cons t2 ts2 =>
          have ih' := ih vs hrest (by simp)
          have hm : trailerMsgs (t :: t2 :: ts2) = some (.trailers (some t) true) :: trailerMsgs (t2 :: ts2) := rfl
          rw [hm]
          by_cases hte : teTrailers s = true
          · have step : appSend s (some (.trailers (some t) true)) = (s, [.trailers v], none) := by
              simp [appSend, hin, hst, hte, htv]
            simp only [feed, step, ih', hte, if_true]
            simp
          · have step : appSend s (some (.trailers (some t) true)) = (s, [], none) := by
              simp [appSend, hin, hst, hte]
            simp only [feed, step, ih', hte]
            simp

/-- **response events with trailers**: for an HTTP/2 request, every status, header list and trailer lists that validate,
    every chunking: one response head, the non-empty chunks in order, then — iff the client sent `te: trailers` — the
    trailers of every `http.response.trailers` message in order, then end-of-body, the access record and stream-closed -/
theorem events_of_wf_app_trailers (s : S) (status : Nat) (hs : List (HV × HV)) (vh : Headers) (chunks : List Bytes)
    (trs : List (List (HV × HV))) (tvs : List Headers)
    (h0 : s.st = .request) (hver : s.version = "2") (hv : validateHeaders hs = .ok vh)
    (htv : validateAll trs = .ok tvs) (hne : trs ≠ []) :
    (feed s (wfAppT status hs chunks trs)).2 =
      [.response status vh] ++ (if Guards.suppressBody s.method status then [] else (chunks.filter nonEmpty).map Ev.body) ++
      (if teTrailers s then tvs.map Ev.trailers else []) ++ [.endBody, .access (some status), .streamClosed] := by
  have hstart : appSend s (some (.start (some status) (some hs) true)) =
      ({ s with response := some (status, true), st := .response }, [.response status vh], none) := by
    simp [appSend, h0, hv]
  simp only [wfAppT, feed, hstart, feed_append]
  obtain ⟨h1, h2⟩ := feed_bodies_t { s with response := some (status, true), st := .response } status rfl rfl chunks
  rw [h1, h2]
  have h3 := feed_trailers { s with response := some (status, true), st := .trailers } status true rfl hver rfl trs tvs htv hne
  rw [h3]
  simp [teTrailers]


theorem evOps_trailers (l : List Headers) : evOps (l.map Ev.trailers) = l.map AOp.trailers := by
  induction l with
  | nil => rfl
  | cons x xs ih => simp [evOps, ih]

/-- **C02 over HTTP/2 with trailers, end to end in the model**: as `h2_response_end_to_end`, for an application that announces
    and sends trailers.  To a client that sent `te: trailers` the stream is ended by the HEADERS frame carrying the trailers of
    all `http.response.trailers` messages, in order, and END_STREAM (the one trailing block HTTP/2 allows); to any other client
    by the empty DATA frame with END_STREAM, the trailers being dropped — after one HEADERS frame and DATA equal to the chunks -/
theorem h2_response_trailers_end_to_end (s0 : S) (status : Nat) (hs : List (HV × HV)) (vh : Headers) (chunks : List Bytes)
    (trs : List (List (HV × HV))) (tvs : List Headers)
    (h0 : s0.st = .request) (hver : s0.version = "2") (hv : validateHeaders hs = .ok vh) (htv : validateAll trs = .ok tvs) (hne : trs ≠ [])
    (srv : Headers) (cw : Int) (mf : Nat) (hmf : 0 < mf) (ops : List GOp) (g : G)
    (hok : gAllOk srv (ginit cw mf) ops) (hr : grun srv (ginit cw mf) ops = some g) (i : Nat)
    (happ : appOps i ops = evOps (feed s0 (wfAppT status hs chunks trs)).2)
    (hq : HC.Props.C09.taskQuiescent g.s) (hc : g.s.closed = false) (hl : (g.s.str i).libClosed = false)
    (hw : 0 < (g.s.str i).window) (hcw : 0 < g.s.connWin) :
    ∃ frames : List Bytes,
      wireOf i g.out = [.headers ((":status".b, natBytes status) :: (vh ++ srv))] ++ frames.map Frame.data ++
        [endFrame (if teTrailers s0 then tvs.flatten else [])] ∧
      frames.flatten = (if Guards.suppressBody s0.method status then [] else chunks.flatten) := by
  rw [events_of_wf_app_trailers s0 status hs vh chunks trs tvs h0 hver hv htv hne] at happ
  have hscript : evOps ([Ev.response status vh] ++ (if Guards.suppressBody s0.method status then [] else (chunks.filter nonEmpty).map Ev.body) ++
      (if teTrailers s0 then tvs.map Ev.trailers else []) ++ [.endBody, .access (some status), .streamClosed]) =
      script status vh (if Guards.suppressBody s0.method status then [] else chunks.filter nonEmpty) (if teTrailers s0 then tvs else []) true := by
    simp only [evOps_append, script]
    by_cases hs1 : Guards.suppressBody s0.method status = true <;> by_cases hs2 : teTrailers s0 = true <;>
      simp [hs1, hs2, evOps, evOps_bodies, evOps_trailers]
  rw [hscript] at happ
  obtain ⟨frames, h1, h2⟩ := h2_response_delivered srv cw mf hmf ops g hok hr i status vh _ _ true happ hq hc hl hw hcw
  refine ⟨frames, ?_, ?_⟩
  · rw [h1]
    by_cases hs2 : teTrailers s0 = true <;> simp [hs2, h2Headers]
  · rw [h2]
    by_cases hsup : Guards.suppressBody s0.method status = true
    · simp [hsup]
    · simp only [hsup]
      exact flatten_filter_ne chunks


/-- non-vacuity: a small window (5) and frame size (4), a stall at the exhausted window, credit, trailers: the hypotheses of
    `h2_response_delivered` hold at the end of this schedule and the wire is as the theorem says -/
def exOps : List GOp :=
  [.low (.open_ 1 5), .head 1 200 [("x-a".b, "1".b)], .body 1 "abcdef".b, .low (.pick 1), .low (.sent 1), .low (.pick 1), .low (.sent 1),
   .low (.pick 1), .body 1 "gh".b, .trailers 1 [("x-t".b, "v".b)], .low (.end_ 1), .low (.pick 1), .low .park, .low (.winStream 1 100), .low .wake,
   .low (.pick 1), .low (.sent 1), .low (.endSent 1), .low (.drainWake 1), .low (.abandon 1), .low .park, .low .wake, .low .park]

example : ∃ g, grun [("server".b, "h".b)] (ginit 65535 4) exOps = some g ∧
    g.s.task = .parked ∧ g.s.hasData = false ∧ g.s.closed = false ∧ (g.s.str 1).libClosed = false ∧ 0 < (g.s.str 1).window ∧ 0 < g.s.connWin ∧
    appOps 1 exOps = script 200 [("x-a".b, "1".b)] ["abcdef".b, "gh".b] [[("x-t".b, "v".b)]] true ∧
    wireOf 1 g.out = [.headers [(":status".b, "200".b), ("x-a".b, "1".b), ("server".b, "h".b)], .data "abcd".b, .data "e".b, .data "fgh".b,
                      .trailersEnd [("x-t".b, "v".b)]] := by
  refine ⟨_, rfl, ?_⟩
  decide

end H2

/-! ### the response to an h2c upgrade request has a stream to travel on -/

/-- **an `Upgrade: h2c` request always gets stream 1**: `H2Protocol.initiate` - its test is read off the source
    (`H2Init.upgradePath`) - takes h2's upgrade entry point, the only one that creates stream 1 (half-closed for the client),
    for EVERY HTTP2-Settings value the HTTP/1 side hands over: the client's real settings and the empty string of an empty
    or absent header alike.  On `initiate_connection()` instead, h2 refuses every send on stream 1 and the client gets the
    101, the server preface and nothing of the response. -/
theorem h2c_response_has_a_stream (settings : Bytes) : HC.Extracted.H2Init.upgradePath (some settings) = true := by
  simp [HC.Extracted.H2Init.upgradePath]

/-- prior knowledge and ALPN (`initiate()` without settings) start a plain connection: the client opens its own streams -/
theorem prior_knowledge_opens_no_stream : HC.Extracted.H2Init.upgradePath none = false := by
  simp [HC.Extracted.H2Init.upgradePath]

/-- the HTTP/1 side hands over a value (the empty one when there is no HTTP2-Settings header), never `None` -/
theorem h2c_settings_always_given : HC.Extracted.H2Init.h2cSettingsDefaultEmpty = true := rfl

/-! ### a response that takes longer than `keep_alive_timeout` ("every pace")

The keep-alive time-out is about idle connections; the timed connection model and its invariant are C07's
(`HC.Conn.Server`, `HC.Props.C07`).  What C02 needs of them: while a response is in progress the idle timer is not armed, so
however long the application pauses between its messages (or the client takes to read them) that timer cannot close the
connection under the response - on every carrier, the cleartext prior-knowledge switch included, whose `Updated(idle=True)`
is the one idle report sent without looking at the streams (its place in `ProtocolWrapper.handle` is extracted). -/
section Slow
open HC.Conn

/-- a request on a registered HTTP stream the peer has not abandoned whose response has not ended is what C07 calls busy -/
theorem response_in_progress_is_busy (s : Conn.St) (i : Nat) (hl : i ∈ s.live) (hk : (s.inst i).kind = Conn.Kind.http)
    (hc : (s.inst i).closed = false) (he : (s.inst i).respEnded = false) : s.busy = true := by
  simp only [St.busy, List.any_eq_true]
  exact ⟨i, hl, by simp [Inst.busy, hk, hc, he]⟩

/-- **a slow response is not cut off by the keep-alive timer**: in every reachable state of the connection model (every
    configuration: protocol, worker, every `keep_alive_timeout`; every operation sequence: any carrier, any split of the
    first bytes) in which a response is in progress, the idle timer is not armed, its firing is not enabled, and any
    amount of time may pass without that changing the state otherwise -/
theorem slow_response_not_timed_out (cfg : Conn.Cfg) (ops : List Conn.Op) (s : Conn.St) (hr : run (init cfg) ops = some s) (i : Nat)
    (hl : i ∈ s.live) (hk : (s.inst i).kind = Conn.Kind.http) (hc : (s.inst i).closed = false) (he : (s.inst i).respEnded = false) :
    s.timer = none ∧ step s .timerFire = none ∧ ∀ d, step s (.tick d) = some { s with now := s.now + d } := by
  have hb := response_in_progress_is_busy s i hl hk hc he
  have ht : s.timer = none := by
    cases h : s.timer with
    | none => rfl
    | some dl =>
      have := HC.Props.C07.timer_armed_implies_not_busy cfg ops s hr (by simp [h])
      simp [hb] at this
  refine ⟨ht, ?_, ?_⟩
  · simp [step, ht]
  · intro d
    simp [step, ht]

/-- the cleartext prior-knowledge switch reports the connection idle BEFORE it hands over the bytes that followed the preface
    (extracted from `ProtocolWrapper.handle`): a request among them - the usual first flight of an HTTP/2 client: preface,
    SETTINGS and HEADERS in one segment - stops the timer afterwards; reported after them, the report would arm the timer
    under that request's response (the model's `lateIdle` branch, which the invariant does not survive) -/
theorem prior_switch_reports_idle_before_the_request : HC.Extracted.ConnGuards.priorIdleBeforeData = true := by decide

/-- non-vacuity: prior knowledge with the request head and the end of the request in the read of the preface, the first part
    of the response sent, then three time-outs of silence from the application: the hypotheses of `slow_response_not_timed_out`
    hold (stream 0 registered, not abandoned, its response not ended), the timer is off, nothing is closed; the connection
    is closed one time-out after the response has ended -/
example : (run (init { proto := .h2, T := 5000 }) [.read, .h2prior, .head {}, .h2eom 0, .needData, .appRecv 0, .appSend 0 (.start false),
      .appSend 0 (.body true true), .tick 15000]).map
    (fun s => (s.live, (s.inst 0).kind == .http, (s.inst 0).closed, (s.inst 0).respEnded)) = some ([0], true, false, false) := by decide
example : (run (init { proto := .h2, T := 5000 }) [.read, .h2prior, .head {}, .h2eom 0, .needData, .appRecv 0, .appSend 0 (.start false),
      .appSend 0 (.body true true), .tick 15000]).map
    (fun s => (s.timer, s.closedByServer, s.now)) = some (none, false, 15000) := by decide
example : (run (init { proto := .h2, T := 5000 }) [.read, .h2prior, .head {}, .h2eom 0, .needData, .appRecv 0, .appSend 0 (.start false),
      .appSend 0 (.body true true), .tick 15000, .appSend 0 (.body false true), .resume (.app 0), .appExit 0, .tick 5000, .timerFire]).map
    (fun s => (s.closeAt, (s.inst 0).respEnded)) = some (some 20000, true) := by decide

end Slow

end HC.Props.C02
