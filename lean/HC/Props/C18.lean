import HC.Lib.H11Buf
import HC.Proto.H2Lim
import HC.Worker.Recycle
import HC.Proto.H11Dead
import HC.Props.C15
/-!
# C18 — Configured limits and worker recycling are enforced against any client

Property theorems only.  Models: `HC/Lib/H11Buf.lean` (h11's incomplete-event rule), `HC/Proto/H11.lean` + `H11M`
(HTTP/1 glue, shared with C06), `HC/Proto/H2Lim.lean` (HTTP/2 settings, request counter, what h2 refuses),
`HC/Worker/Recycle.lean` + `HC/Worker/Run.lean` (request budget, `mark_request`, the exit path).
Every comparator, counter increment, start value, settings-table entry and `randint` bound is taken from
`HC.Extracted` (regenerated from the source and from the installed h11 / hpack / h2 on every run); the proofs unfold
them, so a changed comparator re-opens the proof.
-/
namespace HC.Props.C18
open HC HC.Extracted HC.Extracted.Guards

/-! ## 1. `h11_max_incomplete_size`: the library rule, for every limit, head length and segmentation -/
section incomplete
open HC.Lib.H11Buf

/-- `next_event()` on an incomplete head: `> L` buffered bytes raise with the 431 hint, `≤ L` keep waiting; a complete
    head is delivered whatever its length -/
theorem nextEvent_spec (L H b : Nat) :
    nextEvent L H b = (if H ≤ b then Res.head else if L < b then Res.tooLarge 431 else Res.needData) := by
  simp [nextEvent, Limits.h11LibIncompleteCmp, Limits.h11LibIncompleteHint, Cmp.eval]

/-- the hint is a 4xx status -/
theorem hint_is_4xx : 400 ≤ Limits.h11LibIncompleteHint ∧ Limits.h11LibIncompleteHint < 500 := by decide

/-- **keeps waiting**: as long as the buffered part of the head is at most `L` bytes (and incomplete) no read raises -/
theorem feed_waits (L H : Nat) (rs : List Nat) : ∀ (b k : Nat), b + rs.sum < H → b + rs.sum ≤ L →
    feed L H b k rs = .waiting (b + rs.sum) := by
  induction rs with
  | nil => intro b k _ _; simp [feed]
  | cons r rs ih =>
    intro b k h1 h2
    simp only [List.sum_cons] at h1 h2
    have hne : nextEvent L H (b + r) = .needData := by
      rw [nextEvent_spec]; rw [if_neg (by omega), if_neg (by omega)]
    simp only [feed, hne]
    rw [ih (b + r) (k + 1) (by omega) (by omega)]
    simp only [List.sum_cons]; congr 1; omega

/-- **rejected**: the first read that leaves more than `L` bytes of a still incomplete head in the buffer raises
    (hint 431), whatever came before and whatever would follow — inside a read or exactly at a read boundary -/
theorem feed_rejects (L H r : Nat) (pre post : List Nat) : ∀ (b k : Nat),
    b + pre.sum ≤ L → L < b + pre.sum + r → b + pre.sum + r < H →
    feed L H b k (pre ++ r :: post) = .rejected (k + pre.length) (b + pre.sum + r) := by
  induction pre with
  | nil =>
    intro b k _ h2 h3
    simp only [List.sum_nil, Nat.add_zero] at h2 h3
    have : nextEvent L H (b + r) = .tooLarge 431 := by
      rw [nextEvent_spec]; rw [if_neg (by omega), if_pos (by omega)]
    simp [feed, this]
  | cons p pre ih =>
    intro b k h1 h2 h3
    simp only [List.sum_cons] at h1 h2 h3
    have hne : nextEvent L H (b + p) = .needData := by
      rw [nextEvent_spec]; rw [if_neg (by omega), if_neg (by omega)]
    simp only [List.cons_append, feed, hne]
    rw [ih (b + p) (k + 1) (by omega) (by omega) (by omega)]
    simp only [List.length_cons, List.sum_cons]; congr 1 <;> omega

/-- **accepted**: a head whose last missing bytes arrive in a read is delivered when no earlier read left more than
    `L` incomplete bytes — in particular a head of any length that arrives complete in one read (`pre = []`) -/
theorem feed_accepts (L H r : Nat) (pre post : List Nat) : ∀ (b k : Nat),
    b + pre.sum ≤ L → b + pre.sum < H → H ≤ b + pre.sum + r →
    feed L H b k (pre ++ r :: post) = .accepted (k + pre.length) := by
  induction pre with
  | nil =>
    intro b k _ _ h3
    simp only [List.sum_nil, Nat.add_zero] at h3
    have : nextEvent L H (b + r) = .head := by rw [nextEvent_spec]; rw [if_pos (by omega)]
    simp [feed, this]
  | cons p pre ih =>
    intro b k h1 h2 h3
    simp only [List.sum_cons] at h1 h2 h3
    have hne : nextEvent L H (b + p) = .needData := by
      rw [nextEvent_spec]; rw [if_neg (by omega), if_neg (by omega)]
    simp only [List.cons_append, feed, hne]
    rw [ih (b + p) (k + 1) (by omega) (by omega) (by omega)]
    simp only [List.length_cons]; congr 1; omega

-- non-vacuity: limit 100, head of 200 bytes: 100 then 100 is accepted, 101 then 99 is rejected, 200 at once is accepted
example : feed 100 200 0 0 [100, 100] = .accepted 1 ∧ feed 100 200 0 0 [101, 99] = .rejected 0 101 ∧
    feed 100 200 0 0 [200] = .accepted 0 ∧ feed 0 60 0 0 [1, 59] = .rejected 0 1 ∧ feed 100 200 0 0 [60, 40] = .waiting 100 := by decide

end incomplete

/-! ## 2. worker recycling -/
section recycle
open HC.Worker HC.Worker.Recycle

private theorem markN_gt (sh : Shape) (hc : sh.cmp = .gt) (hi : sh.incr = 1) (m : Nat) : ∀ (n : Nat) (c : Ctx), c.max = some m →
    ((Ctx.markN sh n c).terminate = true ↔ (c.terminate = true ∨ (1 ≤ n ∧ m < c.requests + n))) ∧
    (Ctx.markN sh n c).requests = c.requests + n ∧ (Ctx.markN sh n c).max = some m := by
  intro n
  induction n with
  | zero => intro c hm; simp [Ctx.markN, hm]
  | succ n ih =>
    intro c hm
    have hmark : (c.mark sh).max = some m ∧ (c.mark sh).requests = c.requests + 1 ∧
        ((c.mark sh).terminate = true ↔ (c.terminate = true ∨ m < c.requests + 1)) := by
      simp [Ctx.mark, hm, hc, hi, Cmp.eval]
    obtain ⟨h1, h2, h3⟩ := hmark
    obtain ⟨i1, i2, i3⟩ := ih (c.mark sh) h1
    simp only [Ctx.markN]
    refine ⟨?_, by rw [i2, h2]; omega, i3⟩
    rw [i1, h3, h2]
    constructor
    · rintro ((h | h) | ⟨h, h'⟩)
      · exact Or.inl h
      · exact Or.inr ⟨by omega, by omega⟩
      · exact Or.inr ⟨by omega, by omega⟩
    · rintro (h | ⟨_, h⟩)
      · exact Or.inl (Or.inl h)
      · by_cases hn : 1 ≤ n
        · exact Or.inr ⟨hn, by omega⟩
        · exact Or.inl (Or.inr (by omega))

/-- the two worker classes as extracted from the current source -/
def Current (sh : Shape) : Prop := sh = Shape.asyncio ∨ sh = Shape.trio

private theorem current_facts (sh : Shape) (h : Current sh) : sh.cmp = .gt ∧ sh.incr = 1 ∧ sh.init = 0 ∧ sh.op = .add ∧ sh.lo = 0 := by
  rcases h with rfl | rfl <;> decide

/-- **`recycle_iff`**: for every base `max_requests`, every jitter and every value `j` that `randint(0, jitter)` can
    return, `terminate` is set after `n` requests **iff** `n > base + j` — both worker classes, extracted comparator,
    increment, start value, operator and `randint` bounds -/
theorem recycle_iff (sh : Shape) (hs : Current sh) (base jitter j : Nat) (_hj : drawn sh jitter j) (n : Nat) :
    (Ctx.markN sh n (Ctx.new sh (budget sh (some base) j))).terminate = true ↔ base + j < n := by
  obtain ⟨hc, hi, h0, hop, _⟩ := current_facts sh hs
  have hb : (Ctx.new sh (budget sh (some base) j)).max = some (base + j) := by
    simp [Ctx.new, budget, hop, JOp.apply]
  have := (markN_gt sh hc hi (base + j) n _ hb).1
  rw [this]
  simp only [Ctx.new, h0, Nat.zero_add]
  constructor
  · rintro (h | ⟨_, h⟩)
    · simp at h
    · exact h
  · intro h; exact Or.inr ⟨by omega, h⟩

/-- the request at which a worker starts its exit lies in the configured window: it is request number `base + j + 1`
    with `0 ≤ j ≤ jitter`: not before `base + 1`, not after `base + jitter + 1` -/
theorem recycle_window (sh : Shape) (hs : Current sh) (base jitter j : Nat) (hj : drawn sh jitter j) :
    (Ctx.markN sh (base + j) (Ctx.new sh (budget sh (some base) j))).terminate = false ∧
    (Ctx.markN sh (base + j + 1) (Ctx.new sh (budget sh (some base) j))).terminate = true ∧
    base + 1 ≤ base + j + 1 ∧ base + j + 1 ≤ base + jitter + 1 := by
  refine ⟨?_, (recycle_iff sh hs base jitter j hj _).2 (by omega), by omega, by have := hj.2; omega⟩
  have := recycle_iff sh hs base jitter j hj (base + j)
  cases h : (Ctx.markN sh (base + j) (Ctx.new sh (budget sh (some base) j))).terminate
  · rfl
  · have := this.1 h; omega

/-- `max_requests = None` (the default) switches recycling off: `terminate` is never set -/
theorem recycle_off (sh : Shape) : ∀ (n : Nat) (c : Ctx), c.max = none → c.terminate = false →
    (Ctx.markN sh n c).terminate = false := by
  intro n
  induction n with
  | zero => intro c _ ht; simpa [Ctx.markN] using ht
  | succ n ih =>
    intro c hm ht
    have : c.mark sh = c := by simp [Ctx.mark, hm]
    simp only [Ctx.markN, this]
    exact ih c hm ht

theorem recycle_off_config (sh : Shape) (j n : Nat) : (Ctx.markN sh n (Ctx.new sh (budget sh none j))).terminate = false :=
  recycle_off sh n _ (by simp [Ctx.new, budget]) (by simp [Ctx.new])

/-- the worker model of C14/C15 (`W.markRequest`) is this counter: same comparator, increment 1, start 0 -/
theorem markRequest_is_mark (s : W) (sh : Shape) (hs : Current sh) (hcmp : s.rt.recycleCmp = sh.cmp) :
    s.markRequest.triggerPending =
      (s.triggerPending || (Ctx.mark sh { max := s.cfg.maxRequests, requests := s.requests, terminate := false }).terminate) ∧
    s.markRequest.requests = (Ctx.mark sh { max := s.cfg.maxRequests, requests := s.requests, terminate := false }).requests := by
  obtain ⟨_, hi, _, _, _⟩ := current_facts sh hs
  cases hm : s.cfg.maxRequests <;> simp [W.markRequest, Ctx.mark, hm, hcmp, hi]

/-- the runtimes of the worker model carry the extracted comparators -/
theorem runtime_cmp : Runtime.asyncio.recycleCmp = Shape.asyncio.cmp ∧ Runtime.trio.recycleCmp = Shape.trio.cmp := ⟨rfl, rfl⟩

/-- **`recycle_starts_shutdown`**: while serving, the request that takes the worker over its budget makes the exit path
    the next action of `worker_serve`: `terminated` is set, the listeners are closed, the drain begins (from there on
    C15's theorems — orderly, bounded, then the lifespan shutdown — apply: they hold for every run, whatever set the
    trigger) -/
theorem recycle_starts_shutdown (s : W) (i m : Nat) (hp : s.phase = .serving) (hx : s.inExitWindow = false)
    (hm : s.cfg.maxRequests = some m) (hc : s.rt.recycleCmp = .gt) (hover : m < s.requests + 1) :
    (s.newScope i).triggerPending = true ∧
    (s.newScope i).srvStep = some (s.newScope i).beginShutdown ∧
    (s.newScope i).beginShutdown.terminated = true ∧ (s.newScope i).beginShutdown.listening = false ∧
    (s.newScope i).beginShutdown.g.triggerTime = some s.now ∧
    (∃ since, (s.newScope i).beginShutdown.phase = .draining since ∨ (s.newScope i).beginShutdown.phase = .closing) := by
  have htp : (s.newScope i).triggerPending = true := by
    simp [W.newScope, W.markRequest, hm, hc, Cmp.eval, hover]
  have hph : (s.newScope i).phase = .serving := by simp [W.newScope, W.markRequest, hp]
  have hxw : (s.newScope i).inExitWindow = false := by simpa [W.newScope, W.markRequest, W.inExitWindow] using hx
  refine ⟨htp, ?_, ?_, ?_, ?_, ?_⟩
  · simp [W.srvStep, hph, htp, hxw]
  · simp [W.beginShutdown]
  · simp [W.beginShutdown]
  · simp [W.beginShutdown, W.newScope, W.markRequest]
  · refine ⟨s.now, ?_⟩
    simp only [W.beginShutdown]
    split <;> simp [W.newScope, W.markRequest]

/-- … and below the budget nothing happens: the trigger stays as it was -/
theorem below_budget_no_trigger (s : W) (i m : Nat) (hm : s.cfg.maxRequests = some m) (hc : s.rt.recycleCmp = .gt)
    (hunder : s.requests + 1 ≤ m) : (s.newScope i).triggerPending = s.triggerPending := by
  have : ¬ (m < s.requests + 1) := by omega
  simp [W.newScope, W.markRequest, hm, hc, Cmp.eval, this]

/-- composition with C15 (`bounded`): a worker recycled by its request budget is back within
    `graceful_timeout + shutdown_timeout` of the instant `terminated` was set — for every run -/
theorem recycled_worker_returns (rt : Runtime) (hc : C15.Current rt) (cfg : Cfg) (base j : Nat) (script : List LAct) (cap : Nat)
    (ops : List Op) (s : W) (hr : run (W.init rt { cfg with maxRequests := some (base + j) } script cap) ops = some s)
    (t : Nat) (ht : s.g.triggerTime = some t) :
    (∀ r, s.g.returnTime = some r → r ≤ t + cfg.gracefulTimeout + cfg.shutdownTimeout) ∧
    (s.phase.terminal = false → s.now ≤ t + cfg.gracefulTimeout + cfg.shutdownTimeout) :=
  C15.bounded rt hc { cfg with maxRequests := some (base + j) } script cap ops s hr t ht

-- non-vacuity: base 1, j = 1 (jitter 2): the third request starts the exit, on the model of the whole worker too
example : (Ctx.markN Shape.trio 2 (Ctx.new Shape.trio (budget Shape.trio (some 1) 1))).terminate = false ∧
    (Ctx.markN Shape.trio 3 (Ctx.new Shape.trio (budget Shape.trio (some 1) 1))).terminate = true := by decide
example : (run (W.init .asyncio { C15.cfg0 with maxRequests := some 1 } C15.f18Script 10)
    [.app, .srv, .app, .srv, .connect .h1, .request 0 (some 0), .finish 0, .request 0 (some 2), .srv]).map
    (fun s => decide (s.terminated = true ∧ s.g.scopes = 2 ∧ s.listening = false)) = some true := by decide

/-- both `run.py` draw the jitter the same way and both `mark_request` count the same way (what `Current` fixes) -/
theorem recycle_shape_matches_source : Shape.asyncio = Shape.trio ∧ Shape.asyncio = { cmp := .gt, incr := 1, init := 0, op := .add, lo := 0 } ∧
    Limits.asyncioJitterHiSource = "max_requests_jitter" ∧ Limits.trioJitterHiSource = "max_requests_jitter" ∧
    Limits.asyncioRecycleOffWhenNone = true ∧ Limits.trioRecycleOffWhenNone = true ∧
    Limits.asyncioRecycleOffWhenConfigNone = true ∧ Limits.trioRecycleOffWhenConfigNone = true := by decide

/-- **where the protocols count a request** (extracted on every run): `await self.context.mark_request()` occurs exactly once
    in each protocol class, as an unconditional statement of `_create_stream` - the only method that constructs a stream
    object - and on HTTP/2 `_create_stream` is what received HEADERS (`_handle_events`), the HTTP/1.1 request of an
    `Upgrade: h2c` connection (`initiate`) and pushed streams (`_create_server_push`) all go through: whatever kind of
    connection brings a request, the application instance it starts has been counted -/
theorem mark_request_sites_match_source :
    Limits.h11MarkRequestIn = "_create_stream" ∧ Limits.h11MarkRequestUnconditional = true ∧ Limits.h11StreamConstructedIn = ["_create_stream"] ∧
    Limits.h2MarkRequestIn = "_create_stream" ∧ Limits.h2MarkRequestUnconditional = true ∧ Limits.h2StreamConstructedIn = ["_create_stream"] ∧
    "initiate" ∈ Limits.h2CreateStreamCallers ∧ "_handle_events" ∈ Limits.h2CreateStreamCallers ∧
    "_handle_events" ∈ Limits.h11CreateStreamCallers := by decide

/-- what one connection adds to the worker's counter: every stream it creates (justified by `mark_request_sites_match_source`).
    An `Upgrade: h2c` connection counts its HTTP/1.1 request (served on stream 1) and every further stream; a WebSocket
    handshake is a request like any other -/
inductive Conn where
  | h1 (requests : Nat)
  | h2 (streams : Nat)
  | h2c (furtherStreams : Nat)
  | ws
deriving Repr, DecidableEq

def Conn.taken : Conn → Nat
  | .h1 n => n
  | .h2 n => n
  | .h2c n => n + 1
  | .ws => 1

def taken (cs : List Conn) : Nat := (cs.map Conn.taken).sum

/-- **recycling counts over all connections of the worker, of every kind**: `terminate` is set iff the requests taken on over
    the whole history of connections exceed the budget -/
theorem recycle_over_connections (sh : Shape) (hs : Current sh) (base jitter j : Nat) (hj : drawn sh jitter j) (cs : List Conn) :
    (Ctx.markN sh (taken cs) (Ctx.new sh (budget sh (some base) j))).terminate = true ↔ base + j < taken cs :=
  recycle_iff sh hs base jitter j hj (taken cs)

/-- clients that only ever send `Upgrade: h2c` requests, one per connection, recycle the worker like everybody else -/
theorem recycle_h2c_only (sh : Shape) (hs : Current sh) (base jitter j : Nat) (hj : drawn sh jitter j) (n : Nat) :
    (Ctx.markN sh (taken (List.replicate n (Conn.h2c 0))) (Ctx.new sh (budget sh (some base) j))).terminate = true ↔ base + j < n := by
  have : taken (List.replicate n (Conn.h2c 0)) = n := by
    induction n with
    | zero => rfl
    | succ k ih => simp only [taken, List.replicate_succ, List.map_cons, List.sum_cons, Conn.taken] at ih ⊢; omega
  rw [this]
  exact recycle_iff sh hs base jitter j hj n

end recycle

/-! ## 3. HTTP/2: settings, refusals, the request maximum -/
section h2
open HC.Proto.H2Lim

/-- **`h2_settings_advertised`**: for every configuration the first SETTINGS frame carries
    MAX_CONCURRENT_STREAMS (3) = `h2_max_concurrent_streams`, MAX_HEADER_LIST_SIZE (6) = `h2_max_header_list_size`,
    ENABLE_CONNECT_PROTOCOL (8) = 1 (the extracted table), and the HPACK decoder enforces the same header-list limit it
    advertises -/
theorem h2_settings_advertised (c : Cfg) :
    advertised c = [(3, c.maxStreams), (6, c.maxHeaderList), (8, 1)] ∧ enforcedHeaderList c = some c.maxHeaderList := by
  constructor
  · have h1 : litNat "1" = some 1 := by decide
    simp [advertised, Limits.h2Settings, settingCode, Cfg.attr, h1]
  · simp [enforcedHeaderList, Limits.h2DecoderLimitSource, Cfg.attr]

/-- hpack's running check is a check of the whole list: field sizes only add up -/
theorem oversized_iff (limit : Nat) (fs : List Field) : ∀ acc, acc ≤ limit →
    (oversized limit fs acc = true ↔ limit < acc + listSize fs) := by
  induction fs with
  | nil => intro acc h; simp [oversized, listSize]; omega
  | cons f fs ih =>
    intro acc hacc
    simp only [oversized, Limits.hpackListCmp, Cmp.eval, listSize, List.map_cons, List.sum_cons]
    by_cases h : limit < acc + fieldSize f
    · simp [h]; omega
    · have := ih (acc + fieldSize f) (by omega)
      simp only [listSize] at this
      simp [h, this]; omega

/-- a field costs name + value + 32 -/
theorem fieldSize_spec (f : Field) : fieldSize f = f.1 + f.2 + 32 := by simp [fieldSize, Limits.hpackEntryOverhead]

/-- what h2 does with a HEADERS frame for a new stream, in terms of the configured limits (boundaries exact) -/
theorem recvFrame_spec (c : Cfg) (l : Lib) (f : Frame) :
    recvFrame c l f =
      (if l.closed = true then .error PROTOCOL_ERROR
       else if f.sid ≤ l.highest ∨ f.sid % 2 = 0 then .error PROTOCOL_ERROR
       else if c.maxStreams < l.opened.length + 1 then .error PROTOCOL_ERROR
       else if c.maxHeaderList < listSize f.fields then .error ENHANCE_YOUR_CALM
       else .ok { l with opened := l.opened ++ [f.sid], highest := f.sid }) := by
  have hov := oversized_iff c.maxHeaderList f.fields 0 (Nat.zero_le _)
  simp only [Nat.zero_add] at hov
  simp only [recvFrame, (h2_settings_advertised c).2, Limits.h2StreamsCmp, Limits.h2StreamsLhsPlus, Cmp.eval]
  by_cases h1 : l.closed = true
  · simp [h1]
  · by_cases h2 : f.sid ≤ l.highest ∨ f.sid % 2 = 0
    · rcases h2 with h2 | h2 <;> simp [h1, h2]
    · have h2a : ¬ f.sid ≤ l.highest := fun h => h2 (Or.inl h)
      have h2b : ¬ f.sid % 2 = 0 := fun h => h2 (Or.inr h)
      by_cases h3 : c.maxStreams < l.opened.length + 1
      · simp [h1, h2a, h2b, h3]
      · by_cases h4 : c.maxHeaderList < listSize f.fields
        · simp [h1, h2a, h2b, h3, hov.2 h4, h4]
        · have : oversized c.maxHeaderList f.fields 0 = false := by
            cases ho : oversized c.maxHeaderList f.fields 0
            · rfl
            · exact absurd (hov.1 ho) h4
          simp [h1, h2a, h2b, h3, this, h4]

/-- when `receive_data` raises, the read hands no event to hypercorn: nothing of it reaches an application -/
theorem step_read_error (c : Cfg) (s : St) (fs : List Frame) (l : Lib) (code : Nat) (hu : s.upClosed = false)
    (h : recvAll c s.lib fs [] = .error (l, code)) :
    (step c s (.read fs)).served = s.served ∧ (step c s (.read fs)).pushed = s.pushed ∧ (step c s (.read fs)).upClosed = true ∧
    (step c s (.read fs)).lib.closed = true ∧ (step c s (.read fs)).goaways = s.goaways ++ [(l.highest, code)] := by
  simp [step, hu, h]

private theorem recvAll_error_of_first (c : Cfg) (l : Lib) (f : Frame) (fs : List Frame) (acc : List Nat) (code : Nat)
    (h : recvFrame c l f = .error code) : recvAll c l (f :: fs) acc = .error (l, code) := by
  simp [recvAll, h]

/-- **`h2_excess_stream_refused`**: with `h2_max_concurrent_streams` streams open, a HEADERS frame for one more never
    reaches an application: the read fails as a whole (GOAWAY PROTOCOL_ERROR, `Closed`) — against a client that ignores
    the advertised setting; for every limit, 0 included -/
theorem h2_excess_stream_refused (c : Cfg) (s : St) (f : Frame) (fs : List Frame) (hu : s.upClosed = false)
    (hfull : c.maxStreams ≤ s.lib.opened.length) :
    (step c s (.read (f :: fs))).served = s.served ∧ (step c s (.read (f :: fs))).upClosed = true ∧
    (step c s (.read (f :: fs))).lib.closed = true ∧
    ∃ g, (step c s (.read (f :: fs))).goaways = s.goaways ++ [(s.lib.highest, g)] ∧ g = PROTOCOL_ERROR := by
  have hf : recvFrame c s.lib f = .error PROTOCOL_ERROR := by
    rw [recvFrame_spec]
    by_cases h1 : s.lib.closed = true
    · simp [h1]
    · by_cases h2 : f.sid ≤ s.lib.highest ∨ f.sid % 2 = 0
      · simp [h1, h2]
      · have : c.maxStreams < s.lib.opened.length + 1 := by omega
        simp [h1, h2, this]
  have := step_read_error c s (f :: fs) s.lib PROTOCOL_ERROR hu (recvAll_error_of_first c s.lib f fs [] _ hf)
  exact ⟨this.1, this.2.2.1, this.2.2.2.1, _, this.2.2.2.2, rfl⟩

/-- **header list**: a block beyond `h2_max_header_list_size` (h2's accounting: name + value + 32 per field) is refused
    with the connection (GOAWAY ENHANCE_YOUR_CALM, `Closed`), nothing of the read reaches an application; a block of
    exactly the limit is not refused for its size -/
theorem h2_header_list_refused (c : Cfg) (s : St) (f : Frame) (fs : List Frame) (hu : s.upClosed = false)
    (hbig : c.maxHeaderList < listSize f.fields) :
    (step c s (.read (f :: fs))).served = s.served ∧ (step c s (.read (f :: fs))).upClosed = true ∧
    ∃ g, (step c s (.read (f :: fs))).goaways = s.goaways ++ [(s.lib.highest, g)] ∧ (g = ENHANCE_YOUR_CALM ∨ g = PROTOCOL_ERROR) := by
  have hf : ∃ g, recvFrame c s.lib f = .error g ∧ (g = ENHANCE_YOUR_CALM ∨ g = PROTOCOL_ERROR) := by
    rw [recvFrame_spec]
    by_cases h1 : s.lib.closed = true
    · exact ⟨_, by simp [h1], Or.inr rfl⟩
    · by_cases h2 : f.sid ≤ s.lib.highest ∨ f.sid % 2 = 0
      · exact ⟨_, by simp [h1, h2], Or.inr rfl⟩
      · by_cases h3 : c.maxStreams < s.lib.opened.length + 1
        · exact ⟨_, by simp [h1, h2, h3], Or.inr rfl⟩
        · exact ⟨_, by simp [h1, h2, h3, hbig], Or.inl rfl⟩
  obtain ⟨g, hg, hcode⟩ := hf
  have := step_read_error c s (f :: fs) s.lib g hu (recvAll_error_of_first c s.lib f fs [] _ hg)
  exact ⟨this.1, this.2.2.1, g, this.2.2.2.2, hcode⟩

theorem h2_header_list_at_limit_accepted (c : Cfg) (l : Lib) (f : Frame) (hc : l.closed = false) (hnew : l.highest < f.sid)
    (hodd : f.sid % 2 = 1) (hroom : l.opened.length + 1 ≤ c.maxStreams) (hfit : listSize f.fields ≤ c.maxHeaderList) :
    recvFrame c l f = .ok { l with opened := l.opened ++ [f.sid], highest := f.sid } := by
  rw [recvFrame_spec]
  have h2 : ¬ (f.sid ≤ l.highest ∨ f.sid % 2 = 0) := by omega
  have h3 : ¬ c.maxStreams < l.opened.length + 1 := by omega
  have h4 : ¬ c.maxHeaderList < listSize f.fields := by omega
  simp [hc, h2, h3, h4]

/-! ### the request maximum on HTTP/2 -/

/-- one `RequestReceived`: the stream is served, the counter moves by one, and — *after that* — `close_connection()`
    (GOAWAY with h2's highest inbound stream id) iff the counter now exceeds `keep_alive_max_requests` -/
theorem onRequest_spec (c : Cfg) (s : St) (sid : Nat) :
    (onRequest c s sid).served = s.served ++ [sid] ∧ (onRequest c s sid).kar = s.kar + 1 ∧
    (onRequest c s sid).lib.highest = s.lib.highest ∧ (onRequest c s sid).lib.opened = s.lib.opened ∧
    (onRequest c s sid).pushed = s.pushed ∧ (onRequest c s sid).upClosed = s.upClosed ∧
    (if c.keepAliveMax < s.kar + 1
      then (onRequest c s sid).lib.closed = true ∧ (onRequest c s sid).goaways = s.goaways ++ [(s.lib.highest, NO_ERROR)]
      else (onRequest c s sid).lib.closed = s.lib.closed ∧ (onRequest c s sid).goaways = s.goaways) := by
  simp only [onRequest, Limits.h2CmpAfterCreate, Limits.h2IncrCreateStream, Guards.h2KeepAliveCmp, Cmp.eval, if_true]
  by_cases h : c.keepAliveMax < s.kar + 1 <;> simp [h, closeConnection]

/-- what the theorems below maintain in every reachable state -/
structure Inv (c : Cfg) (s : St) : Prop where
  /-- exact accounting: one per served client stream, two per pushed stream (`_create_server_push` adds its own
      increment to the one of `_create_stream`) -/
  exact : s.kar = s.served.length + 2 * s.pushed.length
  /-- served streams are covered by h2's highest inbound stream id -/
  covered : ∀ sid ∈ s.served, sid ≤ s.lib.highest
  /-- every GOAWAY names the highest inbound stream id, and once one is out the connection is closed for new streams -/
  goaway : ∀ g ∈ s.goaways, g.1 = s.lib.highest ∧ s.lib.closed = true
  /-- `Closed` is only sent after h2 closed the connection -/
  closedUp : s.upClosed = true → s.lib.closed = true
  /-- h2 never holds more open inbound streams than the configured maximum -/
  streams : s.lib.opened.length ≤ c.maxStreams

theorem inv_init (c : Cfg) : Inv c {} := ⟨by simp [Limits.h2CounterInit], by simp, by simp, by simp, by simp⟩

private theorem recvAll_ok (c : Cfg) : ∀ (fs : List Frame) (l l' : Lib) (acc sids : List Nat),
    recvAll c l fs acc = .ok (l', sids) → l.opened.length ≤ c.maxStreams →
    (l.closed = true → l' = l) ∧ l'.closed = l.closed ∧ l.highest ≤ l'.highest ∧ l'.opened.length ≤ c.maxStreams ∧
    (∃ new, sids = acc ++ new ∧ (∀ x ∈ new, x ≤ l'.highest) ∧ new.length = fs.length) := by
  intro fs
  induction fs with
  | nil =>
    intro l l' acc sids h hs
    simp only [recvAll, Except.ok.injEq, Prod.mk.injEq] at h
    obtain ⟨rfl, rfl⟩ := h
    exact ⟨fun _ => rfl, rfl, Nat.le_refl _, hs, [], by simp, by simp, rfl⟩
  | cons f fs ih =>
    intro l l' acc sids h hs
    simp only [recvAll] at h
    split at h
    · cases h
    · rename_i l1 hl1
      rw [recvFrame_spec] at hl1
      by_cases h1 : l.closed = true
      · simp [h1] at hl1
      · by_cases h2 : f.sid ≤ l.highest ∨ f.sid % 2 = 0
        · simp [h1, h2] at hl1
        · by_cases h3 : c.maxStreams < l.opened.length + 1
          · simp [h1, h2, h3] at hl1
          · by_cases h4 : c.maxHeaderList < listSize f.fields
            · simp [h1, h2, h3, h4] at hl1
            · simp [h1, h2, h3, h4] at hl1
              subst hl1
              obtain ⟨_, i2, i3, i4, new, i5, i6, i7⟩ := ih _ l' _ sids h (by simp; omega)
              simp only at i2 i3
              refine ⟨fun hc => absurd hc h1, by rw [i2]; simpa using h1, by omega, i4, f.sid :: new, by simp [i5], ?_, by simp [i7]⟩
              intro x hx
              rcases List.mem_cons.mp hx with rfl | hx
              · exact i3
              · exact i6 x hx

private theorem recvAll_err (c : Cfg) : ∀ (fs : List Frame) (l l' : Lib) (acc : List Nat) (code : Nat),
    recvAll c l fs acc = .error (l', code) → l.opened.length ≤ c.maxStreams →
    (l.closed = true → l' = l) ∧ l.highest ≤ l'.highest ∧ l'.opened.length ≤ c.maxStreams := by
  intro fs
  induction fs with
  | nil => intro l l' acc code h; simp [recvAll] at h
  | cons f fs ih =>
    intro l l' acc code h hs
    simp only [recvAll] at h
    split at h
    · simp only [Except.error.injEq, Prod.mk.injEq] at h
      obtain ⟨rfl, _⟩ := h
      exact ⟨fun _ => rfl, Nat.le_refl _, hs⟩
    · rename_i l1 hl1
      rw [recvFrame_spec] at hl1
      by_cases h1 : l.closed = true
      · simp [h1] at hl1
      · by_cases h2 : f.sid ≤ l.highest ∨ f.sid % 2 = 0
        · simp [h1, h2] at hl1
        · by_cases h3 : c.maxStreams < l.opened.length + 1
          · simp [h1, h2, h3] at hl1
          · by_cases h4 : c.maxHeaderList < listSize f.fields
            · simp [h1, h2, h3, h4] at hl1
            · simp [h1, h2, h3, h4] at hl1
              subst hl1
              obtain ⟨_, i2, i3⟩ := ih _ l' _ code h (by simp; omega)
              simp only at i2
              exact ⟨fun hc => absurd hc h1, by omega, i3⟩

private theorem onRequests_inv (c : Cfg) : ∀ (sids : List Nat) (s : St), Inv c s → (∀ x ∈ sids, x ≤ s.lib.highest) →
    Inv c (onRequests c s sids) ∧ (onRequests c s sids).upClosed = s.upClosed ∧ (onRequests c s sids).pushed = s.pushed := by
  intro sids
  induction sids with
  | nil => intro s h _; exact ⟨h, rfl, rfl⟩
  | cons sid rest ih =>
    intro s h hx
    obtain ⟨o1, o2, o3, o4, o5, o6, o7⟩ := onRequest_spec c s sid
    have hI : Inv c (onRequest c s sid) := by
      refine ⟨by rw [o1, o2, o5]; simp; have := h.exact; omega, ?_, ?_, ?_, by rw [o4]; exact h.streams⟩
      · intro x hx'
        rw [o1] at hx'; rw [o3]
        rcases List.mem_append.mp hx' with hx' | hx'
        · exact h.covered x hx'
        · simp at hx'; subst hx'; exact hx x (by simp)
      · intro g hg
        rw [o3]
        split at o7
        · rw [o7.2] at hg
          rcases List.mem_append.mp hg with hg | hg
          · exact ⟨(h.goaway g hg).1, o7.1⟩
          · simp at hg; subst hg; exact ⟨rfl, o7.1⟩
        · rw [o7.2] at hg; rw [o7.1]; exact h.goaway g hg
      · intro hu
        rw [o6] at hu
        have := h.closedUp hu
        split at o7
        · exact o7.1
        · rw [o7.1]; exact this
    obtain ⟨r1, r2, r3⟩ := ih (onRequest c s sid) hI (by intro x hx'; rw [o3]; exact hx x (by simp [hx']))
    simp only [onRequests]
    exact ⟨r1, by rw [r2, o6], by rw [r3, o5]⟩

/-- the invariant is preserved by every op -/
theorem inv_step (c : Cfg) (s : St) (o : Op) (h : Inv c s) : Inv c (step c s o) := by
  cases o with
  | read fs =>
    simp only [step]
    split
    · exact h
    · split
      · rename_i l code hr
        obtain ⟨e1, e2, e3⟩ := recvAll_err c fs s.lib l [] code hr h.streams
        refine ⟨h.exact, fun x hx => Nat.le_trans (h.covered x hx) e2, ?_, by simp, e3⟩
        intro g hg
        rcases List.mem_append.mp hg with hg | hg
        · have := h.goaway g hg
          have hl := e1 this.2
          exact ⟨by rw [this.1, hl], rfl⟩
        · simp at hg; subst hg; exact ⟨rfl, rfl⟩
      · rename_i l sids hr
        obtain ⟨a1, a2, a3, a4, new, a5, a6, _⟩ := recvAll_ok c fs s.lib l [] sids hr h.streams
        simp only [List.nil_append] at a5
        subst a5
        have hI : Inv c { s with lib := l } := by
          refine ⟨h.exact, fun x hx => Nat.le_trans (h.covered x hx) a3, ?_, fun hu => by simpa [a2] using h.closedUp hu, a4⟩
          intro g hg
          have := h.goaway g hg
          have hl := a1 this.2
          exact ⟨by rw [this.1, hl], by rw [hl]; exact this.2⟩
        exact (onRequests_inv c sids _ hI a6).1
  | push accepted =>
    simp only [step]
    split
    · exact ⟨by simp [Limits.h2PushCallsCreateStream, Limits.h2IncrCreateStream, Limits.h2IncrServerPushExtra]; have := h.exact; omega,
        h.covered, h.goaway, h.closedUp, h.streams⟩
    · exact h
  | done sid =>
    simp only [step]
    exact ⟨h.exact, h.covered, h.goaway, h.closedUp, Nat.le_trans (List.length_erase_le) h.streams⟩

theorem inv_run (c : Cfg) : ∀ (ops : List Op) (s : St), Inv c s → Inv c (run c s ops) := by
  intro ops
  induction ops with
  | nil => intro s h; exact h
  | cons o os ih => intro s h; exact ih _ (inv_step c s o h)

/-- **streams with higher ids than the GOAWAY's `last_stream_id` are not served** — for every op sequence (any
    batching of HEADERS frames into reads, pushes, stream completions): every served stream id is covered by every
    GOAWAY that was emitted, and at most `h2_max_concurrent_streams` inbound streams are ever open -/
theorem goaway_covers_served (c : Cfg) (ops : List Op) :
    (∀ g ∈ (run c {} ops).goaways, ∀ sid ∈ (run c {} ops).served, sid ≤ g.1) ∧
    (run c {} ops).lib.opened.length ≤ c.maxStreams := by
  have h := inv_run c ops {} (inv_init c)
  exact ⟨fun g hg sid hs => by rw [(h.goaway g hg).1]; exact h.covered sid hs, h.streams⟩

private theorem closed_step (c : Cfg) (s : St) (o : Op) (hc : s.lib.closed = true) :
    (step c s o).lib.closed = true ∧ (step c s o).served = s.served ∧ (step c s o).pushed = s.pushed := by
  cases o with
  | read fs =>
    simp only [step]
    split
    · exact ⟨hc, rfl, rfl⟩
    · cases fs with
      | nil => simp [recvAll, onRequests, hc]
      | cons f fs =>
        have : recvFrame c s.lib f = .error PROTOCOL_ERROR := by rw [recvFrame_spec]; simp [hc]
        simp [recvAll, this]
  | push accepted => simp [step, hc]
  | done sid => simp [step, hc]

/-- **once the GOAWAY is out nothing more is served on the connection**: after `close_connection()` (or a connection
    error) no later read, in whatever segmentation, starts an application instance, and no push is accepted -/
theorem nothing_served_after_goaway (c : Cfg) : ∀ (ops : List Op) (s : St), s.lib.closed = true →
    (run c s ops).served = s.served ∧ (run c s ops).pushed = s.pushed ∧ (run c s ops).lib.closed = true := by
  intro ops
  induction ops with
  | nil => intro s h; exact ⟨rfl, rfl, h⟩
  | cons o os ih =>
    intro s h
    obtain ⟨a, b, d⟩ := closed_step c s o h
    obtain ⟨i1, i2, i3⟩ := ih _ a
    exact ⟨by simp only [run]; rw [i1, b], by simp only [run]; rw [i2, d], i3⟩

/-- **`keep_alive_max_h2`, the request that trips the limit**: a request arriving when `keep_alive_max_requests`
    requests have been counted (`kar = L`: request number `L + 1` when nothing was pushed) is still served, and the
    GOAWAY naming it goes out in the same read; a request arriving earlier causes no GOAWAY — one more than on HTTP/1 -/
theorem keep_alive_max_h2 (c : Cfg) (s : St) (f : Frame) (hu : s.upClosed = false) (hc : s.lib.closed = false)
    (hnew : s.lib.highest < f.sid) (hodd : f.sid % 2 = 1) (hroom : s.lib.opened.length + 1 ≤ c.maxStreams)
    (hfit : listSize f.fields ≤ c.maxHeaderList) :
    (step c s (.read [f])).served = s.served ++ [f.sid] ∧
    (c.keepAliveMax < s.kar + 1 → (step c s (.read [f])).goaways = s.goaways ++ [(f.sid, NO_ERROR)] ∧ (step c s (.read [f])).lib.closed = true) ∧
    (s.kar + 1 ≤ c.keepAliveMax → (step c s (.read [f])).goaways = s.goaways ∧ (step c s (.read [f])).lib.closed = false) := by
  have hf := h2_header_list_at_limit_accepted c s.lib f hc hnew hodd hroom hfit
  obtain ⟨o1, _, _, _, _, _, o7⟩ := onRequest_spec c { s with lib := { s.lib with opened := s.lib.opened ++ [f.sid], highest := f.sid } } f.sid
  have hstep : step c s (.read [f]) = onRequest c { s with lib := { s.lib with opened := s.lib.opened ++ [f.sid], highest := f.sid } } f.sid := by
    simp [step, hu, recvAll, hf, onRequests]
  rw [hstep]
  refine ⟨o1, ?_, ?_⟩
  · intro h; simp only [h, if_true] at o7; exact ⟨o7.2, o7.1⟩
  · intro h
    have : ¬ c.keepAliveMax < s.kar + 1 := by omega
    simp only [this, if_false] at o7
    exact ⟨o7.2, by rw [o7.1]; exact hc⟩

/-- reads that carry at most one HEADERS frame (a client that waits for nothing but does not batch) -/
def Singleton (ops : List Op) : Prop := ∀ o ∈ ops, ∀ fs, o = Op.read fs → fs.length ≤ 1

/-- the full count statement: at most `keep_alive_max_requests + 1` client requests are served per connection -/
def ServedAtMost (c : Cfg) (ops : List Op) : Prop := (run c {} ops).served.length ≤ c.keepAliveMax + 1

private theorem singleton_step (c : Cfg) (s : St) (o : Op) (hI : Inv c s) (ho : ∀ fs, o = Op.read fs → fs.length ≤ 1)
    (h1 : s.lib.closed = false → s.served.length ≤ c.keepAliveMax) (h2 : s.served.length ≤ c.keepAliveMax + 1) :
    ((step c s o).lib.closed = false → (step c s o).served.length ≤ c.keepAliveMax) ∧ (step c s o).served.length ≤ c.keepAliveMax + 1 := by
  cases hcl : s.lib.closed with
  | true =>
    obtain ⟨a, b, _⟩ := closed_step c s o hcl
    exact ⟨fun h => (by rw [a] at h; cases h), (by rw [b]; exact h2)⟩
  | false =>
    have h1' := h1 hcl
    cases o with
    | push accepted => simp only [step]; split <;> exact ⟨fun _ => h1', h2⟩
    | done sid => simp only [step]; exact ⟨fun _ => h1', h2⟩
    | read fs =>
      have hlen := ho fs rfl
      simp only [step]
      split
      · exact ⟨fun _ => h1', h2⟩
      · split
        · exact ⟨fun h => by simp at h, h2⟩
        · rename_i l sids hr
          match fs, hlen, hr with
          | [], _, hr =>
            simp only [recvAll, Except.ok.injEq, Prod.mk.injEq] at hr
            obtain ⟨rfl, rfl⟩ := hr
            simp only [onRequests]
            exact ⟨fun _ => h1', h2⟩
          | [f], _, hr =>
            simp only [recvAll] at hr
            split at hr
            · cases hr
            · simp only [Except.ok.injEq, Prod.mk.injEq, List.nil_append] at hr
              obtain ⟨_, hsid⟩ := hr
              rw [← hsid]
              obtain ⟨o1, _, _, _, _, _, o7⟩ := onRequest_spec c { s with lib := l } f.sid
              simp only [onRequests]
              rw [o1]
              simp only [List.length_append, List.length_singleton]
              have hex := hI.exact
              refine ⟨?_, by omega⟩
              intro hopen
              split at o7
              · rw [o7.1] at hopen; cases hopen
              · simp only at *; omega

/-- **`keep_alive_max_h2` as a count, `_partial`**: when every read carries at most one HEADERS frame, at most
    `keep_alive_max_requests + 1` client requests are served on a connection, for every limit (0 included), any number
    of pushes and stream completions in between -/
private theorem count_from (c : Cfg) : ∀ (ops : List Op) (s : St), Inv c s → (∀ o ∈ ops, ∀ fs, o = Op.read fs → fs.length ≤ 1) →
    (s.lib.closed = false → s.served.length ≤ c.keepAliveMax) → s.served.length ≤ c.keepAliveMax + 1 →
    (run c s ops).served.length ≤ c.keepAliveMax + 1 := by
  intro ops
  induction ops with
  | nil => intro s _ _ _ h; exact h
  | cons o os ih =>
    intro s hI ho h1 h2
    obtain ⟨a, b⟩ := singleton_step c s o hI (ho o (by simp)) h1 h2
    exact ih _ (inv_step c s o hI) (fun o' ho' => ho o' (by simp [ho'])) a b

theorem keep_alive_max_h2_count_partial (c : Cfg) (ops : List Op) (hs : Singleton ops) : ServedAtMost c ops :=
  count_from c ops {} (inv_init c) hs (by simp) (by simp)

def frame (sid : Nat) : Frame := { sid := sid, fields := [(7, 3)] }

/-- … and **the count fails as the code is** (known finding F47): h2 parses a whole read before hypercorn sees the
    first `RequestReceived`, and the comparison follows each stream's creation, so every HEADERS frame that shares a
    read with request `L + 1` is served as well (limit 0, three requests in one read: three instances, three GOAWAYs) -/
theorem keep_alive_max_h2_count_fails_as_is : ¬ ∀ (c : Cfg) (ops : List Op), ServedAtMost c ops := by
  intro h
  have := h { keepAliveMax := 0, maxStreams := 100, maxHeaderList := 65536 } [.read [frame 1, frame 3, frame 5]]
  unfold ServedAtMost at this
  revert this
  decide

/-- "counted once per created stream": true for client streams (`Inv.exact` with nothing pushed), false for pushed
    streams, which are counted twice — the limit is then reached earlier, never later -/
def CountedOnce (s : St) : Prop := s.kar = s.served.length + s.pushed.length

theorem counted_once_partial (c : Cfg) (ops : List Op) (hp : (run c {} ops).pushed = []) : CountedOnce (run c {} ops) := by
  have := (inv_run c ops {} (inv_init c)).exact
  simp only [CountedOnce, hp, List.length_nil] at *
  omega

theorem counted_once_fails_as_is : ¬ ∀ (c : Cfg) (ops : List Op), CountedOnce (run c {} ops) := by
  intro h
  have := h { keepAliveMax := 10, maxStreams := 100, maxHeaderList := 65536 } [.read [frame 1], .push true]
  unfold CountedOnce at this
  revert this
  decide

-- non-vacuity: limit 2, one request per read: three are served, the GOAWAY names stream 5, the fourth is not served
example : let s := run { keepAliveMax := 2, maxStreams := 100, maxHeaderList := 65536 } {} [.read [frame 1], .read [frame 3], .read [frame 5], .read [frame 7]]
    s.served = [1, 3, 5] ∧ s.goaways = [(5, 0), (5, 1)] ∧ s.upClosed = true := by decide
-- the concurrent-stream limit against a client that ignores it: two open, the third closes the connection unserved
example : let s := run { keepAliveMax := 1000, maxStreams := 2, maxHeaderList := 65536 } {} [.read [frame 1], .read [frame 3], .read [frame 5]]
    s.served = [1, 3] ∧ s.goaways = [(3, 1)] ∧ s.upClosed = true := by decide
-- header list of 1000 (limit 1000) accepted, 1001 refused
example : let c : Cfg := { keepAliveMax := 1000, maxStreams := 100, maxHeaderList := 1000 }
    (run c {} [.read [{ sid := 1, fields := [(5, 931), (0, 0)] }]]).served = [1] ∧
    (run c {} [.read [{ sid := 1, fields := [(5, 932), (0, 0)] }]]).served = [] ∧
    (run c {} [.read [{ sid := 1, fields := [(5, 932), (0, 0)] }]]).goaways = [(0, 11)] := by decide

/-! ### the response of the request that trips the limit (F48), and the `Upgrade: h2c` opening (F112) -/

/-- a request served below the limit can still be answered when the read has been handled -/
theorem response_below_max_deliverable (c : Cfg) (s : St) (f : Frame) (hu : s.upClosed = false) (hc : s.lib.closed = false)
    (hnew : s.lib.highest < f.sid) (hodd : f.sid % 2 = 1) (hroom : s.lib.opened.length + 1 ≤ c.maxStreams)
    (hfit : listSize f.fields ≤ c.maxHeaderList) (h : s.kar + 1 ≤ c.keepAliveMax) :
    responseDeliverable (step c s (.read [f])) f.sid = true := by
  obtain ⟨h1, _, h3⟩ := keep_alive_max_h2 c s f hu hc hnew hodd hroom hfit
  simp [responseDeliverable, h1, (h3 h).2]

/-- **F48, as the code is**: the request that trips `keep_alive_max_requests` is served - an application instance runs
    for it and the GOAWAY names its stream, so the client will not retry it - but from the moment the comparison has
    run (`close_connection()`: h2's state machine is CLOSED) its response can never be handed to the client, whatever
    happens afterwards; for every limit, every state in which the request is acceptable and every continuation -/
theorem response_at_max_lost (c : Cfg) (s : St) (f : Frame) (hu : s.upClosed = false) (hc : s.lib.closed = false)
    (hnew : s.lib.highest < f.sid) (hodd : f.sid % 2 = 1) (hroom : s.lib.opened.length + 1 ≤ c.maxStreams)
    (hfit : listSize f.fields ≤ c.maxHeaderList) (h : c.keepAliveMax < s.kar + 1) (ops : List Op) :
    f.sid ∈ (run c (step c s (.read [f])) ops).served ∧
    (f.sid, NO_ERROR) ∈ (step c s (.read [f])).goaways ∧
    responseDeliverable (run c (step c s (.read [f])) ops) f.sid = false := by
  obtain ⟨h1, h2, _⟩ := keep_alive_max_h2 c s f hu hc hnew hodd hroom hfit
  obtain ⟨g, cl⟩ := h2 h
  obtain ⟨a, _, b⟩ := nothing_served_after_goaway c ops _ cl
  refine ⟨by rw [a, h1]; simp, by rw [g]; simp, by simp [responseDeliverable, b]⟩

/-- what the statement asks: every served request can be answered (at the end of the run the connection is still one
    its response can be sent on) -/
def ServedAreAnswerable (c : Cfg) (ops : List Op) : Prop :=
  ∀ sid ∈ (run c {} ops).served, responseDeliverable (run c {} ops) sid = true

/-- `_partial`: true of every run in which the request maximum (or any other connection error) has not been reached -/
theorem served_answerable_partial (c : Cfg) (ops : List Op) (h : (run c {} ops).lib.closed = false) : ServedAreAnswerable c ops := by
  intro sid hs
  simp [responseDeliverable, h, hs]

/-- … and false as the code is (known finding F48): limit 0, one request - served, GOAWAY(1), no response possible -/
theorem served_answerable_fails_as_is : ¬ ∀ (c : Cfg) (ops : List Op), ServedAreAnswerable c ops := by
  intro h
  have := h { keepAliveMax := 0, maxStreams := 100, maxHeaderList := 65536 } [.read [frame 1]] 1 (by decide)
  revert this
  decide

/-- the count on a connection opened by `Upgrade: h2c` (the HTTP/1.1 request is served on stream 1 by `initiate`) -/
def ServedAtMostH2c (c : Cfg) (ops : List Op) : Prop := (run c (afterUpgrade c) ops).served.length ≤ c.keepAliveMax + 1

theorem inv_afterUpgrade (c : Cfg) (hm : 1 ≤ c.maxStreams) : Inv c (afterUpgrade c) := by
  refine ⟨?_, ?_, ?_, ?_, ?_⟩ <;>
    simp [afterUpgrade, Limits.h2InitiateCompares, Limits.h2CounterInit, Limits.h2IncrCreateStream] <;> omega

/-- **`keep_alive_max_h2c`, `_partial`**: for every limit of at least 1 an `Upgrade: h2c` connection serves at most
    `keep_alive_max_requests + 1` requests, the upgrade request included (reads carrying at most one HEADERS frame) -/
theorem keep_alive_max_h2c_count_partial (c : Cfg) (ops : List Op) (hs : Singleton ops) (hk : 1 ≤ c.keepAliveMax)
    (hm : 1 ≤ c.maxStreams) : ServedAtMostH2c c ops := by
  refine count_from c ops (afterUpgrade c) (inv_afterUpgrade c hm) hs ?_ ?_ <;>
    simp [afterUpgrade, Limits.h2InitiateCompares] <;> omega

/-- … and **it fails for limit 0 as the code is** (known finding F112): `initiate` does not compare the counter, so
    the upgrade request is served, and the next request is served too before the comparison runs: two instead of one -/
theorem keep_alive_max_h2c_count_fails_as_is : ¬ ∀ (c : Cfg) (ops : List Op), Singleton ops → ServedAtMostH2c c ops := by
  intro h
  have := h { keepAliveMax := 0, maxStreams := 100, maxHeaderList := 65536 } [.read [frame 3]]
    (by intro o ho fs hfs; simp at ho; subst ho; cases hfs; simp)
  unfold ServedAtMostH2c at this
  revert this
  decide

-- non-vacuity: limit 1 over h2c: the upgrade request and one more are served, the GOAWAY names stream 3, whose response is lost
example : let c : Cfg := { keepAliveMax := 1, maxStreams := 100, maxHeaderList := 65536 }
    let s := run c (afterUpgrade c) [.read [frame 3], .read [frame 5]]
    s.served = [1, 3] ∧ s.goaways = [(3, 0), (3, 1)] ∧ responseDeliverable s 3 = false := by decide

end h2

/-! ## 4. HTTP/1: the incomplete-head limit and the request maximum on the protocol model -/
section h1
open HC.Proto.H11 HC.Lib HC.Stream

/-- the head of hypercorn's own error responses -/
def errHeaders (cfg : Proto.H11.Cfg) : Headers := [("content-length".b, "0".b), ("connection".b, "close".b)] ++ cfg.serverHeaders

/-- **`h11_incomplete_limit`, rejected**: on a connection waiting for a request head (new, or recycled: both h11 sides
    IDLE, no stream), h11's `RemoteProtocolError` with its 4xx hint makes `H11Protocol` send exactly one response with
    that status carrying `content-length: 0` and `connection: close`, end it, and send `Closed`; no application instance
    is started by it, and the connection is `Gone`: none will ever be (next theorem) -/
theorem h11_incomplete_rejected (cfg : Proto.H11.Cfg) (st : St) (hpc : st.pc = .inLoop) (hsw : st.switched = false)
    (hcur : st.cur = none) (hs : st.lib.server = .idle) (hw : st.lib.waiting100 = false) :
    ∃ st', onLibEv cfg st (.protoError Limits.h11LibIncompleteHint) =
        some (st', [.libSend (.response Limits.h11LibIncompleteHint (errHeaders cfg)) true, .upRaw 0, .libSend .eom true, .upRaw 0, .upClosed]) ∧
      Gone st.spawns st' ∧ st'.pc = .idle := by
  have hr : (respInfo Limits.h11LibIncompleteHint (errHeaders cfg)).connClose = true := by
    simp only [respInfo, errHeaders, List.cons_append, List.nil_append, List.any_cons]
    have : (Bytes.lower "connection".b == "connection".b && hasToken "close".b "close".b) = true := by decide
    simp [this]
  obtain ⟨h1, s2, s3, h2, h3⟩ := H11M.error_response_goes_out st.lib (respInfo Limits.h11LibIncompleteHint (errHeaders cfg)) hs
    (by simp [respInfo, Limits.h11LibIncompleteHint]) hr
  have hd2 : H11M.Dead s2 := H11M.sendResponse_dead _ _ _ h2 (H11M.recvError_dead _)
  have hd3 : H11M.Dead s3 := H11M.sendEom_dead _ _ h3 hd2
  refine ⟨{ st with lib := s3, pc := .idle }, ?_, ⟨hd3, rfl⟩, rfl⟩
  simp only [errHeaders, List.cons_append, List.nil_append] at h2
  -- the extracted guard of the ignoring branch needs a live stream (`self.stream is not None and …`): there is none here
  have hign : ∀ s : St, errIgnored s = (s.cur.isSome && s.requestComplete) := errIgnored_eq (fun _ _ _ _ => rfl)
  simp [onLibEv, hpc, hsw, loopTop, hw, onLibEvBody, hign, hcur, h1, libSend, h2, h3, errHeaders]

/-- **`h11_incomplete_limit`, keeps waiting**: while h11 answers `NEED_DATA` (at most `L` bytes of the head buffered,
    `feed_waits`) the protocol writes nothing, starts nothing, closes nothing: the reader goes back to wait for bytes -/
theorem h11_incomplete_waits (cfg : Proto.H11.Cfg) (st : St) (hpc : st.pc = .inLoop) (hsw : st.switched = false)
    (hw : st.lib.waiting100 = false) : onLibEv cfg st .needData = some ({ st with pc := .idle }, []) := by
  simp [onLibEv, hpc, hsw, loopTop, hw, onLibEvBody]

/-- **… without ever reaching an application**: from a `Gone` state — in particular after the rejection above, and
    after any response head that announced close (below) — no sequence of further library events, application sends
    (of whatever stream object), `Closed` or termination starts an application instance, and no `Request` event is
    enabled any more -/
theorem nothing_served_when_gone (cfg : Proto.H11.Cfg) (token : Bytes → Bytes) (ext : Option Bytes) (n : Nat) :
    ∀ (ops : List Op) (st st' : St), Gone n st →
      runOps (fun s o => (step cfg token ext s o).map (·.1)) st ops = some st' →
      st'.spawns = n ∧ ∀ r, onLibEv cfg st' (.request r) = none := by
  intro ops st st' hg hr
  have : Gone n st' := by
    refine inv_runOps (fun s o => (step cfg token ext s o).map (·.1)) (Gone n) (fun _ => True) ?_ ops st st' hg (fun _ _ => trivial) hr
    intro s o s' _ hI hs
    simp only [Option.map_eq_some_iff] at hs
    obtain ⟨⟨s1, o1, e1⟩, hstep, rfl⟩ := hs
    exact step_gone n cfg token ext s s1 o o1 e1 hI hstep
  exact ⟨this.2, fun r => no_request_when_gone n cfg st' r this⟩

-- non-vacuity of the hypotheses: a new connection whose reader entered the loop
example : ∃ st', onLibEv { keepAliveMax := 10 } { pc := .inLoop } (.protoError 431) =
    some (st', [.libSend (.response 431 (errHeaders { keepAliveMax := 10 })) true, .upRaw 0, .libSend .eom true, .upRaw 0, .upClosed]) ∧
    Gone 0 st' ∧ st'.pc = .idle :=
  h11_incomplete_rejected { keepAliveMax := 10 } { pc := .inLoop } rfl rfl rfl rfl rfl

/-- **`keep_alive_max_h1`, the head**: the response head of the request counted `k` carries the server's
    `connection: close` **iff** `k ≥ keep_alive_max_requests` (extracted comparator) — for every limit: with the counter
    at least 1 when a response is sent, heads `1 … max(L,1) − 1` do not carry it and head `max(L,1)` does -/
theorem keep_alive_head (status : Nat) (app srv : Headers) (k L : Nat) (hs : 200 ≤ status) :
    Proto.Heads.h11Response status app srv k L =
      .final status (app ++ srv ++ (if L ≤ k then [("connection".b, "close".b)] else [])) := by
  have hfin : Guards.h11FinalStatusCmp.eval status 200 = true := by simp [Guards.h11FinalStatusCmp, Cmp.eval, hs]
  unfold Proto.Heads.h11Response
  rw [if_pos hfin]
  simp only [Guards.h11KeepAliveCmp, Cmp.eval]
  by_cases h : L ≤ k <;> simp [h]

theorem keep_alive_head_index (L k : Nat) (hk : 1 ≤ k) : (L ≤ k ↔ max L 1 ≤ k) := by omega

/-- **`keep_alive_max_h1`, no later request**: when the application of the live stream sends its response head while
    the counter has reached the maximum, h11 is told `connection: close`; if it takes the head, the connection is `Gone`
    from that op on: by `nothing_served_when_gone` no later request — pipelined already or sent afterwards — is served -/
theorem keep_alive_close_ends_reuse (cfg : Proto.H11.Cfg) (st : St) (status : Nat) (app : Headers)
    (hidle : st.lib.client ≠ .idle) (hs : 200 ≤ status) (hmax : cfg.keepAliveMax ≤ st.keepAliveRequests)
    (hok : (H11M.sendResponse st.lib (respInfo status (app ++ cfg.serverHeaders ++ [("connection".b, "close".b)]))).isSome = true) :
    Gone st.spawns (httpStreamSend cfg st (.response status app)).1 ∧
    (httpStreamSend cfg st (.response status app)).2.1 =
      [Out.libSend (.response status (app ++ cfg.serverHeaders ++ [("connection".b, "close".b)])) true, Out.upRaw 0] := by
  have hhead := keep_alive_head status app cfg.serverHeaders st.keepAliveRequests cfg.keepAliveMax hs
  simp only [hmax, if_true] at hhead
  have hclose : (respInfo status (app ++ cfg.serverHeaders ++ [("connection".b, "close".b)])).connClose = true := by
    simp only [respInfo, List.any_append, List.any_cons, List.any_nil, Bool.or_false]
    have : (Bytes.lower "connection".b == "connection".b && hasToken "close".b "close".b) = true := by decide
    simp [this]
  obtain ⟨lib', hl⟩ := Option.isSome_iff_exists.mp hok
  have hd := H11M.sendResponse_close_dead _ _ _ hl (by simp only [H11M.respAnnouncesClose, hclose, Bool.true_or]) hidle
  simp only [httpStreamSend, hhead, libSend, hl]
  exact ⟨⟨hd, rfl⟩, rfl⟩

/-- the shape the hand-written `H11Protocol` model has built in is the shape the source has now: the counter starts at
    0, moves by one per stream *after* the stream has seen the request (so a server-generated 404 is sent under the
    previous count), is compared with `config.keep_alive_max_requests`, and the h11 limit is `config.h11_max_incomplete_size` -/
theorem h11_model_shape_matches_source :
    Limits.h11CounterInit = 0 ∧ Limits.h11CounterIncr = 1 ∧ Limits.h11IncrAfterHandle = true ∧
    Limits.h11KeepAliveSource = "keep_alive_max_requests" ∧ Limits.h11LimitSource = "h11_max_incomplete_size" ∧
    Limits.h11CloseHeader = ("connection", "close") ∧ ({} : St).keepAliveRequests = Limits.h11CounterInit := by decide

end h1

end HC.Props.C18
