import HC.Stream.Ws
import HC.Stream.WsSpec
import HC.Pure.Sha1
/-!
# C11 — WebSocket handshake validation and lifecycle mapping

Model: `HC/Stream/Ws.lean` (`Handshake`, `WSStream.handle(Request)`, `app_send`, `handle(StreamClosed)`).
Specification vocabulary: `HC/Stream/WsSpec.lean` (`lastHeader`, `tokens`, `validSpec`), `HC/Pure/Sha1.lean`
(`acceptToken`, the executable RFC 6455 token).

Full statement (property text): an upgrade is attempted only for a valid handshake and otherwise answered 400 without
starting an application; the first message to the application is `websocket.connect`; accept gives 101/200 with the
RFC 6455 token, only an offered subprotocol, and the extra headers; close gives 403; the HTTP-response extension gives
exactly that response; the disconnect code is the client's close code (1005 if none) after a client-initiated close,
1000 after the application's own close, 1006 when the connection was lost.

All of it is proved at full strength: `is_valid_iff` (no side condition), `non_ascii_is_400`, `invalid_400_no_app`,
`valid_connect_first`, `never_started_never_put`, `accept_rendered`, `accept_ok_iff`, `accept_refused_is_noop`,
`accept_token_rfc6455`, `close_403`, `http_response_exact`, `disconnect_code`, `disconnect_code_client_close`,
`app_close_1000`, `simultaneous_close_1000`, `lost_1006`.
(Before the repairs: a client-initiated close was reported as 1006 — F13; a non-ASCII token-list header raised
`UnicodeDecodeError` out of the constructor — F33.)  One boundary remains a theorem: `missing_upgrade_raises`
(`AttributeError`; unreachable through `H11Protocol`, which only builds a `WSStream` when an `Upgrade` header is present).
-/
namespace HC.Props.C11
open HC HC.Stream HC.Stream.Ws HC.Extracted

/-! ### the handshake object is a function of the *last* occurrence of each header -/

/-- what `Handshake.__init__` computes from a start value `h` and a header list -/
def merge (h : Handshake) (hs : Headers) : Handshake :=
  { version := h.version,
    connectionTokens := ((lastHeader "connection".b hs).map tokens).or h.connectionTokens,
    extensions := ((lastHeader "sec-websocket-extensions".b hs).map tokens).or h.extensions,
    key := (lastHeader "sec-websocket-key".b hs).or h.key,
    subprotocols := ((lastHeader "sec-websocket-protocol".b hs).map tokens).or h.subprotocols,
    upgrade := (lastHeader "upgrade".b hs).or h.upgrade,
    wsVersion := (lastHeader "sec-websocket-version".b hs).or h.wsVersion,
    accepted := h.accepted,
    malformed := h.malformed }

private theorem lh_cons_map (name n v : Bytes) (rest : Headers) (f : Bytes → List Bytes) (x : Option (List Bytes)) :
    ((lastHeader name ((n, v) :: rest)).map f).or x =
      ((lastHeader name rest).map f).or (if Bytes.lower n == name then some (f v) else x) := by
  simp only [lastHeader]
  cases lastHeader name rest <;> simp <;> split <;> simp

private theorem lh_cons (name n v : Bytes) (rest : Headers) (x : Option Bytes) :
    (lastHeader name ((n, v) :: rest)).or x =
      (lastHeader name rest).or (if Bytes.lower n == name then some v else x) := by
  simp only [lastHeader]
  cases lastHeader name rest <;> simp <;> split <;> simp

theorem scan_eq (hs : Headers) : ∀ h : Handshake, commaHeadersAscii hs → Handshake.scan h hs = .ok (merge h hs) := by
  induction hs with
  | nil => intro h _; simp [Handshake.scan, merge, lastHeader]
  | cons p rest ih =>
    intro h ha
    obtain ⟨n, v⟩ := p
    have har : commaHeadersAscii rest := fun x hx => ha x (by simp [hx])
    have hav : isCommaHeader n = true → splitCommaHeader v = .ok (tokens v) := by
      intro hc; have := ha (n, v) (by simp) hc; simp [splitCommaHeader, tokens, this]
    simp only [Handshake.scan]
    split
    · rename_i h1
      have e1 : Bytes.lower n = "connection".b := by simpa using h1
      simp only [hav (by simp [isCommaHeader, e1]), ih _ har, merge, lh_cons_map, lh_cons, e1]
      simp (config := { decide := true })
    split
    · rename_i h1
      have e1 : Bytes.lower n = "sec-websocket-extensions".b := by simpa using h1
      simp only [hav (by simp [isCommaHeader, e1]), ih _ har, merge, lh_cons_map, lh_cons, e1]
      simp (config := { decide := true })
    split
    · rename_i h1
      have e1 : Bytes.lower n = "sec-websocket-key".b := by simpa using h1
      simp only [ih _ har, merge, lh_cons_map, lh_cons, e1]
      simp (config := { decide := true })
    split
    · rename_i h1
      have e1 : Bytes.lower n = "sec-websocket-protocol".b := by simpa using h1
      simp only [hav (by simp [isCommaHeader, e1]), ih _ har, merge, lh_cons_map, lh_cons, e1]
      simp (config := { decide := true })
    split
    · rename_i h1
      have e1 : Bytes.lower n = "sec-websocket-version".b := by simpa using h1
      simp only [ih _ har, merge, lh_cons_map, lh_cons, e1]
      simp (config := { decide := true })
    split
    · rename_i h1
      have e1 : Bytes.lower n = "upgrade".b := by simpa using h1
      simp only [ih _ har, merge, lh_cons_map, lh_cons, e1]
      simp (config := { decide := true })
    · simp only [ih _ har, merge, lh_cons_map, lh_cons]
      simp_all

/-- **`Handshake(headers, http_version)` reads the last occurrence of each handshake header, names compared
    case-insensitively** (all comma-list headers ASCII; otherwise see `non_ascii_comma_header_raises`) -/
theorem ofRequest_eq (version : String) (hs : Headers) (ha : commaHeadersAscii hs) :
    Handshake.ofRequest version hs = .ok (handshakeOf version hs) := by
  rw [Handshake.ofRequest, scan_eq hs _ ha]
  simp [merge, handshakeOf]

/-- once `self.malformed` is set it stays set, and the constructor never raises -/
theorem scan_malformed_sticky (hs : Headers) : ∀ (h : Handshake), h.malformed = true →
    ∃ r, Handshake.scan h hs = .ok r ∧ r.malformed = true := by
  induction hs with
  | nil => intro h hm; exact ⟨h, rfl, hm⟩
  | cons p rest ih =>
    intro h hm
    obtain ⟨n, v⟩ := p
    simp only [Handshake.scan]
    (repeat' split) <;> exact ih _ (by simp [hm])

/-- **a non-ASCII byte in any `Connection`, `Sec-WebSocket-Extensions` or `Sec-WebSocket-Protocol` header marks the
    handshake malformed** (`split_comma_header` raises `UnicodeDecodeError`, which the constructor catches) -/
theorem scan_non_ascii (hs : Headers) : ∀ (h : Handshake),
    (∃ x ∈ hs, isCommaHeader x.1 = true ∧ isAscii x.2 = false) → ∃ r, Handshake.scan h hs = .ok r ∧ r.malformed = true := by
  induction hs with
  | nil => intro h ⟨x, hx, _⟩; cases hx
  | cons p rest ih =>
    intro h ⟨x, hx, hc, hna⟩
    obtain ⟨n, v⟩ := p
    rcases List.mem_cons.mp hx with rfl | hx
    · simp only [isCommaHeader, Bool.or_eq_true, beq_iff_eq] at hc
      simp only at hna
      have hm : ∀ h' : Handshake, ∃ r, Handshake.scan { h' with malformed := true } rest = .ok r ∧ r.malformed = true :=
        fun h' => scan_malformed_sticky rest _ rfl
      rcases hc with (hc | hc) | hc <;>
        simp (config := { decide := true }) only [Handshake.scan, splitCommaHeader, hna, hc, if_true, if_false,
          Bool.false_eq_true, beq_self_eq_true] <;> exact hm h
    · have hr := fun h' => ih h' ⟨x, hx, hc, hna⟩
      simp only [Handshake.scan]
      (repeat' split) <;> exact hr _

/-- **…and a malformed handshake is invalid: 400, no application** (F33, repaired: it used to raise) -/
theorem non_ascii_is_400 (version : String) (hs : Headers)
    (h : ∃ x ∈ hs, isCommaHeader x.1 = true ∧ isAscii x.2 = false) :
    (Handshake.ofRequest version hs >>= Handshake.isValid) = .ok false := by
  obtain ⟨r, hr, hm⟩ := scan_non_ascii hs { version := version } h
  simp [Handshake.ofRequest, hr, bind, Except.bind, Handshake.isValid, hm]

theorem not_ascii_exists (hs : Headers) (h : ¬ commaHeadersAscii hs) :
    ∃ x ∈ hs, isCommaHeader x.1 = true ∧ isAscii x.2 = false := by
  simp only [commaHeadersAscii, Classical.not_forall] at h
  obtain ⟨x, hx, hc, hn⟩ := h
  exact ⟨x, hx, hc, by simpa using hn⟩

/-! ### validity -/

/-- **only version 13**: the test `Handshake.is_valid` applies to the (last) `Sec-WebSocket-Version` value — operator and
    constant as they stand in the source, translated by the extractor (`HC/Extracted/WsGuards.lean`) — lets exactly the
    value `13` through: not an absent header, not `130`, `213`, `1.13`, `013`, `13, 8` or any other value containing it -/
theorem only_version_13_iff (v : Option Bytes) : HC.Extracted.WsGuards.versionAccepted v = true ↔ v = some "13".b := by
  have hk : ("13".b : Bytes) = [49, 51] := by decide
  rw [hk]
  cases v with
  | none => simp [HC.Extracted.WsGuards.versionAccepted]
  | some b => simp [HC.Extracted.WsGuards.versionAccepted]

theorem only_version_13 (v : Option Bytes) : HC.Extracted.WsGuards.versionAccepted v = (v == some "13".b) := by
  rw [Bool.eq_iff_iff, only_version_13_iff]
  simp

example : HC.Extracted.WsGuards.versionAccepted (some "130".b) = false ∧ HC.Extracted.WsGuards.versionAccepted (some "213".b) = false ∧
    HC.Extracted.WsGuards.versionAccepted (some "1.13".b) = false ∧ HC.Extracted.WsGuards.versionAccepted none = false ∧
    HC.Extracted.WsGuards.versionAccepted (some "13".b) = true ∧ HC.Extracted.WsGuards.websocketVersion = "13".b := by decide

theorem isValid_handshakeOf_iff (version : String) (hs : Headers) :
    (handshakeOf version hs).isValid = .ok true ↔ validSpec version hs := by
  unfold Handshake.isValid validSpec handshakeOf
  simp only [only_version_13]
  simp only [Bool.false_eq_true, if_false]
  by_cases hlt : version < "1.1"
  · simp [hlt]
  · by_cases h11 : version = "1.1"
    · subst h11
      simp only [hlt, if_false, if_true, not_false_eq_true, true_and, forall_const]
      cases hk : lastHeader "sec-websocket-key".b hs with
      | none => simp
      | some k =>
        cases hc : lastHeader "connection".b hs with
        | none => simp
        | some cv =>
          by_cases hany : (tokens cv).any (fun t => Bytes.lower t == "upgrade".b) = true
          · have hex : ∃ t ∈ tokens cv, Bytes.lower t = "upgrade".b := by simpa using hany
            cases hu : lastHeader "upgrade".b hs with
            | none => simp [hany]
            | some u =>
              by_cases hw : Bytes.lower u = "websocket".b
              · simp [hany, hw, hex]
              · simp [hany, hw]
          · have hex : ¬ ∃ t ∈ tokens cv, Bytes.lower t = "upgrade".b := by simpa using hany
            simp [hany]
            intro _ t ht hl; exact absurd ⟨t, ht, hl⟩ hex
    · simp [hlt, h11]

/-- **validity, read off the header list** (both carriers): the code's `Handshake(headers, v).is_valid()` returns
    `True` exactly when the request is a valid handshake in the property's sense — last occurrence of each header,
    names case-insensitive, `Connection` a comma list containing an `upgrade` token in any case, `Upgrade` equal to
    `websocket` in any case, `Sec-WebSocket-Version` exactly `13`, a key present (HTTP/1.1); HTTP versions below 1.1
    never; above 1.1 only the version header counts — and every token-list header is ASCII -/
theorem is_valid_iff (version : String) (hs : Headers) :
    (Handshake.ofRequest version hs >>= Handshake.isValid) = .ok true ↔ (validSpec version hs ∧ commaHeadersAscii hs) := by
  by_cases ha : commaHeadersAscii hs
  · rw [ofRequest_eq version hs ha]
    simp only [bind, Except.bind]
    exact (isValid_handshakeOf_iff version hs).trans ⟨fun h => ⟨h, ha⟩, fun h => h.1⟩
  · rw [non_ascii_is_400 version hs (not_ascii_exists hs ha)]
    simp [ha]

/-- boundary: HTTP/1.1 with key and `Connection: upgrade` but no `Upgrade` header at all: `self.upgrade.lower()` on
    `None` raises `AttributeError` (unreachable through `H11Protocol._create_stream`, which requires the header) -/
theorem missing_upgrade_raises (hs : Headers) (hk : (lastHeader "sec-websocket-key".b hs).isSome = true)
    (v : Bytes) (hc : lastHeader "connection".b hs = some v) (ht : ∃ t ∈ tokens v, Bytes.lower t = "upgrade".b)
    (hu : lastHeader "upgrade".b hs = none) :
    (handshakeOf "1.1" hs).isValid = .error .attributeError := by
  have hany : (tokens v).any (fun t => Bytes.lower t == "upgrade".b) = true := by simpa using ht
  cases hk' : lastHeader "sec-websocket-key".b hs with
  | none => simp [hk'] at hk
  | some k =>
    have : ¬ ("1.1" : String) < "1.1" := by decide
    simp [Handshake.isValid, handshakeOf, hk', hc, hany, hu, this]

/-- apart from that one case the answer is a Boolean, and it is `false` exactly for the invalid handshakes -/
theorem is_valid_false_iff (version : String) (hs : Headers)
    (hu : version = "1.1" → (lastHeader "upgrade".b hs).isSome = true) :
    (Handshake.ofRequest version hs >>= Handshake.isValid) = .ok false ↔ ¬ (validSpec version hs ∧ commaHeadersAscii hs) := by
  rw [← is_valid_iff version hs]
  by_cases ha : commaHeadersAscii hs
  · rw [ofRequest_eq version hs ha]
    have : ∃ b, (handshakeOf version hs).isValid = .ok b := by
      unfold Handshake.isValid handshakeOf
      simp only [Bool.false_eq_true, if_false]
      by_cases hlt : version < "1.1"
      · exact ⟨false, by simp [hlt]⟩
      · by_cases h11 : version = "1.1"
        · have := hu h11
          cases hup : lastHeader "upgrade".b hs with
          | none => simp [hup] at this
          | some u =>
            simp only [h11, if_true]
            (repeat' split) <;> simp
        · simp [hlt, h11]
    obtain ⟨b, hb⟩ := this
    simp only [bind, Except.bind, hb]
    cases b <;> simp
  · rw [non_ascii_is_400 version hs (not_ascii_exists hs ha)]
    simp

example : validSpec "1.1" [("Connection".b, "keep-alive, Upgrade".b), ("upgrade".b, "WebSocket".b),
    ("sec-websocket-key".b, "x".b), ("sec-websocket-version".b, "12".b), ("Sec-WebSocket-Version".b, "13".b)] := by
  refine ⟨by decide, by decide, fun _ => ⟨by decide, ⟨"keep-alive, Upgrade".b, by decide, "Upgrade".b, by decide, by decide⟩,
    ⟨"WebSocket".b, by decide, by decide⟩⟩⟩
example : ¬ validSpec "1.0" [("sec-websocket-version".b, "13".b)] := fun h => h.1 (by decide)
example : validSpec "2" [("sec-websocket-version".b, "13".b)] := ⟨by decide, by decide, fun h => absurd h (by decide)⟩
example : ¬ validSpec "2" [("sec-websocket-version".b, "13".b), ("sec-websocket-version".b, "8".b)] :=
  fun h => absurd h.2.1 (by decide)

/-! ### the `Request` event -/

/-- **invalid handshake ⇒ 400, stream closed, no application** (nothing is put, nothing can be put later) -/
theorem invalid_400_no_app (maxLen : Nat) (version : String) (hs : Headers) (ping : Bool)
    (h : (Handshake.ofRequest version hs >>= Handshake.isValid) = .ok false) :
    ∃ s, onRequest maxLen version hs true ping = .ok (s, [], errorResponse 400 ++ [.spawnClose]) ∧ s.closed = true ∧ s.hasAppPut = false := by
  unfold onRequest
  cases ho : Handshake.ofRequest version hs with
  | error e => simp [ho, bind, Except.bind] at h
  | ok hsk =>
    simp only [ho, bind, Except.bind] at h
    simp [bind, Except.bind, h, pure, Except.pure]

/-- **valid handshake ⇒ the application is started, `websocket.connect` is the first (and only) message put, and
    nothing is written to the wire** -/
theorem valid_connect_first (maxLen : Nat) (version : String) (hs : Headers) (ping : Bool)
    (h : (Handshake.ofRequest version hs >>= Handshake.isValid) = .ok true) :
    ∃ s, onRequest maxLen version hs true ping = .ok (s, [.connect], []) ∧ s.closed = false ∧ s.hasAppPut = true ∧
      s.st = .handshake ∧ s.conn = none ∧ s.clientCloseCode = none := by
  unfold onRequest
  cases ho : Handshake.ofRequest version hs with
  | error e => simp [ho, bind, Except.bind] at h
  | ok hsk =>
    simp only [ho, bind, Except.bind] at h
    simp [bind, Except.bind, h, pure, Except.pure]

/-- the two together, in the property's terms -/
theorem upgrade_iff_valid (maxLen : Nat) (version : String) (hs : Headers) (ping : Bool)
    (hu : version = "1.1" → (lastHeader "upgrade".b hs).isSome = true) :
    ((validSpec version hs ∧ commaHeadersAscii hs) → ∃ s, onRequest maxLen version hs true ping = .ok (s, [.connect], [])) ∧
    (¬ (validSpec version hs ∧ commaHeadersAscii hs) →
      ∃ s, onRequest maxLen version hs true ping = .ok (s, [], errorResponse 400 ++ [.spawnClose]) ∧ s.closed = true) := by
  constructor
  · intro hv
    obtain ⟨s, h, _⟩ := valid_connect_first maxLen version hs ping ((is_valid_iff version hs).mpr hv)
    exact ⟨s, h⟩
  · intro hv
    obtain ⟨s, h, hc, _⟩ := invalid_400_no_app maxLen version hs ping ((is_valid_false_iff version hs hu).mpr hv)
    exact ⟨s, h, hc⟩

/-- a stream closed by its `Request` event never puts anything to an application and never writes again -/
theorem never_started_never_put (ins : List In) (s : S) (hc : s.closed = true) :
    feedIn s ins = (s, [], []) := by
  induction ins with
  | nil => rfl
  | cons i r ih => simp [feedIn, handle, hc, ih]

theorem never_started_send_noop (token : Bytes → Bytes) (ext : Option Bytes) (s : S) (m : Option Msg) (hc : s.closed = true) :
    appSend token ext s m = (s, [], none) := by
  simp [appSend, hc]

/-! ### accept -/

/-- the headers of an accepted handshake, in wire order -/
def acceptHeaders (h : Handshake) (token : Bytes → Bytes) (extAccepts : Option Bytes) (sp : Option Bytes) (vextra : Headers) : Headers :=
  (match sp with | some p => [("sec-websocket-protocol".b, p)] | none => []) ++
  (match h.extensions, extAccepts with
    | some _, some a => if a ≠ [] then [("sec-websocket-extensions".b, a)] else []
    | _, _ => []) ++
  (match h.key with | some k => [("sec-websocket-accept".b, token k)] | none => []) ++
  (if h.version = "1.1" then [("upgrade".b, "WebSocket".b), ("connection".b, "Upgrade".b)] else []) ++
  vextra

def subprotocolOk (h : Handshake) : Option Bytes → Prop
  | none => True
  | some p => ∃ offered, h.subprotocols = some offered ∧ p ∈ offered

/-- **accept is rendered faithfully**: 101 on HTTP/1.1 and 200 otherwise; the subprotocol header iff one was given;
    the negotiated extensions; the accept token of the client's key; upgrade/connection on HTTP/1.1; then the
    application's extra headers (validated, in order) -/
theorem accept_rendered (h : Handshake) (token : Bytes → Bytes) (ext : Option Bytes) (sp : Option Bytes)
    (extra vextra : Headers) (hsp : subprotocolOk h sp) (hx : validateExtra extra = .ok vextra) :
    h.accept token ext sp extra = .ok (if h.version = "1.1" then 101 else 200, acceptHeaders h token ext sp vextra) := by
  unfold Handshake.accept acceptHeaders
  cases sp with
  | none =>
    simp only [bind, Except.bind, pure, Except.pure, hx]
    cases h.extensions <;> cases ext <;> cases h.key <;> split <;> simp
  | some p =>
    obtain ⟨offered, ho, hm⟩ := hsp
    have : offered.contains p = true := by simpa using hm
    simp only [bind, Except.bind, pure, Except.pure, hx, ho, this, if_true]
    cases h.extensions <;> cases ext <;> cases h.key <;> split <;> simp

/-- **…and only then**: accept succeeds iff the subprotocol (if any) was offered by the client and every extra
    header is acceptable; in particular an unoffered subprotocol or a `sec-websocket-protocol` / pseudo extra header
    is refused -/
theorem accept_ok_iff (h : Handshake) (token : Bytes → Bytes) (ext : Option Bytes) (sp : Option Bytes) (extra : Headers) :
    (∃ r, h.accept token ext sp extra = .ok r) ↔ (subprotocolOk h sp ∧ ∃ vextra, validateExtra extra = .ok vextra) := by
  constructor
  · intro ⟨r, hr⟩
    unfold Handshake.accept at hr
    cases hx : validateExtra extra with
    | error e =>
      exfalso
      cases sp with
      | none => simp [bind, Except.bind, pure, Except.pure, hx] at hr
      | some p =>
        cases ho : h.subprotocols with
        | none => simp [bind, Except.bind, ho, throw, throwThe, MonadExceptOf.throw] at hr
        | some offered =>
          by_cases hm : p ∈ offered
          · simp [bind, Except.bind, pure, Except.pure, hx, ho, hm] at hr
          · simp [bind, Except.bind, ho, hm, throw, throwThe, MonadExceptOf.throw] at hr
    | ok v =>
      refine ⟨?_, v, rfl⟩
      cases sp with
      | none => trivial
      | some p =>
        cases ho : h.subprotocols with
        | none => simp [bind, Except.bind, ho, throw, throwThe, MonadExceptOf.throw] at hr
        | some offered =>
          by_cases hm : p ∈ offered
          · exact ⟨offered, ho, hm⟩
          · simp [bind, Except.bind, ho, hm, throw, throwThe, MonadExceptOf.throw] at hr
  · intro ⟨hsp, vextra, hx⟩
    exact ⟨_, accept_rendered h token ext sp extra vextra hsp hx⟩
/-- an extra header whose name, as it would be sent (stripped), is `sec-websocket-protocol`, a pseudo header, empty or not a
    token makes the accept fail, wherever it stands in the list -/
theorem forbidden_extra_refused (pre : Headers) (x : Header) (post : Headers)
    (hx : Bytes.strip x.1 = "sec-websocket-protocol".b ∨ nameRefused (Bytes.strip x.1) = true) :
    ∃ e, validateExtra (pre ++ x :: post) = .error e := by
  induction pre with
  | nil =>
    simp only [List.nil_append, validateExtra, validateNameBytes, validatePartBytes]
    by_cases hc : hasCtl (Bytes.strip x.1) = true
    · exact ⟨.valueError, by simp [hc]⟩
    · simp only [hc, Bool.false_eq_true, if_false]
      by_cases hr : nameRefused (Bytes.strip x.1) = true
      · exact ⟨.valueError, by simp [hr]⟩
      · rcases hx with hx | hx
        · refine ⟨.exception, ?_⟩
          rw [hx] at hr
          simp [hx, hr]
        · exact absurd hx hr
  | cons a r ih =>
    obtain ⟨e, he⟩ := ih
    simp only [List.cons_append, validateExtra]
    cases h1 : validateNameBytes a.1 with
    | error e1 => exact ⟨_, rfl⟩
    | ok n =>
      simp only
      split
      · exact ⟨_, rfl⟩
      · cases h2 : validatePartBytes a.2 <;> simp [bind, Except.bind, he]

example : ∃ e, validateExtra [("x-a".b, "1".b), (" :status".b, "200".b)] = .error e := forbidden_extra_refused [("x-a".b, "1".b)] _ [] (Or.inr (by decide))

/-- **`websocket.accept` through `app_send`**: response head with exactly the rendered status and headers, one access
    record, state CONNECTED with an OPEN connection -/
theorem accept_sent (token : Bytes → Bytes) (ext : Option Bytes) (s : S) (sp : Option Bytes) (extra vextra : Headers)
    (hc : s.closed = false) (hst : s.st = .handshake) (hsp : subprotocolOk s.hs sp) (hx : validateExtra extra = .ok vextra) :
    appSend token ext s (some (.accept sp extra)) =
      ({ s with st := .connected, hs := { s.hs with accepted := true }, conn := some .open },
       [.response (if s.hs.version = "1.1" then 101 else 200) (acceptHeaders s.hs token ext sp vextra),
        .access (if s.hs.version = "1.1" then 101 else 200)] ++ (if s.pingInterval then [.spawnPings] else []), none) := by
  simp [appSend, hc, hst, accept_rendered s.hs token ext sp extra vextra hsp hx]

/-- **a refused accept is a no-op**: the exception goes to the application, the state and the wire are untouched
    (the application can still answer with `websocket.close` → 403) -/
theorem accept_refused_is_noop (token : Bytes → Bytes) (ext : Option Bytes) (s : S) (sp : Option Bytes) (extra : Headers)
    (hc : s.closed = false) (hst : s.st = .handshake)
    (hbad : ¬ (subprotocolOk s.hs sp ∧ ∃ vextra, validateExtra extra = .ok vextra)) :
    ∃ e, appSend token ext s (some (.accept sp extra)) = (s, [], some e) := by
  cases ha : s.hs.accept token ext sp extra with
  | ok r => exact absurd ((accept_ok_iff s.hs token ext sp extra).mp ⟨r, ha⟩) hbad
  | error e => exact ⟨e, by simp [appSend, hc, hst, ha]⟩

/-- **the token is the RFC 6455 one** when the model's `token` parameter is instantiated with the Lean SHA-1/base64
    (as `lean/Driver/C11.lean` does): `base64(sha1(key ++ "258EAFA5-E914-47DA-95CA-C5AB0DC85B11"))` -/
theorem accept_token_rfc6455 (h : Handshake) (ext : Option Bytes) (sp : Option Bytes) (extra : Headers) (k : Bytes)
    (st : Nat) (hdrs : Headers) (hk : h.key = some k)
    (hok : h.accept HC.Pure.Sha1.acceptToken ext sp extra = .ok (st, hdrs)) :
    ("sec-websocket-accept".b, HC.Pure.Sha1.base64 (HC.Pure.Sha1.sha1 (k ++ "258EAFA5-E914-47DA-95CA-C5AB0DC85B11".b))) ∈ hdrs := by
  obtain ⟨hsp, vextra, hx⟩ := (accept_ok_iff h _ ext sp extra).mp ⟨_, hok⟩
  rw [accept_rendered h _ ext sp extra vextra hsp hx] at hok
  cases hok
  simp [acceptHeaders, hk, HC.Pure.Sha1.acceptToken, HC.Pure.Sha1.guid]

/-- the RFC's own example, end to end through `Handshake.accept` -/
example : (Handshake.accept { version := "1.1", key := some "dGhlIHNhbXBsZSBub25jZQ==".b, subprotocols := some ["chat".b, "superchat".b] }
    HC.Pure.Sha1.acceptToken none (some "chat".b) [("x-a".b, " 1 ".b)]).toOption =
    some (101, [("sec-websocket-protocol".b, "chat".b), ("sec-websocket-accept".b, "s3pPLMBiTxaQ9kYGzzhZRbK+xOo=".b),
      ("upgrade".b, "WebSocket".b), ("connection".b, "Upgrade".b), ("x-a".b, "1".b)]) := by decide +kernel

example : (Handshake.accept { version := "2", subprotocols := some ["chat".b] } (fun _ => []) none (some "evil".b) []) = .error .exception := by rfl
example : (Handshake.accept { version := "2" } (fun _ => []) none none [("sec-websocket-protocol".b, "chat".b)]) = .error .exception := by rfl
example : (Handshake.accept { version := "2" } (fun _ => []) none none []) = .ok (200, []) := by rfl

/-! ### close → 403, HTTP-response extension → exactly that response -/

theorem close_403 (token : Bytes → Bytes) (ext : Option Bytes) (s : S) (code : CloseCode) (reason : Option HV)
    (hc : s.closed = false) (hst : s.st = .handshake) :
    appSend token ext s (some (.close code reason)) = ({ s with st := .httpClosed }, errorResponse 403, none) := by
  simp [appSend, hc, hst]

/-- body messages of a denial response: every chunk but the last with `more_body=True` -/
def bodyMsgs : List Bytes → List (Option Msg)
  | [] => [some (.respBody none false)]
  | [c] => [some (.respBody (some (.bytes c)) false)]
  | c :: rest => some (.respBody (some (.bytes c)) true) :: bodyMsgs rest

def denialMsgs (status : Nat) (hs : List (HV × HV)) (chunks : List Bytes) : List (Option Msg) :=
  some (.respStart (some status) (some hs)) :: bodyMsgs chunks

def bodyEvs : List Bytes → List Ev
  | [] => [.body []]
  | cs => cs.map Ev.body

private theorem feed_bodies_response (token : Bytes → Bytes) (ext : Option Bytes) (status : Nat) (hdrs : Option (List (HV × HV))) :
    ∀ (chunks : List Bytes) (s : S), s.closed = false → s.st = .response → s.response = some (some status, hdrs) →
      (feed token ext s (bodyMsgs chunks)).2 =
        (if Guards.suppressBody "GET" status then [] else bodyEvs chunks) ++ [.endBody, .access status] ∧
      (feed token ext s (bodyMsgs chunks)).1.st = .httpClosed := by
  intro chunks
  induction chunks with
  | nil =>
    intro s hc hst hr
    by_cases hs : Guards.suppressBody "GET" status = true <;>
      simp [bodyMsgs, feed, appSend, hc, hst, hr, sendRejection, bodyBytes, denialHead, hs, bodyEvs]
  | cons c rest ih =>
    intro s hc hst hr
    cases rest with
    | nil =>
      by_cases hs : Guards.suppressBody "GET" status = true <;>
        simp [bodyMsgs, feed, appSend, hc, hst, hr, sendRejection, bodyBytes, denialHead, hs, bodyEvs]
    | cons c2 rest2 =>
      have step : appSend token ext s (some (.respBody (some (.bytes c)) true)) =
          (s, (if Guards.suppressBody "GET" status then [] else [Ev.body c]), none) := by
        simp [appSend, hc, hst, hr, sendRejection, bodyBytes, denialHead]
      have hb : bodyMsgs (c :: c2 :: rest2) = some (.respBody (some (.bytes c)) true) :: bodyMsgs (c2 :: rest2) := rfl
      rw [hb]
      simp only [feed, step]
      obtain ⟨ih1, ih2⟩ := ih s hc hst hr
      refine ⟨?_, ih2⟩
      rw [ih1]
      by_cases hs : Guards.suppressBody "GET" status = true <;> simp [hs, bodyEvs]

/-- **the denial response is rendered exactly**: the given status, the given headers (validated, in order), the body
    chunks in order (none for 1xx / 204 / 304), end-of-body and one access record exactly once, then HTTPCLOSED -/
theorem http_response_exact (token : Bytes → Bytes) (ext : Option Bytes) (s : S) (status : Nat) (hs : List (HV × HV))
    (vh : Headers) (chunks : List Bytes) (hc : s.closed = false) (hst : s.st = .handshake)
    (hv : validateHeaders hs = .ok vh) :
    (feed token ext s (denialMsgs status hs chunks)).2 =
      [.response status vh] ++ (if Guards.suppressBody "GET" status then [] else bodyEvs chunks) ++ [.endBody, .access status] ∧
    (feed token ext s (denialMsgs status hs chunks)).1.st = .httpClosed := by
  have hstart : appSend token ext s (some (.respStart (some status) (some hs))) =
      ({ s with response := some (some status, some hs) }, [], none) := by simp [appSend, hc, hst]
  simp only [denialMsgs, feed, hstart, List.nil_append]
  cases chunks with
  | nil =>
    by_cases hsup : Guards.suppressBody "GET" status = true <;>
      simp [bodyMsgs, feed, appSend, hc, hst, sendRejection, bodyBytes, denialHead, hv, hsup, bodyEvs]
  | cons c rest =>
    cases rest with
    | nil =>
      by_cases hsup : Guards.suppressBody "GET" status = true <;>
        simp [bodyMsgs, feed, appSend, hc, hst, sendRejection, bodyBytes, denialHead, hv, hsup, bodyEvs]
    | cons c2 rest2 =>
      have hb : bodyMsgs (c :: c2 :: rest2) = some (.respBody (some (.bytes c)) true) :: bodyMsgs (c2 :: rest2) := rfl
      have step : appSend token ext { s with response := some (some status, some hs) } (some (.respBody (some (.bytes c)) true)) =
          ({ s with response := some (some status, some hs), st := .response },
           [.response status vh] ++ (if Guards.suppressBody "GET" status then [] else [Ev.body c]), none) := by
        simp [appSend, hc, hst, sendRejection, bodyBytes, denialHead, hv]
      rw [hb]
      simp only [feed, step]
      obtain ⟨h1, h2⟩ := feed_bodies_response token ext status (some hs) (c2 :: rest2)
        { s with response := some (some status, some hs), st := .response } hc rfl rfl
      refine ⟨?_, h2⟩
      rw [h1]
      by_cases hsup : Guards.suppressBody "GET" status = true <;> simp [hsup, bodyEvs]

example : (feed (fun _ => []) none { hs := { version := "1.1" }, buffer := { maxLength := 9 }, hasAppPut := true }
    (denialMsgs 401 [(.bytes "www-authenticate".b, .bytes "Basic".b)] ["no".b, "pe".b])).2 =
    [.response 401 [("www-authenticate".b, "Basic".b)], .body "no".b, .body "pe".b, .endBody, .access 401] := by decide

/-! ### the disconnect code -/

/-- **what `handle(StreamClosed)` tells the application**: 1000 if the ASGI state is CLOSED / HTTPCLOSED (the
    application closed, or answered with a denial response); otherwise the code of a client-initiated close if there
    was one; otherwise 1006.  Exactly one `websocket.disconnect`, and the stream is closed afterwards -/
theorem disconnect_code (s : S) (hc : s.closed = false) (hp : s.hasAppPut = true) :
    handle s .streamClosed =
      ({ s with closed := true },
       [.disconnect (if s.st = .closed ∨ s.st = .httpClosed then 1000 else s.clientCloseCode.getD 1006)], [], none) := by
  by_cases h : s.st = .closed ∨ s.st = .httpClosed
  · have h' : s.st = .httpClosed ∨ s.st = .closed := h.symm
    simp [handle, hc, hp, h, h']
  · have h' : ¬ (s.st = .httpClosed ∨ s.st = .closed) := fun x => h x.symm
    simp [handle, hc, hp, h, h']

/-- …and never a second one -/
theorem disconnect_once (s : S) (hc : s.closed = false) (ins : List In) :
    (feedIn (handle s .streamClosed).1 ins).2.1 = [] := by
  have : (handle s .streamClosed).1.closed = true := by simp [handle, hc]
  rw [never_started_never_put ins _ this]

/-- a client-initiated close is echoed with the client's code, the code is kept, and the stream asks to be closed -/
theorem client_close_echoed (s : S) (c : Nat) (hopen : s.conn = some .open) :
    handleEvents s [.close c] =
      ({ s with conn := some .closed, clientCloseCode := some c }, [], [.data (.close c), .streamClosed], none) := by
  simp [handleEvents, hopen, connRecvClose, sendWs, connSend]

/-- **client-initiated close: the application is told the client's code** (1005 when the close frame carried none —
    that is the code wsproto yields for it) -/
theorem disconnect_code_client_close (s : S) (c : Nat) (hc : s.closed = false) (hp : s.hasAppPut = true)
    (hst : s.st = .connected) (hopen : s.conn = some .open) :
    (handleEvents s [.close c]).2 = ([], [.data (.close c), .streamClosed], none) ∧
    (handle (handleEvents s [.close c]).1 .streamClosed).2.1 = [.disconnect c] := by
  rw [client_close_echoed s c hopen]
  simp [handle, hc, hp, hst]

/-- **client-initiated close whose echo can no longer be written** (the client sent its close frame and vanished): the
    failed write re-enters the protocol, `StreamClosed` is handled while the echo is still being awaited — and the
    application is nevertheless told the client's code, because the source records the code *before* it awaits the echo
    (`WsGuards.closeCodeBeforeEcho`, the statement order under `if … REMOTE_CLOSING:` as extracted) -/
theorem disconnect_code_client_close_echo_lost (s : S) (c : Nat) (hc : s.closed = false) (hp : s.hasAppPut = true)
    (hst : s.st = .connected) (hopen : s.conn = some .open) :
    (handle (atCloseEcho s c) .streamClosed).2.1 = [.disconnect c] ∧
    (handleCloseEchoLost s c).2.1 = [.disconnect c] ∧ (handleCloseEchoLost s c).1.closed = true := by
  have hmid : (handle (atCloseEcho s c) .streamClosed) =
      ({ atCloseEcho s c with closed := true }, [.disconnect c], [], none) := by
    simp [handle, atCloseEcho, hc, hp, hst, hopen, connRecvClose, HC.Extracted.WsGuards.closeCodeBeforeEcho]
  refine ⟨by rw [hmid], ?_, ?_⟩
  · simp only [handleCloseEchoLost, hmid]
    rw [client_close_echoed s c hopen]
    simp
  · simp only [handleCloseEchoLost, hmid]

/-- the order itself, as a fact about the source -/
theorem close_code_recorded_before_echo : HC.Extracted.WsGuards.closeBranch = ["recordCode", "echo"] := by decide

/-- **after the application's own `websocket.close`: 1000** (close frame with the application's code `k` — the value of
    `int(code)`, default 1000 — for every close message a frame can be built from: `closeArgs … = .ok k`) -/
theorem app_close_1000 (token : Bytes → Bytes) (ext : Option Bytes) (s : S) (code : CloseCode) (reason : Option HV) (k : Nat)
    (hc : s.closed = false) (hp : s.hasAppPut = true) (hst : s.st = .connected) (hopen : s.conn = some .open)
    (hk : closeArgs s code reason = .ok k) :
    (appSend token ext s (some (.close code reason))).2 = ([.data (.close k), .endData], none) ∧
    (handle (appSend token ext s (some (.close code reason))).1 .streamClosed).2.1 = [.disconnect 1000] := by
  simp [appSend, hc, hst, hk, sendWs, hopen, connSend, handle, hp]

/-- the hypothesis is satisfiable: no code (1000), any code that fits a close frame, with a str reason or none -/
example (s : S) (hopen : s.conn = some .open) : closeArgs s .absent none = .ok 1000 := by simp [closeArgs, CloseCode.value, hopen, connSend, closeFrame]
example (s : S) (hopen : s.conn = some .open) : closeArgs s (.int 3000) (some (.str "bye")) = .ok 3000 := by
  simp [closeArgs, CloseCode.value, hopen, connSend, closeFrame]

/-- **simultaneous close** (the application closed first, then the client's close frame arrives): no second close
    frame, and the application is told 1000 -/
theorem simultaneous_close_1000 (token : Bytes → Bytes) (ext : Option Bytes) (s : S) (code : CloseCode) (reason : Option HV) (k c : Nat)
    (hc : s.closed = false) (hp : s.hasAppPut = true) (hst : s.st = .connected) (hopen : s.conn = some .open)
    (hk : closeArgs s code reason = .ok k) :
    let s1 := (appSend token ext s (some (.close code reason))).1
    (handleEvents s1 [.close c]).2 = ([], [.streamClosed], none) ∧
    (handle (handleEvents s1 [.close c]).1 .streamClosed).2.1 = [.disconnect 1000] := by
  simp [appSend, hc, hst, hk, sendWs, hopen, connSend, handleEvents, connRecvClose, handle, hp]

/-- **connection lost while CONNECTED (EOF / reset, no close frame from the client): 1006** -/
theorem lost_1006 (s : S) (hc : s.closed = false) (hp : s.hasAppPut = true) (hst : s.st = .connected)
    (hn : s.clientCloseCode = none) : (handle s .streamClosed).2.1 = [.disconnect 1006] := by
  simp [handle, hc, hp, hst, hn]

/-- connection lost before the application answered the handshake: 1006 as well -/
theorem lost_in_handshake_1006 (s : S) (hc : s.closed = false) (hp : s.hasAppPut = true) (hst : s.st = .handshake)
    (hn : s.clientCloseCode = none) : (handle s .streamClosed).2.1 = [.disconnect 1006] := by
  simp [handle, hc, hp, hst, hn]

/-- the server's own 1009 close echoed by the client is *not* a client-initiated close: 1006 -/
theorem server_1009_then_echo_1006 (s : S) (hc : s.closed = false) (hp : s.hasAppPut = true) (hst : s.st = .connected)
    (hl : s.conn = some .localClosing) (hn : s.clientCloseCode = none) :
    (handle (handleEvents s [.close 1009]).1 .streamClosed).2.1 = [.disconnect 1006] := by
  simp [handleEvents, hl, connRecvClose, handle, hc, hp, hst, hn]

private theorem denialHead_cc (s : S) (status : Nat) (headers : Option (List (HV × HV))) (s1 : S) (e1 : List Ev)
    (h : denialHead s status headers = .ok (s1, e1)) : s1.clientCloseCode = s.clientCloseCode := by
  unfold denialHead at h
  (repeat' split at h) <;> cases h <;> rfl

private theorem sendRejection_cc (s : S) (body : Option HV) (more : Bool) :
    (sendRejection s body more).1.clientCloseCode = s.clientCloseCode := by
  unfold sendRejection
  cases hr : s.response with
  | none => simp
  | some p =>
    obtain ⟨st?, hdrs⟩ := p
    cases st? with
    | none => simp
    | some status =>
      simp only []
      cases hb : bodyBytes body with
      | error e => simp
      | ok b =>
        simp only []
        cases hd : denialHead s status hdrs with
        | error e => simp
        | ok q =>
          obtain ⟨s1, e1⟩ := q
          have := denialHead_cc s status hdrs s1 e1 hd
          simp only []
          split <;> simp [this]

/-- a frame wsproto cannot parse is not a close by the client: no close frame is echoed (the library's state did not
    move), the stream asks to be closed, and the application is told 1006 -/
theorem parse_failure_1006 (s : S) (c : Nat) (hc : s.closed = false) (hp : s.hasAppPut = true) (hst : s.st = .connected)
    (hopen : s.conn = some .open) (hn : s.clientCloseCode = none) :
    (handleEvents s [.failed c]).2 = ([], [.streamClosed], none) ∧
    (handle (handleEvents s [.failed c]).1 .streamClosed).2.1 = [.disconnect 1006] := by
  simp [handleEvents, hopen, handle, hc, hp, hst, hn]

/-- `client_close_code` is only ever set by a close frame: nothing the application sends touches it -/
theorem appSend_keeps_close_code (token : Bytes → Bytes) (ext : Option Bytes) (s : S) (m : Option Msg) :
    (appSend token ext s m).1.clientCloseCode = s.clientCloseCode := by
  unfold appSend
  split
  · rfl
  · cases m with
    | none => simp only [sendWs]; (repeat' split) <;> simp_all
    | some m =>
      cases m with
      | respBody body more => simp only []; split <;> simp [sendRejection_cc]
      | accept sp extra => simp only [sendWs]; (repeat' split) <;> simp_all
      | respStart st hs => simp only [sendWs]; (repeat' split) <;> simp_all
      | send b t => simp only [sendWs]; (repeat' split) <;> simp_all
      | close c => simp only [sendWs]; (repeat' split) <;> simp_all
      | other => simp

def closeWitness : S :=
  { st := .connected, hs := { version := "1.1", accepted := true }, conn := some .open, buffer := { maxLength := 9 },
    hasAppPut := true }

/-- the scenario that used to report 1006 (F13, repaired by `fix: websocket.disconnect reports the client's close code
    after a client initiated close`) -/
example : (handle (handleEvents closeWitness [.close 1001]).1 .streamClosed).2.1 = [.disconnect 1001] := by decide
example : (handle (handleEvents closeWitness [.close 1005]).1 .streamClosed).2.1 = [.disconnect 1005] := by decide
example : (handle closeWitness .streamClosed).2.1 = [.disconnect 1006] := by decide

end HC.Props.C11
