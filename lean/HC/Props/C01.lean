import HC.Proto.H11
import HC.Pure.Utils
import HC.Props.C06
import HC.Proto.H2Credit
import HC.Proto.H2DeliverInv
/-!
# C01 — HTTP request delivery fidelity (scope and body reach the application exactly)

Glue-level statements: what `H11Protocol` / `HTTPStream` / `filter_pseudo_headers` do with the events the parser
libraries yield.  That the libraries' events carry the client's bytes (for every segmentation) is library behaviour,
sampled end-to-end with every two-way split of short requests.
-/
namespace HC.Props.C01
open HC HC.Stream HC.Lib HC.Proto.H11 HC.Utils HC.Extracted

/-! ### scope -/

/-- **the split of the request target** (re-decided against the current source: `targetRawPath` / `targetQuery` are the
    expressions `HTTPStream.handle(Request)` puts under `raw_path` / `query_string`, and `path` is the percent-decoded `raw_path`):
    the target is cut at the first `?` and nowhere else - no other character of it (`#`, `;`, a leading `//`, `scheme://host`,
    a second `?`) is interpreted, nothing is dropped -/
theorem target_split_spec (raw : Bytes) :
    ReqGlue.targetRawPath raw = (Bytes.partitionB 63 raw).1 ∧ ReqGlue.targetQuery raw = (Bytes.partitionB 63 raw).2.2 ∧
    (63 : UInt8) ∉ ReqGlue.targetRawPath raw ∧
    (raw = ReqGlue.targetRawPath raw ++ ReqGlue.targetQuery raw ∨ raw = ReqGlue.targetRawPath raw ++ 63 :: ReqGlue.targetQuery raw) ∧
    ((63 : UInt8) ∉ raw → ReqGlue.targetRawPath raw = raw ∧ ReqGlue.targetQuery raw = []) := by
  have h1 : ReqGlue.targetRawPath raw = (Bytes.partitionB 63 raw).1 := by rfl
  have h2 : ReqGlue.targetQuery raw = (Bytes.partitionB 63 raw).2.2 := by rfl
  have hj := Bytes.partitionB_join 63 raw
  rw [h1, h2]
  cases hp : Bytes.partitionB 63 raw with
  | mk h ft =>
    obtain ⟨f, t⟩ := ft
    simp only [hp] at hj
    obtain ⟨j1, j2, j3⟩ := hj
    refine ⟨rfl, rfl, j2, ?_, ?_⟩
    · cases f with
      | true => right; simpa using j1
      | false => left; simpa using j1
    · intro hq
      cases f with
      | true => exfalso; apply hq; rw [j1]; simp
      | false => have := j3 rfl; subst this; simpa using j1.symm

example : ReqGlue.targetRawPath "//cdn/assets/app.js?v=1".b = "//cdn/assets/app.js".b ∧ ReqGlue.targetQuery "/search?q=a#b".b = "q=a#b".b ∧
    ReqGlue.targetRawPath "http://h/p?q".b = "http://h/p".b ∧ ReqGlue.targetQuery "/x?a?b".b = "a?b".b := by decide

/-- **HTTP/1 scope**: method upper-cased, target split at the first `?` into raw path and query string (nothing lost),
    version and header list passed through (raw pairs when `h11_pass_raw_headers`) -/
theorem scope_h1 (cfg : Cfg) (r : ReqEv) (ws : Bool) :
    let sc := scopeOf cfg r ws
    sc.method = Bytes.toString (Bytes.upper r.method) ∧
    sc.version = Bytes.toString r.version ∧
    sc.headers = (if cfg.rawHeaders then r.rawHeaders else r.headers) ∧
    (63 : UInt8) ∉ sc.rawPath ∧
    (r.target = sc.rawPath ++ sc.query ∨ r.target = sc.rawPath ++ 63 :: sc.query) ∧
    ((63 : UInt8) ∉ r.target → sc.rawPath = r.target ∧ sc.query = []) := by
  obtain ⟨-, -, h2, h1, h3⟩ := target_split_spec r.target
  simp only [scopeOf, decodeAsciiUpper]
  exact ⟨trivial, trivial, trivial, h2, h1, h3⟩

/-- a WebSocket is chosen exactly for GET + `Upgrade: websocket` + a `Connection` token `upgrade` -/
theorem websocket_iff (r : ReqEv) :
    isWebsocketRequest r = true ↔
      ((Bytes.splitOnB 44 (Bytes.lower ((hdr "connection".b r.headers).getD []))).any (fun t => Bytes.stripL1 t == "upgrade".b) = true ∧
       Bytes.lower ((hdr "upgrade".b r.headers).getD []) = "websocket".b ∧ Bytes.upper r.method = "GET".b) := by
  simp [isWebsocketRequest, Bool.and_eq_true, and_assoc]

/-- **HTTP/2 header list**: `host` first, taken from `:authority` (falling back to a `host` header), then every
    non-pseudo, non-host header in order -/
theorem filterPseudo_spec (hs : Headers) :
    ∃ hostv, filterPseudo hs = ("host".b, hostv) :: hs.filter (fun x => x.1 != ":authority".b && x.1 != "host".b && x.1.head? != some 58) ∧
      (∀ a, (hs.reverse.find? (fun x => x.1 == ":authority".b)) = some a → hostv = a.2) ∧
      ((hs.reverse.find? (fun x => x.1 == ":authority".b)) = none →
        hostv = ((hs.reverse.find? (fun x => x.1 == "host".b)).map (·.2)).getD []) := by
  refine ⟨_, rfl, ?_, ?_⟩
  · intro a ha; simp [ha]
  · intro hn; simp [hn]

example : filterPseudo [(":method".b, "GET".b), (":authority".b, "quart".b), (":path".b, "/".b), ("user-agent".b, "x".b), ("host".b, "other".b)]
    = [("host".b, "quart".b), ("user-agent".b, "x".b)] := by decide
example : filterPseudo [(":path".b, "/".b), ("host".b, "h".b), ("a".b, "1".b), ("a".b, "2".b)] = [("host".b, "h".b), ("a".b, "1".b), ("a".b, "2".b)] := by
  decide

/-! ### server names: whether an instance is started does not depend on how the client spelt the header names -/

/-- h11 reports every header twice: `event.headers` (names lower-cased) and `headers.raw_items()` (the client's
    spelling, what the scope carries when `h11_pass_raw_headers` is configured) -/
def lowerNames (hs : Headers) : Headers := hs.map (fun h => (Bytes.lower h.1, h.2))

private theorem lowerB_idem (b : UInt8) : Bytes.lowerB (Bytes.lowerB b) = Bytes.lowerB b := by
  unfold Bytes.lowerB
  split
  · rename_i h
    have h32 : (b + 32).toNat = b.toNat + 32 := by
      rw [UInt8.toNat_add]; simp; omega
    rw [if_neg]; rw [h32]; omega
  · rfl

private theorem lower_idem (bs : Bytes) : Bytes.lower (Bytes.lower bs) = Bytes.lower bs := by
  simp [Bytes.lower, lowerB_idem]

/-- the extracted host-header test (`ReqGlue.serverNameKey`, from `utils.valid_server_name`) is case-insensitive -/
theorem server_name_key_caseless (n : Bytes) : ReqGlue.serverNameKey (Bytes.lower n) = ReqGlue.serverNameKey n := by
  simp [ReqGlue.serverNameKey, lower_idem]

/-- … and it recognises exactly the name `host` -/
theorem server_name_key_iff (n : Bytes) : ReqGlue.serverNameKey n = true ↔ Bytes.lower n = "host".b := by
  simp [ReqGlue.serverNameKey]

/-- **the server-name decision is the same for the raw header list and for the lower-cased one** -/
theorem server_name_spelling (cfg : Cfg) (raw : Headers) :
    validServerName cfg (lowerNames raw) = validServerName cfg raw := by
  have hf : ∀ l : Headers, ((lowerNames l).find? (fun h => ReqGlue.serverNameKey h.1)).map (·.2) =
      (l.find? (fun h => ReqGlue.serverNameKey h.1)).map (·.2) := by
    intro l
    induction l with
    | nil => rfl
    | cons a t ih =>
      have ha : ReqGlue.serverNameKey (Bytes.lower a.1) = ReqGlue.serverNameKey a.1 := server_name_key_caseless a.1
      show (List.find? _ ((Bytes.lower a.1, a.2) :: lowerNames t)).map _ = _
      simp only [List.find?_cons, ha]
      cases ReqGlue.serverNameKey a.1
      · exact ih
      · rfl
  simp only [validServerName, hf]

/-- **configuring raw headers changes the header list of the scope, never whether the instance is started**
    (`hraw` is what h11 guarantees about a `Request` event; the harness checks it on every tapped event) -/
theorem server_name_raw_indep (cfg : Cfg) (r : ReqEv) (ws : Bool) (hraw : r.headers = lowerNames r.rawHeaders) :
    validServerName cfg (scopeOf cfg r ws).headers = validServerName cfg r.headers := by
  simp only [scopeOf]
  cases cfg.rawHeaders
  · rfl
  · simp [hraw, server_name_spelling]

example : validServerName { keepAliveMax := 1, rawHeaders := true, serverNames := ["x".b] } [("Host".b, "x".b)] = true := by decide
example : validServerName { keepAliveMax := 1, serverNames := ["x".b] } [("HOST".b, "y".b), ("host".b, "x".b)] = false := by decide

/-! ### body: every parser event is forwarded to the live instance, in order, nothing invented -/

/-- a `Data` event for the live HTTP stream `i` puts exactly one `http.request` message carrying those bytes
    (`more_body = True`) to instance `i`, and nothing else -/
theorem data_forwarded (cfg : Cfg) (st : St) (d : Bytes) (i : Nat) (s : Http.S) (lib' : H11M.St)
    (hcur : st.cur = some i) (hobj : st.objs[i]? = some (.http s)) (hclosed : s.closed = false)
    (hl : H11M.recvData st.lib = some lib') :
    onLibEvBody cfg st [] (.data d) = some ({ st with lib := lib' }.setObj i (.http s), [.putHttp i (.request d true)]) := by
  obtain ⟨lib, objs, cur, a4, a5, a6, a7, a8, a9, a10, a11, a12⟩ := st
  simp only at hcur hobj hl
  subst hcur
  simp [onLibEvBody, hl, St.stream, hobj, Http.handle, hclosed, St.setObj]

/-- `EndOfMessage` puts exactly one final message (`more_body = False`, empty body) -/
theorem eom_forwarded (cfg : Cfg) (st : St) (i : Nat) (s : Http.S) (lib' : H11M.St)
    (hcur : st.cur = some i) (hobj : st.objs[i]? = some (.http s)) (hclosed : s.closed = false)
    (hl : H11M.recvEom st.lib = some lib') :
    onLibEvBody cfg st [] .eom = some ({ st with lib := lib', requestComplete := true }.setObj i (.http s), [.putHttp i (.request [] false)]) := by
  obtain ⟨lib, objs, cur, a4, a5, a6, a7, a8, a9, a10, a11, a12⟩ := st
  simp only at hcur hobj hl
  subst hcur
  simp [onLibEvBody, hl, St.stream, hobj, Http.handle, hclosed, St.setObj]

/-- the stream-level transducer for a run of body events: messages = the chunks in order, then one final message -/
def bodyPuts (chunks : List Bytes) (complete : Bool) : List Http.AppMsg :=
  chunks.map (fun c => Http.AppMsg.request c true) ++ (if complete then [Http.AppMsg.request [] false] else [])

def feedBody (s : Http.S) : List Http.In → Http.S × List Http.AppMsg
  | [] => (s, [])
  | i :: is => ((feedBody (Http.handle s i).1 is).1, (Http.handle s i).2.1 ++ (feedBody (Http.handle s i).1 is).2)

theorem body_messages (s : Http.S) (hc : s.closed = false) (chunks : List Bytes) (complete : Bool) :
    (feedBody s (chunks.map Http.In.body ++ (if complete then [Http.In.endBody] else []))).2 = bodyPuts chunks complete ∧
    (feedBody s (chunks.map Http.In.body ++ (if complete then [Http.In.endBody] else []))).1 = s := by
  induction chunks with
  | nil => cases complete <;> simp [feedBody, bodyPuts, Http.handle, hc]
  | cons c cs ih =>
    obtain ⟨ih1, ih2⟩ := ih
    have hstep : Http.handle s (.body c) = (s, [.request c true], []) := by simp [Http.handle, hc]
    simp only [List.map_cons, List.cons_append, feedBody, hstep]
    refine ⟨?_, ih2⟩
    rw [ih1]; simp [bodyPuts]

def concatBodies (ms : List Http.AppMsg) : Bytes :=
  (ms.filterMap (fun m => match m with | .request b _ => some b | _ => none)).flatten

def finals (ms : List Http.AppMsg) : Nat :=
  (ms.filter (fun m => match m with | .request _ false => true | _ => false)).length

/-- **the bodies of the `http.request` messages concatenate to the bytes of the Data events, and there is exactly one
    `more_body = False` message iff the parser reported end-of-message** -/
theorem body_concat (chunks : List Bytes) (complete : Bool) :
    concatBodies (bodyPuts chunks complete) = chunks.flatten ∧
    finals (bodyPuts chunks complete) = (if complete then 1 else 0) := by
  have h1 : ∀ l : List Bytes, (l.map (fun c => Http.AppMsg.request c true)).filterMap
      (fun m => match m with | .request b _ => some b | _ => none) = l := by
    intro l; induction l with
    | nil => rfl
    | cons a t ih => simp [ih]
  have h2 : ∀ l : List Bytes, (l.map (fun c => Http.AppMsg.request c true)).filter
      (fun m => match m with | .request _ false => true | _ => false) = [] := by
    intro l; induction l with
    | nil => rfl
    | cons a t ih => simp [ih]
  constructor
  · cases complete <;> simp [concatBodies, bodyPuts, List.filterMap_append, h1]
  · cases complete <;> simp [finals, bodyPuts, List.filter_append, h2]

/-- **segmentation independence at the glue**: however the parser cuts the same body bytes into Data events, the
    application receives the same bytes and the same completion signal -/
theorem segmentation_indep (c1 c2 : List Bytes) (complete : Bool) (h : c1.flatten = c2.flatten) :
    concatBodies (bodyPuts c1 complete) = concatBodies (bodyPuts c2 complete) ∧
    finals (bodyPuts c1 complete) = finals (bodyPuts c2 complete) := by
  simp [body_concat, h]

/-! ### HTTP/2: every received DATA byte is acknowledged, whether or not its stream is still there -/
open HC.Proto.H2Credit in
/-- handling one `DataReceived` acknowledges exactly its flow-controlled length — also when the response has already
    completed and the stream is forgotten (`KeyError` path).  The counts are extracted from `_handle_events`. -/
theorem data_acked (e : DataEv) : acked e = e.len := by
  cases e with
  | mk len live => cases live <;> simp [acked, ReqGlue.dataAcksDelivered, ReqGlue.dataAcksMissing]

open HC.Proto.H2Credit in
/-- **the connection's receive window is conserved**: after any sequence of DATA events, for live and for completed
    streams in any mix, everything that was consumed has been given back — so the body of a later request on the
    connection can always be sent (the window never leaks away) -/
theorem window_conserved (es : List DataEv) (w : Win) (hw : w.returned = w.consumed) :
    (run w es).returned = (run w es).consumed := by
  induction es generalizing w with
  | nil => exact hw
  | cons e es ih =>
    apply ih
    simp [HC.Proto.H2Credit.step, data_acked, hw]

open HC.Proto.H2Credit in
theorem window_available (es : List DataEv) (w0 : Nat) : (run {} es).available w0 = w0 := by
  have := window_conserved es {} rfl
  simp [Win.available, this]

/-- the acknowledgement names the event's flow-controlled length (padding included) and the event's stream -/
theorem data_ack_args : ReqGlue.dataAckArgs = ["event.flow_controlled_length, event.stream_id"] := by decide

/-- **exactly one application instance per request**: the handling of a `Request` event for an allowed server name
    spawns exactly one instance, and (C06 `serial`) only when no other instance is live -/
theorem one_instance (cfg : Cfg) (st : St) (o0 : List Out) (r : ReqEv) (s1 : St) (o1 : List Out)
    (hsw : checkProtocol r = .none) (hws : isWebsocketRequest r = false) (hname : validServerName cfg (scopeOf cfg r false).headers = true)
    (h : onLibEvBody cfg st o0 (.request r) = some (s1, o1)) :
    s1.spawns = st.spawns + 1 ∧ o1 = o0 ++ [.upUpdated false, .spawn st.objs.length (scopeOf cfg r false)] ∧
    s1.cur = some st.objs.length := by
  simp only [onLibEvBody] at h
  split at h
  · cases h
  · simp only [hsw, hws, hname, Bool.false_eq_true, if_false, if_true, Bool.not_true, Option.some.injEq, Prod.mk.injEq] at h
    obtain ⟨rfl, rfl⟩ := h
    simp [St.newObj]

/-! ### HTTP/2 end to end: h2 events → `H2Protocol` glue → `HTTPStream` → application -/
section H2
open HC.Proto.H2Deliver

/-- the source facts the contents wrapper rests on (read off `h2.py` by `tools/extract_req.py`): the `Request` event of
    `_create_stream`, the header loop that binds `method` / `raw_path`, the `Body` event of a `DataReceived` -/
theorem h2_request_event_assumed :
    ReqGlue.h2RequestArgs = ["stream_id=request.stream_id", "headers=filter_pseudo_headers(request.headers)", "http_version='2'", "method=method",
                             "raw_path=raw_path", "state=self.connection_state"] ∧
    ReqGlue.h2HeaderLoop = ["name == b':method': method = value.decode('ascii').upper()", "name == b':path': raw_path = value"] ∧
    ReqGlue.dataBodyArgs = ["stream_id=event.stream_id", "data=event.data"] := by decide

/-- **HTTP/2 request delivery, for every interleaving.**  Take any run of the receive side of `H2Protocol` — h2 events of any
    number of streams, PRIORITY / WINDOW_UPDATE / SETTINGS, the applications' `stream_send` calls and the send task's
    iterations in any order, the libraries answering as they may — in which stream `i`, not known before, receives
    `RequestReceived(headers)`, then `DataReceived` events `ds`, then `StreamEnded` iff `complete`; the request is one
    `_create_stream` accepts and the stream is not removed in between (`Adm`: no RST_STREAM for it, connection not closed, its
    application has not finished).  Then stream `i`'s object is created **exactly once** and handed **exactly**: the
    `Request` event built from those headers, then one `Body` per DATA event carrying that event's payload, in order, then
    `EndBody` iff the client ended the stream — nothing else, whatever the other streams did. -/
theorem h2_request_delivered (i kaMax : Nat) (s0 s : HC.Proto.H2Recv.St) (ops : List RxOp) (dl : List Dlv)
    (hrun : rxRun kaMax s0 ops = .ok (s, dl)) (hadm : Adm i kaMax s0 ops) (hfresh : i ∉ s0.streams)
    (hs : Headers) (ins lib : Option HC.Proto.H2Recv.Exn) (ds : List (Bytes × Nat)) (complete : Bool)
    (hrx : ops.filter (rxFor i) = [RxOp.request i hs ins lib] ++ ds.map (fun p => RxOp.data i p.1 p.2) ++
              (if complete then [RxOp.low (.ev (.ended i))] else [])) :
    dlvFor i dl = [Dlv.start i (reqOf i hs).isConnect (requestOf hs)] ++ ds.map (fun p => Dlv.body i p.1) ++
                    (if complete then [Dlv.endBody i] else []) := by
  obtain ⟨h1, _⟩ := deliveries i kaMax ops s0 s dl hrun hadm
  rw [h1, hrx]
  simp only [hfresh, decide_false, List.cons_append, List.nil_append, expectR, List.append_assoc]
  rw [expectR_live]
  cases complete <;> simp [expectR]

/-- **every DATA frame is acknowledged exactly once** (`acknowledge_received_data(flow_controlled_length, stream_id)`), in
    order, in *every* run — whether the frame's stream is live, was reset, has completed its response, or the connection was
    closed — so the client's connection window is given back in full -/
theorem h2_data_acked (kaMax : Nat) (s0 s : HC.Proto.H2Recv.St) (ops : List RxOp) (dl : List Dlv)
    (hrun : rxRun kaMax s0 ops = .ok (s, dl)) (hok : ∀ op ∈ ops, op.ok = true) :
    acksOf dl = flowsOf ops ∧ ((acksOf dl).map (·.2)).sum = ((flowsOf ops).map (·.2)).sum := by
  have := run_acks kaMax ops s0 s dl hrun hok
  exact ⟨this, by rw [this]⟩

/-- the number of acknowledgements the receive-side model makes per DATA event is the number the extractor counts in the
    source, on both paths (stream there / stream gone) — the link between `HC.Proto.H2Recv` and `HC.Proto.H2Credit` -/
theorem h2_ack_paths (kaMax : Nat) (s : HC.Proto.H2Recv.St) (j : Nat) (d : Bytes) (f : Nat) :
    ∃ s1 d1, rxStep kaMax s (.data j d f) = .ok (s1, d1) ∧ s1 = s ∧
      (acksOf d1).length = (if j ∈ s.streams then ReqGlue.dataAcksDelivered else ReqGlue.dataAcksMissing) ∧
      acksOf d1 = List.replicate (HC.Proto.H2Credit.acked { len := 1, live := decide (j ∈ s.streams) }) (j, f) := by
  by_cases hl : j ∈ s.streams
  · refine ⟨s, [Dlv.body j d, Dlv.ack j f], ?_, rfl, ?_, ?_⟩
    · simp [rxStep, RxOp.abs, HC.Proto.H2Recv.step, HC.Proto.H2Recv.onEvent, hl, decorate]
    · simp [acksOf, hl, ReqGlue.dataAcksDelivered]
    · simp [acksOf, hl, HC.Proto.H2Credit.acked, ReqGlue.dataAcksDelivered]
  · refine ⟨s, [Dlv.ack j f], ?_, rfl, ?_, ?_⟩
    · simp [rxStep, RxOp.abs, HC.Proto.H2Recv.step, HC.Proto.H2Recv.onEvent, hl, decorate, catches_data_keyError]
    · simp [acksOf, hl, ReqGlue.dataAcksMissing]
    · simp [acksOf, hl, HC.Proto.H2Credit.acked, ReqGlue.dataAcksMissing]

/-- the `HTTPStream` created for a `Request` event (the same class serves HTTP/1: cf. `H11.onLibEvBody`) -/
def streamOf (r : Request) (validName : Bool) : Http.S :=
  { method := r.method, version := r.version, reqHeaders := r.headers, hasAppPut := validName, closed := !validName,
    st := if validName then .request else .closed }

/-- what a delivery is for the stream object -/
def toIn : Dlv → Option Http.In
  | .body _ d => some (.body d)
  | .endBody _ => some .endBody
  | .closed _ => some .streamClosed
  | _ => none

/-- **C01 over HTTP/2, end to end in the model**: under the hypotheses of `h2_request_delivered`, for a request that is not a
    CONNECT and names a configured server: exactly one stream object is created for `i`, its scope is (method upper-cased,
    `:path` split at the first `?` with nothing lost, header list `filter_pseudo_headers(headers)`, HTTP version "2"), and the
    `http.request` messages its application is put are exactly the DATA payloads in order (`more_body = True`) followed by
    one final message iff the client ended the stream: the bodies concatenate to what the client sent. -/
theorem h2_request_end_to_end (i kaMax : Nat) (s0 s : HC.Proto.H2Recv.St) (ops : List RxOp) (dl : List Dlv)
    (hrun : rxRun kaMax s0 ops = .ok (s, dl)) (hadm : Adm i kaMax s0 ops) (hfresh : i ∉ s0.streams)
    (hs : Headers) (ins lib : Option HC.Proto.H2Recv.Exn) (ds : List (Bytes × Nat)) (complete : Bool)
    (hrx : ops.filter (rxFor i) = [RxOp.request i hs ins lib] ++ ds.map (fun p => RxOp.data i p.1 p.2) ++
              (if complete then [RxOp.low (.ev (.ended i))] else [])) :
    ∃ rest, dlvFor i dl = Dlv.start i (reqOf i hs).isConnect (requestOf hs) :: rest ∧
      (∀ ws r, Dlv.start i ws r ∉ rest) ∧
      -- the scope
      (HC.Proto.H2Deliver.scopeOf (requestOf hs)).method = Bytes.toString (Bytes.upper ((lastVal hs ":method".b).getD [])) ∧
      (HC.Proto.H2Deliver.scopeOf (requestOf hs)).version = "2" ∧
      (HC.Proto.H2Deliver.scopeOf (requestOf hs)).headers = filterPseudo hs ∧
      (63 : UInt8) ∉ (HC.Proto.H2Deliver.scopeOf (requestOf hs)).rawPath ∧
      ((lastVal hs ":path".b).getD [] = (HC.Proto.H2Deliver.scopeOf (requestOf hs)).rawPath ++ (HC.Proto.H2Deliver.scopeOf (requestOf hs)).query ∨
       (lastVal hs ":path".b).getD [] = (HC.Proto.H2Deliver.scopeOf (requestOf hs)).rawPath ++ 63 :: (HC.Proto.H2Deliver.scopeOf (requestOf hs)).query) ∧
      -- the body
      (feedBody (streamOf (requestOf hs) true) (rest.filterMap toIn)).2 = bodyPuts (ds.map (·.1)) complete ∧
      concatBodies (bodyPuts (ds.map (·.1)) complete) = (ds.map (·.1)).flatten ∧
      finals (bodyPuts (ds.map (·.1)) complete) = (if complete then 1 else 0) := by
  have hd := h2_request_delivered i kaMax s0 s ops dl hrun hadm hfresh hs ins lib ds complete hrx
  refine ⟨ds.map (fun p => Dlv.body i p.1) ++ (if complete then [Dlv.endBody i] else []), by simpa using hd, ?_, rfl, rfl, rfl, ?_, ?_, ?_, ?_⟩
  · intro ws r hmem
    rcases List.mem_append.mp hmem with h | h
    · simp at h
    · cases complete <;> simp at h
  · simp only [HC.Proto.H2Deliver.scopeOf, requestOf]
    exact (target_split_spec _).2.2.1
  · simp only [HC.Proto.H2Deliver.scopeOf, requestOf]
    exact (target_split_spec _).2.2.2.1
  · have hin : (ds.map (fun p => Dlv.body i p.1) ++ (if complete then [Dlv.endBody i] else [])).filterMap toIn =
        (ds.map (·.1)).map Http.In.body ++ (if complete then [Http.In.endBody] else []) := by
      rw [List.filterMap_append]
      congr 1
      · have : ∀ l : List (Bytes × Nat), (l.map (fun p => Dlv.body i p.1)).filterMap toIn = (l.map (·.1)).map Http.In.body := by
          intro l
          induction l with
          | nil => rfl
          | cons p t ih => simp only [List.map_cons, List.filterMap_cons, toIn, ih]
        exact this ds
      · cases complete <;> simp [toIn]
    rw [hin]
    exact (body_messages (streamOf (requestOf hs) true) rfl (ds.map (·.1)) complete).1
  · exact body_concat (ds.map (·.1)) complete

/-- non-vacuity: two streams interleaved, a WINDOW_UPDATE in between, stream 3's application finishing before its last DATA frame
    arrives (still acknowledged), stream 1 complete — the hypotheses of `h2_request_delivered` hold for stream 1 -/
def exRx : List RxOp :=
  [.request 1 [(":method".b, "post".b), (":path".b, "/a?b=1".b), (":authority".b, "x".b), ("x-k".b, "1".b)] none none,
   .request 3 [(":method".b, "PUT".b), (":path".b, "/p".b), (":authority".b, "x".b)] none none,
   .data 1 "ab".b 2, .data 3 "zz".b 5, .low (.ev (.window 0)), .low (.app 3 (.streamClosed false none)), .data 3 "late".b 4,
   .data 1 "c".b 1, .low (.ev (.ended 1)), .low .batchEnd]

example : ∃ s dl, rxRun 10 {} exRx = .ok (s, dl) ∧ admB 1 10 {} exRx = true ∧
    dlvFor 1 dl = [.start 1 false { headers := [("host".b, "x".b), ("x-k".b, "1".b)], version := "2", method := "POST", rawPath := "/a?b=1".b },
                   .body 1 "ab".b, .body 1 "c".b, .endBody 1] ∧
    acksOf dl = [(1, 2), (3, 5), (3, 4), (1, 1)] ∧
    (HC.Proto.H2Deliver.scopeOf (requestOf [(":method".b, "post".b), (":path".b, "/a?b=1".b), (":authority".b, "x".b), ("x-k".b, "1".b)])).query = "b=1".b := by
  refine ⟨_, _, rfl, ?_⟩
  decide

end H2

end HC.Props.C01
